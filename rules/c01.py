"""C01 simplex tree = abstract complex: representation-invariant clauses decided statically (DESIGN 4/C01).

  R1 registration   every creation of nodes in a Siblings' member map is followed on every path by
                    update_simplex_tree_after_node_insertion (for-all loops collapsed)
  R2 dim-on-remove  every path that destroys nodes / Siblings updates dimension_ or dimension_to_be_lowered_
                    (directly or through a callee that always does), or is guarded by "another member remains"
  R3 dim-on-insert  every node creation is followed, in the function or in every in-class caller chain, by a
                    possible update of dimension_ ; guarded raises have the form  new > dimension_
  R4 leaf rule      every `delete <Siblings*>` is paired on its path with assign_children(...) re-pointing the
                    parent, every `new Siblings` is handed to assign_children / recursion on the same path
"""
import json
import re
import os

from gsa import facts, ir, paths, summary
from gsa.facts import Unit, rel, AnalysisBroken
from gsa.report import Check
from rules import c09

TABLE = json.load(open(os.path.join(facts.VERIF, 'tables', 'c01.json')))
UNITS = [Unit('st_pat', 'simplex_tree_pat.cpp', ['src/Simplex_tree/'], no_inst=True)]
CONTROL_UNITS = [Unit('control', 'positive_controls.cpp', [os.path.join(facts.VERIF, 'drivers', 'positive_controls.cpp')],
                      no_inst=True)]

CREATE_CALLS = ('emplace', 'try_emplace', 'emplace_hint', 'insert')
REG = 'update_simplex_tree_after_node_insertion'


def recv_text(n):
    r = ir.call_receiver(n)
    return ir.show(r) if r is not None else ''


def is_members_text(t, aliases):
    if 'members_' in t or 'members()' in t:
        return True
    return t in aliases


def member_aliases(fn):
    """locals bound by reference to some X->members() (e.g. `auto&& list = sib->members();`)."""
    al = set()
    for x in ir.walk(fn.get('body')):
        if x.get('k') == 'VarDecl' and x.get('init') is not None:
            t = ir.show(x['init'])
            if t.endswith('members()') or t.endswith('members_'):
                al.add(x.get('n'))
    return al


def make_classify(fn, must_dim=(), helpers=()):
    aliases = member_aliases(fn)
    removeif_vars = set()
    for x in ir.walk(fn.get('body')):
        if x.get('k') in ('BinaryOperator', 'CXXOperatorCallExpr') and x.get('op') == '=':
            c = x.get('c') or []
            rhs = c[-1] if c else None
            if rhs is not None and ir.contains(rhs, lambda y: ir.is_call(y) and ir.call_name(y) == 'remove_if'):
                lhs = ir.skipcasts(c[0] if x['k'] == 'BinaryOperator' else c[1])
                if lhs is not None and lhs.get('n'):
                    removeif_vars.add(lhs['n'])

    def classify(x):
        ev = []
        k = x.get('k')
        if ir.is_call(x):
            n = ir.call_name(x)
            rt = recv_text(x)
            if n in CREATE_CALLS and is_members_text(rt, aliases):
                ev.append('CREATE')
            elif n == REG:
                ev.append('REG')
            elif n == 'erase':
                r = ir.call_receiver(x)
                rtype = (r or {}).get('t', '') if r is not None else ''
                args = ir.call_args(x)
                if is_members_text(rt, aliases) or 'Siblings' in rtype:
                    if len(args) == 2 and ir.show(args[0]) in removeif_vars:
                        ev.append('RANGE_ERASE')
                    else:
                        ev.append('DESTROY')
            elif n == 'clear' and is_members_text(rt, aliases):
                ev.append('DESTROY')
            elif n == 'remove_if':
                ev.append('REMOVE_IF')
            elif n == 'assign_children':
                ev.append('ASSIGN_CHILDREN')
            if ir.is_this_call(x) and n in helpers:
                ev.append('DESTROY')
            if ir.is_this_call(x) and n in must_dim:
                ev.append('DIM')
        if k == 'CXXDeleteExpr':
            c = x.get('c') or []
            t = (ir.skipcasts(c[0]) or {}).get('t', '') if c else ''
            if 'Siblings' in t or not t:
                ev += ['DESTROY', 'DELETE_SIB']
        if k == 'CXXNewExpr' and 'Siblings' in (x.get('alloc') or ''):
            nargs = len(_new_args(x))
            ev.append('NEW_SIB')
            if nargs >= 3:
                ev.append('CREATE')
        t = ir.write_target(x)
        if t is not None:
            f = ir.this_field(t)
            if f in ('dimension_', 'dimension_to_be_lowered_'):
                ev.append('DIM')
        return ev
    return classify


def _new_args(x):
    c = x.get('c') or []
    out = []
    for a in c:
        if a.get('k') in ('ParenListExpr', 'CXXUnresolvedConstructExpr', 'CXXConstructExpr', 'InitListExpr'):
            out += a.get('c') or []
        else:
            out.append(a)
    return out


def simplex_tree_functions(F):
    cls = [c for c in F.classes if c['name'] == 'Simplex_tree' and c['file'].endswith('Simplex_tree.h')]
    if not cls:
        raise AnalysisBroken('class Simplex_tree not found')
    fns = [f for f in F.functions if f.get('clsname') == 'Simplex_tree' and f['file'].endswith('Simplex_tree.h')
           and f.get('cls', '').endswith('Simplex_tree')]
    return cls[0], fns


def run(tier, replay=None):
    chk = Check('C01', tier,
                'Static decision of representation-invariant clauses of the simplex tree on the template pattern of '
                'Simplex_tree (all if-constexpr arms, hence all option sets): label-list registration after every '
                'node creation, dimension bookkeeping on every destroying / creating path, leaf convention when a '
                'Siblings is deleted or created. Decides these necessary conditions of the read interfaces '
                '(cofaces via label lists, dimension(), has_children), not the content of the tree.',
                'custom clang AST extraction + structured path rules with class-local effect summaries (E2/E2g)')
    F = facts.extract(UNITS)
    cls, fns = simplex_tree_functions(F)
    chk.count('functions of Simplex_tree', len(fns))
    G = summary.ClassGraph(fns)
    base_cl = {id(f): make_classify(f) for f in fns}

    # must-DIM summary
    def any_classify(x):
        return []
    must_dim = set()
    for _ in range(4):
        grew = False
        for name, fs in G.by_name.items():
            if name in must_dim:
                continue
            ok = True
            for f in fs:
                cl = make_classify(f, must_dim=must_dim)
                try:
                    ps = paths.enumerate_paths(f, lambda x, cl=cl: [e for e in cl(x) if e == 'DIM'],
                                               loop_mode='01', keep_conds=False, cap=4000)
                except paths.TooManyPaths:
                    ok = False
                    break
                if not ps or any(p.end != 'throw' and 'DIM' not in p.tags() for p in ps):
                    ok = False
                    break
            if ok:
                must_dim.add(name)
                grew = True
        if not grew:
            break
    chk.count('functions that always update the dimension fields', len(must_dim))

    run_r1(chk, fns, G)

    # ---- R2 dimension on removal
    run_r2(chk, fns, G, must_dim)

    # ---- R3 dimension on insertion
    access = {(m['n'], m['l']): m.get('access', 0) for m in cls['methods']}
    run_r3(chk, fns, G, must_dim, access)

    run_r3b(chk, fns, G)

    # ---- R4 leaf convention
    run_r4(chk, fns)

    run_r6(chk, fns)
    run_r7(chk, fns)
    run_r8(chk, fns)
    run_r9(chk, fns)
    run_r10(chk, fns)
    run_r15(chk, F.functions)
    run_r15(chk, facts.extract(CONTROL_UNITS).functions, control=True)
    run_r16(chk, F.functions)
    run_r17(chk, F.functions)
    run_r11(chk, fns)
    run_r12(chk, fns, G, access)
    run_r13(chk, fns)

    # ---- R5 descent guard
    run_r5(chk, [f for f in F.functions if f['inst'] in (0, 2)])

    _by = {}
    for _f in F.functions:
        if _f.get('inst') in (0, 2) and _f.get('body') is not None and _f['file'].startswith(facts.REPO):
            _by.setdefault(_f.get('cls') or _f.get('clsname') or '-', []).append(_f)
    c09.run_assert_purity(chk, F, by=_by, min_count=30)
    chk.assumptions += ['clang 14 parser/Sema', 'class-local call resolution by name (overloads merged)',
                        'tables/c01.json exemptions', 'throwing paths carry no obligation']
    return chk


def create_binders(f, cl):
    """CREATE call node id -> name of the local the call's result is bound to (`auto ins = X.try_emplace(...)`)."""
    out = {}
    for x in ir.walk(f.get('body')):
        if x.get('k') == 'VarDecl' and x.get('init') is not None:
            for y in ir.walk(x['init']):
                if 'CREATE' in cl(y):
                    out[id(y)] = x.get('n')
        elif x.get('k') in ('BinaryOperator', 'CXXOperatorCallExpr') and x.get('op') == '=':
            c = x.get('c') or []
            lhs = ir.skipcasts(c[0] if x['k'] == 'BinaryOperator' else c[1]) if c else None
            rhs = c[-1] if c else None
            if lhs is not None and lhs.get('k') == 'DeclRefExpr' and rhs is not None:
                for y in ir.walk(rhs):
                    if 'CREATE' in cl(y):
                        out[id(y)] = lhs.get('n')
    return out


def _created_nothing(t, pol, node):
    """the decision `<container>.empty()` taken as true after an insertion into that container: the insertion (of a
    range) created nothing on this path"""
    while t.startswith('!'):
        t, pol = t[1:].strip(), not pol
        if t.startswith('(') and t.endswith(')'):
            t = t[1:-1]
    if not pol or not t.endswith('.empty()') or not ir.is_call(node):
        return False
    r = ir.call_receiver(node)
    return r is not None and ir.show(r) == t[:-len('.empty()')]


def run_r1(chk, fns, G, only=None, min_count=None):
    """R1: every creation of nodes is followed on every path by their registration in the label lists"""
    # ---- R1 registration
    def reg_classify(f, must_reg):
        cl = make_classify(f)

        def c2(x):
            ev = [e for e in cl(x) if e in ('CREATE', 'REG')]
            if ir.is_call(x) and ir.is_this_call(x) and ir.call_name(x) in must_reg and 'REG' not in ev:
                ev.append('REG')
            return ev
        return c2
    # functions that register on every path (loop-collapsed): calling them after a creation registers the nodes
    must_reg = set()
    for _ in range(3):
        grew = False
        for name, fs in G.by_name.items():
            if name in must_reg or name == REG:
                continue
            ok = True
            for f in fs:
                c2 = reg_classify(f, must_reg)
                ps = paths.enumerate_paths(f, lambda x, c2=c2: [e for e in c2(x) if e == 'REG'], loop_mode='1',
                                           keep_conds=False, cap=4000)
                if not ps or any(p.end != 'throw' and 'REG' not in p.tags() for p in ps):
                    ok = False
                    break
            if ok:
                must_reg.add(name)
                grew = True
        if not grew:
            break
    chk.count('functions that always register the members they are given', len(must_reg))

    creators = []
    for f in fns:
        if only is not None and f['name'] not in only:
            continue
        cl = make_classify(f)
        if not ir.contains(f.get('body'), lambda x: 'CREATE' in cl(x)):
            continue
        creators.append(f['name'])
        where = '%s:%d' % (rel(f['file']), f['line'])
        c2 = reg_classify(f, must_reg - {f['name']} | ({f['name']} if f['name'] in must_reg else set()))
        ps = paths.enumerate_paths(f, c2, loop_mode='1', keep_conds=True)
        binders = create_binders(f, cl)
        bad = None
        n_paths = 0
        for p in ps:
            if p.end == 'throw':
                continue
            if 'CREATE' not in p.tags():
                continue
            # registration is a no-op unless Options::link_nodes_by_label: such arms carry no obligation
            if any(cx and not pol and 'link_nodes_by_label' in ir.show(c) and not ir.show(c).startswith('!')
                   for c, pol, cx in p.conds if not isinstance(c, tuple)):
                continue
            n_paths += 1
            pend = []
            for tag, node in p.events:
                if tag == 'CREATE':
                    pend.append(node)
                elif tag == 'REG':
                    pend = []
                elif tag == '?':
                    c, pol, _ = node
                    if isinstance(c, tuple):
                        continue
                    t = ir.show(c)
                    pend = [n for n in pend if not _created_nothing(t, pol, n)]
                    # `if (ins.second)` false: the try_emplace bound to `ins` created nothing
                    if not pol:
                        pend = [n for n in pend if binders.get(id(n)) is None or t != binders[id(n)] + '.second']
                    # `if (!hook.is_linked()) register` false: the node is already registered
                    if not pol and t.startswith('!') and t.endswith('is_linked()'):
                        pend = []
            if pend:
                bad = (p, pend[-1])
                break
        chk.ob('R1-registration', '%s: node creation -> %s' % (f['name'], REG), where, bad is None,
               '' if bad is None else 'a path creates nodes at line %s and never registers them in the label lists'
               % bad[1].get('l'), key='R1|%s' % f['name'])
        chk.count('R1 creating paths', n_paths)
    chk.expect_count('R1', 'node-creating functions', len(set(creators)),
                     TABLE['creators_min'] if min_count is None else min_count)
    if only is None:
        chk.count('R1 creators confirmed by hand that still create nodes',
                  sum(1 for c in TABLE['creators_expected'] if c in creators))



def run_r2(chk, fns, G, must_dim):
    from gsa import flags
    helpers = set()          # functions whose destroying paths need not update the dimension themselves
    cond_helpers = set()     # helpers that return true on every destroying path
    results = {}

    def analyse(f):
        cl = make_classify(f, must_dim=must_dim - {f['name']},
                           helpers=helpers - {f['name']} - set(TABLE['destroy_exempt_functions']))
        c3 = flags.with_flags(lambda x: [e for e in cl(x) if e in ('DESTROY', 'DIM')])
        if not ir.contains(f.get('body'), lambda x: 'DESTROY' in cl(x)):
            return None
        ps = paths.enumerate_paths(f, c3, loop_mode='1', keep_conds=True)
        bad = None
        npaths = 0
        returns_true = True
        for p in ps:
            if p.end == 'throw':
                continue
            ok, surv, env = flags.walk(p, {'DESTROY'}, conditional_calls=cond_helpers)
            if not ok or not surv:
                continue
            npaths += 1
            # does the function report the destruction through its return value?
            rv = flags.return_value(p, env)
            if rv != 'T':
                returns_true = False
            if 'DIM' in p.tags():
                continue
            if guarded_by_size(p):
                continue
            if bad is None:
                bad = (p, surv)
        return bad, npaths, returns_true

    for _round in range(4):
        changed = False
        for f in fns:
            if f['kind'] == 'dtor' or f['name'] in TABLE['destroy_exempt_functions']:
                continue
            r = analyse(f)
            if r is None:
                continue
            results[id(f)] = (f, r)
            bad, npaths, rt = r
            callers = G.callers.get(f['name'], set()) - {f['name']}
            if bad is not None and callers and f['name'] not in helpers:
                helpers.add(f['name'])
                changed = True
            if rt and f.get('ret') == 'bool' and f['name'] in helpers and f['name'] not in cond_helpers:
                cond_helpers.add(f['name'])
                changed = True
        if not changed:
            break

    n = 0
    for f, (bad, npaths, rt) in results.values():
        where = '%s:%d' % (rel(f['file']), f['line'])
        n += 1
        chk.count('R2 destroying paths', npaths)
        if f['name'] in helpers:
            callers = sorted(G.callers.get(f['name'], set()) - {f['name']})
            chk.ob('R2-dim-on-remove', '%s: helper, obligation carried by callers %s' % (f['name'], callers), where,
                   True, 'destroying paths without a dimension update are covered at the call sites%s'
                   % (' (returns true whenever it destroyed)' if f['name'] in cond_helpers else ''),
                   key='R2|%s' % f['name'], nontrivial=False)
            continue
        detail = ''
        if bad is not None:
            p, surv = bad
            detail = ('a path destroys nodes (line %s) without updating dimension_/dimension_to_be_lowered_ and '
                      'without a guard implying that another member remains; decisions on the path: %s'
                      % ([e[1].get('l') for e in surv],
                         '; '.join(('' if pol else '!') + ir.show(c)[:70] for c, pol, _ in p.conds
                                   if not isinstance(c, tuple) and c.get('k') not in
                                   ('ForStmt', 'WhileStmt', 'CXXForRangeStmt', 'DoStmt'))))
        chk.ob('R2-dim-on-remove', '%s: destroy -> dimension update' % f['name'], where, bad is None, detail,
               key='R2|%s' % f['name'])
        for lam in predicate_lambdas(f):
            cl = make_classify(f, must_dim=must_dim)
            pseudo = {'body': lam.get('body'), 'name': f['name'] + '::<lambda>', 'file': f['file']}
            lps = paths.enumerate_paths(pseudo, lambda x, cl=cl: [e for e in cl(x) if e == 'DIM'],
                                        loop_mode='1', keep_conds=False)
            badl = [p for p in lps if p.end == 'return' and
                    (ir.skipcasts(p.value) or {}).get('v') == 'true' and 'DIM' not in p.tags()]
            chk.ob('R2-dim-on-remove', '%s: remove_if predicate returning true -> dimension update' % f['name'],
                   '%s:%s' % (rel(f['file']), lam.get('l')), not badl,
                   '' if not badl else 'the removal predicate returns true on a path that does not update '
                   'dimension_to_be_lowered_', key='R2|%s|predicate' % f['name'])
    chk.count('R2 helpers (obligation moved to callers)', len(helpers))
    chk.expect_count('R2', 'node-destroying functions', n, 6)


def predicate_lambdas(f):
    en = paths.Enumerator(lambda x: [])
    for x in ir.walk(f.get('body')):
        if x.get('k') == 'DeclStmt':
            en._bind_lambdas(x)
    out = []
    for x in ir.walk(f.get('body')):
        if ir.is_call(x) and ir.call_name(x) == 'remove_if':
            for a in ir.call_args(x):
                a = ir.skipcasts(a)
                if a is not None and a.get('k') == 'DeclRefExpr' and a.get('id') in en.lambdas:
                    out.append(en.lambdas[a['id']])
                elif a is not None and a.get('k') == 'LambdaExpr':
                    out.append(a)
    return out


def disjuncts(c):
    c = ir.skipcasts(c)
    if c is not None and c.get('k') == 'BinaryOperator' and c.get('op') == '||':
        return disjuncts(c['c'][0]) + disjuncts(c['c'][1])
    return [c]


def is_size_gt1(c):
    c = ir.skipcasts(c)
    if c is None or c.get('k') not in ('BinaryOperator', 'CXXOperatorCallExpr'):
        return False
    op = c.get('op')
    ch = c.get('c') or []
    if c['k'] == 'CXXOperatorCallExpr':
        ch = ch[1:]
    if len(ch) != 2:
        return False
    a, b = ir.show(ch[0]), ir.show(ch[1])
    if op == '>' and a.endswith('size()') and b in ('1',):
        return True
    if op == '<' and b.endswith('size()') and a in ('1',):
        return True
    if op == '>=' and a.endswith('size()') and b in ('2',):
        return True
    return False


def is_nonempty_after(c, pol):
    """decision meaning "the container still has a member": X.empty() false, !X.empty() true, X.size()==0 false"""
    t = ir.show(c)
    neg = False
    while t.startswith('!'):
        t, neg = t[1:], not neg
    t = t.strip('()')
    if t.endswith('empty'):
        t += '()'
    if t.endswith('.empty()') or t.endswith('->empty()'):
        return pol == neg
    return False


def guarded_by_size(p):
    for c, pol, _ in p.conds:
        if isinstance(c, tuple) or c.get('k') in ('ForStmt', 'WhileStmt', 'CXXForRangeStmt', 'DoStmt'):
            continue
        if pol and all(is_size_gt1(d) for d in disjuncts(c)):
            return True
        if is_nonempty_after(c, pol):
            return True
    return False


def run_r3(chk, fns, G, must_dim, access):
    """Every CREATE is possibly followed by a DIM in the same function, or in every in-class caller (depth 4).
    Guarded raises of dimension_ must compare in the raising direction."""
    def direct(f):
        cl = make_classify(f)
        s = set()
        for x in ir.walk(f.get('body')):
            for e in cl(x):
                if e in ('CREATE', 'DIM'):
                    s.add(e)
        return s
    may = G.may(direct)

    def covered_in(f, trigger_names):
        """exists a non-throwing path where a trigger (CREATE or call to a creating callee) is followed or
        preceded by DIM (direct or callee that may DIM)"""
        cl = make_classify(f)

        def c2(x):
            ev = [e for e in cl(x) if e in ('CREATE', 'DIM')]
            if ir.is_call(x) and ir.is_this_call(x):
                n = ir.call_name(x)
                if n in trigger_names and 'CREATE' not in ev:
                    ev.append('CREATE')
                if n != f['name'] and 'DIM' in may.get(n, ()) and 'DIM' not in ev:
                    ev.append('DIM')
            return ev
        ps = paths.enumerate_paths(f, c2, loop_mode='1', keep_conds=False, cap=50000)
        has_create = False
        for p in ps:
            tags = p.tags()
            if 'CREATE' in tags:
                has_create = True
                if 'DIM' in tags:
                    return True, True
        return False, has_create

    memo = {}

    def covered(name, depth, stack):
        key = name
        if key in memo:
            return memo[key]
        if depth > 4 or name in stack:
            return (False, 'call chain too deep: ' + '>'.join(stack + [name]))
        fs = G.by_name[name]
        creating = {n for n in G.by_name if 'CREATE' in may.get(n, ())}
        ok_all = True
        why = ''
        for f in fs:
            ok, has = covered_in(f, creating - {name})
            if ok or not has:
                continue
            callers = sorted(G.callers.get(name, set()) - {name})
            if access.get((f['name'], f['line']), 0) in (0, 1):
                ok_all, why = False, ('%s is callable by users (public/protected), creates nodes and no path '
                                      'through the creation can update dimension_' % name)
                break
            if not callers:
                ok_all, why = False, '%s creates nodes and neither it nor any in-class caller can update dimension_' % name
                break
            for c in callers:
                r = covered(c, depth + 1, stack + [name])
                if not r[0]:
                    ok_all, why = False, 'via caller %s: %s' % (c, r[1])
                    break
            if not ok_all:
                break
        memo[key] = (ok_all, why)
        return memo[key]

    n = 0
    for name in sorted(G.by_name):
        f0 = G.by_name[name][0]
        if 'CREATE' not in direct(f0) and not any('CREATE' in direct(f) for f in G.by_name[name]):
            continue
        if name in TABLE['dim_insert_exempt']:
            continue
        n += 1
        ok, why = covered(name, 0, [])
        chk.ob('R3-dim-on-insert', '%s: node creation -> dimension_ may be raised (self or every caller chain)' % name,
               '%s:%d' % (rel(f0['file']), f0['line']), ok, why, key='R3|%s' % name)
    chk.expect_count('R3', 'creating functions', n, 8)



def run_r3b(chk, fns, G, only=None, min_count=4):
    """R3b: in a function that maintains dimension_ itself, every path that created nodes considers the bound: it writes dimension_ / dimension_to_be_lowered_, or evaluates a guard comparing with dimension_
    (the `if (dim > dimension_) dimension_ = dim;` idiom), or calls a callee that does. A path that creates nodes and
    leaves without looking at dimension_ keeps a bound that may be too small."""
    def direct_dim(f):
        return ir.contains(f.get('body'), lambda x: ir.write_target(x) is not None and
                           ir.this_field(ir.write_target(x)) in ('dimension_', 'dimension_to_be_lowered_'))
    dimmers = {f['name'] for f in fns if direct_dim(f)}
    n = 0
    for f in fns:
        cl = make_classify(f)
        if not direct_dim(f) or not ir.contains(f.get('body'), lambda x: 'CREATE' in cl(x)):
            continue
        if only is not None and f['name'] not in only:
            continue
        n += 1
        binders = create_binders(f, cl)
        bound = {b + '.second' for b in binders.values() if b}

        def c2(x, cl=cl, f=f, bound=bound):
            if x.get('k') == 'IfStmt':
                t = ir.show(x.get('cond'))
                if 'dimension_' in t or t.lstrip('!') in bound:
                    return ['$decision']
                return []
            ev = [e for e in cl(x) if e in ('CREATE', 'DIM')]
            if ir.is_call(x) and ir.is_this_call(x) and ir.call_name(x) in dimmers and ir.call_name(x) != f['name']:
                ev.append('DIM')
            return ev
        ps = paths.enumerate_paths(f, c2, loop_mode='1', keep_conds=True, cap=50000)
        bad = None
        for p in ps:
            if p.end == 'throw':
                continue
            pend = []
            seen_create = False
            ok = False
            for tag, node in p.events:
                if tag == 'CREATE':
                    pend.append(node)
                    seen_create = True
                elif tag == 'DIM':
                    ok = True       # before or after: the bound is set for what this call creates
                elif tag == '?':
                    c, pol, _ = node
                    if isinstance(c, tuple):
                        continue
                    t = ir.show(c)
                    if 'dimension_' in t and c.get('k') not in ('ForStmt', 'WhileStmt'):
                        ok = True
                    pend = [x for x in pend if not _created_nothing(t, pol, x)]
                    if not pol:
                        pend = [x for x in pend if binders.get(id(x)) is None or t != binders[id(x)] + '.second']
            if pend and not ok and bad is None:
                bad = (p, pend[-1])
        chk.ob('R3b-dim-after-create', '%s reconsiders dimension_ after creating nodes on every path' % f['name'],
               '%s:%d' % (rel(f['file']), f['line']), bad is None,
               '' if bad is None else 'a path creates nodes (line %s) and never writes or tests '
               'dimension_ [decisions: %s]' % (bad[1].get('l'), '; '.join(
                   ('' if pol else '!') + ir.show(c)[:50] for c, pol, _ in bad[0].conds
                   if not isinstance(c, tuple) and c.get('k') not in ('ForStmt', 'WhileStmt', 'CXXForRangeStmt'))[:200]),
               key='R3b|%s' % f['name'])
    chk.expect_count('R3b', 'functions creating nodes and maintaining dimension_', n, min_count)


def run_r6(chk, fns):
    """R6: a per-label node list is only dropped when it is empty: erasing an entry of nodes_label_to_list_ destroys an
    auto-unlink intrusive list, which silently unlinks every node still on it (the cofaces of that label are no longer
    found). Every erase of an entry is dominated by an emptiness test of that list; whole-container clear() is allowed
    only where all nodes are deleted too."""
    from gsa import predeval
    n = 0
    for f in fns:
        erases = [x for x in ir.walk(f.get('body')) if ir.is_call(x) and ir.call_name(x) == 'erase' and
                  ir.call_receiver(x) is not None and ir.show(ir.call_receiver(x)) == 'nodes_label_to_list_']
        if not erases:
            continue

        def cl(x, erases=erases):
            return ['ERASE'] if any(x is e for e in erases) else []
        ps = paths.enumerate_paths(f, cl, loop_mode='1', keep_conds=True)
        for e in erases:
            n += 1
            bad = None
            for p in ps:
                guarded = False
                for tag, node in p.events:
                    if tag == 'ERASE' and node is e:
                        if not guarded and bad is None:
                            bad = p
                        break
                    if tag == '?' and not isinstance(node[0], tuple):
                        t = ir.show(node[0])
                        if ('nodes_label_to_list_' in t or 'list' in t) and 'empty()' in t and node[1] and \
                                not t.startswith('!'):
                            guarded = True
            chk.ob('R6-label-list', '%s erases a per-label list only after testing that it is empty' % f['name'],
                   '%s:%s' % (rel(f['file']), e.get('l')), bad is None,
                   '' if bad is None else 'the entry is erased on a path that never tested the list for emptiness: '
                   'the other nodes with this label are unlinked with it', key='R6|%s|label-list' % f['name'])
    chk.expect_count('R6', 'erasures of per-label lists', n, 1)


def run_r7(chk, fns):
    """R7: equality is decided node by node by rec_equal: on every valuation of (left node has children, right node has
    children, children equal) the walk continues iff both agree and, when they have children, the children are equal.
    (Evaluated on all 8 valuations; label and value comparisons are set to equal.)"""
    from gsa import predeval
    fs = [f for f in fns if f['name'] == 'rec_equal']
    if len(fs) != 1:
        raise AnalysisBroken('C01: rec_equal not found')
    f = fs[0]
    loops = [x for x in ir.walk(f['body']) if x.get('k') == 'ForStmt']
    if len(loops) != 1:
        raise AnalysisBroken('C01: rec_equal: the loop over the two member lists was not found')
    body = loops[0].get('body')
    p1, p2 = None, None
    for x in ir.walk(loops[0]):
        if ir.is_call(x) and ir.call_name(x) == 'has_children':
            a = ir.show(ir.call_args(x)[0])
            if p1 is None:
                p1 = a
            elif a != p1 and p2 is None:
                p2 = a
    if p1 is None or p2 is None:
        raise AnalysisBroken('C01: rec_equal: the two handles were not identified')
    bad = None
    n = 0
    for h1 in (False, True):
        for h2 in (False, True):
            for rec in (False, True):
                n += 1

                def oracle(e, env, h1=h1, h2=h2, rec=rec):
                    if ir.is_call(e):
                        nm = ir.call_name(e)
                        if nm == 'has_children':
                            a = ir.show(ir.call_args(e)[0])
                            return h1 if a == p1 else h2
                        if nm == 'rec_equal':
                            return rec
                    if e.get('k') in ('BinaryOperator', 'CXXOperatorCallExpr') and e.get('op') in ('!=', '=='):
                        t = ir.show(e)
                        if 'has_children' in t:
                            return None
                        # labels / filtration values of the two nodes: equal in this enumeration
                        return e['op'] == '=='
                    return None
                ev = predeval.Evaluator(oracle)
                try:
                    try:
                        ev.stmt(body)
                        cont = True
                    except predeval.Return as r:
                        cont = False if r.v is False else None
                except predeval.Unknown as ex:
                    raise AnalysisBroken('C01: rec_equal has a shape the evaluator does not know: %s' % ex)
                exp = (h1 == h2) and (not h1 or rec)
                if cont is not exp and bad is None:
                    bad = (h1, h2, rec, cont)
    chk.count('R7 valuations', n)
    chk.ob('R7-equality', 'rec_equal treats the two trees symmetrically on all %d valuations' % n,
           '%s:%d' % (rel(f['file']), f['line']), bad is None,
           '' if bad is None else 'left node has children: %s, right node has children: %s, children equal: %s -> the '
           'walk %s' % (bad[0], bad[1], bad[2], 'continues' if bad[3] else 'returns false'), key='R7|rec_equal')


# ---------------------------------------------------------------- R8 insertion-result protocol

def _insert_node_protocol(f, eta):
    """Abstract results of insert_node_<eta>: {(created, lowered): (first is null, second)} obtained by evaluating its
    body on every valuation of (try_emplace inserted, unify_lifetimes changed the value); store_filtration on."""
    from gsa import predeval
    tps = f.get('tparams') or []
    bind = dict(zip(tps, eta))
    out = {}
    for created in (True, False):
        for lowered in ((False,) if created else (True, False)):
            st = {'null': False}

            def oracle(e, env, created=created, lowered=lowered, st=st):
                k = e.get('k')
                if k == 'VarDecl':
                    return 'pair' if e.get('n') == 'ins' else 'opaque'
                if k == 'DeclRefExpr':
                    if e.get('n') in bind and bind[e['n']] in ('true', 'false'):
                        return bind[e['n']] == 'true'
                    if e.get('n') == 'ins':
                        return ('pair', st['null'], created)
                if k in ir.MEMBER_KINDS:
                    if e.get('n') == 'store_filtration':
                        return True
                    if e.get('n') == 'second' and ir.show(e) == 'ins.second':
                        return created
                if ir.is_call(e):
                    nm = ir.call_name(e)
                    if nm == 'unify_lifetimes':
                        st['unify'] = True
                        return lowered
                    if nm == 'has_children':
                        return True
                    if nm in ('assign_children', REG):
                        return True
                if k == 'BinaryOperator' and e.get('op') == '=' and ir.show((e.get('c') or [None])[0]) == 'ins.first':
                    st['null'] = True
                    return True
                return None
            ev = predeval.Evaluator(oracle)
            try:
                r = ev.run(f['body'])
            except predeval.Unknown as ex:
                raise AnalysisBroken('C01: insert_node_ has a shape the evaluator does not know: %s' % ex)
            if not (isinstance(r, tuple) and r[0] == 'pair'):
                raise AnalysisBroken('C01: insert_node_ does not return its try_emplace result')
            if not created and lowered and not st.get('unify'):
                continue    # this instantiation never lowers a value: the state does not exist
            out[(created, lowered)] = (r[1], r[2])
    return out


def run_r8(chk, fns):
    """R8: the result of an inserting call is a three-state answer - created (handle, true), existing and lowered
    (handle, false), existing and unchanged (null, false). A function that runs a call carrying the filtration value
    (propagation to further faces) in some of these states and not in others must run it in every state in which
    the tree or a value changed; skipping is only sound when nothing changed (by monotonicity every face then already
    has a value that is low enough). Each inserting call's states are derived from insert_node_ itself on all
    valuations of (inserted, value lowered), for the template arguments written at the call."""
    from gsa import predeval
    node = [f for f in fns if f['name'] == 'insert_node_']
    if len(node) != 1:
        raise AnalysisBroken('C01: insert_node_ not found')
    node = node[0]
    proto_cache = {}

    def proto(eta):
        key = tuple(eta)
        if key not in proto_cache:
            proto_cache[key] = _insert_node_protocol(node, eta)
        return proto_cache[key]

    def direct_protocol(call):
        ce = ir.callee_expr(call)
        if ir.call_name(call) == 'insert_node_' and ce is not None and ce.get('eta'):
            return proto(ce['eta'])
        return None

    # functions whose every returned value is an inserting call's result (or their own recursive result)
    returns_proto = {}
    for _ in range(3):
        for f in fns:
            if f['name'] in returns_proto or f['name'] == 'insert_node_':
                continue
            rets = [x for x in ir.walk(f.get('body'), False) if x.get('k') == 'ReturnStmt' and x.get('value')]
            if not rets:
                continue
            binders = {}
            for x in ir.walk(f.get('body'), False):
                if x.get('k') == 'VarDecl' and x.get('init') is not None:
                    i = ir.skipcasts(x['init'])
                    if ir.is_call(i):
                        binders.setdefault(x['n'], []).append(i)
            protos = []
            ok = True
            for r in rets:
                v = ir.skipcasts(r['value'])
                cands = [v] if ir.is_call(v) else binders.get(v.get('n'), []) if v.get('k') == 'DeclRefExpr' else []
                if not cands:
                    ok = False
                    break
                for c in cands:
                    pr = direct_protocol(c)
                    if pr is None and ir.call_name(c) == f['name']:
                        continue
                    if pr is None and ir.call_name(c) in returns_proto:
                        pr = returns_proto[ir.call_name(c)]
                    if pr is None:
                        ok = False
                        break
                    protos.append(pr)
                if not ok:
                    break
            if ok and protos and all(p_ == protos[0] for p_ in protos):
                returns_proto[f['name']] = protos[0]

    def call_protocol(call):
        pr = direct_protocol(call)
        if pr is None and ir.call_name(call) in returns_proto:
            pr = returns_proto[ir.call_name(call)]
        return pr

    n_sites = n_states = 0
    for f in fns:
        if f['name'] == 'insert_node_' or f.get('body') is None:
            continue
        fparams = {p_['n'] for p_ in f.get('params', []) if 'Filtration_value' in (p_.get('t') or '')}
        # binding sites: V = <inserting call> (declaration or assignment)
        sites = []
        for x in ir.walk(f['body'], False):
            if x.get('k') == 'VarDecl' and x.get('init') is not None and ir.is_call(ir.skipcasts(x['init'])):
                pr = call_protocol(ir.skipcasts(x['init']))
                if pr:
                    sites.append((x['n'], id(x), x.get('l'), pr))
            if x.get('k') == 'BinaryOperator' and x.get('op') == '=':
                l, r = (x.get('c') or [None, None])[:2]
                l, r = ir.skipcasts(l), ir.skipcasts(r)
                if l is not None and l.get('k') == 'DeclRefExpr' and ir.is_call(r):
                    pr = call_protocol(r)
                    if pr:
                        sites.append((l['n'], id(x), x.get('l'), pr))
        if not sites:
            continue
        names = {s_[0] for s_ in sites}
        decided = [x for x in ir.walk(f['body'], False) if x.get('k') == 'IfStmt' and
                   ir.contains(x.get('cond'), lambda y: y.get('k') in ir.MEMBER_KINDS and y.get('n') in
                               ('first', 'second') and ir.show(y).split('.')[0] in names)]
        if not decided:
            continue
        where = '%s:%d' % (rel(f['file']), f['line'])
        site_ids = {s_[1] for s_ in sites}
        rel_cache = {}

        def relevant(n, site_ids=site_ids, names=names, fparams=fparams, rel_cache=rel_cache):
            """a statement matters if it binds a result, decides on one, carries the filtration value on, or returns"""
            if id(n) not in rel_cache:
                rel_cache[id(n)] = ir.contains(n, lambda y: id(y) in site_ids or y.get('k') == 'ReturnStmt' or (
                    y.get('k') == 'DeclRefExpr' and (y.get('n') in names or y.get('n') in fparams)), False)
            return rel_cache[id(n)]
        for (vname, sid, sline, pr) in sites:
            n_sites += 1
            # evaluate the whole body for each state of this site; the other sites take their first state;
            # conditions that do not look at a result are free and explored both ways
            results = {}
            for state, (isnull, second) in sorted(pr.items()):
                frees = [{}]
                prop_any = None
                done = []
                while frees:
                    val = frees.pop()
                    seen = {'bound': False, 'prop': False}

                    class Need(Exception):
                        def __init__(self, t):
                            self.t = t

                    def is_prop(c):
                        return any(ir.contains(a, lambda y: y.get('k') == 'DeclRefExpr' and y.get('n') in fparams)
                                   for a in ir.call_args(c))

                    cur = {}

                    def oracle(e, env, val=val, seen=seen, cur=cur):
                        k = e.get('k')
                        if k == 'VarDecl':
                            i = ir.skipcasts(e.get('init')) if e.get('init') is not None else None
                            if id(e) == sid:
                                seen['bound'] = True
                                cur[e['n']] = (isnull, second)
                                return 'result'
                            if i is not None and ir.is_call(i):
                                if seen['bound'] and is_prop(i):
                                    seen['prop'] = True
                                p2 = call_protocol(i)
                                if p2:
                                    cur[e['n']] = sorted(p2.values())[0]
                            return 'opaque'
                        if k == 'BinaryOperator' and e.get('op') == '=':
                            l, r = (e.get('c') or [None, None])[:2]
                            l, r = ir.skipcasts(l), ir.skipcasts(r)
                            if id(e) == sid:
                                seen['bound'] = True
                                seen['prop'] = False
                                cur[l['n']] = (isnull, second)
                                return True
                            if l is not None and l.get('k') == 'DeclRefExpr' and ir.is_call(r):
                                p2 = call_protocol(r)
                                if p2:
                                    cur[l['n']] = sorted(p2.values())[0]
                                if seen['bound'] and is_prop(r):
                                    seen['prop'] = True
                            return True
                        if k in ir.MEMBER_KINDS and e.get('n') == 'second':
                            b = ir.show(e).split('.')[0]
                            if b in cur and ir.show(e) == b + '.second':
                                return cur[b][1]
                        if k in ('BinaryOperator', 'CXXOperatorCallExpr') and e.get('op') in ('==', '!='):
                            cs = e.get('c') or []
                            cs = cs[-2:]
                            ts = [ir.show(c) for c in cs]
                            for a, b in ((0, 1), (1, 0)):
                                base = ts[a].split('.')[0]
                                if base in cur and ts[a] == base + '.first' and (
                                        'null_simplex' in ts[b] or ts[b].endswith('()')):
                                    return cur[base][0] == (e['op'] == '==')
                        if ir.is_call(e):
                            if seen['bound'] and is_prop(e):
                                seen['prop'] = True
                            return 'opaque'
                        if k == 'DeclRefExpr' and e.get('n') in cur:
                            return 'result'
                        return None

                    class Ev(predeval.Evaluator):
                        def truth(self, e):
                            try:
                                v = self.expr(e)
                            except predeval.Unknown:
                                v = None
                            if isinstance(v, bool):
                                return v
                            t = ir.show(e)
                            for c in ir.walk(e):
                                if ir.is_call(c) and seen['bound'] and is_prop(c):
                                    seen['prop'] = True
                            if t not in val:
                                raise Need(t)
                            return val[t]

                        def stmt(self, s_):
                            if s_ is None:
                                return
                            k = s_.get('k')
                            if not relevant(s_):
                                return
                            if k in ('ForStmt', 'WhileStmt', 'CXXForRangeStmt', 'DoStmt'):
                                # zero or one iteration (free condition)
                                self.tick()
                                if k == 'ForStmt':
                                    self.stmt(s_.get('init'))
                                t = 'loop@%s' % s_.get('l')
                                if t not in val:
                                    raise Need(t)
                                if val[t]:
                                    self.stmt(s_.get('body'))
                                return
                            if k in ('CompoundStmt', 'DeclStmt', 'IfStmt', 'ReturnStmt', 'NullStmt'):
                                return predeval.Evaluator.stmt(self, s_)
                            try:
                                self.expr(s_)
                            except predeval.Unknown:
                                for c in ir.walk(s_):
                                    if ir.is_call(c) and seen['bound'] and is_prop(c):
                                        seen['prop'] = True
                    ev = Ev(oracle)
                    try:
                        try:
                            ev.run(f['body'])
                        except Need as nd:
                            if len(val) > 14:
                                raise AnalysisBroken('C01 R8: too many free conditions in %s' % f['name'])
                            for b in (True, False):
                                v2 = dict(val)
                                v2[nd.t] = b
                                frees.append(v2)
                            continue
                    except predeval.Unknown as ex:
                        raise AnalysisBroken('C01 R8: %s has a shape the evaluator does not know: %s' % (f['name'], ex))
                    if seen['bound']:
                        n_states += 1
                        done.append(seen['prop'])
                results[state] = done
            # obligation: if propagation depends on the state, it runs in every changed state
            runs = {st_: (all(d) if d else None) for st_, d in results.items()}
            some = {st_: (any(d) if d else None) for st_, d in results.items()}
            depends = any(v for v in some.values()) and any(v is False for v in runs.values())
            bad = [st_ for st_ in runs if (st_[0] or st_[1]) and runs[st_] is False and depends]
            names_ = {(True, False): 'created', (False, True): 'existing, value lowered',
                      (False, False): 'existing, unchanged'}
            chk.ob('R8-insert-result', '%s: propagation after the inserting call bound to `%s` (line %s) runs in '
                   'every state in which something changed' % (f['name'], vname, sline), where, not bad,
                   '' if not bad else 'in state "%s" (result %s) the calls carrying the filtration value are skipped '
                   'while they run in another state: faces of a re-inserted simplex keep a larger value than the '
                   'simplex' % (names_[bad[0]], 'handle, %s' % str(pr[bad[0]][1]).lower()),
                   key='R8|%s|%s' % (f['name'], vname), nontrivial=depends)
    chk.count('R8 result sites', n_sites)
    chk.count('R8 state evaluations', n_states)
    chk.expect_count('R8', 'sites deciding on an inserting call\'s result', n_sites, 2)


def _lin_of(e, syms):
    """integer expression over the named quantities -> absint.Lin (None if it is something else)"""
    from gsa.absint import Lin
    e = ir.skipcasts(e)
    while e is not None and e.get('k') in ('ParenExpr', 'CXXStaticCastExpr', 'CXXFunctionalCastExpr') and e.get('c'):
        e = ir.skipcasts(e['c'][-1])
    if e is None:
        return None
    t = ir.show(e).replace(' ', '')
    for name, pat in syms.items():
        if t == pat or t == 'this->' + pat:
            return Lin.sym(name)
    if e.get('k') == 'IntegerLiteral':
        return Lin(int(e['v']))
    if e.get('k') == 'BinaryOperator' and e.get('op') in ('+', '-'):
        a, b = _lin_of(e['c'][0], syms), _lin_of(e['c'][1], syms)
        if a is None or b is None:
            return None
        return a + b if e['op'] == '+' else a - b
    return None


def _dnf(e, syms):
    """condition -> list of conjunctions, each a list of Lin >= 0 (integers); None if not linear"""
    from gsa.absint import Lin
    e = ir.skipcasts(e)
    while e is not None and e.get('k') == 'ParenExpr' and e.get('c'):
        e = ir.skipcasts(e['c'][0])
    if e is None:
        return None
    if e.get('k') == 'BinaryOperator' and e.get('op') == '||':
        a, b = _dnf(e['c'][0], syms), _dnf(e['c'][1], syms)
        return None if a is None or b is None else a + b
    if e.get('k') == 'BinaryOperator' and e.get('op') == '&&':
        a, b = _dnf(e['c'][0], syms), _dnf(e['c'][1], syms)
        return None if a is None or b is None else [x + y for x in a for y in b]
    if e.get('k') in ('BinaryOperator', 'CXXOperatorCallExpr') and e.get('op') in ('<', '>', '<=', '>=', '=='):
        l, r = _lin_of(e['c'][-2], syms), _lin_of(e['c'][-1], syms)
        if l is None or r is None:
            return None
        op = e['op']
        if op == '>':
            return [[l - r - 1]]
        if op == '>=':
            return [[l - r]]
        if op == '<':
            return [[r - l - 1]]
        if op == '<=':
            return [[r - l]]
        return [[l - r, r - l]]
    return None


def run_r9(chk, fns):
    """R9: cofaces_simplex_range answers "no coface" without looking only when none can exist. With s vertices in the
    simplex, codimension c and D an upper bound of the dimension of the complex, a simplex with s + c vertices exists
    only if s + c <= D + 1 - and for c = 0 the simplex itself is in its star. Every early `return <empty range>` placed
    before the search is guarded by a condition that *implies* s + c > D + 1: decided by exact Fourier-Motzkin on each
    disjunct of the guard together with c >= 0, s >= 1 and the negation of the bound."""
    from gsa.absint import Lin, fm_infeasible
    fs = [f for f in fns if f['name'] == 'cofaces_simplex_range' and f.get('body') is not None]
    if not fs:
        raise AnalysisBroken('C01: cofaces_simplex_range not found')
    n = 0
    for f in fs:
        syms = {'c': 'codimension', 'D': 'dimension_'}
        # the local holding the vertices of the simplex
        for x in ir.walk(f['body']):
            if x.get('k') == 'VarDecl' and x.get('init') is not None and 'rg.begin()' in ir.show(x['init']).replace(
                    ' ', '') and x.get('n') != 'simp':
                syms['s'] = '%s.size()' % x['n']
        if 's' not in syms:
            raise AnalysisBroken('C01: the vertex list of the queried simplex was not found in cofaces_simplex_range')
        for x in ir.walk(f['body']):
            if x.get('k') != 'IfStmt' or x.get('constexpr'):
                continue
            th = x.get('then')
            rets = [y for y in ir.walk(th) if y.get('k') == 'ReturnStmt']
            if not rets or ir.contains(th, lambda y: ir.is_call(y) and ir.call_name(y) == 'rec_coface'):
                continue
            n += 1
            dnf = _dnf(x.get('cond'), syms)
            where = '%s:%s' % (rel(f['file']), x.get('l'))
            if dnf is None:
                raise AnalysisBroken('C01 R9: the early-return guard of cofaces_simplex_range is not linear in '
                                     '(codimension, size, dimension_): %s' % ir.show(x.get('cond'))[:120])
            c_, s_, D_ = Lin.sym('c'), Lin.sym('s'), Lin.sym('D')
            bad = None
            for conj in dnf:
                # satisfiable together with s + c <= D + 1 ?
                cons = list(conj) + [c_, s_ - 1, D_ + 1 - s_ - c_]
                if not fm_infeasible(cons):
                    bad = conj
                    break
            chk.ob('R9-empty-answer', 'cofaces_simplex_range returns an empty range early only when no coface of that '
                   'codimension can exist', where, bad is None,
                   '' if bad is None else 'the guard `%s` also holds when size + codimension <= dimension_ + 1 (for '
                   'instance codimension 0 and a simplex of the top dimension): the star of such a simplex, which '
                   'contains at least the simplex itself, is returned empty' % ir.show(x.get('cond'))[:160],
                   key='R9|cofaces_simplex_range|empty-answer')
    chk.expect_count('R9', 'early empty answers of cofaces_simplex_range', n, 1)


def run_r12(chk, fns, G, access):
    """R12 value-owned: filtration(sh) returns a reference to the value stored in a node, and inserting or removing
    nodes moves the nodes of a flat_map. Every user-callable function that takes a `const Filtration_value&` and can
    create or destroy nodes (itself or through callees) works on a copy: each mention of the parameter is the
    initialiser of a by-value local, or sits in the condition of an early return placed before any call - it is
    never handed on by reference (`st.insert_simplex(s, st.filtration(sh))` would read a moved or freed value)."""
    def direct(f):
        cl = make_classify(f)
        out = set()
        if ir.contains(f.get('body'), lambda x: 'CREATE' in cl(x)):
            out.add('CREATE')
        if ir.contains(f.get('body'), lambda x: bool({'DESTROY', 'RANGE_ERASE', 'REMOVE_IF'} & set(cl(x)))):
            out.add('DESTROY')
        return out
    may = G.may(direct)
    n = 0
    for f in fns:
        if f.get('body') is None or access.get((f['name'], f['line']), 0) != 0:
            continue                          # public entry points: the protected / private helpers are reached through them
        refs = [p_['n'] for p_ in f.get('params', []) if re.match(
            r'const (typename )?(\w+::)*Filtration_value ?&$', (p_.get('t') or '').strip())]
        if not refs or not may.get(f['name']):
            continue
        for pn in refs:
            n += 1
            par = ir.parents(f['body'])
            bad = None
            for x in ir.walk(f['body']):
                if x.get('k') != 'DeclRefExpr' or x.get('n') != pn:
                    continue
                ok = False
                cur = x
                while id(cur) in par:
                    up = par[id(cur)]
                    if up.get('k') == 'VarDecl' and '&' not in (up.get('t') or ''):
                        ok = True                # copied into a by-value local
                        break
                    if up.get('k') == 'IfStmt' and cur is up.get('cond') and ir.contains(
                            up.get('then'), lambda y: y.get('k') == 'ReturnStmt'):
                        ok = True                # tested before anything happens
                        break
                    if up.get('k') in ('CompoundStmt', 'LambdaExpr'):
                        break
                    cur = up
                if not ok:
                    bad = x
                    break
            chk.ob('R12-value-owned', '%s works on a copy of its reference parameter `%s`' % (f['name'], pn),
                   '%s:%d' % (rel(f['file']), f['line']), bad is None, '' if bad is None else
                   'line %s: the reference is used directly (%s); called with filtration(sh) it designates a node that '
                   'the insertion / removal moves or frees' % (bad.get('l'), ir.show(par.get(id(bad), bad))[:70]),
                   key='R12|%s|value-owned|%s' % (f['name'], pn))
    chk.expect_count('R12', 'public structure-changing functions taking a filtration value by reference', n, 4)


def run_r13(chk, fns):
    """R13 dimension from creation: where a function raises `dimension_` to a positive literal, the path has created
    the node that justifies it (insert_graph: the dimension is 1 because an edge was inserted, not because the graph
    says it has edges - num_edges() of a graph adaptor counts the underlying graph); where it sets it to 0, the path
    knows that the tree has a member (not that the graph says it has vertices), and R14: a non-negative value
    computed from the recursion bookkeeping is only stored on a path that knows the tree has a member (a creation, an
    iteration over members, an emptiness test): an empty tree has dimension -1."""
    n13 = n14 = 0
    for f in fns:
        if f.get('body') is None or f['name'] not in ('insert_graph', 'expansion'):
            continue
        cl0 = make_classify(f)

        def cl(x, cl0=cl0):
            ev = [e for e in cl0(x) if e == 'CREATE']
            if ev and ir.is_call(x) and ir.call_name(x) == 'insert' and len(ir.call_args(x)) == 2:
                ev = []     # the insertion of a range: creates nothing when the range is empty
            if ir.is_call(x) and ir.is_this_call(x) and ir.call_name(x) in ('insert_node_', 'siblings_expansion'):
                ev.append('CREATE')
            if x.get('k') == 'BinaryOperator' and x.get('op') == '=' and \
                    ir.show(x['c'][0]).replace('this->', '') == 'dimension_':
                r = ir.skipcasts(x['c'][1])
                if r is not None and r.get('k') == 'IntegerLiteral' and int(r.get('v', 0)) >= 1:
                    ev.append('DIMLIT')
                elif r is not None and r.get('k') == 'IntegerLiteral' and int(r.get('v', 0)) == 0:
                    ev.append('DIMZERO')
                elif r is not None and r.get('k') != 'IntegerLiteral':
                    ev.append('DIMEXPR')
            return ev
        ps = paths.enumerate_paths(f, cl, loop_mode='01', keep_conds=True, cap=40000)
        bad13 = bad14 = None
        s13 = s14 = False
        for p in ps:
            if p.end == 'throw':
                continue
            created = nonempty = False
            for ev in p.events:
                if ev[0] == '?':
                    c, pol = ev[1][0], ev[1][1]
                    if isinstance(c, tuple):
                        continue
                    t = ir.show(c) if c.get('k') not in ('CXXForRangeStmt', 'ForStmt') else ''
                    if c.get('k') in ('CXXForRangeStmt', 'ForStmt') and pol and 'members' in ir.show(
                            c.get('range') or c.get('cond') or {}):
                        nonempty = True          # one iteration over members
                    # (what the *input* says about itself - num_vertices(graph) - is no evidence: a graph adaptor
                    # counts the underlying graph)
                    if 'members' in t and 'empty()' in t and 'num_vertices' not in t and \
                            pol == t.replace(' ', '').startswith('!'):
                        nonempty = True
                elif ev[0] == 'CREATE':
                    created = nonempty = True
                elif ev[0] == 'DIMLIT':
                    s13 = True
                    if not created and bad13 is None:
                        bad13 = ev[1]
                elif ev[0] == 'DIMZERO':
                    s13 = True
                    if not nonempty and bad13 is None:
                        bad13 = ev[1]
                elif ev[0] == 'DIMEXPR':
                    s14 = True
                    if not nonempty and bad14 is None:
                        bad14 = ev[1]
        if s13:
            n13 += 1
            chk.ob('R13-dimension-from-creation', '%s raises dimension_ to a positive literal only after creating the '
                   'node that has this dimension' % f['name'], '%s:%d' % (rel(f['file']), f['line']), bad13 is None,
                   '' if bad13 is None else 'line %s: `%s` is reached on a path that has created nothing yet: the '
                   'dimension comes from a count of the input, not from what was inserted' % (
                       bad13.get('l'), ir.show(bad13)[:40]), key='R13|%s|dimension-from-creation' % f['name'])
        if s14:
            n14 += 1
            chk.ob('R14-empty-dimension', '%s stores a computed dimension only when the tree has a member' % f['name'],
                   '%s:%d' % (rel(f['file']), f['line']), bad14 is None, '' if bad14 is None else
                   'line %s: `%s` is stored on a path that never learnt that the tree is not empty: an empty complex '
                   'ends with a dimension >= 0' % (bad14.get('l'), ir.show(bad14)[:50]),
                   key='R14|%s|empty-dimension' % f['name'])
    chk.expect_count('R13', 'literal dimension raises in insert_graph', n13, 1)
    chk.expect_count('R14', 'computed dimension stores in expansion', n14, 1)


WHOLE_COMPLEX = ('complex_simplex_range()',)


def run_r15(chk, F_all, control=False):
    """R15 no exact dimension from a partial view: `set_dimension(d)` states that d is the exact dimension. The library
    itself calls it only with a value computed from the whole tree (an expression mentioning the current bound:
    `dimension()`, `upper_bound_dimension()`, `dimension_`) - never with what one input (a stream, a range) happened to
    contain: the tree may hold larger simplices already (operator>> lowered the dimension of a non-empty tree:
    empty stars, an out-of-bounds write in num_simplices_by_dimension)."""
    n = 0
    fired = []
    for f in F_all:
        if f.get('body') is None or f.get('inst') not in (0, 2) or \
                (('/Simplex_tree/' not in f['file']) if not control else not f['file'].endswith('positive_controls.cpp')):
            continue
        for x in ir.walk(f['body']):
            if not (ir.is_call(x) and ir.call_name(x) == 'set_dimension' and ir.call_args(x)):
                continue
            n += 1
            t = ir.show(ir.call_args(x)[0])
            ok = any(w in t for w in ('dimension()', 'upper_bound_dimension()', 'dimension_'))
            if control:
                if not ok:
                    fired.append(x)
                continue
            chk.ob('R15-exact-dimension', '%s: the exact dimension it sets is computed from the current one' % f['name'],
                   '%s:%s' % (rel(f['file']), x.get('l')), ok,
                   '' if ok else '`%s`: the value comes from one input only, a tree that already holds larger simplices '
                   'gets a dimension below them (and the pending recomputation is switched off)' % ir.show(x)[:60],
                   key='R15|%s|exact-dimension' % f['name'])
    if control:
        if not fired:
            raise AnalysisBroken('C01: R15 stays silent on its positive control (drivers/positive_controls.cpp)')
        chk.count('R15 positive control reports', len(fired))
        return
    chk.count('calls of set_dimension inside the library', n)


def run_r16(chk, F_all):
    """R16 empty negative skeleton: "the simplices of dimension at most d" is empty for d < 0 (prune_above_dimension(d)
    empties the complex for such d). The constructor of the skeleton iterator stands on the first vertex only under a
    test of its dimension argument against 0."""
    fs = [f for f in F_all if f.get('clsname') == 'Simplex_tree_skeleton_simplex_iterator' and
          f.get('kind') in ('ctor',) and len(f.get('params', [])) == 2 and f.get('body') is not None and
          f.get('inst') in (0, 2)]
    if not fs:
        raise AnalysisBroken('C01: constructor of Simplex_tree_skeleton_simplex_iterator not found')
    f = fs[0]
    d = f['params'][1]['n']
    par = ir.parents(f['body'])
    starts = [x for x in ir.walk(f['body']) if ir.write_target(x) is not None and x.get('op') == '=' and
              ir.show(ir.write_target(x)).replace('this->', '') == 'sh_' and 'begin()' in ir.show(x)]
    if not starts:
        raise AnalysisBroken('C01: the skeleton iterator no longer positions sh_ on members().begin()')
    ok = True
    for x in starts:
        guarded = False
        cur = x
        while id(cur) in par:
            up = par[id(cur)]
            if up.get('k') == 'IfStmt':
                t = ir.show(up.get('cond')).replace(' ', '')
                neg = re.search(r'%s<0|%s<=-1|0>%s' % (d, d, d), t) is not None
                pos = re.search(r'%s>=0|%s>-1|0<=%s' % (d, d, d), t) is not None
                in_then = cur is up.get('then') or ir.contains(up.get('then'), lambda y: y is x)
                if (neg and not in_then) or (pos and in_then):
                    guarded = True
            cur = up
        ok = ok and guarded
    chk.ob('R16-negative-skeleton', 'the skeleton iterator starts on a vertex only for a dimension >= 0',
           '%s:%d' % (rel(f['file']), f['line']), ok,
           '' if ok else '`sh_ = ...begin()` is reached whatever `%s` is: skeleton_simplex_range(-1) lists the vertices' % d,
           key='R16|Simplex_tree_skeleton_simplex_iterator|negative-skeleton')


def run_r17(chk, F_all):
    """R17 ordered-range promise: a flat map built / filled with the tag `boost::container::ordered_unique_range` (or
    `ordered_range`) trusts the caller that the range is sorted and without repeats; given another range it is left
    unsorted and every later look-up misses members. In the Simplex_tree headers the tagged range is never (derived
    from) a parameter of a *public* function: it is the member range of another dictionary (already ordered), a
    parameter of a constructor of Siblings (an internal type: its callers are checked here too), or a local the
    function sorted itself."""
    n = 0
    for f in F_all:
        if f.get('body') is None or f.get('inst') not in (0, 2) or '/Simplex_tree/' not in f['file']:
            continue
        pnames = {q['n'] for q in f.get('params', [])}
        derived = set(pnames)          # locals computed from a parameter (adaptors, copies)
        for _ in range(3):
            for y in ir.walk(f['body']):
                if y.get('k') == 'VarDecl' and y.get('init') is not None and y['n'] not in derived and \
                        {z.get('n') for z in ir.walk(y['init']) if z.get('k') == 'DeclRefExpr'} & derived:
                    derived.add(y['n'])
        sorted_locals = {ir.show(ir.call_args(x)[0]).split('.')[0].split('(')[-1] for x in ir.walk(f['body'])
                         if ir.is_call(x) and ir.call_name(x) in ('sort', 'stable_sort') and ir.call_args(x)}
        for x in ir.walk(f['body']):
            if x.get('k') not in ('CallExpr', 'CXXMemberCallExpr', 'CXXConstructExpr', 'CXXTemporaryObjectExpr',
                                  'CXXUnresolvedConstructExpr', 'CXXOperatorCallExpr'):
                continue
            args = ir.call_args(x) if ir.is_call(x) else (x.get('c') or [])
            tagged = [a for a in args if (ir.skipcasts(a) or {}).get('k') == 'DeclRefExpr' and
                      ('ordered_unique_range' in ir.show(a) or 'ordered_range' in ir.show(a))]
            if not tagged or any('ordered' in ir.show(c) for a in args for c in (a.get('c') or []) if c is not a
                                 and a not in tagged and False):
                continue
            rest = [a for a in args if a not in tagged]
            roots = {y.get('n') for a in rest for y in ir.walk(a) if y.get('k') == 'DeclRefExpr'}
            if not roots:
                continue
            n += 1
            from_param = roots & derived
            internal = (f.get('clsname') or '').endswith('Siblings') or f['name'].startswith('Simplex_tree_siblings')
            member_range = any('members' in ir.show(a) for a in rest)
            ok = (not from_param) or internal or member_range or bool(roots & sorted_locals)
            chk.ob('R17-ordered-range', '%s: the range handed over as "ordered and unique" is one the library ordered '
                   'itself' % f['name'].split('<')[0], '%s:%s' % (rel(f['file']), x.get('l')), ok,
                   '' if ok else '`%s` comes from the caller (%s) and nothing sorts it: an unsorted or repeating batch '
                   'leaves the flat map unsorted, find() then misses present simplices' % (
                       ir.show(rest[0])[:50], ', '.join(sorted(from_param))),
                   key='R17|%s|ordered-range' % f['name'].split('<')[0])
    chk.expect_count('R17', 'insertions tagged ordered_unique_range', n, 1)


def run_r10(chk, fns):
    """R10: `dimension_to_be_lowered_` says that `dimension_` is only an upper bound. It is cleared (`= false`) only on
    a path that made the bound exact: the last value the path wrote to `dimension_` is a recomputed one (an expression
    over what was counted, or -1 for an emptied tree), or it has found a simplex whose dimension reaches the bound (a
    decision `<something> >= dimension_` taken as true). A local that starts as a copy of `dimension_` is the stale
    bound itself: writing it back proves nothing, and comparing the bound with it is a tautology; a plain local that
    is written back counts when the path has decided that it reaches the former bound (`old <= local`) or when it is
    accumulated in a loop over complex_simplex_range() (a recomputation over every simplex).
    Clearing the flag anywhere else freezes a stale upper bound: dimension() stays too large for ever."""
    n = 0
    for f in fns:
        if f.get('body') is None:
            continue

        def cl(x):
            if x.get('k') == 'BinaryOperator' and x.get('op') == '=':
                lt = ir.show(x['c'][0]).replace('this->', '')
                if lt == 'dimension_to_be_lowered_' and ir.show(x['c'][1]) == 'false':
                    return ['CLEAR']
                if lt == 'dimension_':
                    return ['DIMW']
            return []
        if not ir.contains(f['body'], lambda y: 'CLEAR' in cl(y)):
            continue
        n += 1
        stale = set()          # locals initialised with the bound itself
        for x in ir.walk(f['body']):
            if x.get('k') == 'VarDecl' and x.get('init') is not None and \
                    ir.show(ir.skipcasts(x['init'])).replace('this->', '') == 'dimension_':
                stale.add(x['n'])

        whole = set()          # locals accumulated over every simplex of the complex: a recomputation
        for lp in ir.walk(f['body']):
            if lp.get('k') == 'CXXForRangeStmt' and ir.show(lp.get('range')).replace('this->', '') in WHOLE_COMPLEX:
                for y in ir.walk(lp.get('body')):
                    if y.get('k') == 'BinaryOperator' and y.get('op') == '=':
                        t = ir.skipcasts(y['c'][0])
                        if t is not None and t.get('k') == 'DeclRefExpr' and t.get('dk') == 'Var':
                            whole.add(t['n'])

        def local_name(e):
            e = ir.skipcasts(e)
            return e.get('n') if e is not None and e.get('k') == 'DeclRefExpr' and e.get('dk') == 'Var' else None

        def reaches(c, pol, name):
            """the decision says `old bound <= name`"""
            c = ir.skipcasts(c)
            while c is not None and c.get('k') == 'ParenExpr':
                c = ir.skipcasts(c['c'][0])
            if c is None or c.get('k') != 'BinaryOperator' or c.get('op') not in ('<=', '>=', '<', '>'):
                return False
            l, r = local_name(c['c'][0]), local_name(c['c'][1])
            lt, rt = (ir.show(ir.skipcasts(y)).replace('this->', '') for y in c['c'])
            old_l = l in stale or lt == 'dimension_'
            old_r = r in stale or rt == 'dimension_'
            op = c['op']
            if not pol:
                op = {'<=': '>', '>=': '<', '<': '>=', '>': '<='}[op]
            return (op == '<=' and old_l and r == name) or (op == '>=' and l == name and old_r)
        ps = paths.enumerate_paths(f, cl, loop_mode='01', keep_conds=True, cap=20000)
        bad = None
        for p in ps:
            tags = p.tags()
            if 'CLEAR' not in tags or p.end == 'throw':
                continue
            reached = False
            last = None
            decisions = []
            for tag, node in p.events:
                if tag == '?':
                    c, pol = node[0], node[1]
                    if isinstance(c, tuple):
                        continue
                    decisions.append((c, pol))
                    if not pol:
                        continue
                    t = ir.show(c).replace(' ', '').replace('this->', '')
                    if '>=dimension_' in t or '==dimension_' in t or t.strip('()').startswith('dimension_<='):
                        reached = True
                elif tag == 'DIMW':
                    last = node
            exact = False
            if last is not None:
                rhs = last['c'][1]
                nm = local_name(rhs)
                mentions_stale = ir.contains(rhs, lambda y: y.get('k') == 'DeclRefExpr' and y.get('n') in stale)
                if nm is None:
                    exact = not mentions_stale
                elif nm not in stale:
                    exact = any(reaches(c, pol, nm) for c, pol in decisions) or nm in whole
            if not exact and not reached and bad is None:
                bad = p
        chk.ob('R10-bound-exact', '%s clears dimension_to_be_lowered_ only on paths that made dimension_ exact'
               % f['name'], '%s:%d' % (rel(f['file']), f['line']), bad is None,
               '' if bad is None else 'a path sets dimension_to_be_lowered_ = false with dimension_ last written from '
               'the stale bound (or not at all) and without having met a simplex of dimension dimension_: a stale upper '
               'bound becomes the reported dimension', key='R10|%s|bound-exact' % f['name'])
    chk.expect_count('R10', 'functions clearing dimension_to_be_lowered_', n, 4)


def run_r11(chk, fns):
    """R11: rec_coface (the coface search of the option sets without label lists) is evaluated on every valuation of
    the predicates its loop body consults - star, current size == requested size, all vertices matched, one vertex left,
    label match / label greater, has children (128 valuations, inconsistent ones skipped). Expected: a simplex is
    recorded iff all vertices are matched (or this match is the last) and (star or sizes equal); the search descends
    iff there are children and something can still be found below: always while vertices remain to be matched or a
    smaller label is passed, and below a complete match iff star or the size is not reached yet."""
    from gsa import predeval
    fs = [f for f in fns if f['name'] == 'rec_coface' and f.get('body') is not None]
    if len(fs) != 1:
        raise AnalysisBroken('C01: rec_coface not found')
    f = fs[0]
    loops = [x for x in ir.walk(f['body']) if x.get('k') == 'ForStmt']
    if len(loops) != 1:
        raise AnalysisBroken('C01: rec_coface: loop over the members not found')
    body = loops[0].get('body')
    import itertools
    n = 0
    bad = None
    for star, eq, E, one, match, greater, hc in itertools.product((False, True), repeat=7):
        if E and (one or match or greater):
            continue
        if match and greater:
            continue
        n += 1
        events = []

        def oracle(e, env, star=star, eq=eq, E=E, one=one, match=match, greater=greater, hc=hc):
            k = e.get('k')
            t = ir.show(e).replace(' ', '')
            if k == 'DeclRefExpr' and e.get('n') == 'star':
                return star
            if ir.is_call(e):
                nm = ir.call_name(e)
                if nm == 'empty' and t.startswith('vertices'):
                    return E
                if nm == 'has_children':
                    return hc
                if nm == 'rec_coface':
                    events.append('REC')
                    return 0
                if nm == 'push_back' and t.startswith('cofaces'):
                    events.append('PUSH')
                    return 0
                if nm in ('pop_back', 'push_back', 'back'):
                    return 0
            if k in ('BinaryOperator', 'CXXOperatorCallExpr') and e.get('op') in ('==', '>', '<', '<=', '>=', '!='):
                if 'curr_nbVertices' in t and 'nbVertices' in t.replace('curr_nbVertices', ''):
                    return {'==': eq, '!=': not eq, '<': not eq, '<=': True, '>=': eq, '>': False}[e['op']]
                if 'vertices.size()' in t:
                    return one if e['op'] == '==' else (not one if e['op'] in ('!=', '>') else None)
                if 'simplex->first' in t and 'vertices.back()' in t:
                    lhs_first = t.strip('(').startswith('simplex->first')
                    if e['op'] == '==':
                        return match
                    if e['op'] == '!=':
                        return not match
                    gt = greater if lhs_first else (not greater and not match)
                    if e['op'] == '>':
                        return gt
                    if e['op'] == '<':
                        return (not greater and not match) if lhs_first else greater
            if k == 'VarDecl' and e.get('n') == 'tmp':
                return 0
            return None
        ev = predeval.Evaluator(oracle)
        try:
            try:
                ev.stmt(body)
            except predeval.Return:
                pass
        except predeval.Unknown as ex:
            raise AnalysisBroken('C01: rec_coface has a shape the evaluator does not know: %s' % ex)
        if E:
            exp_push, exp_rec = (star or eq), hc and (star or not eq)
        elif match:
            exp_push, exp_rec = one and (star or eq), hc and (not one or star or not eq)
        elif greater:
            exp_push, exp_rec = False, False
        else:
            exp_push, exp_rec = False, hc
        got = ('PUSH' in events, 'REC' in events)
        if got != (exp_push, exp_rec) and bad is None:
            bad = (dict(star=star, sizes_equal=eq, all_matched=E, one_left=one, label_match=match,
                        label_greater=greater, has_children=hc), got, (exp_push, exp_rec))
    chk.count('R11 valuations', n)
    chk.ob('R11-coface-search', 'rec_coface records and descends exactly as the coface search requires (%d valuations)'
           % n, '%s:%d' % (rel(f['file']), f['line']), bad is None,
           '' if bad is None else 'for %s it (records, descends) = %s, required %s' % (
               ', '.join('%s=%s' % kv for kv in bad[0].items()), bad[1], bad[2]), key='R11|rec_coface|search')


def run_r4(chk, fns):
    nd = nn = 0
    for f in fns:
        cl = make_classify(f)
        has = ir.contains(f.get('body'), lambda x: 'DELETE_SIB' in cl(x) or 'NEW_SIB' in cl(x))
        if not has or f['name'] in ('rec_delete', '~Simplex_tree'):
            continue
        where = '%s:%d' % (rel(f['file']), f['line'])
        ps = paths.enumerate_paths(
            f, lambda x, cl=cl: [e for e in cl(x) if e in ('DELETE_SIB', 'NEW_SIB', 'ASSIGN_CHILDREN')],
            loop_mode='1', keep_conds=False)
        bad_d = bad_n = None
        dcount = ncount = 0
        for p in ps:
            if p.end == 'throw':
                continue
            tags = p.tags()
            if 'DELETE_SIB' in tags:
                dcount += 1
                if 'ASSIGN_CHILDREN' not in tags:
                    bad_d = p
            if 'NEW_SIB' in tags:
                ncount += 1
                # a new Siblings must be consumed: assign_children(new ...) / assign_children(var) or recursion
                if 'ASSIGN_CHILDREN' not in tags and not new_sib_escapes(f):
                    bad_n = p
        if dcount:
            nd += 1
            chk.ob('R4-leaf-delete', '%s: delete Siblings -> parent re-pointed (assign_children)' % f['name'], where,
                   bad_d is None, '' if bad_d is None else 'a path deletes a Siblings without re-pointing the parent '
                   'node with assign_children: has_children() would follow a dangling pointer',
                   key='R4d|%s' % f['name'])
        if ncount:
            nn += 1
            chk.ob('R4-leaf-new', '%s: new Siblings -> attached (assign_children)' % f['name'], where, bad_n is None,
                   '' if bad_n is None else 'a path allocates a Siblings that is never attached to a node',
                   key='R4n|%s' % f['name'])
    chk.expect_count('R4', 'functions deleting a Siblings', nd, 3)
    chk.expect_count('R4', 'functions allocating a Siblings', nn, 8)


def new_sib_escapes(f):
    """`new Siblings` passed straight to a recursive helper or returned: treated as attached elsewhere."""
    return False


# ------------------------------------------------------------------ R5: no descent through children() without has_children()

def _root_name(e):
    """identifier at the root of an access path (through ->second, &x, *x, casts)"""
    r = ir.access_root(e)
    if r and r[0] == 'var':
        return r[2]
    if r and r[0] == 'this':
        return 'this.' + str(r[1])
    return None


def _node_of_children_call(x):
    """`n->second.children()` -> n ;  `st->children(sh)` -> sh"""
    args = ir.call_args(x)
    if args:
        return _root_name(args[0])
    return _root_name(ir.call_receiver(x))


def _atoms(cond, pol, out):
    """atomic facts implied by a branch decision"""
    c = ir.skipcasts(cond)
    if c is None:
        return
    k = c.get('k')
    if k == 'UnaryOperator' and c.get('op') == '!':
        _atoms(c['c'][0], not pol, out)
        return
    if k == 'BinaryOperator' and c.get('op') == '&&' and pol:
        _atoms(c['c'][0], True, out)
        _atoms(c['c'][1], True, out)
        return
    if k == 'BinaryOperator' and c.get('op') == '||' and not pol:
        _atoms(c['c'][0], False, out)
        _atoms(c['c'][1], False, out)
        return
    out.append((c, pol))


def run_r5(chk, fns):
    sites = 0
    guarded = 0
    for f in fns:
        if f['name'] in ('has_children',):
            continue
        body = f.get('body')
        uses = [x for x in ir.walk(body) if ir.is_call(x) and ir.call_name(x) == 'children'
                and (ir.call_receiver(x) is not None or ir.call_args(x))]
        if not uses:
            continue
        use_ids = {id(x) for x in uses}

        def cl(x):
            ev = []
            if id(x) in use_ids:
                ev.append('CH')
            if ir.is_call(x) and ir.call_name(x) == 'assign_children':
                ev.append('AC')
            if ir.is_call(x) and ir.call_name(x) == 'has_children':
                ev.append('HCcall')
            t = ir.write_target(x)
            if t is not None:
                tt = ir.skipcasts(t)
                if tt is not None and tt.get('k') == 'DeclRefExpr':
                    ev.append('ASSIGN')
            return ev
        try:
            ps = paths.enumerate_paths(f, cl, loop_mode='1', keep_conds=True, cap=20000)
        except paths.TooManyPaths:
            raise AnalysisBroken('R5: too many paths in %s' % f['name'])
        bad = {}
        ok_sites = set()
        for p in ps:
            known = set()     # root names known to have children on this path
            for tag, node in p.events:
                if tag == '?':
                    c, pol, _ = node
                    if isinstance(c, tuple):
                        continue
                    if c.get('k') in ('ForStmt', 'WhileStmt', 'CXXForRangeStmt', 'DoStmt', 'CXXCatchStmt',
                                      'CaseStmt', 'DefaultStmt'):
                        continue
                    at = []
                    _atoms(c, pol, at)
                    for a, apol in at:
                        if ir.is_call(a) and ir.call_name(a) == 'has_children' and apol:
                            args = ir.call_args(a)
                            if args:
                                rn = _root_name(args[0])
                                if rn:
                                    known.add(rn)
                elif tag == 'AC':
                    r = ir.call_receiver(node)
                    rn = _root_name(r) if r is not None else None
                    if rn:
                        known.add(rn)
                elif tag == 'ASSIGN':
                    t = ir.skipcasts(ir.write_target(node))
                    known.discard(t.get('n'))
                elif tag == 'CH':
                    rn = _node_of_children_call(node)
                    if rn in known:
                        ok_sites.add(id(node))
                    else:
                        bad.setdefault(id(node), node)
        for x in uses:
            sites += 1
            line = x.get('l')
            rn = _node_of_children_call(x)
            is_bad = id(x) in bad
            fq = f['name'] if f.get('clsname') in (None, 'Simplex_tree') else '%s::%s' % (f['clsname'], f['name'])
            ex = TABLE['children_unguarded_ok'].get('%s|%s' % (fq, rn))
            if is_bad and ex is not None:
                chk.count('R5 exempt sites')
                continue
            if not is_bad and id(x) not in ok_sites:
                continue   # unreachable on every enumerated path (e.g. behind a throw)
            guarded += 0 if is_bad else 1
            chk.ob('R5-descent-guard', '%s: %s.children() only after has_children(%s)' % (fq, rn, rn),
                   '%s:%s' % (rel(f['file']), line), not is_bad,
                   '' if not is_bad else 'children() of a node is followed on a path that never established '
                   'has_children() for it: for a leaf it points back to the node\'s own Siblings (leaf convention), '
                   'so the search/descent restarts in the wrong place',
                   key='R5|%s|%s' % (fq, rn))
    chk.count('R5 children() sites', sites)
    chk.expect_count('R5', 'guarded children() descents', guarded, 15)

"""C12 edge collapse: the structural clauses (neighbour-table agreement, arm agreement, output provenance)."""
import re

from gsa import cmprules, facts, ir, paths
from gsa.facts import Unit, rel, AnalysisBroken
from gsa.report import Check
from rules import c09

M = ['src/Collapse/']
UNITS = [Unit('sparse', 'misc_pat.cpp', M, no_inst=True),
         Unit('dense', 'misc_pat.cpp', M, defines=['-DGUDHI_COLLAPSE_USE_DENSE_ARRAY'], no_inst=True),
         Unit('tbb', 'misc_pat.cpp', M, defines=['-DGUDHI_USE_TBB'], no_inst=True)]
H = 'src/Collapse/include/gudhi/Flag_complex_edge_collapser.h'
INF = 'inf'


SENTINELS = {}      # nullary helpers that return "never" / "since ever" in every arm (filled from the class on each run)


def norm_val(t):
    t = t.replace('std::', '')
    if 'infinity()' in t:
        return '-inf' if t.strip().startswith('-') else 'inf'
    if t.strip() in SENTINELS:
        return SENTINELS[t.strip()]
    return t


def find_sentinels(F):
    """`never()`-like helpers: no parameter, every return is +-infinity() or max() / lowest() of the filtration type"""
    SENTINELS.clear()
    for f in F.functions:
        if not f['file'].endswith('Flag_complex_edge_collapser.h') or f.get('params') or f.get('body') is None:
            continue
        vals = set()
        for x in ir.walk(f['body']):
            if x.get('k') == 'ReturnStmt' and x.get('value') is not None:
                t = ir.show(x['value']).replace('std::', '').replace(' ', '')
                if t.endswith('infinity()') or t.endswith('max()') or t.endswith('lowest()'):
                    vals.add('-inf' if (t.startswith('-') or t.endswith('lowest()')) else 'inf')
                else:
                    vals.add('?')
        if len(vals) == 1 and '?' not in vals:
            SENTINELS[f['name'] + '()'] = vals.pop()


def table_writes(fn):
    """(table, key1, key2, value) for every write to the sparse table `neighbors` / its build sequence and to the
    dense table `neighbors_dense`"""
    out = []
    for x in ir.walk(fn.get('body')):
        t = ir.write_target(x)
        if t is not None and x.get('op') == '=':
            tt = ir.skipcasts(t)
            txt = ir.show(tt)
            c = x.get('c') or []
            val = norm_val(ir.show(c[-1]))
            if ir.is_call(tt) and ir.call_name(tt) == 'neighbors_dense':
                a = [ir.show(y) for y in ir.call_args(tt)]
                out.append(('dense', a[0], a[1], val, x))
            elif txt.startswith('neighbors[') and txt.count('[') == 2:
                k1 = txt[len('neighbors['):txt.index(']')]
                k2 = txt[txt.index('][') + 2:-1]
                out.append(('sparse', k1, k2, val, x))
        if ir.is_call(x):
            n = ir.call_name(x)
            r = ir.call_receiver(x)
            rt = ir.show(r) if r is not None else ''
            a = [ir.show(y) for y in ir.call_args(x)]
            if n == 'erase' and rt.startswith('neighbors[') and len(a) == 1:
                out.append(('sparse', rt[len('neighbors['):-1], a[0], INF, x))
            if n == 'emplace_back' and rt.startswith('neighbors_seq[') and len(a) == 2:
                out.append(('sparse', rt[len('neighbors_seq['):-1], a[0], norm_val(a[1]), x))
    return out


ARM_FUNCTIONS = ('is_dominated_by', 'process_edges')


def run(tier, replay=None):
    chk = Check('C12', tier,
                'Static decision of structural clauses of the edge collapser: with GUDHI_COLLAPSE_USE_DENSE_ARRAY every '
                'function that writes the sparse neighbour table writes the dense table with the same (symmetric) '
                'key pairs and values; the dense and sparse arms of the domination tests compare with the same bound '
                'and strictness; the edge emitted to the output carries the endpoints of the current input edge and '
                'the same new time that was written to the neighbour table; an edge is either removed or emitted; the '
                'edge sort is a strict descending order on the value in both TBB configurations. Preservation of '
                'the persistence diagram (the domination theorem) is not decided.',
                'sibling-arm / dual-table agreement over the clang AST (E2, E7b), provenance (E10), comparator (E9)')
    F = facts.extract(UNITS)
    find_sentinels(F)

    def fn(unit, name):
        fs = [f for f in F.funcs(name, unit=unit) if f['file'].endswith('Flag_complex_edge_collapser.h')]
        if not fs:
            raise AnalysisBroken('C12: %s not found in unit %s' % (name, unit))
        return fs[0]

    # ---- T1 dual-table agreement (dense configuration)
    n_writers = 0
    for name in ('delay_neighbor', 'remove_neighbor', 'read_edges'):
        f = fn('dense', name)
        w = table_writes(f)
        sp = {(a, b, v) for t, a, b, v, _ in w if t == 'sparse'}
        de = {(a, b, v) for t, a, b, v, _ in w if t == 'dense'}
        n_writers += 1
        where = '%s:%d' % (H, f['line'])
        chk.ob('E2-dual-table', '%s writes the dense table exactly where it writes the sparse one' % name, where,
               sp == de and bool(sp), 'sparse writes %s, dense writes %s' % (sorted(sp), sorted(de)),
               key='E2dual|%s|agree' % name)
        sym = all((b, a, v) in sp for a, b, v in sp)
        chk.ob('E2-dual-table', '%s keeps the neighbour table symmetric' % name, where, sym,
               '' if sym else 'writes %s are not closed under exchanging the endpoints' % sorted(sp),
               key='E2dual|%s|symmetric' % name)
        # the sparse configuration performs the same sparse writes
        fs = fn('sparse', name)
        sp2 = {(a, b, v) for t, a, b, v, _ in table_writes(fs) if t == 'sparse'}
        chk.ob('E2-dual-table', '%s: both configurations perform the same sparse-table writes' % name, where,
               sp2 == sp, 'sparse build %s vs dense build %s' % (sorted(sp2), sorted(sp)),
               key='E2dual|%s|configs' % name)
    # any other function writing a table?
    for f in F.funcs(unit='dense'):
        if f['file'].endswith('Flag_complex_edge_collapser.h') and f['name'] not in (
                'delay_neighbor', 'remove_neighbor', 'read_edges', 'init_neighbors_dense') and table_writes(f):
            chk.ob('E2-dual-table', '%s does not write the neighbour tables directly' % f['name'],
                   '%s:%d' % (H, f['line']), False, 'only delay_neighbor/remove_neighbor/read_edges may write them',
                   key='E2dual|%s|foreign-writer' % f['name'])

    # ---- T2 arm agreement of the domination tests
    # helpers of the dense configuration that answer "neighbours at time f?" from the dense table: a bool function
    # whose body compares a value read from neighbors_dense(..) with one of its parameters
    def dense_value_names(f):
        names = set()
        for x in ir.walk(f.get('body')):
            if x.get('k') == 'VarDecl' and x.get('init') is not None and \
                    ir.show(ir.skipcasts(x['init'])).startswith('neighbors_dense('):
                names.add(x['n'])
        return names

    def is_dense_value(e, names):
        t = ir.show(ir.skipcasts(e))
        return t.startswith('neighbors_dense(') or t in names

    def cmp_sides(x):
        c = x.get('c') or []
        if x['k'] == 'CXXOperatorCallExpr':
            c = c[1:]
        return c
    dense_helpers = {}
    for f in F.funcs(unit='dense'):
        if not f['file'].endswith('Flag_complex_edge_collapser.h') or f.get('body') is None:
            continue
        pn = [p_['n'] for p_ in f.get('params', [])]
        names = dense_value_names(f)
        for x in ir.walk(f['body']):
            if x.get('k') in ('BinaryOperator', 'CXXOperatorCallExpr') and x.get('op') in ('>', '>=', '<', '<='):
                c = cmp_sides(x)
                if len(c) == 2 and is_dense_value(c[0], names) and ir.show(ir.skipcasts(c[1])) in pn:
                    # normalised to the test that answers "not neighbours at that time": `if (g > f) return false`
                    # and `return g <= f` are the same helper
                    op = x['op']
                    up = ir.parents(f['body']).get(id(x))
                    while up is not None and up.get('k') in ('ParenExpr', 'ImplicitCastExpr', 'ExprWithCleanups'):
                        up = ir.parents(f['body']).get(id(up))
                    if up is not None and up.get('k') == 'ReturnStmt':
                        op = {'<=': '>', '<': '>=', '>': '<=', '>=': '<'}[op]
                    if f['name'] not in dense_helpers or ARM_FUNCTIONS.count(f['name']):
                        dense_helpers[f['name']] = (op, pn.index(ir.show(ir.skipcasts(c[1]))))

    def bound_tests(f, dense):
        out = []
        for x in ir.walk(f.get('body')):
            if dense and ir.is_call(x) and ir.call_name(x) in dense_helpers and ir.call_name(x) not in ARM_FUNCTIONS:
                op, idx = dense_helpers[ir.call_name(x)]
                args = ir.call_args(x)
                if idx < len(args):
                    out.append((op, ir.show(args[idx])))
            if x.get('k') in ('BinaryOperator', 'CXXOperatorCallExpr') and x.get('op') in ('>', '>=', '<', '<='):
                c = x.get('c') or []
                if x['k'] == 'CXXOperatorCallExpr':
                    c = c[1:]
                l, r = ir.show(c[0]), ir.show(c[1])
                if dense and l.startswith('neighbors_dense('):
                    out.append((x['op'], r))
                if not dense and l.endswith('->second'):
                    out.append((x['op'], r))
        return out
    for name in ARM_FUNCTIONS:
        d, s = bound_tests(fn('dense', name), True), bound_tests(fn('sparse', name), False)
        ok = bool(d) and sorted(set(d)) == sorted(set(s))
        chk.ob('E7b-arms', '%s: dense and sparse arms test the edge time against the same bound with the same '
               'strictness' % name, '%s:%d' % (H, fn('dense', name)['line']), ok,
               'dense tests %s, sparse tests %s' % (d, s), key='E7b|%s|bound' % name)

    # ---- T2b a domination answer is about a time: "the neighbourhood of e at time f is inside that of c"
    for unit in ('sparse', 'dense'):
        f = fn(unit, 'is_dominated_by')
        ps_ = [p_['n'] for p_ in f.get('params', [])]
        if len(ps_) != 3:
            raise AnalysisBroken('C12: is_dominated_by no longer takes (neighbours, candidate, time)')
        ngb, fpar = ps_[0], ps_[2]

        def cl(x):
            if x.get('k') == 'ReturnStmt' and x.get('value') is not None and ir.show(x['value']) == 'true':
                return ['YES']
            return []
        pths = paths.enumerate_paths(f, cl, loop_mode='01', keep_conds=True, cap=20000)
        bad = None
        nyes = 0
        for p_ in pths:
            if 'YES' not in p_.tags():
                continue
            nyes += 1
            timed = vacuous = False
            for c, pol, _ in p_.conds:
                if isinstance(c, tuple):
                    continue
                if c.get('k') == 'CXXForRangeStmt':
                    if not pol and ir.show(c.get('range')) == ngb:
                        vacuous = True                     # no neighbour to look at
                    continue
                t = ir.show(c)
                if re.search(r'[<>]=?\s*%s\b' % re.escape(fpar), t) or re.search(r'\b%s\s*[<>]' % re.escape(fpar), t):
                    timed = True
                for y in ir.walk(c):                      # "neighbours at time f?" asked through a helper
                    if ir.is_call(y) and ir.call_name(y) in dense_helpers:
                        args = ir.call_args(y)
                        idx = dense_helpers[ir.call_name(y)][1]
                        if idx < len(args) and ir.show(args[idx]) == fpar:
                            timed = True
                if re.search(r'\b%s\b' % re.escape(ngb), t) and ('empty()' in t or 'size()' in t) :
                    vacuous = True
            if not (timed or vacuous) and bad is None:
                bad = p_
        if nyes == 0:
            raise AnalysisBroken('C12: is_dominated_by (%s) never answers true' % unit)
        chk.ob('E10-timed-domination', 'is_dominated_by (%s): every path answering "dominated" has compared a stored '
               'time with the bound `%s` (or had no neighbour to look at) - %d paths' % (unit, fpar, nyes),
               '%s:%d' % (H, f['line']), bad is None, '' if bad is None else 'a path returns true after the decisions '
               '[%s] without comparing any neighbour time with `%s`: adjacency alone is accepted, although an edge '
               'already kept can join the candidate later than the current time' % ('; '.join(
                   ('' if pol else '!') + ir.show(c)[:50] for c, pol, _ in bad.conds if not isinstance(c, tuple))[:200],
                   fpar), key='E10|is_dominated_by|%s|timed' % unit)

    # ---- T2d the marker of the dense table is in-band: never() is also a value an edge can carry (+infinity, the
    # largest integer, 0 for a number type without bounds). A function that compares a value of the dense table with a
    # time also tells the marker from a stored value: it tests the value against never() and asks the neighbour lists
    n_dense_cmp = 0
    for f in F.funcs(unit='dense'):
        if not f['file'].endswith('Flag_complex_edge_collapser.h') or f.get('body') is None:
            continue
        names = dense_value_names(f)
        cmps = [x for x in ir.walk(f['body']) if x.get('k') in ('BinaryOperator', 'CXXOperatorCallExpr') and
                x.get('op') in ('>', '>=', '<', '<=') and len(cmp_sides(x)) == 2 and
                (is_dense_value(cmp_sides(x)[0], names) or is_dense_value(cmp_sides(x)[1], names))]
        if not cmps:
            continue
        n_dense_cmp += len(cmps)
        marker = any(x.get('k') in ('BinaryOperator', 'CXXOperatorCallExpr') and x.get('op') in ('==', '!=') and
                     len(cmp_sides(x)) == 2 and
                     any(is_dense_value(y, names) for y in cmp_sides(x)) and
                     any(ir.show(ir.skipcasts(y)).replace('this->', '') == 'never()' for y in cmp_sides(x))
                     for x in ir.walk(f['body']))
        lists = any(ir.is_call(x) and ir.call_name(x) in ('find', 'count', 'contains') and
                    ir.show(ir.call_receiver(x)).startswith('neighbors[') for x in ir.walk(f['body']))
        ok = marker and lists
        # the lists are asked only for the one ambiguous value *at a time not before it*: on every path to the look-up
        # the time test has been taken as "not later"
        if ok and f['name'] not in ARM_FUNCTIONS:
            def cl_(x):
                if ir.is_call(x) and ir.call_name(x) in ('find', 'count', 'contains') and \
                        ir.show(ir.call_receiver(x)).startswith('neighbors['):
                    return ['LOOKUP']
                return []
            for p_ in paths.enumerate_paths(f, cl_, loop_mode='01', keep_conds=True, cap=20000):
                timed = False
                for tag, node in p_.events:
                    if tag == '?' and not isinstance(node[0], tuple):
                        def atoms(cc, pol_):
                            cc = ir.skipcasts(cc)
                            while cc is not None and (cc.get('k') == 'ParenExpr' or
                                                      (cc.get('k') == 'UnaryOperator' and cc.get('op') == '!')):
                                if cc.get('k') == 'UnaryOperator':
                                    pol_ = not pol_
                                cc = ir.skipcasts(cc['c'][0])
                            if cc is None:
                                return []
                            if cc.get('k') == 'BinaryOperator' and ((cc.get('op') == '&&' and pol_) or
                                                                    (cc.get('op') == '||' and not pol_)):
                                return atoms(cc['c'][0], pol_) + atoms(cc['c'][1], pol_)
                            return [(cc, pol_)]
                        for cc, pol_ in atoms(node[0], node[1]):
                            if cc.get('k') in ('BinaryOperator', 'CXXOperatorCallExpr') and \
                                    len(cmp_sides(cc)) == 2 and is_dense_value(cmp_sides(cc)[0], names):
                                if (cc.get('op') in ('>', '>=') and not pol_) or (cc.get('op') in ('<=', '<') and pol_):
                                    timed = True
                    elif tag == 'LOOKUP' and not timed:
                        ok = False
        chk.ob('E4-in-band-marker', '%s compares a value of the dense table with a time and tells the marker never() '
               'from a stored value (%d comparisons)' % (f['name'], len(cmps)), '%s:%s' % (H, cmps[0].get('l')), ok,
               '' if ok else '`%s`: a pair marked "not neighbours" holds never(), which compares like an edge of that '
               'value: with a bound equal to the marker every pair looks adjacent (%s)' % (
                   ir.show(cmps[0])[:60], 'no test against never()' if not marker else (
                       'the neighbour lists are not asked' if not lists else 'the neighbour lists are asked before the '
                       'time test: an edge whose value is the marker is reported present at every time')),
               key='E4|%s|in-band-marker' % f['name'])
    chk.expect_count('E4-in-band-marker', 'comparisons of dense-table values with a time', n_dense_cmp, 1)

    # ---- T2e `still_dominated` is a for-all flag over the neighbours that appear at one time: inside the loop that
    # walks them it is only ever cleared (assigned the literal false); assigning it the outcome of one neighbour's test
    # lets a later neighbour that passes overwrite the failure of an earlier one
    for unit in ('sparse', 'dense'):
        f = fn(unit, 'process_edges')
        flags_ = {}
        for x in ir.walk(f['body']):
            if x.get('k') == 'ForStmt' and x.get('init') is not None:
                for d in (x['init'].get('decls') or []):
                    if isinstance(d, dict) and d.get('k') == 'VarDecl' and (d.get('t') or '') == 'bool' and \
                            d.get('init') is not None and ir.show(d['init']) == 'true' and \
                            d['n'] in ir.show(x.get('cond')):
                        flags_[d['n']] = x
        if not flags_:
            raise AnalysisBroken('C12: the for-all flag of process_edges (%s) was not found' % unit)
        for name, loop in flags_.items():
            ws = [x for x in ir.walk(loop.get('body')) if x.get('k') in ('BinaryOperator', 'CompoundAssignOperator')
                  and x.get('op') in
                  ('=', '&=', '|=') and ir.show(ir.skipcasts(x['c'][0])) == name]
            bad = [x for x in ws if not (x.get('op') == '=' and ir.show(ir.skipcasts(x['c'][1])) == 'false') and
                   not (x.get('op') == '&=')]
            chk.ob('E8-forall-flag', 'process_edges (%s): `%s` is only cleared inside the loop it controls (%d writes)'
                   % (unit, name, len(ws)), '%s:%s' % (H, loop.get('l')), bool(ws) and not bad,
                   '' if ws and not bad else ('no write found' if not ws else 'line %s: `%s` gives the flag the outcome '
                                              'of one test: a neighbour that passes overwrites the failure of an '
                                              'earlier one that appeared at the same time' % (
                                                  bad[0].get('l'), ir.show(bad[0])[:70])),
                   key='E8|process_edges|%s|forall-flag' % unit)

    # ---- T2f per-edge scratch state: a local of process_edges declared before the loop over the edges and modified in
    # its body is reset at the top of the body (clear() / an assignment of a literal) - the output accumulator, only
    # appended to, apart. A flag that survives from one edge to the next (`heapified`) makes a later edge walk its
    # later neighbours unsorted.
    for unit in ('sparse', 'dense'):
        f = fn(unit, 'process_edges')
        loops = [x for x in ir.walk(f['body']) if x.get('k') == 'CXXForRangeStmt' and
                 ir.contains(x.get('body'), lambda y: ir.is_call(y) and ir.call_name(y) == 'emplace_back'
                             and ir.show(ir.call_receiver(y)) == 'res')]
        lp = loops[0]
        inside = {id(y) for y in ir.walk(lp)}
        outer = {x['n']: x for x in ir.walk(f['body']) if x.get('k') == 'VarDecl' and id(x) not in inside and
                 (x.get('l') or 0) < (lp.get('l') or 0)}
        stale = []
        for name in outer:
            writes = [y for y in ir.walk(lp.get('body')) if
                      (ir.write_target(y) is not None and ir.show(ir.write_target(y)) == name) or
                      (ir.is_call(y) and ir.call_receiver(y) is not None and ir.show(ir.call_receiver(y)) == name and
                       ir.call_name(y) in ('insert', 'emplace_back', 'push_back', 'clear', 'emplace', 'erase', 'pop_back'))]
            if not writes:
                continue
            only_append = all(ir.is_call(y) and ir.call_name(y) in ('emplace_back', 'push_back') for y in writes)
            parb = ir.parents(lp.get('body'))

            def unconditional(y):
                cur = y
                while id(cur) in parb:
                    cur = parb[id(cur)]
                    if cur.get('k') not in ('CompoundStmt', 'ExprWithCleanups', 'ImplicitCastExpr'):
                        return False
                return True
            reset = any(unconditional(y) and ((ir.is_call(y) and ir.call_name(y) == 'clear') or
                        (ir.write_target(y) is not None and y.get('op') == '=' and
                         (ir.skipcasts(y['c'][1]) or {}).get('k') in ('IntegerLiteral', 'CXXBoolLiteralExpr',
                                                                      'FloatingLiteral'))) for y in writes)
            if not reset and not only_append:
                stale.append(name)
        chk.ob('E8-per-edge-state', 'process_edges (%s): every local that outlives one edge is reset for the next '
               '(%d locals declared before the loop)' % (unit, len(outer)), '%s:%s' % (H, lp.get('l')), not stale,
               '' if not stale else '`%s` is declared before the loop over the edges, modified in it and never reset: '
               'what one edge left there decides for the next' % '`, `'.join(stale),
               key='E8|process_edges|%s|per-edge-state' % unit)

    # ---- T2g the sparse arm of is_dominated_by advances to the next neighbour of e only after the time test of the
    # current match
    f = fn('sparse', 'is_dominated_by')
    ngb0 = f['params'][0]['n']

    def cl_adv(x):
        if x.get('k') == 'UnaryOperator' and x.get('op') == '++' and ir.show(x['c'][0]) == 'eni':
            return ['ADV']
        return []
    pths = paths.enumerate_paths(f, cl_adv, loop_mode='01', keep_conds=True, cap=20000)
    bad = None
    fpar = f['params'][2]['n']
    for p_ in pths:
        timed = False
        for tag, node in p_.events:
            if tag == '?' and not isinstance(node[0], tuple):
                t = ir.show(node[0])
                if re.search(r'->second\s*>\s*%s\b' % re.escape(fpar), t) and not node[1]:
                    timed = True
            elif tag == 'ADV':
                if not timed and bad is None:
                    bad = node
                timed = False
    chk.ob('E10-timed-domination', 'is_dominated_by (sparse): a neighbour of e is passed only after the time of its '
           'match in the list of c was tested (%d paths)' % len(pths), '%s:%d' % (H, f['line']), bad is None,
           '' if bad is None else 'line %s: `++eni` on a path that has not tested `->second > %s` for the current '
           'match: the last common neighbour is accepted whatever the time of its edge to the candidate' % (
               bad.get('l'), fpar), key='E10|is_dominated_by|sparse|match-timed')

    # ---- T2c sentinels of the two template types
    n_cmp = n_inf = 0
    for f in [g for g in F.functions if g['file'].endswith('Flag_complex_edge_collapser.h') and
              g.get('body') is not None and g.get('unit') in (None, 'sparse', 'dense')]:
        if f.get('unit') not in (None, 'dense') and any(
                h['name'] == f['name'] and h.get('unit') == 'dense' and h['line'] == f['line'] for h in F.functions):
            continue                                      # analysed in the dense configuration (a superset)
        par_map = ir.parents(f['body'])
        vertex_vars = {x['n'] for x in ir.walk(f['body']) if x.get('k') == 'VarDecl' and x.get('t') == 'Vertex'}
        vertex_vars |= {p_['n'] for p_ in f.get('params', []) if p_.get('t') == 'Vertex'}
        for x in ir.walk(f['body']):
            if x.get('k') in ('BinaryOperator', 'CXXOperatorCallExpr') and x.get('op') in ('==', '!=', '<', '>', '<=',
                                                                                        '>='):
                ab = x['c'] if x['k'] == 'BinaryOperator' else ir.call_args(x)
                if len(ab) != 2:
                    continue
                for l, r in ((ab[0], ab[1]), (ab[1], ab[0])):
                    l0, r0 = ir.skipcasts(l), ir.skipcasts(r)
                    if l0 is not None and l0.get('k') == 'DeclRefExpr' and l0.get('n') in vertex_vars:
                        n_cmp += 1
                        neg = r0 is not None and r0.get('k') == 'UnaryOperator' and r0.get('op') == '-' and \
                            (ir.skipcasts(r0['c'][0]) or {}).get('k') == 'IntegerLiteral'
                        if neg:
                            chk.ob('E4-sentinel', '%s: the vertex `%s` is not compared with a bare negative literal' %
                                   (f['name'], l0['n']), '%s:%s' % (H, x.get('l')), False,
                                   '`%s`: the literal is an int; a Vertex of a narrow unsigned type holding the '
                                   'sentinel is promoted to 65535 (255) and never equals it' % ir.show(x)[:60],
                                   key='E4|%s|vertex-sentinel' % f['name'])
            if ir.is_call(x) and ir.call_name(x) == 'infinity' and not ir.call_args(x):
                n_inf += 1
                guarded = False
                node = x
                while id(node) in par_map:
                    pn = par_map[id(node)]
                    if pn.get('k') == 'IfStmt' and node is pn.get('then') and 'has_infinity' in ir.show(pn.get('cond')):
                        guarded = True
                    node = pn
                chk.ob('E4-sentinel', '%s: infinity() of the filtration type is used only where the type has one' %
                       f['name'], '%s:%s' % (H, x.get('l')), guarded, '' if guarded else
                       'numeric_limits<Filtration_value>::infinity() is 0 for an integer type: an absent neighbour '
                       'reads as present since time 0', key='E4|%s|infinity' % f['name'])
    chk.ob('E4-sentinel', 'no vertex is compared with a bare negative literal (%d comparisons of vertices seen)' % n_cmp,
           H, True, '', key='E4|vertex-sentinel|inventory', nontrivial=False)
    chk.expect_count('E4-sentinel', 'comparisons involving a Vertex variable', n_cmp, 4)
    chk.expect_count('E4-sentinel', 'uses of infinity() of the filtration type', n_inf, 2)

    # ---- T3 output provenance and table/output agreement in process_edges
    for unit in ('sparse', 'dense'):
        f = fn(unit, 'process_edges')
        loops = [x for x in ir.walk(f['body']) if x.get('k') == 'CXXForRangeStmt' and
                 ir.contains(x.get('body'), lambda y: ir.is_call(y) and ir.call_name(y) == 'emplace_back'
                             and ir.show(ir.call_receiver(y)) == 'res')]
        if len(loops) != 1:
            raise AnalysisBroken('C12: main loop of process_edges not found')
        lp = loops[0]
        ev = (lp.get('var') or {}).get('n')
        # locals bound to get<0>(e), get<1>(e)
        ends = {}
        for x in ir.walk(lp['body']):
            if x.get('k') == 'VarDecl' and x.get('init') is not None:
                t = ir.show(x['init']).replace('std::', '')
                if t in ('get(%s)' % ev, 'get<0>(%s)' % ev, 'get<1>(%s)' % ev) or \
                        ('get' in t and t.endswith('(%s)' % ev)):
                    ends[x['n']] = t
        emits = [x for x in ir.walk(lp['body']) if ir.is_call(x) and ir.call_name(x) == 'emplace_back'
                 and ir.show(ir.call_receiver(x)) == 'res']
        for e in emits:
            a = [ir.show(y) for y in ir.call_args(e)]
            ok = len(a) == 3 and a[0] in ends and a[1] in ends and a[0] != a[1]
            chk.ob('E10-output', 'process_edges (%s): emitted edge (%s) has the endpoints of the current input edge'
                   % (unit, ', '.join(a)), '%s:%s' % (H, e.get('l')), ok,
                   '' if ok else 'endpoints %s are not the two locals read from the loop edge %s' % (a[:2], ev),
                   key='E10|process_edges|%s|endpoints|%s' % (unit, a[2] if len(a) == 3 else '?'))
        # table/output agreement per branch of the final if-chain
        for ifs in ir.walk(lp['body']):
            if ifs.get('k') != 'IfStmt':
                continue
            for arm in (ifs.get('then'), ifs.get('else')):
                if arm is None or arm.get('k') == 'IfStmt':
                    continue
                calls = [x for x in ir.walk(arm) if ir.is_call(x)]
                dl = [x for x in calls if ir.call_name(x) == 'delay_neighbor']
                rm = [x for x in calls if ir.call_name(x) == 'remove_neighbor']
                em = [x for x in calls if ir.call_name(x) == 'emplace_back' and ir.show(ir.call_receiver(x)) == 'res']
                if not (dl or rm or em) or any(x.get('k') == 'IfStmt' for x in ir.kids(arm) if x is not None and
                                               ir.contains(x, lambda y: ir.is_call(y) and ir.call_name(y) in
                                                           ('delay_neighbor', 'remove_neighbor'))):
                    continue
                if dl:
                    da = [ir.show(y) for y in ir.call_args(dl[0])]
                    ea = [[ir.show(y) for y in ir.call_args(x)] for x in em]
                    ok = len(em) == 1 and ea[0] == da
                    chk.ob('E2-table-output', 'process_edges (%s): delayed edge is emitted with the time written to '
                           'the table' % unit, '%s:%s' % (H, dl[0].get('l')), ok,
                           'delay_neighbor(%s) but emits %s' % (', '.join(da), ea), key='E2|process_edges|%s|delay' % unit)
                if rm:
                    ok = not em
                    chk.ob('E2-table-output', 'process_edges (%s): a removed edge is not emitted' % unit,
                           '%s:%s' % (H, rm[0].get('l')), ok, 'remove_neighbor and res.emplace_back in one branch',
                           key='E2|process_edges|%s|remove' % unit)
        chk.count('emit sites', len(emits))
        if len(emits) < 2:
            raise AnalysisBroken('C12: expected two emit sites in process_edges')

    # ---- T5 checked lookups: the result of find / lower_bound in a neighbour list is tested before it is used:
    # against end(), and - for lower_bound, which returns the first element NOT LESS than the key - for key equality
    for unit in ('sparse', 'dense'):
        for f in F.funcs(unit=unit):
            if not f['file'].endswith('Flag_complex_edge_collapser.h') or f.get('body') is None:
                continue
            lookups = []
            for x in ir.walk(f['body']):
                tgt = None
                rhs = None
                if x.get('k') == 'VarDecl' and x.get('init') is not None:
                    tgt, rhs = x.get('n'), x['init']
                elif x.get('k') in ('BinaryOperator', 'CXXOperatorCallExpr') and x.get('op') == '=':
                    c = x.get('c') or []
                    tgt, rhs = ir.show(c[0] if x['k'] == 'BinaryOperator' else c[1]), c[-1]
                if rhs is None:
                    continue
                r = ir.skipcasts(rhs)
                if ir.is_call(r) and ir.call_name(r) in ('find', 'lower_bound', 'upper_bound'):
                    args = ir.call_args(r)
                    key = ir.show(args[0]) if ir.call_name(r) == 'find' else (ir.show(args[2]) if len(args) >= 3
                                                                               else None)
                    lookups.append((tgt, ir.call_name(r), key, x))
            for it, kind, key, node in lookups:
                derefs = [y for y in ir.walk(f['body']) if y.get('k') in ir.MEMBER_KINDS and y.get('arrow') and
                          y.get('c') and ir.show(y['c'][0]) == it and y.get('l', 0) >= node.get('l', 0)]
                if not derefs:
                    continue
                body_t = [ir.show(y) for y in ir.walk(f['body']) if y.get('k') in ('BinaryOperator',
                                                                                   'CXXOperatorCallExpr')
                          and y.get('op') in ('==', '!=')]
                end_ok = any(it in t and ('end()' in t or t.split()[-1].rstrip(')') in ('me', 'ue', 've', 'ce'))
                             for t in body_t)
                eq_ok = kind == 'find' or any((it + '->first') in t and key and key in t for t in body_t)
                chk.ob('E2g-checked-lookup', '%s (%s): the %s result %s is tested before it is dereferenced'
                       % (f['name'], unit, kind, it), '%s:%s' % (H, node.get('l')), end_ok and eq_ok,
                       '' if end_ok and eq_ok else ('the result is never compared with end()' if not end_ok else
                       'lower_bound returns the first entry not less than %s: without comparing %s->first with %s a '
                       'different vertex is taken for the one looked up' % (key, it, key)),
                       key='E2g|%s|%s|lookup-%s' % (f['name'], unit, it))

    # ---- T3c who may subscript the sparse table: operator[] of a flat_map inserts a value-initialised entry
    WRITERS = ('delay_neighbor', 'remove_neighbor', 'read_edges')
    n_reads = 0
    for unit in ('sparse', 'dense'):
        for f in F.functions:
            if f.get('unit') != unit or not f['file'].endswith('Flag_complex_edge_collapser.h') or \
                    f.get('body') is None or f.get('inst') not in (0, 2):
                continue
            rows = set()            # locals bound to one row of the table: auto& r = neighbors[x]
            for x in ir.walk(f['body']):
                if x.get('k') == 'VarDecl' and x.get('init') is not None:
                    t = ir.show(x['init']).replace(' ', '')
                    if re.match(r'^neighbors\[[^\]]+\]$', t):
                        rows.add(x['n'])
            bad = None
            for x in ir.walk(f['body']):
                if not (x.get('k') == 'ArraySubscriptExpr' or (x.get('k') == 'CXXOperatorCallExpr' and
                                                              x.get('op') == '[]')):
                    continue
                cs = x.get('c') or []
                base = ir.show(cs[0] if x.get('k') == 'ArraySubscriptExpr' else cs[1]).replace(' ', '')
                is_row = re.match(r'^neighbors\[[^\]]+\]$', base) or base in rows
                if not is_row:
                    continue
                n_reads += 1
                if f['name'] not in WRITERS and bad is None:
                    bad = x
            if f['name'] in WRITERS:
                continue
            if bad is not None or rows or ir.contains(f['body'], lambda y: ir.show(y).startswith('neighbors[')):
                chk.ob('E2-table-writers', '%s (%s): the sparse neighbour table is only subscripted by its writers'
                       % (f['name'], unit), '%s:%s' % (H, (bad or f['body']).get('l')), bad is None,
                       '' if bad is None else '`%s` applies operator[] of the map of neighbours outside %s: a lookup '
                       'of an absent neighbour inserts it with filtration value 0 (the two vertices become adjacent '
                       'from the start)' % (ir.show(bad), '/'.join(WRITERS)),
                       key='E2|%s|%s|table-subscript' % (f['name'], unit))
    chk.expect_count('E2-table-writers', 'subscripts of a row of the neighbour table', n_reads, 2)

    # ---- T4 edge sort
    lam = {}
    for unit in ('sparse', 'tbb'):
        f = fn(unit, 'flag_complex_collapse_edges')
        sc = cmprules.sort_calls(f)
        if len(sc) != 1:
            raise AnalysisBroken('C12: sort call not found in flag_complex_collapse_edges (%s)' % unit)
        args = ir.call_args(sc[0])
        cmprules.check_whole_range(chk, 'E7b-arms', sc[0], '%s:%s' % (H, sc[0].get('l')),
                                   'E7b|edge-sort|%s|whole-range' % unit, 'the edge sort (%s)' % unit)
        l = ir.skipcasts(args[-1])
        if l is None or l.get('k') != 'LambdaExpr':
            raise AnalysisBroken('C12: edge sort comparator is not a lambda')
        ps = [p['n'] for p in l.get('params', [])]
        pseudo = {'qual': 'edge sort comparator (%s)' % unit, 'file': f['file'], 'line': l.get('l'),
                  'body': l['body'], 'params': l.get('params', [])}
        cmprules.check_cascade(chk, 'E9-order', pseudo, ['std::get(@)'] if 'get(' in ir.show(l['body']) else
                               ['std::get<2>(@)'], None, descending=('std::get(@)', 'std::get<2>(@)'),
                               name='edge sort comparator (%s)' % unit)
        lam[unit] = (ir.call_name(sc[0]), [ir.show(a) for a in args[:-1]], ir.show(l['body']) if False else
                     ' '.join(ir.show(x) for x in ir.walk(l['body']) if x.get('k') == 'ReturnStmt'))
    chk.ob('E7b-arms', 'TBB and sequential edge sorts use the same range and comparator', H,
           lam['sparse'][1:] == lam['tbb'][1:], '%s vs %s' % (lam['sparse'], lam['tbb']), key='E7b|edge-sort')
    _by = {}
    for _f in F.functions:
        if _f.get('inst') in (0, 2) and _f.get('body') is not None and _f['file'].startswith(facts.REPO):
            _by.setdefault(_f.get('cls') or _f.get('clsname') or '-', []).append(_f)
    c09.run_assert_purity(chk, F, by=_by, min_count=5)
    chk.assumptions += ['clang 14 parser; three preprocessor configurations parsed',
                        'textual identity of key expressions (u, v, i, f) inside one function']
    return chk

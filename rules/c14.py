"""C14 specialised 1-D / 2-D persistence routines: structural clauses decided statically (DESIGN 4/C14).

2-D  E8  fill_and_pair touches the input only through has_larger_input(neighbour, i, f): every valuation of the
         neighbour predicates (2^8 interior, 2^5 per border) is evaluated on the AST and the resulting action list
         must cover the cells owned by the current square exactly once (exhaustive).
     E3  the four provisional corner writes must address four distinct vertices under the routine's precondition.
     E9  the union-find passes: the root that receives a parent is never the exterior cell 0 and is never the
         smaller of two real roots (all valuations of the guards).
1-D  E10 the element order is consulted only through the user's comparator; the derived comparators are its
         correct negations/mirrors.
"""
import itertools

from gsa import absint, cmprules, facts, ir, predeval
from gsa.absint import Lin, fm_infeasible
from gsa.facts import Unit, rel, AnalysisBroken
from gsa.report import Check
from rules import c09

import os
import re

UNITS = [Unit('misc', 'misc_pat.cpp', ['src/Persistent_cohomology/include/gudhi/Persistence_on_rectangle.h',
                                       'src/Persistent_cohomology/include/gudhi/Persistence_on_a_line.h'],
              no_inst=True),
         Unit('probe', 'static_probe.cpp', [os.path.join(facts.VERIF, 'drivers', 'static_probe.cpp')], no_inst=True)]
HR = 'src/Persistent_cohomology/include/gudhi/Persistence_on_rectangle.h'
HL = 'src/Persistent_cohomology/include/gudhi/Persistence_on_a_line.h'

VERT = {(-1, 0): 'UL', (0, 0): 'UR', (-1, -1): 'DL', (0, -1): 'DR'}
EDGE = {frozenset(('UL', 'UR')): 'up', frozenset(('DL', 'DR')): 'down', frozenset(('DL', 'UL')): 'left',
        frozenset(('DR', 'UR')): 'right'}
SQDIR = {(0, 1): 'up', (0, -1): 'down', (-1, 0): 'left', (1, 0): 'right'}
NEIGH = [(-1, 0), (1, 0), (0, -1), (0, 1), (-1, -1), (-1, 1), (1, -1), (1, 1)]
VOWN = {'UL': [(-1, 0), (0, 1), (-1, 1)], 'UR': [(1, 0), (0, 1), (1, 1)],
        'DL': [(-1, 0), (0, -1), (-1, -1)], 'DR': [(1, 0), (0, -1), (1, -1)]}
EOWN = {'up': (0, 1), 'down': (0, -1), 'left': (-1, 0), 'right': (1, 0)}
# cells that are stored for a border square (the rest collapses onto the exterior by the routine's convention)
STORED = {'interior': None,
          'first-row': {'e:up', 'v:UL', 'v:UR'}, 'last-row': {'e:down', 'v:DL', 'v:DR'},
          'first-column': {'e:right', 'v:DR', 'v:UR'}, 'last-column': {'e:left', 'v:DL', 'v:UL'}}


class Sym:
    """a*i-free linear form  i + a + b*dy  (only offsets matter)"""

    def __init__(self, base=0, a=0, b=0):
        self.base, self.a, self.b = base, a, b     # base = coefficient of i (0 or 1)

    def __add__(self, o):
        return Sym(self.base + o.base, self.a + o.a, self.b + o.b)

    def __sub__(self, o):
        return Sym(self.base - o.base, self.a - o.a, self.b - o.b)

    def key(self):
        return (self.base, self.a, self.b)


NEIGHBOUR_PREDICATES = {'has_larger_input'}   # completed by run_neighbour_predicates from the class itself


class LeafEval:
    """interprets one block of fill_and_pair under a valuation of the neighbour predicates"""

    def __init__(self, lambdas, valuation):
        self.lambdas = lambdas          # var id -> LambdaExpr
        self.val = valuation            # (dx, dy) -> bool (neighbour larger)
        self.actions = []
        self.env = {}

    def sym(self, e):
        e = ir.skipcasts(e)
        if e is None:
            raise predeval.Unknown('empty index expression')
        k = e.get('k')
        c = e.get('c') or []
        if k == 'IntegerLiteral':
            return Sym(0, int(e['v']), 0)
        if k == 'DeclRefExpr':
            n = e.get('n')
            if n == 'i':
                return Sym(1, 0, 0)
            if n in self.env:
                return self.env[n]
            raise predeval.Unknown('unknown variable %s in an index expression' % n)
        if k in ir.MEMBER_KINDS and e.get('n') == 'dy':
            return Sym(0, 0, 1)
        if k == 'BinaryOperator' and e.get('op') in ('+', '-'):
            l, r = self.sym(c[0]), self.sym(c[1])
            return l + r if e['op'] == '+' else l - r
        if ir.is_call(e):
            lam = self.lambda_of(e)
            if lam is not None:
                r = self.call_lambda(lam, e, want='sym')
                if not isinstance(r, Sym):
                    raise predeval.Unknown('lambda %s does not return an index' % ir.show(e))
                return r
        if k in ('CXXConstructExpr', 'CXXFunctionalCastExpr', 'ParenExpr') and len(c) == 1:
            return self.sym(c[0])
        raise predeval.Unknown('index expression of unknown shape: %s' % ir.show(e)[:80])

    def lambda_of(self, call):
        ce = ir.callee_expr(call)
        if call.get('k') == 'CXXOperatorCallExpr' and call.get('op') == '()':
            ce = ir.skipcasts((call.get('c') or [None, None])[1])
        if ce is not None and ce.get('k') == 'DeclRefExpr' and ce.get('id') in self.lambdas:
            return self.lambdas[ce['id']]
        return None

    def call_lambda(self, lam, call, want):
        args = ir.call_args(call)
        if call.get('k') == 'CXXOperatorCallExpr':
            args = args[1:]
        saved = dict(self.env)
        for p, a in zip(lam.get('params', []), args):
            self.env[p.get('n')] = self.sym(a)
        try:
            ev = predeval.Evaluator(self.oracle)
            ev.env = {}
            r = ev.run(lam.get('body'))
        finally:
            self.env = saved
        return r

    def oracle(self, e, env):
        k = e.get('k')
        if k == 'VarDecl':
            i = ir.skipcasts(e.get('init'))
            if i is not None and i.get('k') == 'LambdaExpr':
                self.lambdas[e.get('id')] = i
                return ('lambda', e.get('n'))
            return None
        if k == 'LambdaExpr':
            return ('lambda', None)
        if ir.is_call(e):
            name = ir.call_name(e)
            lam = self.lambda_of(e)
            if lam is not None:
                r = self.call_lambda(lam, e, want='any')
                return r if r is not None else 0
            args = ir.call_args(e)
            if name in NEIGHBOUR_PREDICATES:
                s = self.sym(args[0])
                # (that the predicate compares with the current cell i is decided per call site by E8-predicate)
                if s.base != 1:
                    raise predeval.Unknown('has_larger_input not relative to the current square')
                off = (s.a, s.b)
                if off not in self.val:
                    raise predeval.Unknown('neighbour offset %s outside the 3x3 window' % (off,))
                return self.val[off]
            if name == 'set_parent_vertex':
                self.actions.append(('pair-vertex', self.vname(args[0]), self.vname(args[1])))
                return 0
            if name == 'set_parent_square':
                s, t = self.sym(args[0]), self.sym(args[1])
                d = (t - s)
                if s.key() != (1, 0, 0) or (d.a, d.b) not in SQDIR or d.base != 0:
                    raise predeval.Unknown('set_parent_square with an unexpected target')
                self.actions.append(('pair-square', SQDIR[(d.a, d.b)]))
                return 0
            if name == 'emplace_back' and ir.show(ir.call_receiver(e)) == 'edges':
                self.actions.append(('critical-edge', self.vname(args[1]), self.vname(args[2])))
                return 0
            if name in ('T', 'input'):
                return ('opaque', name)
        if k == 'BinaryOperator' and e.get('op') in ('+', '-'):
            return self.sym(e)
        if k == 'DeclRefExpr' and (e.get('n') == 'i' or e.get('n') in self.env):
            return self.sym(e)
        if k in ('BinaryOperator', 'CXXOperatorCallExpr') and e.get('op') == '=':
            c = e.get('c') or []
            lhs = ir.skipcasts(c[0] if k == 'BinaryOperator' else c[1])
            if ir.is_call(lhs) and ir.call_name(lhs) == 'ds_parent_vertex':
                a = self.vname(ir.call_args(lhs)[0])
                b = self.vname(c[-1])
                if a != b:
                    raise predeval.Unknown('ds_parent_vertex(x) = y with x != y outside set_parent_vertex')
                self.actions.append(('critical-vertex', a))
                return 0
            if ir.is_call(lhs) and ir.call_name(lhs) == 'ds_parent_square':
                s = self.sym(ir.call_args(lhs)[0])
                t = self.sym(c[-1])
                if s.key() != (1, 0, 0) or t.key() != (1, 0, 0):
                    raise predeval.Unknown('ds_parent_square assignment of unexpected shape')
                self.actions.append(('critical-square',))
                return 0
            if ir.is_call(lhs) and ir.call_name(lhs) == 'data_vertex':
                return 0     # value stored for a critical vertex (paired with the ds_parent_vertex write above)
        return None

    def vname(self, e):
        s = self.sym(e)
        if s.base != 1 or (s.a, s.b) not in VERT:
            raise predeval.Unknown('vertex index %s is not one of the four corners of the current square'
                                   % ir.show(e))
        return VERT[(s.a, s.b)]


def owned_cells(val, stored):
    cells = set()
    for e, off in EOWN.items():
        if val.get(off):
            cells.add('e:' + e)
    for v, offs in VOWN.items():
        if all(val.get(o) for o in offs):
            cells.add('v:' + v)
    cells.add('s')
    if stored is not None:
        cells &= stored
    return cells


def covered_cells(actions):
    """multiset of cells used by an action list, plus structural errors"""
    used = []
    errs = []
    for a in actions:
        if a[0] == 'pair-vertex':
            if a[1] == a[2] or frozenset((a[1], a[2])) not in EDGE:
                errs.append('vertex %s paired along a non-edge to %s' % (a[1], a[2]))
                continue
            used += ['v:' + a[1], 'e:' + EDGE[frozenset((a[1], a[2]))]]
        elif a[0] == 'pair-square':
            used += ['s', 'e:' + a[1]]
        elif a[0] == 'critical-vertex':
            used.append('v:' + a[1])
        elif a[0] == 'critical-edge':
            if frozenset((a[1], a[2])) not in EDGE:
                errs.append('critical edge between non-adjacent vertices %s %s' % (a[1], a[2]))
                continue
            used.append('e:' + EDGE[frozenset((a[1], a[2]))])
        elif a[0] == 'critical-square':
            used.append('s')
    return used, errs


def blocks_of_fill_and_pair(fn):
    """(kind, statement list to evaluate, lambda table) for the interior tree and the four border blocks"""
    body = fn['body']
    lambdas = {}
    for x in ir.walk(body):
        if x.get('k') == 'VarDecl' and x.get('init') is not None:
            i = ir.skipcasts(x['init'])
            if i is not None and i.get('k') == 'LambdaExpr':
                lambdas[x['id']] = i
    top = body.get('c') or []
    fors = [s for s in top if s.get('k') == 'ForStmt']
    if len(fors) != 3:
        raise AnalysisBroken('C14: fill_and_pair: expected 3 top-level loops (first row, internal rows, last row), '
                             'found %d' % len(fors))

    def strip_if(stmts):
        """drop the assignments `i = ...; f = input(...)` that only select the square"""
        out = []
        for s in stmts:
            t = ir.write_target(s)
            if t is not None and ir.show(t) in ('i', 'f'):
                continue
            out.append(s)
        return out

    def body_stmts(s):
        b = s.get('body')
        return (b.get('c') or []) if b is not None and b.get('k') == 'CompoundStmt' else [b]
    blocks = [('first-row', strip_if(body_stmts(fors[0]))), ('last-row', strip_if(body_stmts(fors[2])))]
    inner = body_stmts(fors[1])
    comp = [s for s in inner if s.get('k') == 'CompoundStmt']
    ifor = [s for s in inner if s.get('k') == 'ForStmt']
    if len(comp) != 2 or len(ifor) != 1:
        raise AnalysisBroken('C14: fill_and_pair: internal-rows loop has an unexpected shape')
    blocks.append(('first-column', strip_if(comp[0].get('c') or [])))
    blocks.append(('last-column', strip_if(comp[1].get('c') or [])))
    blocks.append(('interior', strip_if(body_stmts(ifor[0]))))
    return blocks, lambdas, top


def run_neighbour_predicates(chk, fn, F):
    """E8-predicate: fill_and_pair decides "is this neighbour larger than the current cell" in the total order
    (value, then index). Every call of a neighbour predicate (a bool member function of the class that reads
    input(a)) is evaluated with the predicate's own body inlined, on the three relations of the two values; the index
    comparison is resolved from the call site: the neighbour a = i + da + db*dy lies after i iff db > 0, or db == 0
    and da > 0 (|da| <= 1 < dy, the entry point requires at least two columns). The predicate must answer
    `value(a) > value(i)  or  (value(a) == value(i) and a after i)`. The leaf enumeration below then treats every
    such call as the neighbour's truth value."""
    cls = fn.get('cls')
    helpers = {}
    for f in F.functions:
        if f.get('cls') != cls or f.get('body') is None or f is fn:
            continue
        if (f.get('ret') or '').strip() != 'bool' or len(f.get('params', [])) < 2:
            continue
        if ir.contains(f['body'], lambda y: ir.is_call(y) and ir.call_name(y) == 'input'):
            helpers[f['name']] = f
    if not helpers:
        raise AnalysisBroken('C14: no neighbour predicate found in the class of fill_and_pair')
    NEIGHBOUR_PREDICATES.clear()
    NEIGHBOUR_PREDICATES.update(helpers)
    blocks, lambdas, _top = blocks_of_fill_and_pair(fn)
    probe = LeafEval(dict(lambdas), {})
    n = 0
    bad = None
    ties = []
    for x in ir.walk(fn['body']):
        if not (ir.is_call(x) and ir.call_name(x) in helpers):
            continue
        h = helpers[ir.call_name(x)]
        args = ir.call_args(x)
        try:
            sa = probe.sym(args[0])
        except predeval.Unknown as e:
            raise AnalysisBroken('C14: neighbour predicate call at line %s: %s' % (x.get('l'), e))
        if sa.base != 1 or (sa.a, sa.b) == (0, 0):
            raise AnalysisBroken('C14: neighbour predicate call at line %s is not relative to the current cell'
                                 % x.get('l'))
        after = sa.b > 0 or (sa.b == 0 and sa.a > 0)
        pa = h['params'][0]['n']
        # which parameter carries the current cell's index / value, from the call site
        idx_b = None
        val_b = None
        for p_, a_ in zip(h['params'][1:], args[1:]):
            t = ir.show(a_).replace(' ', '')
            if t == 'i':
                idx_b = p_['n']
            elif t == 'f':
                val_b = p_['n']
            else:
                raise AnalysisBroken('C14: neighbour predicate at line %s compares with `%s`, not with the current '
                                     'cell (i, f)' % (x.get('l'), t))
        if val_b is None:
            raise AnalysisBroken('C14: neighbour predicate %s does not take the current value' % h['name'])
        n += 1
        for rel_ in ('lt', 'eq', 'gt'):          # value(a) rel value(i)
            loc = {}

            def term(e):
                e = ir.skipcasts(e)
                if e is None:
                    return None
                if ir.is_call(e) and ir.call_name(e) == 'input' and ir.show(ir.call_args(e)[0]) == pa:
                    return 'VA'
                if e.get('k') == 'DeclRefExpr':
                    nme = e.get('n')
                    if nme == val_b:
                        return 'VB'
                    if nme == pa:
                        return 'IA'
                    if nme == idx_b:
                        return 'IB'
                    return loc.get(nme)
                return None

            def oracle(e, env, rel_=rel_):
                k = e.get('k')
                if k == 'VarDecl':
                    t = term(e.get('init')) if e.get('init') is not None else None
                    if t:
                        loc[e['n']] = t
                        return t
                    return None
                if k in ('BinaryOperator', 'CXXOperatorCallExpr') and e.get('op') in ('<', '>', '<=', '>=', '==', '!='):
                    cs = (e.get('c') or [])[-2:]
                    l, r = term(cs[0]), term(cs[1])
                    if l is None or r is None:
                        return None
                    op = e['op']
                    if {l, r} == {'VA', 'VB'}:
                        c_ = {'lt': -1, 'eq': 0, 'gt': 1}[rel_]
                        if l == 'VB':
                            c_ = -c_
                    elif {l, r} == {'IA', 'IB'}:
                        c_ = 1 if after else -1
                        if l == 'IB':
                            c_ = -c_
                    else:
                        return None
                    return {'<': c_ < 0, '>': c_ > 0, '<=': c_ <= 0, '>=': c_ >= 0, '==': c_ == 0, '!=': c_ != 0}[op]
                if k == 'CXXThrowExpr':
                    raise predeval.Unknown('the predicate throws on this valuation')
                return None
            try:
                got = predeval.Evaluator(oracle).run(h['body'])
            except predeval.Unknown as e:
                raise AnalysisBroken('C14: neighbour predicate %s has a shape the evaluator does not know: %s'
                                     % (h['name'], e))
            if rel_ == 'eq':
                # the tie-break is arbitrary but has to be one rule for all pairs: "the later cell is larger" or
                # "the earlier cell is larger" - collected per call site, compared below
                ties.append((x, h['name'], (sa.a, sa.b), got, got == after))
                continue
            exp = rel_ == 'gt'
            if got is not exp and bad is None:
                bad = (x, h['name'], (sa.a, sa.b), rel_, got, exp)
    chk.count('neighbour predicate call sites', n)
    if n < 24:
        raise AnalysisBroken('C14: only %d neighbour predicate calls found in fill_and_pair' % n)
    later_wins = [t for t in ties if t[4]]
    earlier_wins = [t for t in ties if not t[4]]
    if bad is None and later_wins and earlier_wins:
        minority = later_wins if len(later_wins) < len(earlier_wins) else earlier_wins
        t = minority[0]
        bad = (t[0], t[1], t[2], 'eq', t[3], not t[3])
    chk.ob('E8-predicate', 'fill_and_pair: every neighbour predicate call decides the total order (value, index) '
           'against the current cell (%d call sites x 3 value relations)' % n, '%s:%d' % (HR, fn['line']),
           bad is None, '' if bad is None else 'line %s: %s for the neighbour at offset (dx=%d, dy=%d), which lies %s '
           'the current cell: when the two values are %s it answers %s, the order used by the other call sites requires '
           '%s - on a tie two squares claim the same cell' % (bad[0].get('l'), bad[1], bad[2][0], bad[2][1],
                                    'after' if (bad[2][1] > 0 or (bad[2][1] == 0 and bad[2][0] > 0)) else 'before',
                                    {'lt': 'value(a) < value(i)', 'eq': 'equal', 'gt': 'value(a) > value(i)'}[bad[3]],
                                    bad[4], bad[5]), key='E8|fill_and_pair|predicate')


def run_leaves(chk, fn):
    blocks, lambdas, top = blocks_of_fill_and_pair(fn)
    total = 0
    for kind, stmts in blocks:
        # which neighbour predicates does this block consult?
        offs = set()
        probe = LeafEval(dict(lambdas), {})
        for x in (y for s in stmts for y in ir.walk(s)):
            if ir.is_call(x) and ir.call_name(x) in NEIGHBOUR_PREDICATES:
                try:
                    sy = probe.sym(ir.call_args(x)[0])
                    offs.add((sy.a, sy.b))
                except predeval.Unknown as e:
                    raise AnalysisBroken('C14: %s: %s' % (kind, e))
        offs = sorted(offs)
        if kind == 'interior' and len(offs) != 8:
            raise AnalysisBroken('C14: interior block consults %d neighbours, expected 8' % len(offs))
        bad = None
        n = 0
        for bits in itertools.product((False, True), repeat=len(offs)):
            val = dict(zip(offs, bits))
            ev = LeafEval(dict(lambdas), val)
            try:
                pe = predeval.Evaluator(ev.oracle)
                for s in stmts:
                    pe.stmt(s)
            except predeval.Return:
                pass
            except predeval.Unknown as e:
                raise AnalysisBroken('C14: fill_and_pair (%s) has a shape the evaluator does not know: %s' % (kind, e))
            n += 1
            owned = owned_cells(val, STORED[kind])
            used, errs = covered_cells(ev.actions)
            msg = None
            if errs:
                msg = errs[0]
            else:
                dup = sorted({c for c in used if used.count(c) > 1})
                missing = sorted(owned - set(used))
                extra = sorted(set(used) - owned)
                if dup:
                    msg = 'cell(s) %s used twice' % dup
                elif missing:
                    msg = 'owned cell(s) %s neither paired nor marked critical' % missing
                elif extra:
                    msg = 'cell(s) %s touched although another square owns them' % extra
            if msg and bad is None:
                larger = [o for o in offs if val[o]]
                bad = (larger, msg, ev.actions)
        total += n
        chk.ob('E8-leaves', 'fill_and_pair %s block: every valuation pairs or marks each owned cell exactly once '
               '(%d valuations)' % (kind, n), '%s:%d' % (HR, fn['line']), bad is None,
               '' if bad is None else 'when exactly the neighbours at offsets %s are larger: %s (actions %s)' % bad,
               key='E8|fill_and_pair|%s' % kind)
    chk.count('leaf valuations enumerated', total)
    chk.exhaustive = True
    return top


def run_corners(chk, fn, top, F):
    """the four unconditional mark_vertex_critical(corner vertex) before the loops"""
    # precondition of the entry point: n_rows >= A && n_cols >= B
    entry = [f for f in F.functions if f['name'] == 'persistence_on_rectangle_from_top_cells']
    if not entry:
        raise AnalysisBroken('C14: entry point not found')
    mins = {}
    for x in ir.walk(entry[0]['body']):
        if x.get('k') == 'BinaryOperator' and x.get('op') == '>=':
            l, r = ir.skipcasts(x['c'][0]), ir.skipcasts(x['c'][1])
            if l.get('k') == 'DeclRefExpr' and r.get('k') == 'IntegerLiteral' and l.get('n') in ('n_rows', 'n_cols'):
                mins[l['n']] = int(r['v'])
    if set(mins) != {'n_rows', 'n_cols'}:
        raise AnalysisBroken('C14: precondition `n_rows >= a && n_cols >= b` not found in the entry point')
    # symbols: sx = size_x (= n_cols - 1), sy = size_y (= n_rows - 1), dy = sx + 1, t = dy * sy
    sx, sy, t = Lin.sym('sx'), Lin.sym('sy'), Lin.sym('t')
    dy = sx + 1
    cons = [sx - (mins['n_cols'] - 1), sy - (mins['n_rows'] - 1)]
    # t = dy * sy: linear consequences of the lower bounds (McCormick): with sy >= m and dy >= n,
    #   t >= m*dy + n*sy - m*n   (from (dy - n)(sy - m) >= 0),   t >= 0
    m, n = mins['n_rows'] - 1, mins['n_cols']
    cons += [t, t - dy.scale(m) - sy.scale(n) + m * n]
    cur_i = None
    forms = []
    for s in top:
        if s.get('k') == 'ForStmt':
            break
        for x in ([s] if s.get('k') != 'CompoundStmt' else s.get('c') or []):
            pass
        tgt = ir.write_target(s) if s.get('k') in ('BinaryOperator',) else None
        stmts = [s]
        if s.get('k') == 'BinaryOperator' and s.get('op') == ',':
            stmts = s['c']
        for st in stmts:
            tg = ir.write_target(st)
            if tg is not None and ir.show(tg) == 'i':
                cur_i = lin_of(st['c'][1], sx, sy, t)
            elif ir.is_call(st) and ir.show(ir.callee_expr(st)) == 'mark_vertex_critical':
                arg = ir.show(ir.call_args(st)[0] if st.get('k') != 'CXXOperatorCallExpr' else ir.call_args(st)[1])
                off = {'v_up_left()': Lin(-1), 'v_up_right()': Lin(0), 'v_down_left()': -dy - 1,
                       'v_down_right()': -dy}.get(arg)
                if off is None or cur_i is None:
                    raise AnalysisBroken('C14: corner write of unknown shape: %s' % arg)
                forms.append((cur_i + off, st))
    if len(forms) != 4:
        raise AnalysisBroken('C14: expected 4 provisional corner writes, found %d' % len(forms))
    clash = []
    for (a, sa), (b, sb) in itertools.combinations(forms, 2):
        # distinct iff `a == b` is infeasible under the constraints
        if not fm_infeasible(cons + [b - a, a - b]):
            clash.append((sa.get('l'), sb.get('l')))
    chk.ob('E3-corners', 'the four provisional corner vertices are pairwise distinct under the precondition '
           'n_rows >= %d, n_cols >= %d' % (mins['n_rows'], mins['n_cols']), '%s:%d' % (HR, forms[0][1].get('l')),
           not clash, '' if not clash else 'the corner writes at lines %s can address the same vertex (a side with '
           'exactly two cells): the later unconditional write overwrites the earlier corner\'s value' % clash,
           key='E3|fill_and_pair|corner-vertices')


def lin_of(e, sx, sy, t):
    e = ir.skipcasts(e)
    k = e.get('k')
    c = e.get('c') or []
    if k == 'IntegerLiteral':
        return Lin(int(e['v']))
    if k in ir.MEMBER_KINDS or k == 'DeclRefExpr':
        n = e.get('n')
        if n == 'size_x':
            return sx
        if n == 'size_y':
            return sy
        if n == 'dy':
            return sx + 1
    if k == 'BinaryOperator' and e.get('op') in ('+', '-'):
        l, r = lin_of(c[0], sx, sy, t), lin_of(c[1], sx, sy, t)
        return l + r if e['op'] == '+' else l - r
    if k == 'BinaryOperator' and e.get('op') == '*':
        names = sorted(ir.show(x) for x in c)
        if names == ['dy', 'size_y']:
            return t
    raise AnalysisBroken('C14: corner index expression of unknown shape: %s' % ir.show(e))


def run_union_find(chk, F):
    """dual(): after the guard the root that gets a parent is never the exterior 0 and never has the strictly
    larger input of two real roots; primal(): the root that gets a parent is never the strictly smaller vertex.
    Unknown comparisons are free atoms (explored both ways)."""
    for name, exterior in (('dual', True), ('primal', False)):
        fs = [f for f in F.functions if f['name'] == name and f.get('clsname') == 'Persistence_on_rectangle']
        if len(fs) != 1:
            raise AnalysisBroken('C14: %s not found' % name)
        fn = fs[0]
        guards = [x for x in ir.walk(fn['body']) if x.get('k') == 'IfStmt' and
                  ir.contains(x.get('then'), lambda y: ir.is_call(y) and ir.call_name(y) == 'swap')
                  and sorted(ir.show(a) for y in ir.walk(x.get('then')) if ir.is_call(y) and
                             ir.call_name(y) == 'swap' for a in ir.call_args(y)) == ['a', 'b']]
        writes = [x for x in ir.walk(fn['body']) if ir.write_target(x) is not None and
                  ir.show(ir.write_target(x)) in ('ds_parent_square(b)', 'ds_parent_vertex(b)')
                  and ir.show(x['c'][-1]) == 'a']
        where = '%s:%d' % (HR, fn['line'])
        if len(guards) != 1 or len(writes) != 1:
            chk.ob('E9-union', '%s: one `if (...) swap(a, b)` guard followed by `parent(b) = a`' % name, where,
                   False, '%d guards, %d parent writes found' % (len(guards), len(writes)),
                   key='E9|%s|shape' % name)
            continue
        cond = guards[0]['cond']
        # local lambdas used by the guard are inlined by the evaluator
        lambdas = {x['id']: ir.skipcasts(x['init']) for x in ir.walk(fn['body'])
                   if x.get('k') == 'VarDecl' and x.get('init') is not None and
                   (ir.skipcasts(x['init']) or {}).get('k') == 'LambdaExpr'}
        bad = None
        n = 0
        free_atoms = []

        def atoms_of(c, acc):
            for x in ir.walk(c):
                if x.get('k') in ('BinaryOperator', 'CXXOperatorCallExpr') and x.get('op') in predeval.CMP_OPS:
                    t = ir.show(x)
                    if t not in acc:
                        acc.append(t)
        acc = []
        atoms_of(cond, acc)
        for lam in lambdas.values():
            atoms_of(lam.get('body'), acc)
        scen = [('a0', True, False), ('b0', False, True), ('none', False, False)] if exterior else \
            [('none', False, False)]
        for sname, a0, b0 in scen:
            for relab in ('lt', 'eq', 'gt'):           # order of the stored values of a and b
                for free in itertools.product((False, True), repeat=min(len(acc), 6)):
                    fv = dict(zip(acc, free))
                    n += 1

                    def oracle(e, env, a0=a0, b0=b0, relab=relab, fv=fv):
                        k = e.get('k')
                        if k == 'VarDecl':
                            return ('decl',)
                        if k in ('BinaryOperator', 'CXXOperatorCallExpr') and e.get('op') in predeval.CMP_OPS:
                            c = e.get('c') or []
                            if k == 'CXXOperatorCallExpr':
                                c = c[1:]
                            l, r = ir.show(c[0]), ir.show(c[1])
                            op = e['op']
                            zero = {'a': a0, 'b': b0}
                            if r == '0' and l in zero and op in ('==', '!='):
                                return zero[l] if op == '==' else not zero[l]
                            val = {'input(a)': 'a', 'input(b)': 'b', 'data_vertex(a)': 'a', 'data_vertex(b)': 'b'}
                            if l in val and r in val and l != r and not (exterior and (a0 or b0)):
                                rel_ = relab if (val[l], val[r]) == ('a', 'b') else {'lt': 'gt', 'gt': 'lt',
                                                                                     'eq': 'eq'}[relab]
                                return predeval.rel_truth(rel_, op, False)
                            return fv.get(ir.show(e), False)
                        if ir.is_call(e):
                            ce = ir.callee_expr(e)
                            if ce is not None and ce.get('k') == 'DeclRefExpr' and ce.get('id') in lambdas:
                                lam = lambdas[ce['id']]
                                args = ir.call_args(e)
                                if e.get('k') == 'CXXOperatorCallExpr':
                                    args = args[1:]
                                sub = predeval.Evaluator(lambda ee, env2: oracle_sub(ee, lam, args))
                                return ('opaque', ir.show(e))
                        return None

                    def oracle_sub(ee, lam, args):
                        return None
                    try:
                        swapped = predeval.Evaluator(oracle).truth(cond)
                    except predeval.Unknown:
                        # guard of a shape the evaluator cannot interpret: treat as free (both outcomes)
                        swapped = None
                    for sw in ((True, False) if swapped is None else (swapped,)):
                        dies_is_a = sw          # after swap b' = old a
                        dies_zero = a0 if dies_is_a else b0
                        msg = None
                        if exterior and dies_zero:
                            msg = 'the exterior cell 0 receives a parent (dies)'
                        elif not (a0 or b0):
                            if exterior:
                                # the cluster with the smaller input dies
                                dies_larger = (relab == 'gt') if dies_is_a else (relab == 'lt')
                                if dies_larger:
                                    msg = 'of two real clusters the one with the larger input dies'
                            else:
                                dies_smaller = (relab == 'lt') if dies_is_a else (relab == 'gt')
                                if dies_smaller:
                                    msg = 'of two vertex clusters the one with the smaller value dies'
                        if msg and bad is None:
                            bad = (sname, relab, msg)
        chk.count('union-find guard valuations', n)
        chk.ob('E9-union', '%s: the root that receives a parent is the right one for every valuation of the guard'
               % name, where, bad is None, '' if bad is None else 'scenario %s, values a %s b: %s' % bad,
               key='E9|%s|survivor' % name)


def run_line(chk, F):
    fs = [f for f in F.functions if f['name'] == 'compute_persistence_of_function_on_line']
    if len(fs) != 1:
        raise AnalysisBroken('C14: compute_persistence_of_function_on_line not found')
    fn = fs[0]
    cmpname = fn['params'][-1]['n']
    where = '%s:%d' % (HL, fn['line'])
    # every run that has read a value ends with the infinite interval of the global minimum: the routine is a goto
    # state machine whose only way out, once the first value was read, is to fall off its end behind the label
    # `infinite` (whose statement reports (minimum, +infinity)); a `return` after the first read skips that report
    order = list(ir.walk(fn['body'], False))
    first_read = None
    for idx_, x in enumerate(order):
        if x.get('k') in ('UnaryOperator', 'CXXOperatorCallExpr') and x.get('op') == '*' and \
                ir.show(x).replace(' ', '').lstrip('(').startswith(('*it', '*(it')):
            first_read = idx_
            break
    if first_read is None:
        raise AnalysisBroken('C14: the first read of the input was not found in the 1-D routine')
    late = [x for idx_, x in enumerate(order) if idx_ > first_read and x.get('k') == 'ReturnStmt']
    labels = [x for x in order if x.get('k') == 'LabelStmt']
    last = (fn['body'].get('c') or [None])[-1]
    tail_ok = last is not None and ir.contains(last, lambda y: ir.is_call(y) and 'infinity' in ir.show(y))
    ok = not late and tail_ok
    chk.ob('E2-line-exit', 'the 1-D routine reports the infinite interval on every run that read a value: no return '
           'after the first read, the body ends with out(minimum, +infinity)', where, ok,
           '' if ok else ('a `return` at line %s leaves the routine after values were read: the interval '
                          '(global minimum, +infinity) is never reported for such inputs' % late[0].get('l')
                          if late else 'the last statement of the body no longer reports the infinite interval'),
           key='E2|line|exit')
    # derived comparators
    lam = {}
    for x in ir.walk(fn['body']):
        if x.get('k') == 'VarDecl' and x.get('init') is not None:
            i = ir.skipcasts(x['init'])
            if i is not None and i.get('k') == 'LambdaExpr' and len(i.get('params', [])) == 2:
                lam[x['n']] = i
    expect = {'le': ('lt', 'eq'), 'ge': ('gt', 'eq'), 'gt': ('gt',)}
    for name, truths in expect.items():
        if name not in lam:
            raise AnalysisBroken('C14: derived comparator %s not found' % name)
        l = lam[name]
        px, py = [p['n'] for p in l['params']]
        bad = None
        for relv in ('lt', 'eq', 'gt'):
            def oracle(e, env, relv=relv, px=px, py=py):
                if ir.is_call(e) and ir.show(ir.callee_expr(e)) == cmpname:
                    a = [ir.show(y) for y in ir.call_args(e)]
                    if e.get('k') == 'CXXOperatorCallExpr':
                        a = a[1:]
                    if a == [px, py]:
                        return relv == 'lt'
                    if a == [py, px]:
                        return relv == 'gt'
                return None
            try:
                got = predeval.Evaluator(oracle).run(l['body'])
            except predeval.Unknown as e:
                raise AnalysisBroken('C14: derived comparator %s: %s' % (name, e))
            if got is not (relv in truths) and bad is None:
                bad = (relv, got)
        chk.ob('E9-derived', '%s is the correct derivative of the user comparator (3 relations)' % name,
               '%s:%s' % (HL, l.get('l')), bad is None, '' if bad is None else 'for x %s y it returns %s' % bad,
               key='E9|line|%s' % name)
    # comparator discipline: no built-in relational operator on filtration values
    lamids = set(id(v) for v in lam.values())
    offenders = []
    n_cmp = 0
    for x in ir.walk(fn['body']):
        if ir.is_call(x):
            t = ir.show(ir.callee_expr(x))
            if t in (cmpname, 'le', 'ge', 'gt'):
                n_cmp += 1
        if x.get('k') in ('BinaryOperator', 'CXXOperatorCallExpr') and x.get('op') in ('<', '>', '<=', '>='):
            c = x.get('c') or []
            if x['k'] == 'CXXOperatorCallExpr':
                c = c[1:]
            ts = [ir.show(y) for y in c]
            if any(t == 'v' or t.startswith('data[') or t.startswith('data.back') or t.startswith('data.end()[')
                   or t.startswith('data.front') or t.startswith('*') for t in ts):
                offenders.append(x)
    chk.count('comparator calls in the 1-D routine', n_cmp)
    chk.ob('E10-comparator', 'the 1-D routine orders filtration values only through the user comparator', where,
           not offenders, '' if not offenders else 'line %s compares values with the built-in operator %s: a custom '
           'comparator (e.g. std::greater) is bypassed' % (offenders[0].get('l'), ir.show(offenders[0])),
           key='E10|line|comparator-discipline')
    chk.expect_count('E10-comparator', 'comparator calls', n_cmp, 8)


def run_no_state(chk, F):
    """E6a-stateless: both routines are functions of their input ("for all inputs"): the two headers keep no object of
    static or thread storage duration that is not const - a recycled workspace makes the answer depend on the calls
    made before on the same thread. The extractor's view of such objects is checked on every run against a positive
    control (drivers/static_probe.cpp: a function-local thread_local object and a static data member)."""
    probe = [v for v in F.staticvars if v['file'].endswith('static_probe.cpp') and not v['const'] and not v['constexpr']]
    if len(probe) < 2:
        raise AnalysisBroken('C14: the extractor no longer reports the static objects of the positive control '
                             '(%d seen)' % len(probe))
    chk.count('positive-control static objects seen', len(probe))
    bad = [v for v in F.staticvars if not v['file'].endswith('static_probe.cpp') and not v['const'] and
           not v['constexpr'] and not v.get('emptytype')]
    for hdr, name in ((HR, 'Persistence_on_rectangle.h'), (HL, 'Persistence_on_a_line.h')):
        mine = [v for v in bad if v['file'].endswith(name)]
        problems = []
        for v in mine:
            # a recycled object of one of the header's own classes is harmless exactly when the entry point
            # re-initialises, as a whole, every container member (resize / reserve keep the old content)
            cls = [c for c in F.classes if c.get('name') and c['file'].endswith(name) and
                   re.match(r'(const )?%s\b' % re.escape(c['name']), (v.get('t') or ''))]
            if not cls:
                problems.append('line %s: `%s` of type %s%s: what a call leaves in it is seen by the next call' % (
                    v['line'], v['qual'], (v.get('t') or '?')[:60], ' (thread_local)' if v.get('tls') else ''))
                continue
            c = cls[0]
            inits = [f for f in F.functions if f.get('clsname') == c['name'] and f['name'] == 'init' and
                     f.get('body') is not None]
            if not inits:
                problems.append('line %s: `%s` is recycled between calls and %s has no init()' % (
                    v['line'], v['qual'], c['name']))
                continue
            for fld in c.get('fields', []):
                ft = fld.get('t') or ''
                if not re.search(r'\b(vector|deque|list|map|set|unordered_\w+|string)\s*<', ft):
                    continue
                whole = False
                for x in ir.walk(inits[0]['body']):
                    if ir.is_call(x) and ir.call_name(x) in ('assign', 'clear', 'swap') and \
                            ir.call_receiver(x) is not None and ir.show(ir.call_receiver(x)) == fld['n']:
                        whole = True
                    t = ir.write_target(x)
                    if t is not None and x.get('op') == '=' and ir.show(t) == fld['n']:
                        whole = True
                if not whole:
                    problems.append('line %s: `%s` (%s) is recycled between calls on a thread and init() does not '
                                    're-initialise the member `%s` as a whole (resize / reserve keep what the '
                                    'previous call left)' % (v['line'], v['qual'], 'thread_local' if v.get('tls')
                                                             else 'static', fld['n']))
        chk.ob('E6a-stateless', '%s: no state survives a call (no mutable static object, or a recycled workspace whose '
               'containers init() resets as a whole)' % name, hdr, not problems, '; '.join(problems[:3]),
               key='E6a|%s|stateless%s' % (name, ('|' + mine[0]['qual']) if problems else ''))


def run_value_follows_index(chk, F):
    """E10-value-follows-index: in fill_and_pair the locals `i` (the current square) and `f` (its value, read by the
    marking lambdas) move together: in every compound statement, after a statement that writes `i` the value `f` is
    written (`f = input(..)`) before the next statement that is neither of the two - otherwise the cell is marked with
    the value of the previous square (a corner vertex born at the value of another cell)."""
    fs = [f for f in F.functions if f['name'] == 'fill_and_pair' and f.get('inst') in (0, 2) and
          f.get('body') is not None]
    if not fs:
        raise AnalysisBroken('C14: fill_and_pair not found')
    f = fs[0]

    def writes(st, name):
        return any((ir.write_target(y) is not None and ir.show(ir.write_target(y)) == name) or
                   (y.get('k') == 'UnaryOperator' and y.get('op') in ('++', '--') and ir.show(y['c'][0]) == name)
                   for y in ir.walk(st, into_lambdas=False))
    n = 0
    bad = None
    for blk in ir.walk(f['body'], into_lambdas=False):
        if blk.get('k') != 'CompoundStmt':
            continue
        stale = None
        for st in blk.get('c') or []:
            wi, wf = writes(st, 'i'), writes(st, 'f')
            direct_i = wi and st.get('k') in ('BinaryOperator', 'CompoundAssignOperator', 'UnaryOperator')
            if direct_i:
                n += 1
                stale = st
                if wf:
                    stale = None
                continue
            if wf and st.get('k') in ('BinaryOperator', 'CompoundAssignOperator'):
                stale = None
                continue
            if stale is not None and st.get('k') not in ('DeclStmt', 'NullStmt'):
                if bad is None:
                    bad = (stale, st)
                stale = None
    if n == 0:
        raise AnalysisBroken('C14: no assignment to the square index `i` found in fill_and_pair')
    chk.ob('E10-value-follows-index', 'fill_and_pair: every move of the square index `i` is followed by a read of its '
           'value into `f` before anything else (%d moves)' % n, '%s:%d' % (rel(f['file']), f['line']), bad is None,
           '' if bad is None else 'line %s: `%s` moves the index and line %s goes on with the value of the previous '
           'square' % (bad[0].get('l'), ir.show(bad[0])[:40], bad[1].get('l')),
           key='E10|fill_and_pair|value-follows-index')


def run_state_entries(chk, F):
    """E8-state-entry: the 1-D routine is a machine of labelled states; `state132` and `state312` assume an ordering of
    the three values on top of the stack. A jump into one of them that has just pushed the sample `v` is taken only
    where `v` was compared with the value that becomes the third from the top (`data.end()[-2]` before the push, or
    `data[0]` when two values are stacked): the push-and-jump sits in an arm of - or falls through from - a test
    mentioning both. A jump that pushes and enters the state without that comparison breaks the ordering the state
    relies on (two intervals exchange their ends)."""
    fs = [f for f in F.functions if f['name'].startswith('compute_persistence_of_function_on_line') and
          f.get('inst') in (0, 2) and f.get('body') is not None]
    if not fs:
        raise AnalysisBroken('C14: the 1-D routine was not found')
    f = fs[0]
    n = 0
    bad = None
    for blk in ir.walk(f['body']):
        if blk.get('k') != 'CompoundStmt':
            continue
        sts = blk.get('c') or []
        flat = []
        for st in sts:                         # a label wraps the statement that follows it
            while st is not None and st.get('k') == 'LabelStmt':
                flat.append(st)
                st = st.get('sub')
            if st is not None:
                flat.append(st)
        for i, st in enumerate(flat):
            if st.get('k') != 'GotoStmt' or st.get('label') not in ('state132', 'state312'):
                continue
            span = []
            for prev in flat[:i][::-1]:
                if prev.get('k') == 'LabelStmt':
                    break
                span.append(prev)
            labelled = [prev for prev in flat[:i][::-1] if prev.get('k') == 'LabelStmt'][:1]
            # (the statement a label wraps belongs to the span: flat lists it right after the label)
            if not any(sp.get('k') != 'IfStmt' and 'push_back(v)' in ir.show(sp) for sp in span):
                continue
            n += 1
            # the guarding comparison: an enclosing if of this block, or an earlier if of the same block that leaves
            par = ir.parents(f['body'])
            conds = []
            cur = blk
            while id(cur) in par:
                up = par[id(cur)]
                if up.get('k') == 'IfStmt':
                    conds.append(ir.show(up.get('cond')))
                if up.get('k') == 'LabelStmt':
                    break
                cur = up
            for prev in span:
                if prev.get('k') == 'IfStmt':
                    conds.append(ir.show(prev.get('cond')))
            ok = any(re.search(r'\bv\b', c) and ('data.end()[-2]' in c.replace(' ', '') or 'data[0]' in c.replace(' ', ''))
                     for c in conds)
            if not ok and bad is None:
                bad = st
    if n == 0:
        raise AnalysisBroken('C14: no push-and-jump into state132 / state312 found in the 1-D routine')
    chk.ob('E8-state-entry', 'the 1-D routine pushes a sample and enters state132 / state312 only after comparing it with '
           'the value below the top (%d entries)' % n, '%s:%d' % (rel(f['file']), f['line']), bad is None,
           '' if bad is None else 'line %s: `goto %s` after a push, with no comparison of `v` with `data.end()[-2]` on '
           'the way: the ordering the state assumes is not established' % (bad.get('l'), bad.get('label')),
           key='E8|persistence_on_a_line|state-entry')


def run(tier, replay=None):
    chk = Check('C14', tier,
                'Static decision of structural clauses of the specialised routines. 2-D: fill_and_pair is evaluated '
                'on every valuation of its neighbour predicates (256 interior + 4 x 32 border leaves, exhaustive) and '
                'must pair or mark each cell owned by the current square exactly once and touch no other; the four '
                'provisional corner writes must address distinct vertices under the stated precondition; in the '
                'union-find passes the exterior cell never dies and the younger cluster dies. 1-D: values are ordered '
                'only through the user comparator and its three derivatives are correct. The goto state machine of '
                'the 1-D routine and the pairs produced by the primal/dual passes are not decided.',
                'finite predicate enumeration over the AST (E8/E9), linear-form distinctness (E3), comparator '
                'discipline (E10)')
    F = facts.extract(UNITS)
    fps = [f for f in F.functions if f['name'] == 'fill_and_pair']
    if len(fps) != 1:
        raise AnalysisBroken('C14: fill_and_pair not found')
    run_neighbour_predicates(chk, fps[0], F)
    top = run_leaves(chk, fps[0])
    run_corners(chk, fps[0], top, F)
    run_union_find(chk, F)
    run_line(chk, F)
    run_no_state(chk, F)
    run_value_follows_index(chk, F)
    run_state_entries(chk, F)
    # Edge::operator< is the strict order on the edge value
    eo = [f for f in F.functions if f['name'] == 'operator<' and f.get('clsname') == 'Edge']
    if len(eo) == 1:
        pseudo = dict(eo[0])
        body = eo[0]['body']
        ret = [x for x in ir.walk(body) if x.get('k') == 'ReturnStmt']
        t = ir.show(ret[0].get('value')) if ret else ''
        ok = t.replace(' ', '') in ('(filt()<other.filt())',)
        chk.ob('E9-derived', 'Edge::operator< is the strict order on the edge value', '%s:%d' % (HR, eo[0]['line']),
               ok, '' if ok else 'returns %s' % t, key='E9|Edge::operator<')
    _by = {}
    for _f in F.functions:
        if _f.get('inst') in (0, 2) and _f.get('body') is not None and _f['file'].startswith(facts.REPO):
            _by.setdefault(_f.get('cls') or _f.get('clsname') or '-', []).append(_f)
    c09.run_assert_purity(chk, F, by=_by, min_count=5)
    chk.assumptions += ['clang 14 parser', 'ownership convention of the routine: a cell belongs to the smallest square '
                        'containing it; border squares keep only their inner edge and its two vertices',
                        'neighbour predicates are independent (any subset of the 8 neighbours can be larger)']
    return chk

// Defect 7: elements of the compile-time multi-fields that are created during static initialisation (namespace-scope
//   constants, static data members of user classes, ...) are computed with EMPTY tables.
//   Multi_field_element_with_small_characteristics<min,max> keeps its primes and CRT idempotents in
//   `static inline const std::vector primes_ / partials_` (Multi_field_small.h:480-519) and Multi_field_element<min,max> keeps
//   primes_, productOfAllCharacteristics_, partials_ in `static inline const` members with dynamic initialisers
//   (Multi_field.h:294-337). Static data members of a class template have UNORDERED dynamic initialisation
//   ([basic.start.dynamic]); with GCC 12 they are initialised after the namespace-scope variables of the translation unit
//   that were defined before the point of instantiation. A global constant therefore sees primes_ empty:
//     small class: get_partial_multiplicative_identity() adds nothing -> every inverse / partial identity is 0, silently;
//     GMP class:   productOfAllCharacteristics_ is still a zero-initialised mpz_class -> mpz_mod divides by zero (SIGFPE)
//                  (build with -DCASE_GMP; the program dies before main()).
//   Zp_field_element<p> used the same way is fine (no dynamically initialised static), and nothing in the documentation
//   forbids constants of these types.
// Build: g++ -std=gnu++17 -O1 -g -fsanitize=address,undefined -I<repo>/src/Persistence_matrix/include defect_7.cpp -o defect_7 -lgmpxx -lgmp
//        (add -DCASE_GMP for the crash of Multi_field_element<5,13>)
#include <iostream>
#include <numeric>
#include <vector>
#include <stdexcept>
#include <gmpxx.h>
#include <gudhi/Fields/Multi_field_small.h>
#include <gudhi/Fields/Multi_field.h>

using namespace Gudhi::persistence_fields;
using F = Multi_field_element_with_small_characteristics<5, 13>;   // 5 * 7 * 11 * 13 = 5005

static const F g_inverse_of_2 = F(2).get_inverse();                            // a namespace-scope constant
static const F g_identity_mod_5_7 = F::get_partial_multiplicative_identity(35);  // another one
#ifdef CASE_GMP
static const Multi_field_element<5, 13> g_two(mpz_class(2));                   // SIGFPE before main()
#endif

int main() {
  int failures = 0;
  F in_main = F(2).get_inverse();
  std::cout << "inverse of 2 in Z/5005Z: namespace-scope constant = " << g_inverse_of_2.get_value() << ", same expression evaluated in main() = " << in_main.get_value() << " (expected 2503 for both)" << std::endl;
  if (g_inverse_of_2.get_value() != 2503) ++failures;
  F id_main = F::get_partial_multiplicative_identity(35);
  std::cout << "partial identity for Q=35: namespace-scope constant = " << g_identity_mod_5_7.get_value() << ", evaluated in main() = " << id_main.get_value() << " (expected 1716 for both)" << std::endl;
  if (g_identity_mod_5_7.get_value() != id_main.get_value()) ++failures;
#ifdef CASE_GMP
  std::cout << "GMP constant: " << g_two.get_value() << std::endl;
#endif
  std::cout << (failures ? "FAIL" : "PASS") << std::endl;
  return failures ? 1 : 0;
}

// Pristine defect 1: a boundary coefficient which is a multiple of the characteristic (so 0 in Z_p) is not dropped.
//
// CW complex over Z_5:   v (dim 0),  e (dim 1, loop, empty boundary),  f (dim 2, boundary 5*e = 0 in Z_5)
// Expected barcode: [0: 0, inf] [1: 1, inf] [2: 2, inf]   (f kills nothing, its boundary vanishes modulo 5)
//
//   argument 0: boundary matrix,  1: RU matrix,  2: chain matrix
// Observed on the pristine tree: 0 and 1 report that f kills e ([1: 1, 2]); 2 crashes (reads the last entry of an
// empty temporary column). With a second 2-cell with boundary 1*e inserted before f (argument + 10), 0 and 1 do not
// terminate (the reduction adds 0 times a column for ever).
#include <cstdlib>
#include <iostream>
#include <vector>
#include <gudhi/Matrix.h>
#include <gudhi/persistence_matrix_options.h>
#include <gudhi/Fields/Zp_field_operators.h>

using namespace Gudhi::persistence_matrix;

template <int flavour>
struct Options : Default_options<Column_types::INTRUSIVE_SET, false> {
  static const bool has_column_pairings = true;
  static const bool is_of_boundary_type = flavour != 2;
  static const bool can_retrieve_representative_cycles = flavour == 1;
};

template <int flavour>
int run(bool withDisk)
{
  using M = Matrix<Options<flavour> >;
  using B = std::vector<std::pair<unsigned int, unsigned int> >;
  M m(0u, 5);
  m.insert_boundary(B{}, 0);  // v
  m.insert_boundary(B{}, 1);  // e
  if (withDisk) m.insert_boundary(B{{1, 1}}, 2);
  m.insert_boundary(B{{1, 5}}, 2);  // f: 5 * e
  unsigned int n = 0, essential = 0;
  for (const auto& b : m.get_current_barcode()) {
    std::cout << "[" << b.dim << ": " << b.birth << ", " << (long)(int)b.death << "] ";
    ++n;
    if (b.death == M::template get_null_value<typename M::Pos_index>()) ++essential;
  }
  std::cout << "\n";
  bool ok = withDisk ? (n == 3 && essential == 2) : (n == 3 && essential == 3);
  std::cout << (ok ? "PASS" : "FAIL") << std::endl;
  return ok ? 0 : 1;
}

int main(int argc, char** argv)
{
  int a = argc > 1 ? std::atoi(argv[1]) : 0;
  bool withDisk = a >= 10;
  switch (a % 10) {
    case 0: return run<0>(withDisk);
    case 1: return run<1>(withDisk);
    default: return run<2>(withDisk);
  }
}

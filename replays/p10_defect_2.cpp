// Defect 2: a REFUSED interval leaves the run-time multi-field classes corrupted.
//   Shared_multi_field_element::initialize, Multi_field_operators::set_characteristic,
//   Shared_multi_field_element_with_small_characteristics<>::initialize and
//   Multi_field_operators_with_small_characteristics::set_characteristic clear `primes_` (the small ones also reset the
//   product to 1) BEFORE they find out that the interval contains no prime and throw std::invalid_argument.
//   After the refusal the GMP classes still announce the product 5005 = 5*7*11*13 but have no primes any more, so every
//   (partial) multiplicative identity and every inverse is 0; the small classes silently become the ring Z/1Z.
// Build: g++ -std=gnu++17 -O1 -g -fsanitize=address,undefined -I<repo>/src/Persistence_matrix/include defect_2.cpp -o defect_2 -lgmpxx -lgmp
#include <iostream>
#include <stdexcept>
#include <gmpxx.h>
#include <gudhi/Fields/Multi_field_shared.h>
#include <gudhi/Fields/Multi_field_operators.h>
#include <gudhi/Fields/Multi_field_small_shared.h>
#include <gudhi/Fields/Multi_field_small_operators.h>

using namespace Gudhi::persistence_fields;

int main() {
  int failures = 0;
  {
    using F = Shared_multi_field_element;
    F::initialize(5, 13);
    bool refused = false;
    try { F::initialize(8, 10); } catch (const std::invalid_argument&) { refused = true; }
    F x(2);
    std::cout << "Shared_multi_field_element: initialize(8,10) refused=" << refused << ", characteristic=" << F::get_characteristic()
              << ", inverse of 2 = " << x.get_inverse().get_value() << " (expected 2503), 2 * inverse = " << (x * x.get_inverse()).get_value() << " (expected 1)" << std::endl;
    if (!refused || F::get_characteristic() != 5005 || (x * x.get_inverse()).get_value() != 1) ++failures;
  }
  {
    Multi_field_operators op(5, 13);
    bool refused = false;
    try { op.set_characteristic(8, 10); } catch (const std::invalid_argument&) { refused = true; }
    mpz_class inv = op.get_inverse(2);
    std::cout << "Multi_field_operators: set_characteristic(8,10) refused=" << refused << ", characteristic=" << op.get_characteristic()
              << ", inverse of 2 = " << inv << " (expected 2503), 2 * inverse = " << op.multiply(2, inv) << " (expected 1)" << std::endl;
    if (!refused || op.get_characteristic() != 5005 || op.multiply(2, inv) != 1) ++failures;
  }
  {
    using F = Shared_multi_field_element_with_small_characteristics<>;
    F::initialize(5, 13);
    bool refused = false;
    try { F::initialize(8, 10); } catch (const std::invalid_argument&) { refused = true; }
    F x(2);
    std::cout << "Shared_multi_field_element_with_small_characteristics: initialize(8,10) refused=" << refused << ", characteristic=" << F::get_characteristic()
              << " (expected 5005), F(2) = " << x.get_value() << " (expected 2), 2 * inverse = " << (x * x.get_inverse()).get_value() << " (expected 1)" << std::endl;
    if (!refused || F::get_characteristic() != 5005 || (x * x.get_inverse()).get_value() != 1) ++failures;
  }
  {
    Multi_field_operators_with_small_characteristics op(5, 13);
    bool refused = false;
    try { op.set_characteristic(8, 10); } catch (const std::invalid_argument&) { refused = true; }
    std::cout << "Multi_field_operators_with_small_characteristics: set_characteristic(8,10) refused=" << refused << ", characteristic=" << op.get_characteristic()
              << " (expected 5005), get_value(2) = " << op.get_value(2u) << " (expected 2), 2 * inverse = " << op.multiply(2, op.get_inverse(2)) << " (expected 1)" << std::endl;
    if (!refused || op.get_characteristic() != 5005 || op.multiply(2, op.get_inverse(2)) != 1) ++failures;
  }
  std::cout << (failures ? "FAIL" : "PASS") << " (" << failures << " of 4 classes corrupted by a refused interval)" << std::endl;
  return failures ? 1 : 0;
}

// Differential fuzzer for property C04, long operation histories on ONE flag complex maintained incrementally
// (insert_edge_as_flag) and compared after every step with the brute-force clique model of the current graph.
// Operations: add vertex (insert_edge_as_flag(u,u) or insert_simplex), add edge (insert_edge_as_flag, both argument
// orders), remove the star of an edge / of a vertex (remove_maximal_simplex, cofaces first), prune_above_filtration
// (after make_filtration_non_decreasing), prune_above_dimension (the truncation dimension of the history follows),
// clear(), copy / move of the tree, make_filtration_non_decreasing in the middle, dimension() called or not between
// operations (the lazy dimension bookkeeping is part of what is checked: upper_bound_dimension() must stay an upper
// bound, dimension() must be exact). At the end the tree is compared (operator==) with insert_graph/insert_simplex +
// expansion(d) of the final graph.
// Reuses the model and the checkers of fuzz_flag_routes.cpp (must be in the same directory).
// Other operations: conversion to a tree with other options (no label lists) and back, reuse of a moved-from tree.
// Option sets (insert_edge_as_flag needs link_nodes_by_label): full_featured, link only (flat_map), short/float,
// long long/int/no key/stable.  Labels: small, huge, negative.  d in {-1, 0..5}.  20..110 operations per history.
//
// RESULT: finds defect_2 (dimension() stale after removal + insert_edge_as_flag), e.g. `./fuzz_flag_history 1 300`
// fails at seed 25. With the environment variable WORKAROUND2=1 (dimension() is called before every
// insert_edge_as_flag, which hides defect_2) NOTHING else was found: 2000 histories per option set (seeds 1..1000,
// 5000..5999) with -O1 -fsanitize=address,undefined; and without the workaround but with check_dimension=0,
// 1000 histories per option set (seeds 9000..9999): the simplices, values, stars, added_simplices are always right,
// only the dimension bookkeeping is wrong.
// Build: g++ -std=gnu++17 -O1 -g -fsanitize=address,undefined -I<gudhi include dirs> fuzz_flag_history.cpp -ltbb
//        (-DONLY=0..3 compiles one option set)
// Usage: [WORKAROUND2=1] ./fuzz_flag_history [seed0] [ncases] [check_dimension=1]
#define FUZZ_NO_MAIN
#include "p04_fuzz_flag_routes.cpp"

template <class VH> struct O_plain_of {
  typedef linear_indexing_tag Indexing_tag;
  typedef VH Vertex_handle;
  typedef double Filtration_value;
  typedef std::uint32_t Simplex_key;
  static const bool store_key = true;
  static const bool store_filtration = true;
  static const bool contiguous_vertices = false;
  static const bool link_nodes_by_label = false;
  static const bool stable_simplex_handles = false;
};
static bool g_check_dim = true;
static long g_loose = 0, g_checked = 0;

template <class ST>
void remove_star(ST& st, const std::vector<V>& face) {
  typedef typename ST::Vertex_handle VH;
  std::vector<VH> f(face.begin(), face.end());
  auto sh = st.find(f);
  if (sh == st.null_simplex()) { FAIL("remove_star: face not found " << str(face)); return; }
  std::vector<std::vector<VH>> star;
  for (auto c : st.star_simplex_range(sh)) {
    std::vector<VH> s;
    for (auto v : st.simplex_vertex_range(c)) s.push_back(v);
    star.push_back(s);
  }
  std::stable_sort(star.begin(), star.end(), [](auto& a, auto& b) { return a.size() > b.size(); });
  for (auto& s : star) {
    auto h = st.find(s);
    if (h == st.null_simplex()) { FAIL("remove_star: coface vanished"); return; }
    st.remove_maximal_simplex(h);
  }
}

template <class ST>
void history(std::mt19937_64& rng, V label_lim) {
  typedef typename ST::Filtration_value F;
  typedef typename ST::Vertex_handle VH;
  ST A, B; ST* cur = &A;
  Graph g;
  int d;
  switch (rng() % 6) { case 0: d = -1; break; case 1: d = 1; break; case 2: d = 2; break; case 3: d = 3; break; default: d = (int)(rng() % 6); }
  int nops = 10 + (int)(rng() % 60);
  int warm = (rng() % 3) ? (int)(rng() % 40) : 0;
  nops += warm;
  int nvals = 1 + (int)(rng() % 4);
  std::vector<V> pool;
  {
    std::set<V> s;
    int np = 3 + (int)(rng() % 8);
    while ((int)s.size() < np) {
      V l = (rng() % 2) ? (V)(rng() % 12) : (V)(rng() % (unsigned long long)label_lim);
      if (rng() % 4 == 0) l = -l - 2;
      if (l == -1 || l > label_lim - 2 || l < -label_lim) continue;
      s.insert(l);
    }
    pool.assign(s.begin(), s.end());
  }
  std::string base = g_ctx;
  bool exact_filtration = true;  // tree values are exactly the model values
  std::vector<typename ST::Simplex_handle> added;
  std::ostringstream hist;
  for (int op = 0; op < nops && !g_fail; ++op) {
    ST& st = *cur;
    int k = (int)(rng() % 100);
    // warm-up phase: only additions, so that later removals act on complexes of dimension 2-4
    if (op < warm) k = (op < warm / 3) ? 0 : 30;
    std::ostringstream what;
    if (k < 22) {  // add vertex
      V u = pool[rng() % pool.size()];
      if (g.vf.count(u)) { continue; }
      double f = (double)(rng() % nvals);
      g.vf[u] = f;
      added.clear();
      if (rng() % 3 == 0) { st.insert_simplex(std::vector<VH>{(VH)u}, (F)f); what << "insert_simplex{" << u << "}"; }
      else {
        st.insert_edge_as_flag((VH)u, (VH)u, (F)f, d, added); what << "flag-vertex " << u;
        if (added.size() != 1) FAIL("vertex insertion reports " << added.size() << " simplices");
      }
      // a vertex below... keeps exactness (isolated)
    } else if (k < 62) {  // add edge
      if (g.vf.size() < 2) continue;
      auto i1 = g.vf.begin(); std::advance(i1, rng() % g.vf.size());
      auto i2 = g.vf.begin(); std::advance(i2, rng() % g.vf.size());
      V u = i1->first, v = i2->first;
      if (u == v || g.has(u, v)) continue;
      if (d == 0) continue;
      double f = std::max(i1->second, i2->second) + (double)(rng() % nvals);
      Model before = clique_model(g, d);
      g.ef[{std::min(u, v), std::max(u, v)}] = f;
      Model after = clique_model(g, d);
      added.clear();
      if (getenv("WORKAROUND2")) st.dimension();  // defect_2: insert_edge_as_flag forgets a pending dimension recomputation
      bool loose_b = st.upper_bound_dimension() > model_dim(before);
      st.insert_edge_as_flag((VH)u, (VH)v, (F)f, d, added);
      if (getenv("DBG") && loose_b) std::cout << "loose before edge insertion: upper now " << st.upper_bound_dimension() << " model " << model_dim(after) << std::endl;
      what << "flag-edge (" << u << "," << v << ";" << f << ")";
      std::set<std::vector<V>> addset, expect;
      for (auto sh : added) if (!addset.insert(vertices_of(st, sh)).second) FAIL("added_simplices duplicate");
      for (auto& p : after) if (!before.count(p.first)) expect.insert(p.first);
      if (addset != expect) FAIL(what.str() << ": added_simplices has " << addset.size() << " expected " << expect.size());
      // exact only if every new simplex has max == f
      for (auto& p : after) if (!before.count(p.first) && p.second != f) exact_filtration = false;
    } else if (k < 74) {  // remove edge star
      if (g.ef.empty()) continue;
      auto it = g.ef.begin(); std::advance(it, rng() % g.ef.size());
      std::vector<V> e{it->first.first, it->first.second};
      what << "remove edge star " << str(e);
      g.ef.erase(it);
      remove_star(st, e);
    } else if (k < 80) {  // remove vertex star
      if (g.vf.empty()) continue;
      auto it = g.vf.begin(); std::advance(it, rng() % g.vf.size());
      V u = it->first;
      what << "remove vertex star " << u;
      g.vf.erase(it);
      for (auto e = g.ef.begin(); e != g.ef.end();) { if (e->first.first == u || e->first.second == u) e = g.ef.erase(e); else ++e; }
      remove_star(st, std::vector<V>{u});
    } else if (k < 85) {  // make_filtration_non_decreasing
      what << "make_filtration_non_decreasing";
      st.make_filtration_non_decreasing();
      exact_filtration = true;
    } else if (k < 90) {  // prune_above_filtration
      if (!ST::Options::store_filtration) continue;
      st.make_filtration_non_decreasing();
      exact_filtration = true;
      double t = (double)(rng() % (2 * nvals)) - 0.5 + (rng() % 2) * 0.5;
      t = (double)(F)t;
      what << "prune_above_filtration " << t;
      Model before = clique_model(g, d);
      for (auto e = g.ef.begin(); e != g.ef.end();) { if (e->second > t) e = g.ef.erase(e); else ++e; }
      std::vector<V> gone;
      for (auto& p : g.vf) if (p.second > t) gone.push_back(p.first);
      for (V u : gone) {
        g.vf.erase(u);
        for (auto e = g.ef.begin(); e != g.ef.end();) { if (e->first.first == u || e->first.second == u) e = g.ef.erase(e); else ++e; }
      }
      bool r = st.prune_above_filtration((F)t);
      Model after = clique_model(g, d);
      if (r != (after.size() != before.size())) FAIL("prune_above_filtration returns " << r);
    } else if (k < 93) {  // prune_above_dimension
      if (d == 0) continue;
      int nd = (d < 0) ? (int)(rng() % 4) : (int)(rng() % (d + 1));
      what << "prune_above_dimension " << nd;
      st.prune_above_dimension(nd);
      d = nd;
      if (d == 0) g.ef.clear();
    } else if (k < 95) {
      what << "clear";
      st.clear(); g = Graph(); exact_filtration = true;
    } else {
      int r = (int)(rng() % 4);
      if (r == 0) {  // the moved-from tree is reused as a fresh empty complex
        what << "move away, reuse the moved-from tree";
        ST sink(std::move(*cur));
        check_tree(sink, clique_model(g, d), exact_filtration, "moved-to tree", false);
        g = Graph(); exact_filtration = true;
      } else if (r == 1) {  // conversion through a tree with other options (no label lists, flat storage) and back
        what << "convert to plain options (no label lists, flat storage, double) and back";
        Simplex_tree<O_plain_of<VH>> tmp(*cur, [](F f) { return (double)f; });
        ST back(tmp, [](double f) { return (F)f; });
        *cur = std::move(back);
      } else {
        what << "relocate";
        maybe_relocate(cur, A, B, rng);
      }
    }
    hist << what.str() << " | ";
    g_ctx = base + " d=" + std::to_string(d) + " op#" + std::to_string(op);
    Model ref = clique_model(g, d);
    bool dimcheck = g_check_dim && (rng() % 2);
    if (cur->upper_bound_dimension() > model_dim(ref)) ++g_loose;
    if (dimcheck) ++g_checked;
    check_tree(*cur, ref, exact_filtration, what.str().c_str(), dimcheck);
  }
  if (g_fail) { std::cout << "history: " << hist.str() << std::endl; return; }
  // final comparison with the one-shot route
  cur->make_filtration_non_decreasing();
  Model ref = clique_model(g, d);
  g_ctx = base + " final";
  check_tree(*cur, ref, true, "final monotonised", g_check_dim);
  if (d != 0) {
    ST one;
    for (auto& p : g.vf) one.insert_simplex(std::vector<VH>{(VH)p.first}, (F)p.second);
    for (auto& p : g.ef) one.insert_simplex(std::vector<VH>{(VH)p.first.first, (VH)p.first.second}, (F)p.second);
    one.expansion(d < 0 ? 40 : d);
    check_tree(one, ref, true, "one-shot", g_check_dim);
    cur->dimension(); one.dimension();
    if (g_check_dim && !(*cur == one)) FAIL("incremental tree != one-shot tree (operator==)");
  }
  if (g_fail) std::cout << "history: " << hist.str() << std::endl;
}

template <class ST>
void run_hist(const char* name, unsigned long long seed0, int ncases, V label_lim) {
  int before = g_fail;
  for (int i = 0; i < ncases; ++i) {
    unsigned long long seed = seed0 + i;
    std::mt19937_64 rng(seed * 7919ull + 3);
    std::ostringstream c; c << name << " seed=" << seed; g_ctx = c.str();
    history<ST>(rng, label_lim);
    if (g_fail > before) { std::cout << "  (stopping " << name << " at seed " << seed << ")\n"; break; }
  }
  std::cout << name << ": " << (g_fail == before ? "ok" : "FAILED") << " (" << ncases << " histories)" << std::endl;
}

int main(int argc, char** argv) {
  unsigned long long seed0 = argc > 1 ? std::stoull(argv[1]) : 1;
  int n = argc > 2 ? std::stoi(argv[2]) : 300;
  if (argc > 3) g_check_dim = std::stoi(argv[3]) != 0;
#if !defined(ONLY) || ONLY == 0
  run_hist<Simplex_tree<O_full>>("full_featured", seed0, n, 1000000000LL);
#endif
#if !defined(ONLY) || ONLY == 1
  run_hist<Simplex_tree<O_fastcof>>("fast_cofaces", seed0, n, 1000000000LL);
#endif
#if !defined(ONLY) || ONLY == 2
  run_hist<Simplex_tree<O_short>>("short/float/link", seed0, n, 32767);
#endif
#if !defined(ONLY) || ONLY == 3
  run_hist<Simplex_tree<O_long>>("longlong/int/link+stable/nokey", seed0, n, 4000000000000000000LL);
#endif
  std::cout << "steps with a loose upper bound: " << g_loose << ", exact dimension checks: " << g_checked << std::endl;
  std::cout << (g_fail ? "FAIL" : "PASS") << std::endl;
  return g_fail ? 1 : 0;
}

// Pristine defect 1: RU matrix with vine updates, map column container (has_map_column_container = true), cells
// inserted with their own identifiers. Boundary_matrix::remove_last() erases the row-swap bookkeeping of the row
// named like the *position* of the removed column (erase_empty_row(nextInsertIndex_)), not of the row of the removed
// cell. When another living cell has that number as identifier, its entry is lost; the next transposition followed by
// an insertion throws std::out_of_range from the lazy row reordering.
#include <gudhi/Matrix.h>
#include <gudhi/persistence_matrix_options.h>
#include <iostream>
#include <vector>
using namespace Gudhi::persistence_matrix;
struct Options : Default_options<Column_types::INTRUSIVE_SET, true> {
  static const bool is_of_boundary_type = true;
  static const Column_indexation_types column_indexation_type = Column_indexation_types::POSITION;
  static const bool has_column_pairings = true;
  static const bool has_vine_update = true;
  static const bool has_removable_columns = true;
  static const bool has_map_column_container = true;
};
int main() {
  using B = std::vector<unsigned>;
  Matrix<Options> m;
  try {
    m.insert_boundary(1, B{}, 0);      // position 0, identifier 1
    m.insert_boundary(3, B{}, 0);      // position 1, identifier 3
    m.insert_boundary(5, B{1, 3}, 1);  // position 2
    m.insert_boundary(8, B{}, 0);      // position 3
    m.remove_last();                   // removes the cell at position 3 ... and the swap entry of row 3
    m.vine_swap(0);                    // the two vertices
    m.insert_boundary(9, B{}, 0);      // any insertion: rows are put in order first
  } catch (const std::exception& e) {
    std::cout << "exception: " << e.what() << "\nFAIL" << std::endl;
    return 1;
  }
  // expected barcode of the filtration v3, v1, e, v9: [0,inf) [1,2) [3,inf)
  bool ok = true;
  for (const auto& bar : m.get_current_barcode()) {
    std::cout << bar << "\n";
    if (bar.birth == 1 && bar.death != 2) ok = false;
  }
  std::cout << (ok ? "PASS" : "FAIL") << std::endl;
  return ok ? 0 : 1;
}

// Defect 4: chain matrix with vine updates and representative cycles: after a vine swap (or a removal) the
// representative cycles are not those of the matrix rebuilt on the new filtration.
// Chain_representative_cycles::update_representative_cycles (chain_rep_cycles.h:137-157) walks the identifiers
// 0 .. number_of_columns-1, decides "positive column" with `i < col.get_paired_chain_index()` (an identifier compared
// with a column index) and fills birthToCycle_ by IDENTIFIER, while get_representative_cycle(bar) reads it at
// bar.birth, a POSITION. After a transposition identifiers and positions differ:
//   (a) get_representative_cycle(bar) returns the cycle of another bar,
//   (b) or reads representativeCycles_[-1] (out of bounds; crash under the sanitizers),
//   (c) after remove_last() the loop asks for the column of an identifier that left the matrix:
//       std::out_of_range from get_representative_cycles().
// (The source carries a TODO admitting the assumption PosIdx == IDIdx; the documentation of the functions does not
//  restrict their use, and the option combination compiles.)
//
// Build: g++ -std=gnu++17 -O1 -g -fsanitize=address,undefined -I<gudhi>/src/Persistence_matrix/include
//            -I<gudhi>/src/common/include defect_4.cpp -o defect_4
// Run:   ./defect_4        (cases a and c, prints FAIL)
//        ./defect_4 crash  (case b: AddressSanitizer reports the out of bounds read in get_representative_cycle)
#include <gudhi/Matrix.h>
#include <gudhi/persistence_matrix_options.h>

#include <cstring>
#include <iostream>
#include <vector>

using namespace Gudhi::persistence_matrix;

struct Opt : Default_options<Column_types::INTRUSIVE_SET, true> {
  static const Column_indexation_types column_indexation_type = Column_indexation_types::POSITION;
  static const bool is_of_boundary_type = false;
  static const bool has_column_pairings = true;
  static const bool has_vine_update = true;
  static const bool can_retrieve_representative_cycles = true;
  static const bool has_removable_columns = true;
  static const bool has_map_column_container = true;
};
using B = std::vector<unsigned>;

int main(int argc, char** argv) {
  int bad = 0;
  if (argc > 1 && !std::strcmp(argv[1], "crash")) {
    Matrix<Opt> m;
    m.insert_boundary(B{});      // 0: vertex a
    m.insert_boundary(B{});      // 1: vertex b
    m.insert_boundary(B{0, 1});  // 2: edge ab
    m.insert_boundary(B{});      // 3: vertex c
    m.vine_swap(2);              // filtration a, b, c, ab : bars [0,inf) [1,3) [2,inf)
    m.update_representative_cycles();
    for (const auto& bar : m.get_current_barcode()) {
      std::cout << "bar [" << bar.birth << ", " << (int)bar.death << ") cycle: " << std::flush;
      for (unsigned x : m.get_representative_cycle(bar)) std::cout << x << " ";  // bar born at 2: birthToCycle_[2] == -1
      std::cout << std::endl;
    }
    std::cout << "FAIL (no crash, but the cycle printed for the bar born at position 2 is garbage)" << std::endl;
    return 1;
  }
  {
    // (a) three vertices a, b, c then the edge bc.  Swap a and b.
    Matrix<Opt> m;
    m.insert_boundary(B{});      // identifier 0: a
    m.insert_boundary(B{});      // identifier 1: b
    m.insert_boundary(B{});      // identifier 2: c
    m.vine_swap(0);              // filtration b, a, c
    m.update_representative_cycles();
    for (const auto& bar : m.get_current_barcode()) {
      const auto& cyc = m.get_representative_cycle(bar);
      // the cell at position bar.birth
      unsigned cellAtBirth = m.get_pivot(bar.birth);
      std::cout << "(a) bar born at position " << bar.birth << " (cell " << cellAtBirth << "): cycle {";
      for (unsigned x : cyc) std::cout << x << " ";
      std::cout << "}\n";
      if (cyc.size() != 1 || cyc[0] != cellAtBirth) {
        std::cout << "(a) FAIL: the representative of the component born with cell " << cellAtBirth
                  << " must be that vertex\n";
        ++bad;
      }
    }
  }
  {
    // (c) two vertices, swap, remove the last one (cell 0), ask for the cycles
    Matrix<Opt> m;
    m.insert_boundary(B{});
    m.insert_boundary(B{});
    m.vine_swap(0);    // filtration 1, 0
    m.remove_last();   // removes cell 0: one vertex (identifier 1) remains, one bar [0, inf)
    try {
      m.update_representative_cycles();
      const auto& cycles = m.get_representative_cycles();
      std::cout << "(c) " << cycles.size() << " cycle(s)\n";
      if (cycles.size() != 1 || cycles[0] != std::vector<unsigned>{1}) {
        std::cout << "(c) FAIL: expected the single cycle {1}\n";
        ++bad;
      }
    } catch (const std::exception& e) {
      std::cout << "(c) FAIL: update_representative_cycles threw " << e.what() << "\n";
      ++bad;
    }
  }
  std::cout << (bad ? "FAIL" : "PASS") << std::endl;
  return bad ? 1 : 0;
}

#include <gudhi/Matrix.h>
#include <gudhi/persistence_matrix_options.h>
#include <iostream>
#include <random>
using namespace Gudhi::persistence_matrix;
template<bool PAIR, bool REM> struct Opt : Default_options<Column_types::INTRUSIVE_SET, true> {
  static const bool has_column_pairings = PAIR;
  static const bool has_vine_update = true;
  static const bool has_removable_columns = REM;
  static const bool can_retrieve_representative_cycles = true;
};
template<class O> int run(const char* name){
  using M = Matrix<O>;
  std::mt19937 g(5);
  for(int rep=0;rep<300;++rep){
    M m;
    std::vector<std::vector<unsigned>> cells; std::vector<int> dims;
    // random small complex: vertices then edges then triangles in filtration order mixing
    int nv=3+g()%3;
    for(int i=0;i<nv;++i){ cells.push_back({}); dims.push_back(0);} 
    std::vector<std::pair<unsigned,unsigned>> es; for(int a=0;a<nv;++a) for(int b=a+1;b<nv;++b) if(g()%3) es.push_back({a,b});
    for(auto&e:es){ cells.push_back({e.first,e.second}); dims.push_back(1);} 
    for(auto&c:cells) m.insert_boundary(c);
    unsigned n=cells.size();
    for(int step=0;step<40;++step){
      unsigned i=g()%(n-1);
      // swap allowed only if cell i is not a face of i+1
      bool face=false; for(auto x:cells[i+1]) if(x==i) face=true;
      if(face) continue;
      try{ m.vine_swap(i); }
      catch(std::exception& e){ std::cout<<name<<": vine_swap("<<i<<") threw "<<e.what()<<" rep "<<rep<<" step "<<step<<"\n"; return 1; }
      catch(const char* e){ std::cout<<name<<": vine_swap("<<i<<") threw "<<e<<" rep "<<rep<<" step "<<step<<"\n"; return 1; }
      // update the model: swap cells i and i+1 and relabel faces
      std::swap(cells[i],cells[i+1]); std::swap(dims[i],dims[i+1]);
      for(auto&c:cells){ for(auto&x:c){ if(x==i) x=i+1; else if(x==i+1) x=i; } std::sort(c.begin(),c.end()); }
    }
  }
  std::cout<<name<<": ok\n"; return 0;
}
int main(){ int bad=0; bad+=run<Opt<true,false>>("RU vine, barcode"); bad+=run<Opt<false,false>>("RU vine, no barcode"); bad+=run<Opt<false,true>>("RU vine, no barcode, removable"); std::cout<<(bad?"FAIL":"PASS")<<"\n"; return bad; }

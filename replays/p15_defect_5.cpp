// defect_5.cpp - (met while fuzzing C15, not about copies) base matrices with has_column_and_row_swaps: the lazy row
// swaps throw std::out_of_range in legal call sequences, or silently give a result that depends on whether a column
// was read in between.
//
// The swaps of rows are lazy: swap_rows() only updates two dictionaries (Base_swap::indexToRow_ / rowToIndex_) and the
// columns are rewritten by Base_swap::_orderRows() (base_swap.h:198-232) the next time a column is read or inserted.
// Several paths are out of step with that machinery:
//  (a) Base_matrix::insert_boundary (Base_matrix.h:444: _insert(boundary, nextInsertIndex_++, dim)) and
//      insert_column(column, index) (Base_matrix.h:433) advance the column counter BEFORE _insert() applies the pending
//      swaps; _orderRows() then visits matrix_.at(i) for i < get_number_of_columns(), one column too many:
//      std::out_of_range ("vector::_M_range_check") instead of an insertion. insert_column(column) is fine.
//  (b) with has_map_column_container, _orderRows() visits the keys 0..size()-1 (base_swap.h:211): after
//      remove_column() of a column that is not the last one, any swap_rows() + read throws "unordered_map::at".
//  (c) the constructor from a vector of columns (Base_matrix.h:356-373) registers the rows 0..#columns-1 only
//      (Swap_opt(columns.size())) and fills the columns with _container_insert(), which registers nothing: a row index
//      >= #columns makes the first reordering throw (vector::_M_range_check / unordered_map::at in Column::reorder,
//      valueMap.at(row)).
//  (d) a row that enters the matrix through add_to(range, target) is not registered either (map dictionaries): the next
//      reordering throws "unordered_map::at".
//  (e) add_to(range, target) (Base_matrix.h:527) does not apply the pending swaps first: the rows of the range are
//      public row indices, the rows of the stored column are still the old ones, the sum mixes both. The same two calls
//      give another matrix when get_column() was called in between (silent wrong result).
//
// Build: g++ -std=gnu++17 -O1 -g -fsanitize=address,undefined $(ls -d /repo/src/*/include | sed 's/^/-I/') \
//        defect_5.cpp -o defect_5
// Run:   ./defect_5      (prints one line per case, FAIL, returns 1)

#include <gudhi/Matrix.h>
#include <gudhi/persistence_matrix_options.h>

#include <iostream>
#include <vector>

using namespace Gudhi::persistence_matrix;
struct Swap_opt : Default_options<Column_types::INTRUSIVE_SET, true> {
  static const bool has_column_and_row_swaps = true;
};
struct Swap_map_opt : Swap_opt {
  static const bool has_map_column_container = true;
};
typedef std::vector<unsigned> C;

template <class M>
std::string col(M& m, unsigned i) {
  std::string s;
  for (auto x : m.get_column(i).get_content(4)) s += x ? '1' : '0';
  return s;
}

template <class F>
bool run(const char* name, F f) {
  try {
    std::string r = f();
    std::cout << name << ": " << r << "\n";
    return r.find("WRONG") == std::string::npos;
  } catch (const std::exception& e) {
    std::cout << name << ": exception " << e.what() << "\n";
    return false;
  }
}

int main() {
  int bad = 0;
  bad += !run("(a) insert_column, swap_rows, insert_boundary           ", []() {
    Matrix<Swap_opt> m;
    m.insert_column(C{0, 1});
    m.swap_rows(0, 1);
    m.insert_boundary(C{0});
    return std::string("ok");
  });
  bad += !run("(a') insert_column, swap_rows, insert_column(col, 3)     ", []() {
    Matrix<Swap_opt> m;
    m.insert_column(C{0, 1});
    m.swap_rows(0, 1);
    m.insert_column(C{0}, 3);
    return std::string("ok");
  });
  bad += !run("(b) map container: remove_column(0), swap_rows, read     ", []() {
    Matrix<Swap_map_opt> m;
    m.insert_column(C{0, 1});
    m.insert_column(C{1});
    m.remove_column(0);
    m.swap_rows(0, 1);
    return col(m, 1) + " (expected 1000)";
  });
  bad += !run("(c) Matrix({{0,3},{1}}), swap_rows(0,1), read            ", []() {
    std::vector<C> cols = {C{0, 3}, C{1}};
    Matrix<Swap_opt> m(cols);
    m.swap_rows(0, 1);
    return col(m, 0) + " (expected 0101)";
  });
  bad += !run("(d) map container: add_to(range with a new row), swap    ", []() {
    Matrix<Swap_map_opt> m, o;
    m.insert_column(C{0, 1});
    o.insert_column(C{2});
    m.add_to(o.get_column(0), 0);
    m.swap_rows(0, 1);
    return col(m, 0) + " (expected 1110)";
  });
  bad += !run("(e) swap_rows(0,2) then add_to(range {0}) with/without read", []() {
    Matrix<Swap_opt> a, b, o;
    o.insert_column(C{0});
    a.insert_column(C{0, 1});
    b.insert_column(C{0, 1});
    a.swap_rows(0, 2);
    b.swap_rows(0, 2);
    b.get_column(0);  // read only
    a.add_to(o.get_column(0), 0);
    b.add_to(o.get_column(0), 0);
    std::string ra = col(a, 0), rb = col(b, 0);
    return "without read " + ra + ", with read " + rb + " (expected 1110 both)" + (ra == rb ? "" : " WRONG");
  });
  std::cout << (bad ? "FAIL" : "PASS") << std::endl;
  return bad ? 1 : 0;
}

// Differential fuzzer, Z_p part of property C06: vine swaps only exist over Z_2, what remains over Z_p is
// "removing the last cell (repeatedly), inserting again, copying / moving in the middle leaves the matrix as if
// rebuilt from scratch". RU matrices (R and U stored: can_retrieve_representative_cycles) and chain matrices,
// position / identifier / container indexing, every column type, Z_p with p in {2,3,5,7,11,13}.
// Reference: own reduction over Z_p of the oriented boundary matrix of a random simplicial complex (6 vertices,
// dimension <= 3). Checked after every step: number of columns, barcode, dimensions, for RU: R reduced, B*V = R with
// V = stored U (upper triangular, invertible), pivots / get_column_with_pivot; for chain: pivot, triangularity,
// boundary of a paired chain proportional to its partner, unpaired chains are cycles.
//
// Build: g++ -std=gnu++17 -O1 -g -fsanitize=address,undefined -I<gudhi>/src/Persistence_matrix/include
//            -I<gudhi>/src/common/include -DZP_PART=k fuzz_zp.cpp -o zp_k      (k = 0..3, 3 option sets each)
// Result (this worktree): the 12 option sets of main(): 1200 cases x 60..80 operations each, sanitizers on: no failure.
#include <gudhi/Matrix.h>
#include <gudhi/persistence_matrix_options.h>

#include <algorithm>
#include <cstdint>
#include <iostream>
#include <map>
#include <random>
#include <set>
#include <sstream>
#include <tuple>
#include <vector>

using namespace Gudhi::persistence_matrix;
using u64 = std::uint64_t;

template <Column_types C, int IDX, bool BND, bool REMC, int RA, bool DIM>
struct Opt : Default_options<C, false> {
  static const Column_indexation_types column_indexation_type =
      IDX == 0 ? Column_indexation_types::CONTAINER
               : (IDX == 1 ? Column_indexation_types::POSITION : Column_indexation_types::IDENTIFIER);
  static const bool is_of_boundary_type = BND;
  static const bool has_column_pairings = true;
  static const bool has_vine_update = false;
  static const bool can_retrieve_representative_cycles = true;
  static const bool has_removable_columns = true;
  static const bool has_map_column_container = REMC;
  static const bool has_row_access = (RA != 0);
  static const bool has_intrusive_rows = (RA == 1 || RA == 3);
  static const bool has_removable_rows = (RA >= 3);
  static const bool has_matrix_maximal_dimension_access = DIM;
  static const int idx = IDX;
};

struct Fail {
  std::string msg;
};
using BarT = std::tuple<int, int, int>;
using Vec = std::vector<int>;  // dense, mod p

struct Cell {
  int dim;
  std::vector<std::pair<int, int>> bd;  // (uid of the face, coefficient +-1)
  unsigned id;
  u64 verts;
};

template <class O>
struct H {
  using M = Matrix<O>;
  static constexpr bool BND = O::is_of_boundary_type;
  static constexpr int IDX = O::idx;
  int p;
  M m;
  std::vector<Cell> cells;
  std::vector<int> order;
  std::mt19937 rng;
  std::ostringstream log;
  bool custom;
  unsigned maxId = 0;
  bool any = false;

  H(unsigned seed, int prime, bool cust) : p(prime), m(0u, prime), rng(seed), custom(cust) {}
  int rnd(int n) { return rng() % (unsigned)n; }
  int pos_of(int uid) const {
    for (size_t i = 0; i < order.size(); ++i)
      if (order[i] == uid) return i;
    return -1;
  }
  int inv(int a) const {
    a %= p;
    for (int x = 1; x < p; ++x)
      if ((a * x) % p == 1) return x;
    return 0;
  }
  Vec bvec(int q) const {
    Vec v(order.size(), 0);
    for (auto& f : cells[order[q]].bd) v[pos_of(f.first)] = ((f.second % p) + p) % p;
    return v;
  }
  static int low(const Vec& v) {
    for (int i = (int)v.size() - 1; i >= 0; --i)
      if (v[i]) return i;
    return -1;
  }
  std::multiset<BarT> barcode(std::vector<int>& pair) const {
    int n = order.size();
    std::vector<Vec> R(n);
    std::vector<int> lowTo(n, -1);
    pair.assign(n, -1);
    for (int j = 0; j < n; ++j) {
      R[j] = bvec(j);
      int l;
      while ((l = low(R[j])) >= 0 && lowTo[l] >= 0) {
        const Vec& s = R[lowTo[l]];
        int c = (R[j][l] * inv(s[l])) % p;
        for (int i = 0; i < n; ++i) R[j][i] = ((R[j][i] - c * s[i]) % p + p) % p;
      }
      if (l >= 0) {
        lowTo[l] = j;
        pair[j] = l;
        pair[l] = j;
      }
    }
    std::multiset<BarT> r;
    for (int j = 0; j < n; ++j) {
      if (pair[j] < 0)
        r.insert({cells[order[j]].dim, j, -1});
      else if (pair[j] > j)
        r.insert({cells[order[j]].dim, j, pair[j]});
    }
    return r;
  }
  unsigned handle(int q) {
    if constexpr (BND) {
      return IDX == 2 ? cells[order[q]].id : q;
    } else {
      if (IDX == 0) return m.get_column_with_pivot(cells[order[q]].id);
      return IDX == 1 ? q : cells[order[q]].id;
    }
  }
  [[noreturn]] void fail(const std::string& s) { throw Fail{s}; }

  void check() {
    int n = order.size();
    if ((int)m.get_number_of_columns() != n) fail("number of columns");
    std::vector<int> pair;
    auto ref = barcode(pair);
    std::multiset<BarT> lib;
    for (const auto& b : m.get_current_barcode())
      lib.insert({b.dim, (int)b.birth, b.death == (unsigned)-1 ? -1 : (int)b.death});
    if (lib != ref) fail("barcode");
    if constexpr (O::has_matrix_maximal_dimension_access) {
      int mx = -1;
      for (int u : order) mx = std::max(mx, cells[u].dim);
      if (m.get_max_dimension() != mx) fail("max dimension");
    }
    // rows: RU: label of position (identifier given at insertion, stays with the position: no swaps here);
    // chain: identifier
    std::map<unsigned, int> rowToPos;
    unsigned len = 1;
    for (int q = 0; q < n; ++q) {
      rowToPos[cells[order[q]].id] = q;
      len = std::max(len, cells[order[q]].id + 1);
    }
    std::vector<Vec> Cc(n, Vec(n, 0));
    for (int q = 0; q < n; ++q) {
      unsigned h = handle(q);
      if (m.get_column_dimension(h) != cells[order[q]].dim) fail("dimension");
      auto v = m.get_column(h).get_content(len);
      for (unsigned i = 0; i < v.size(); ++i)
        if (v[i] != 0u) {
          auto it = rowToPos.find(i);
          if (it == rowToPos.end()) fail("unknown row");
          Cc[q][it->second] = (int)(unsigned)v[i] % p;
        }
    }
    auto bd = [&](const Vec& chain) {
      Vec r(n, 0);
      for (int q = 0; q < n; ++q)
        if (chain[q]) {
          Vec b = bvec(q);
          for (int i = 0; i < n; ++i) r[i] = (r[i] + chain[q] * b[i]) % p;
        }
      return r;
    };
    if constexpr (BND) {
      for (int q = 0; q < n; ++q) {
        unsigned h = handle(q);
        int l = low(Cc[q]);
        int exp = (pair[q] >= 0 && pair[q] < q) ? pair[q] : -1;
        if (l != exp) fail("pivot of R column");
        unsigned piv = m.get_pivot(h);
        if (l < 0 ? piv != (unsigned)-1 : piv != cells[order[l]].id) fail("get_pivot");
        if (l >= 0 && m.get_column_with_pivot(cells[order[l]].id) != h) fail("get_column_with_pivot");
        if constexpr (IDX != 2) {
          auto v = m.get_column(h, false).get_content(n);
          Vec V(n, 0);
          for (int i = 0; i < n; ++i) V[i] = (int)(unsigned)v[i] % p;
          if (!V[q]) fail("V diagonal");
          for (int i = q + 1; i < n; ++i)
            if (V[i]) fail("V not triangular");
          if (bd(V) != Cc[q]) fail("B*V != R");
        }
      }
    } else {
      for (int q = 0; q < n; ++q) {
        unsigned h = handle(q);
        if (m.get_pivot(h) != cells[order[q]].id) fail("chain pivot");
        if (!Cc[q][q]) fail("chain lacks its cell");
        for (int i = q + 1; i < n; ++i)
          if (Cc[q][i]) fail("chain has a later cell");
        Vec b = bd(Cc[q]);
        if (pair[q] < 0 || pair[q] > q) {
          if (low(b) >= 0) fail("positive chain is not a cycle");
        } else {
          const Vec& g = Cc[pair[q]];
          int l = low(g);
          int c = (b[l] * inv(g[l])) % p;
          if (c == 0) fail("boundary of negative chain misses its partner");
          for (int i = 0; i < n; ++i)
            if (b[i] != (c * g[i]) % p) fail("boundary of negative chain not proportional to its partner");
        }
      }
    }
  }

  bool insert() {
    if (order.size() >= 16) return false;
    std::map<u64, int> present;
    for (int u : order) present[cells[u].verts] = u;
    std::vector<u64> cand;
    for (u64 s = 1; s < 64; ++s) {
      int k = __builtin_popcountll(s);
      if (k > 4 || present.count(s)) continue;
      bool ok = true;
      if (k > 1)
        for (int v = 0; v < 6 && ok; ++v)
          if ((s >> v) & 1)
            if (!present.count(s ^ (u64(1) << v))) ok = false;
      if (ok) cand.push_back(s);
    }
    if (cand.empty()) return false;
    u64 s = cand[rnd(cand.size())];
    for (int t = 0; t < 2; ++t) {
      u64 s2 = cand[rnd(cand.size())];
      if (__builtin_popcountll(s2) > __builtin_popcountll(s)) s = s2;
    }
    Cell c;
    c.verts = s;
    c.dim = __builtin_popcountll(s) - 1;
    if (c.dim > 0) {
      int sign = 1;
      for (int v = 0; v < 6; ++v)
        if ((s >> v) & 1) {
          c.bd.push_back({present[s ^ (u64(1) << v)], sign});
          sign = -sign;
        }
    }
    unsigned id;
    if (custom)
      id = any ? maxId + 1 + rnd(3) : rnd(3);
    else
      id = order.size();
    // without vine updates the chain matrix also gives back the index of a removed column: default id = position
    c.id = id;
    std::vector<std::pair<unsigned, unsigned>> b;
    for (auto& f : c.bd) {
      // unusual but legal: coefficients not reduced (p-1 as -1, or +1 + p)
      unsigned coef = f.second > 0 ? 1 + (rnd(3) == 0 ? p : 0) : p - 1;
      b.push_back({cells[f.first].id, coef});
    }
    std::sort(b.begin(), b.end());
    log << "insert id=" << id << " dim=" << c.dim << " {";
    for (auto& x : b) log << x.first << ":" << x.second << ",";
    log << "}\n";
    bool give = rnd(2);
    if (custom) {
      if (give)
        m.insert_boundary(id, b, c.dim);
      else
        m.insert_boundary(id, b);
    } else {
      if (give)
        m.insert_boundary(b, c.dim);
      else
        m.insert_boundary(b);
    }
    any = true;
    maxId = std::max(maxId, id);
    cells.push_back(c);
    order.push_back(cells.size() - 1);
    return true;
  }

  void run(int nops) {
    check();
    for (int i = 0; i < nops; ++i) {
      int r = rnd(100);
      if (r < 55) {
        if (!insert()) continue;
      } else if (r < 88) {
        log << "remove_last\n";
        m.remove_last();
        if (!order.empty()) {
          // default identifiers: the position is given back; custom: only larger ones are used afterwards
          order.pop_back();
        }
      } else {
        int k = rnd(3);
        log << "copy " << k << "\n";
        if (k == 0) {
          M c(m);
          m = c;
        } else if (k == 1) {
          M c(std::move(m));
          m = std::move(c);
        } else {
          M c(m);
          swap(m, c);
        }
      }
      check();
    }
  }
};

template <class O>
int run_config(const char* name, unsigned seed0, int ncases, int nops) {
  static const int primes[] = {2, 3, 5, 7, 11, 13};
  int fails = 0;
  for (int c = 0; c < ncases; ++c) {
    H<O> h(seed0 + c, primes[c % 6], (c / 6) & 1);
    try {
      h.run(nops);
    } catch (const Fail& f) {
      ++fails;
      std::cout << "FAIL " << name << " seed=" << seed0 + c << " p=" << h.p << " custom=" << h.custom << " : " << f.msg
                << "\n";
      if (fails <= 2) std::cout << h.log.str() << "----\n";
    } catch (const std::exception& e) {
      ++fails;
      std::cout << "EXC  " << name << " seed=" << seed0 + c << " p=" << h.p << " custom=" << h.custom << " : "
                << e.what() << "\n";
      if (fails <= 2) std::cout << h.log.str() << "----\n";
    }
    if (fails >= 5) break;
  }
  std::cout << (fails ? "BAD  " : "ok   ") << name << " cases=" << ncases << " fails=" << fails << std::endl;
  return fails;
}

#ifndef ZP_PART
#define ZP_PART 0
#endif

int main(int argc, char** argv) {
  unsigned seed = argc > 1 ? atoi(argv[1]) : 1;
  int nc = argc > 2 ? atoi(argv[2]) : 300;
  int nops = argc > 3 ? atoi(argv[3]) : 60;
  int bad = 0;
  using CT = Column_types;
  //                C, IDX, BND, MAPC, RA, DIM
#if ZP_PART == 0
  bad += run_config<Opt<CT::INTRUSIVE_SET, 0, true, false, 0, true>>("ru/iset/pos", seed, nc, nops);
  bad += run_config<Opt<CT::LIST, 2, true, true, 2, false>>("ru/list/id/map/ra2", seed, nc, nops);
  bad += run_config<Opt<CT::HEAP, 1, true, true, 0, true>>("ru/heap/pos/map", seed, nc, nops);
#elif ZP_PART == 1
  bad += run_config<Opt<CT::VECTOR, 0, true, false, 3, false>>("ru/vector/pos/ra3", seed, nc, nops);
  bad += run_config<Opt<CT::UNORDERED_SET, 2, true, false, 1, true>>("ru/uset/id/ra1", seed, nc, nops);
  bad += run_config<Opt<CT::SMALL_VECTOR, 0, true, true, 4, false>>("ru/small/pos/map/ra4", seed, nc, nops);
#elif ZP_PART == 2
  bad += run_config<Opt<CT::INTRUSIVE_LIST, 0, false, false, 0, true>>("chain/ilist/cont", seed, nc, nops);
  bad += run_config<Opt<CT::SET, 1, false, true, 2, false>>("chain/set/pos/map/ra2", seed, nc, nops);
  bad += run_config<Opt<CT::NAIVE_VECTOR, 2, false, true, 3, true>>("chain/naive/id/map/ra3", seed, nc, nops);
#else
  bad += run_config<Opt<CT::HEAP, 2, false, false, 0, false>>("chain/heap/id", seed, nc, nops);
  bad += run_config<Opt<CT::VECTOR, 1, false, false, 1, true>>("chain/vector/pos/ra1", seed, nc, nops);
  bad += run_config<Opt<CT::UNORDERED_SET, 0, false, true, 4, false>>("chain/uset/cont/map/ra4", seed, nc, nops);
#endif
  return bad != 0;
}

// Defect 2: skeleton_simplex_range(d) with d < 0 enumerates all the vertices instead of nothing.
//
// The d-skeleton is documented as "the simplices of K of dimension at most d" (Simplex_tree.h:340-348), so the
// (-1)-skeleton (and any d < 0) is empty.  Simplex_tree_skeleton_simplex_iterator (Simplex_tree_iterators.h:396-412 and
// 432-449) starts on the first vertex whatever dim_skel_ is, and only uses dim_skel_ to decide whether it goes DOWN
// (curr_dim_ < dim_skel_): it never tests 0 <= dim_skel_, so every vertex (dimension 0 > d) is returned.
// The sibling interface prune_above_dimension() does handle negative values (prune_above_dimension(-1) empties the
// complex), so the two disagree: pruning above dimension d and the d-skeleton are not the same complex for d < 0.
//
// build: g++ -std=gnu++17 -O1 -g -fsanitize=address,undefined $(ls -d /repo/src/*/include | sed 's/^/-I/') defect_2.cpp -o defect_2
#include <gudhi/Simplex_tree.h>
#include <iostream>

template <class Options>
int run(const char* name) {
  Gudhi::Simplex_tree<Options> st;
  st.insert_simplex_and_subfaces({0, 1, 2});
  st.insert_simplex_and_subfaces({2, 3});
  int failures = 0;
  for (int d : {-1, -2, -1000000}) {
    std::size_t n = 0;
    for (auto sh : st.skeleton_simplex_range(d)) { (void)sh; ++n; }
    Gudhi::Simplex_tree<Options> pruned(st);
    pruned.prune_above_dimension(d);
    std::cout << name << ": skeleton_simplex_range(" << d << ") has " << n << " simplices, expected 0 ("
              << "prune_above_dimension(" << d << ") leaves " << pruned.num_simplices() << ")\n";
    if (n != 0) ++failures;
  }
  return failures;
}

int main() {
  int failures = run<Gudhi::Simplex_tree_options_default>("default") +
                 run<Gudhi::Simplex_tree_options_full_featured>("full_featured");
  std::cout << (failures ? "FAIL" : "PASS") << std::endl;
  return failures ? 1 : 0;
}

// Pristine defect 4: RU flavour with vine updates (R is a Boundary_matrix with the row swap maps), map column
// container, removable columns, cells inserted with identifiers different from their positions.
// Boundary_matrix::insert_boundary registers the swap maps under the IDENTIFIER (indexToRow_.emplace(cellIndex, ..)),
// but Boundary_matrix::remove_last calls erase_empty_row(nextInsertIndex_) with the POSITION, and erase_empty_row
// dereferences indexToRow_.find(position) unconditionally: when no cell has that identifier it dereferences end()
// (crash); when some other cell has it, the row mapping of that other, still present cell is erased instead.
// No vine swap is needed, only insert_boundary(id, ...) and remove_last().
#include <iostream>
#include <set>
#include <tuple>
#include <vector>
#include <sys/wait.h>
#include <unistd.h>
#include <gudhi/Matrix.h>
using namespace Gudhi::persistence_matrix;
template <bool mapContainer>
struct Opt : Default_options<Column_types::INTRUSIVE_SET, true> {
  static const bool has_column_pairings = true;
  static const bool has_vine_update = true;
  static const bool has_removable_columns = true;
  static const bool has_map_column_container = mapContainer;
};
template <class M>
int scenario() {
  M m;
  std::vector<unsigned> empty;
  m.insert_boundary(5, empty);
  m.insert_boundary(6, empty);
  m.insert_boundary(9, std::vector<unsigned>{5, 6});
  m.remove_last();
  m.insert_boundary(10, std::vector<unsigned>{5, 6});
  std::set<std::tuple<int, unsigned, unsigned> > bars;
  for (auto& b : m.get_current_barcode()) bars.emplace(b.dim, b.birth, b.death);
  std::set<std::tuple<int, unsigned, unsigned> > expected = {{0, 0u, (unsigned)-1}, {0, 1u, 2u}};
  return bars == expected ? 0 : 1;
}
template <class M>
bool run_in_child(const char* name) {
  pid_t pid = fork();
  if (pid == 0) _exit(scenario<M>());
  int status = 0;
  waitpid(pid, &status, 0);
  bool ok = WIFEXITED(status) && WEXITSTATUS(status) == 0;
  std::cout << name << ": ";
  if (ok) std::cout << "ok";
  else if (WIFSIGNALED(status)) std::cout << "crashed with signal " << WTERMSIG(status);
  else std::cout << "wrong barcode";
  std::cout << std::endl;
  return ok;
}
int main() {
  bool ok = true;
  ok &= run_in_child<Matrix<Opt<false> > >("vector container");
  ok &= run_in_child<Matrix<Opt<true> > >("map container   ");
  std::cout << (ok ? "PASS" : "FAIL") << std::endl;
  return ok ? 0 : 1;
}

// Differential fuzzer for property C04 (flag/clique expansions by every route).
// Reference: brute-force clique enumeration on a std::map based weighted graph.
//
// Routes compared (per random graph, per option set, per max dimension):
//   A  insert_graph (boost adjacency_list directedS / undirectedS / bidirectionalS, random edge orientation,
//      optionally duplicated edges with identical value) or filtered_graph (non contiguous labels) or manual
//      insert_simplex of vertices+edges,  followed by expansion(d)
//   B  same 1-skeleton followed by expansion_with_blockers(d, never-block)
//   C  insert_edge_as_flag, vertices+edges in filtration order (random tie-breaking), checked after every step
//      (whole complex == model of current graph, added_simplices == exactly the new simplices)
//   D  insert_edge_as_flag in random order (edge after its vertices) + make_filtration_non_decreasing
//   E  expansion_with_blockers with a deterministic hash predicate (optionally editing the filtration value)
//      against the "largest subcomplex with no blocked simplex" model
//   F  copies / moves / assignments in the middle of a C/D history, clear() and rebuild, expansion of a sub-graph
//      followed by incremental insertion of the remaining edges
// Also audited: the oracle of expansion_with_blockers is called exactly once on every candidate (all facets kept),
// never on anything else, with the value max(facets); return value of make_filtration_non_decreasing; star and
// codimension-1 coface ranges, find(), num_simplices(), dimension() (exact), upper_bound_dimension(), structural
// invariants of the tree (children / oncles / parent pointers, sorted members) and validity of
// filtration_simplex_range() after every step.
// Graphs: 0..12 vertices, density 0..100%, 1..4 distinct values (many ties), isolated vertices, labels contiguous or
// not, negative (never -1), up to the limit of the Vertex_handle type; edge value >= values of its vertices.
// Max dimension: 0,1,2,3,4,5,6,40 and -1 (insert_edge_as_flag only).
// Option sets: default, full_featured, link only, stable only, fast_persistence (contiguous, float), contiguous+link,
// contiguous+link+stable, minimal (no filtration, no key), short/float/uint16 key/link, long long/int/no key/link+stable,
// link + Simplex_data=vector<int>, full_featured + Simplex_data=string.
//
// RESULT: NOTHING FOUND by this program except defect_1 (insert_graph of a filtered_graph showing no vertex; that
// input is now routed around, see build_skeleton). Passed: per option set 2850 random cases with
// -O1 -fsanitize=address,undefined (seeds 1..150, 1000..2499, 20000..21199; 800 for the two Simplex_data sets) and
// 4000 cases with -O2 -DNDEBUG without sanitizers (seeds 50000..53999).
// Build: g++ -std=gnu++17 -O1 -g -fsanitize=address,undefined -I<gudhi include dirs> fuzz_flag_routes.cpp -ltbb
//        (add -DONLY=0..4 to compile a subset of the option sets: the full file takes ~8 minutes to compile)
// Usage: ./fuzz_flag_routes [seed0] [ncases]
#include <gudhi/Simplex_tree.h>
#include <gudhi/graph_simplicial_complex.h>
#include <boost/graph/adjacency_list.hpp>
#include <boost/graph/filtered_graph.hpp>
#include <iostream>
#include <map>
#include <set>
#include <vector>
#include <random>
#include <algorithm>
#include <sstream>

using namespace Gudhi;

struct O_default : Simplex_tree_options_default {};
struct O_full : Simplex_tree_options_full_featured {};
struct O_fastcof : Simplex_tree_options_default { static const bool link_nodes_by_label = true; };
struct O_stable : Simplex_tree_options_default { static const bool stable_simplex_handles = true; };
struct O_fastpers : Simplex_tree_options_fast_persistence {};
struct O_minimal : Simplex_tree_options_minimal {};
struct O_contig_link : Simplex_tree_options_fast_persistence { static const bool link_nodes_by_label = true; };
struct O_contig_stable : Simplex_tree_options_fast_persistence {
  static const bool link_nodes_by_label = true;
  static const bool stable_simplex_handles = true;
};
struct O_data : Simplex_tree_options_default { static const bool link_nodes_by_label = true; typedef std::vector<int> Simplex_data; };
struct O_data_stable : Simplex_tree_options_full_featured { typedef std::string Simplex_data; };
struct O_short {
  typedef linear_indexing_tag Indexing_tag;
  typedef short Vertex_handle;
  typedef float Filtration_value;
  typedef std::uint16_t Simplex_key;
  static const bool store_key = true;
  static const bool store_filtration = true;
  static const bool contiguous_vertices = false;
  static const bool link_nodes_by_label = true;
  static const bool stable_simplex_handles = false;
};
struct O_long {
  typedef linear_indexing_tag Indexing_tag;
  typedef long long Vertex_handle;
  typedef int Filtration_value;
  typedef std::uint64_t Simplex_key;
  static const bool store_key = false;
  static const bool store_filtration = true;
  static const bool contiguous_vertices = false;
  static const bool link_nodes_by_label = true;
  static const bool stable_simplex_handles = true;
};

typedef long long V;
struct Graph {
  std::map<V, double> vf;
  std::map<std::pair<V, V>, double> ef;  // key (u<v)
  bool has(V a, V b) const { if (a > b) std::swap(a, b); return ef.count({a, b}); }
  double w(V a, V b) const { if (a > b) std::swap(a, b); return ef.at({a, b}); }
};
typedef std::map<std::vector<V>, double> Model;

static void rec_clique(const Graph& g, int d, std::vector<V>& cur, double f, const std::vector<V>& cand, Model& m) {
  for (size_t i = 0; i < cand.size(); ++i) {
    V x = cand[i];
    double nf = std::max(f, g.vf.at(x));
    for (V y : cur) nf = std::max(nf, g.w(y, x));
    cur.push_back(x);
    m[cur] = nf;
    if (d < 0 || (int)cur.size() <= d) {
      std::vector<V> nc;
      for (size_t j = i + 1; j < cand.size(); ++j)
        if (g.has(x, cand[j])) nc.push_back(cand[j]);
      rec_clique(g, d, cur, nf, nc, m);
    }
    cur.pop_back();
  }
}
// d<0 : unlimited. d==0: vertices only, d==1 graph...
static Model clique_model(const Graph& g, int d) {
  Model m;
  std::vector<V> cand;
  for (auto& p : g.vf) cand.push_back(p.first);
  std::vector<V> cur;
  rec_clique(g, d, cur, -1e300, cand, m);
  return m;
}
static int model_dim(const Model& m) {
  int d = -1;
  for (auto& p : m) d = std::max(d, (int)p.first.size() - 1);
  return d;
}

static unsigned long long hash_simplex(const std::vector<V>& s, unsigned long long salt) {
  unsigned long long h = 1469598103934665603ull ^ salt;
  for (V v : s) { h ^= (unsigned long long)v + 0x9e3779b97f4a7c15ull + (h << 6) + (h >> 2); h *= 1099511628211ull; }
  h ^= h >> 29;
  return h;
}
struct Pred {
  unsigned long long salt; int mod; int bump;  // block iff hash%mod==0 ; bump: add (hash/7)%bump to filtration
  bool blocked(const std::vector<V>& s) const { return mod > 0 && hash_simplex(s, salt) % mod == 0; }
  double extra(const std::vector<V>& s) const { return bump > 0 ? (double)((hash_simplex(s, salt) / 7) % bump) : 0.; }
};
static Model blocked_model(const Graph& g, int d, const Pred& p) {
  Model full = clique_model(g, d <= 1 ? 1 : d);
  // by increasing size
  std::vector<const std::vector<V>*> order;
  for (auto& q : full) order.push_back(&q.first);
  std::stable_sort(order.begin(), order.end(), [](auto a, auto b) { return a->size() < b->size(); });
  Model res;
  for (auto sp : order) {
    const std::vector<V>& s = *sp;
    if (s.size() <= 2) { res[s] = full[s]; continue; }
    bool ok = true;
    double f = -1e300;
    for (size_t i = 0; i < s.size() && ok; ++i) {
      std::vector<V> face(s);
      face.erase(face.begin() + i);
      auto it = res.find(face);
      if (it == res.end()) ok = false; else f = std::max(f, it->second);
    }
    if (!ok) continue;
    if (p.blocked(s)) continue;
    res[s] = f + p.extra(s);
  }
  return res;
}

static int g_fail = 0;
static std::string g_ctx;
#define FAIL(msg) do { std::ostringstream oss_; oss_ << msg; std::cout << "FAIL [" << g_ctx << "] " << oss_.str() << std::endl; \
  if (++g_fail > 20) { std::cout << "too many failures" << std::endl; exit(1);} } while (0)

template <class ST>
std::vector<V> vertices_of(const ST& st, typename ST::Simplex_handle sh) {
  std::vector<V> s;
  for (auto v : st.simplex_vertex_range(sh)) s.push_back(v);
  std::sort(s.begin(), s.end());
  return s;
}

template <class ST>
Model extract(const ST& st) {
  Model m;
  for (auto sh : st.complex_simplex_range()) {
    auto s = vertices_of(st, sh);
    if (m.count(s)) FAIL("simplex listed twice by complex_simplex_range");
    m[s] = ST::Options::store_filtration ? (double)st.filtration(sh) : 0.;
  }
  return m;
}

// structural walk independent from the iterators
template <class ST, class Sib>
void walk(const ST& st, const Sib* sib, std::vector<V>& prefix, Model& m, bool& ok) {
  bool first = true; V prev = 0;
  for (auto it = sib->members().begin(); it != sib->members().end(); ++it) {
    if (!first && !(prev < it->first)) { ok = false; }
    first = false; prev = it->first;
    if (!prefix.empty() && !(prefix.back() < it->first)) ok = false;
    prefix.push_back(it->first);
    m[prefix] = ST::Options::store_filtration ? (double)it->second.filtration() : 0.;
    auto* ch = it->second.children();
    if (ch == nullptr) ok = false;
    else if (ch != sib) {
      if (ch->parent() != it->first || ch->oncles() != sib || ch->members().empty()) ok = false;
      else walk(st, ch, prefix, m, ok);
    }
    prefix.pop_back();
  }
}

static std::string str(const std::vector<V>& s) {
  std::ostringstream o; o << "{"; for (size_t i = 0; i < s.size(); ++i) o << (i ? "," : "") << s[i]; o << "}"; return o.str();
}

static bool same(const Model& a, const Model& b, bool filt, std::string& why) {
  for (auto& p : a) {
    auto it = b.find(p.first);
    if (it == b.end()) { why = "extra simplex " + str(p.first); return false; }
    if (filt && it->second != p.second) {
      std::ostringstream o; o << "filtration of " << str(p.first) << " is " << p.second << " expected " << it->second;
      why = o.str(); return false;
    }
  }
  for (auto& p : b) if (!a.count(p.first)) { why = "missing simplex " + str(p.first); return false; }
  return true;
}

template <class ST>
void check_tree(const ST& st, const Model& ref, bool filt, const char* what, bool exact_dim = true) {
  filt = filt && ST::Options::store_filtration;
  Model got = extract(st);
  std::string why;
  if (!same(got, ref, filt, why)) { FAIL(what << ": iterator view: " << why); return; }
  Model got2; bool ok = true; std::vector<V> prefix;
  walk(st, st.root(), prefix, got2, ok);
  if (!ok) FAIL(what << ": structural invariants broken");
  if (!same(got2, ref, filt, why)) FAIL(what << ": structural view: " << why);
  if (st.num_simplices() != ref.size()) FAIL(what << ": num_simplices " << st.num_simplices() << " expected " << ref.size());
  int md = model_dim(ref);
  if (st.upper_bound_dimension() < md) FAIL(what << ": upper_bound_dimension " << st.upper_bound_dimension() << " < true dim " << md);
  if (exact_dim) {
    ST& nc = const_cast<ST&>(st);
    int dd = nc.dimension();
    if (dd != md) FAIL(what << ": dimension() " << dd << " expected " << md);
  }
  // find + cofaces
  for (auto& p : ref) {
    std::vector<typename ST::Vertex_handle> s(p.first.begin(), p.first.end());
    auto sh = st.find(s);
    if (sh == st.null_simplex()) { FAIL(what << ": find fails on " << str(p.first)); continue; }
  }
  // star / cofaces of a few simplices
  size_t cnt = 0;
  for (auto& p : ref) {
    if ((cnt++ % 3) != 0 && ref.size() > 40) continue;
    std::vector<typename ST::Vertex_handle> s(p.first.begin(), p.first.end());
    auto sh = st.find(s);
    if (sh == st.null_simplex()) continue;
    std::set<std::vector<V>> star_ref, cof1_ref;
    for (auto& q : ref)
      if (std::includes(q.first.begin(), q.first.end(), p.first.begin(), p.first.end())) {
        star_ref.insert(q.first);
        if (q.first.size() == p.first.size() + 1) cof1_ref.insert(q.first);
      }
    std::set<std::vector<V>> star_got, cof1_got;
    size_t n1 = 0, n2 = 0;
    for (auto c : st.star_simplex_range(sh)) { star_got.insert(vertices_of(st, c)); ++n1; }
    for (auto c : st.cofaces_simplex_range(sh, 1)) { cof1_got.insert(vertices_of(st, c)); ++n2; }
    if (star_got != star_ref || n1 != star_ref.size()) FAIL(what << ": star of " << str(p.first) << " has " << n1 << " expected " << star_ref.size());
    if (cof1_got != cof1_ref || n2 != cof1_ref.size()) FAIL(what << ": cofaces(1) of " << str(p.first) << " has " << n2 << " expected " << cof1_ref.size());
  }
  // filtration order is a valid filtration order
  if (filt) {
    st.clear_filtration();
    std::set<std::vector<V>> seen;
    double last = -1e300;
    for (auto sh : st.filtration_simplex_range()) {
      auto s = vertices_of(st, sh);
      double f = st.filtration(sh);
      if (f < last) FAIL(what << ": filtration_simplex_range not sorted");
      last = f;
      for (size_t i = 0; s.size() > 1 && i < s.size(); ++i) {
        auto face = s; face.erase(face.begin() + i);
        if (!seen.count(face)) FAIL(what << ": face after coface in filtration order");
      }
      seen.insert(s);
    }
    if (seen.size() != ref.size()) FAIL(what << ": filtration range size");
    st.clear_filtration();
  }
}

// ---- graph generation
struct GenCfg { bool contiguous; bool small_labels; bool allow_negative; };
static Graph random_graph(std::mt19937_64& rng, const GenCfg& cfg, V label_lim) {
  Graph g;
  int n = (int)(rng() % 9);  // 0..8
  if (rng() % 8 == 0) n = (int)(rng() % 13);
  int nvals = 1 + (int)(rng() % 4);  // few distinct values: many ties
  std::vector<V> labels;
  if (cfg.contiguous) { for (int i = 0; i < n; ++i) labels.push_back(i); }
  else {
    std::set<V> s;
    while ((int)s.size() < n) {
      V l;
      switch (rng() % 3) {
        case 0: l = (V)(rng() % 20); break;
        case 1: l = (V)(rng() % 1000) * 7; break;
        default: l = (V)(rng() % (unsigned long long)label_lim); break;
      }
      if (cfg.allow_negative && rng() % 3 == 0) l = -l - 2;  // never -1 (null_vertex)
      if (l > label_lim - 2) continue;
      if (l == -1) continue;
      s.insert(l);
    }
    labels.assign(s.begin(), s.end());
  }
  for (V l : labels) g.vf[l] = (double)(rng() % nvals);
  int dens = (int)(rng() % 11);  // 0..10
  for (size_t i = 0; i < labels.size(); ++i)
    for (size_t j = i + 1; j < labels.size(); ++j)
      if ((int)(rng() % 10) < dens) {
        double base = std::max(g.vf[labels[i]], g.vf[labels[j]]);
        g.ef[{labels[i], labels[j]}] = base + (double)(rng() % nvals);
      }
  return g;
}

template <class ST>
void build_skeleton(ST& st, const Graph& g, std::mt19937_64& rng, bool contiguous) {
  typedef typename ST::Filtration_value F;
  typedef typename ST::Vertex_handle VH;
  int mode = (int)(rng() % (contiguous ? 4 : 2));
  if (mode == 0) {  // manual
    std::vector<std::pair<std::vector<VH>, F>> items;
    for (auto& p : g.vf) items.push_back({{(VH)p.first}, (F)p.second});
    for (auto& p : g.ef) items.push_back({{(VH)p.first.first, (VH)p.first.second}, (F)p.second});
    // vertices first in random order then edges in random order (edges first would leave wrong vertex values)
    std::shuffle(items.begin(), items.begin() + g.vf.size(), rng);
    std::shuffle(items.begin() + g.vf.size(), items.end(), rng);
    for (auto& it : items) {
      if (it.first.size() == 2 && rng() % 2) std::swap(it.first[0], it.first[1]);
      st.insert_simplex(it.first, it.second);
    }
    return;
  }
  if (mode == 1) {
    // filtered_graph over a contiguous underlying graph: labels are positions in a bigger graph. Only usable when
    // labels are small and non negative; otherwise fall back on manual insertion.
    V maxl = -1; bool neg = false;
    for (auto& p : g.vf) { maxl = std::max(maxl, p.first); if (p.first < 0) neg = true; }
    if (neg || maxl > 2000 || g.vf.empty()) {  // (empty: see defect_1, insert_graph sets dimension 0)
      for (auto& p : g.vf) st.insert_simplex(std::vector<VH>{(VH)p.first}, (F)p.second);
      for (auto& p : g.ef) st.insert_simplex(std::vector<VH>{(VH)p.first.first, (VH)p.first.second}, (F)p.second);
      return;
    }
    typedef boost::adjacency_list<boost::vecS, boost::vecS, boost::directedS,
        boost::property<vertex_filtration_t, F>, boost::property<edge_filtration_t, F>> G;
    G bg((size_t)(maxl + 1 + rng() % 3));
    for (auto& p : g.vf) boost::put(vertex_filtration_t(), bg, (VH)p.first, (F)p.second);
    // extra junk edges to vertices which are filtered out
    for (auto& p : g.ef) {
      if (rng() % 2) boost::add_edge((VH)p.first.first, (VH)p.first.second, (F)p.second, bg);
      else boost::add_edge((VH)p.first.second, (VH)p.first.first, (F)p.second, bg);
    }
    for (size_t v = 0; v < boost::num_vertices(bg); ++v)
      if (!g.vf.count((V)v) && rng() % 2 && !g.vf.empty()) {
        auto it = g.vf.begin(); std::advance(it, rng() % g.vf.size());
        boost::add_edge((VH)v, (VH)it->first, (F)0, bg);
      }
    struct VP { const Graph* g; VP() : g(nullptr) {} VP(const Graph* gg) : g(gg) {} bool operator()(VH v) const { return g->vf.count((V)v) > 0; } };
    boost::filtered_graph<G, boost::keep_all, VP> fg(bg, boost::keep_all(), VP(&g));
    st.insert_graph(fg);
    return;
  }
  auto fill = [&](auto& bg) {
    for (auto& p : g.vf) boost::put(vertex_filtration_t(), bg, (VH)p.first, (F)p.second);
    std::vector<std::pair<std::pair<V, V>, double>> es(g.ef.begin(), g.ef.end());
    std::shuffle(es.begin(), es.end(), rng);
    for (auto& p : es) {
      int k = 1 + (rng() % 5 == 0);
      for (int r = 0; r < k; ++r) {
        if (rng() % 2) boost::add_edge((VH)p.first.first, (VH)p.first.second, (F)p.second, bg);
        else boost::add_edge((VH)p.first.second, (VH)p.first.first, (F)p.second, bg);
      }
    }
  };
  if (mode == 2) {
    boost::adjacency_list<boost::vecS, boost::vecS, boost::directedS,
        boost::property<vertex_filtration_t, F>, boost::property<edge_filtration_t, F>> bg(g.vf.size());
    fill(bg); st.insert_graph(bg);
  } else {
    if (rng() % 2) {
      boost::adjacency_list<boost::vecS, boost::vecS, boost::undirectedS,
          boost::property<vertex_filtration_t, F>, boost::property<edge_filtration_t, F>> bg(g.vf.size());
      fill(bg); st.insert_graph(bg);
    } else {
      boost::adjacency_list<boost::listS, boost::vecS, boost::bidirectionalS,
          boost::property<vertex_filtration_t, F>, boost::property<edge_filtration_t, F>> bg(g.vf.size());
      fill(bg); st.insert_graph(bg);
    }
  }
}

struct Item { V u, v; double f; };

template <class ST>
void maybe_relocate(ST*& cur, ST& a, ST& b, std::mt19937_64& rng) {
  ST* other = (cur == &a) ? &b : &a;
  switch (rng() % 4) {
    case 0: *other = *cur; break;                      // copy assignment
    case 1: *other = std::move(*cur); break;           // move assignment
    case 2: { ST tmp(*cur); *other = std::move(tmp); break; }   // copy ctor + move
    case 3: { ST tmp(std::move(*cur)); *other = tmp; break; }   // move ctor + copy
  }
  cur = other;
}

template <class ST>
void incremental(const Graph& g, int d, std::mt19937_64& rng, bool sorted_order, bool relocate, const Model* start_model,
                 ST* start_tree, const Graph* start_graph) {
  typedef typename ST::Filtration_value F;
  typedef typename ST::Vertex_handle VH;
  constexpr bool link = ST::Options::link_nodes_by_label;
  if constexpr (link) {
    ST A, B; ST* cur = &A;
    Graph curg;
    if (start_tree) { A = *start_tree; curg = *start_graph; }
    std::vector<Item> vs, es;
    for (auto& p : g.vf) if (!curg.vf.count(p.first)) vs.push_back({p.first, p.first, p.second});
    for (auto& p : g.ef) if (!curg.ef.count(p.first)) es.push_back({p.first.first, p.first.second, p.second});
    std::vector<Item> seq;
    std::shuffle(vs.begin(), vs.end(), rng); std::shuffle(es.begin(), es.end(), rng);
    if (ST::Options::contiguous_vertices) {
      // the vertex set must be 0..n-1 at all times: vertices first, by increasing label
      std::sort(vs.begin(), vs.end(), [](const Item& a, const Item& b) { return a.u < b.u; });
      if (sorted_order) std::stable_sort(es.begin(), es.end(), [](const Item& a, const Item& b) { return a.f < b.f; });
      seq = vs; seq.insert(seq.end(), es.begin(), es.end());
    } else if (sorted_order) {
      seq = vs; seq.insert(seq.end(), es.begin(), es.end());
      // sort by value, vertices before edges on ties
      std::stable_sort(seq.begin(), seq.end(), [](const Item& a, const Item& b) {
        if (a.f != b.f) return a.f < b.f;
        return (a.u == a.v) && (b.u != b.v); });
    } else {
      // random interleaving with constraint vertex before its edges
      seq = vs; seq.insert(seq.end(), es.begin(), es.end());
      std::shuffle(seq.begin(), seq.end(), rng);
      std::vector<Item> out; std::set<V> have; for (auto& p : curg.vf) have.insert(p.first);
      std::vector<Item> pending = seq;
      while (!pending.empty()) {
        std::vector<Item> rest;
        for (auto& it : pending) {
          if (it.u == it.v) { out.push_back(it); have.insert(it.u); }
          else if (have.count(it.u) && have.count(it.v)) out.push_back(it);
          else rest.push_back(it);
        }
        pending = rest;
      }
      seq = out;
    }
    Model before = clique_model(curg, d);
    if (start_model) before = *start_model;
    int step = 0;
    bool vertices_by_insert_simplex = rng() % 4 == 0;
    std::vector<typename ST::Simplex_handle> added;
    for (auto& it : seq) {
      ++step;
      if (relocate && rng() % 4 == 0) maybe_relocate(cur, A, B, rng);
      ST& st = *cur;
      added.clear();
      bool viaflag = true;
      if (it.u == it.v) {
        curg.vf[it.u] = it.f;
        if (vertices_by_insert_simplex) { st.insert_simplex(std::vector<VH>{(VH)it.u}, (F)it.f); viaflag = false; }
        else st.insert_edge_as_flag((VH)it.u, (VH)it.u, (F)it.f, d, added);
      } else {
        curg.ef[{it.u, it.v}] = it.f;
        if (rng() % 2) st.insert_edge_as_flag((VH)it.u, (VH)it.v, (F)it.f, d, added);
        else st.insert_edge_as_flag((VH)it.v, (VH)it.u, (F)it.f, d, added);
      }
      Model after = clique_model(curg, d);
      if (d == 0) {  // truncated at dimension 0 : edges never appear
      }
      // added == after \ before
      if (viaflag) {
        std::set<std::vector<V>> addset;
        for (auto sh : added) {
          auto s = vertices_of(st, sh);
          if (!addset.insert(s).second) FAIL("step " << step << " added_simplices lists " << str(s) << " twice");
          if (ST::Options::store_filtration && (double)st.filtration(sh) != it.f)
            FAIL("step " << step << " added simplex " << str(s) << " has value " << st.filtration(sh) << " expected edge value " << it.f);
        }
        std::set<std::vector<V>> expect;
        for (auto& p : after) if (!before.count(p.first)) expect.insert(p.first);
        if (addset != expect) FAIL("step " << step << " (" << it.u << "," << it.v << ") added_simplices has " << addset.size() << " simplices, expected " << expect.size());
      }
      std::ostringstream w; w << (sorted_order ? "sorted" : "random") << " incremental step " << step << " (" << it.u << "," << it.v << ";" << it.f << ") d=" << d;
      check_tree(st, after, sorted_order, w.str().c_str());
      before = after;
      if (g_fail) return;
    }
    if (!sorted_order) {
      Model full = clique_model(curg, d);
      Model pre = extract(*cur);
      bool changed = cur->make_filtration_non_decreasing();
      if (ST::Options::store_filtration && changed != (pre != full)) FAIL("make_filtration_non_decreasing returns " << changed << " but values " << ((pre != full) ? "changed" : "did not change"));
      check_tree(*cur, full, true, "random incremental + make_filtration_non_decreasing");
      if (cur->make_filtration_non_decreasing()) FAIL("second make_filtration_non_decreasing reports a change");
    }
  }
}

template <class ST>
void run_case(std::mt19937_64& rng, bool contiguous, V label_lim) {
  typedef typename ST::Vertex_handle VH;
  GenCfg cfg{contiguous, false, !contiguous};
  Graph g = random_graph(rng, cfg, label_lim);
  if (!ST::Options::store_filtration) {  // a value different from 0 is a (debug-checked) misuse without storage
    for (auto& p : g.vf) p.second = 0;
    for (auto& p : g.ef) p.second = 0;
  }
  int d;
  switch (rng() % 8) { case 0: d = 0; break; case 1: d = 1; break; case 2: d = 2; break; case 3: d = 3; break; case 4: d = 40; break; case 5: d = 2; break; case 6: d = 4; break; default: d = (int)(rng() % 7); }
  {
    std::ostringstream c; c << "n=" << g.vf.size() << " m=" << g.ef.size() << " d=" << d; g_ctx += c.str();
  }
  std::string base_ctx = g_ctx;
  Model skel = clique_model(g, 1);
  Model ref = clique_model(g, std::max(d, 1));
  // route A
  ST a;
  build_skeleton(a, g, rng, contiguous);
  check_tree(a, skel, true, "skeleton");
  if (rng() % 3 == 0) { a.initialize_filtration(); a.clear_filtration(); }
  ST b(a);
  a.expansion(d);
  check_tree(a, ref, true, "A: expansion");
  // route B
  b.expansion_with_blockers(d, [](typename ST::Simplex_handle) { return false; });
  check_tree(b, ref, true, "B: expansion_with_blockers(never)");
  if (!(a == b)) FAIL("A != B by operator==");
  // clear and rebuild
  if (rng() % 4 == 0) {
    a.clear();
    check_tree(a, Model(), true, "after clear");
    build_skeleton(a, g, rng, contiguous);
    a.expansion(d);
    check_tree(a, ref, true, "A after clear+rebuild");
  }
  // route E
  {
    Pred p{rng(), (int)(rng() % 5), (rng() % 3 == 0) ? 3 : 0};
    if (!ST::Options::store_filtration) p.bump = 0;
    ST e; build_skeleton(e, g, rng, contiguous);
    Model bm = blocked_model(g, d, p);
    // model is computed to dimension max(d,1)
    std::set<std::vector<V>> called;
    e.expansion_with_blockers(d, [&](typename ST::Simplex_handle sh) {
      auto s = vertices_of(e, sh);
      // audit of the oracle calls: once per simplex, dimension in [2,d], every facet present and kept, value = max of facets
      if (!called.insert(s).second) FAIL("E: oracle called twice on " << str(s));
      if ((int)s.size() < 3 || (int)s.size() > d + 1) FAIL("E: oracle called on a simplex of dimension " << s.size() - 1);
      double mx = -1e300;
      for (size_t i = 0; i < s.size(); ++i) {
        auto face = s; face.erase(face.begin() + i);
        auto fit = bm.find(face);
        if (fit == bm.end()) FAIL("E: oracle called on " << str(s) << " whose facet " << str(face) << " is not in the result");
        else mx = std::max(mx, fit->second);
        std::vector<VH> fv(face.begin(), face.end());
        if (e.find(fv) == e.null_simplex()) FAIL("E: facet missing from the tree at call time");
      }
      if (ST::Options::store_filtration && (double)e.filtration(sh) != mx) FAIL("E: candidate " << str(s) << " proposed with value " << e.filtration(sh) << " expected " << mx);
      if (p.blocked(s)) return true;
      if (p.bump > 0) e.assign_filtration(sh, (typename ST::Filtration_value)(e.filtration(sh) + p.extra(s)));
      return false;
    });
    std::ostringstream w; w << "E: blockers mod=" << p.mod << " bump=" << p.bump << " salt=" << p.salt;
    check_tree(e, bm, true, w.str().c_str());
    {  // every candidate (all facets kept) must have been submitted to the oracle
      Model full = clique_model(g, std::max(d, 1));
      for (auto& q : full) {
        if (q.first.size() < 3) continue;
        bool cand = true;
        for (size_t i = 0; i < q.first.size(); ++i) { auto face = q.first; face.erase(face.begin() + i); if (!bm.count(face)) cand = false; }
        if (cand != (called.count(q.first) > 0)) FAIL("E: candidate " << str(q.first) << (cand ? " never submitted" : " submitted although not a candidate"));
      }
    }
  }
  // routes C, D, F (need link_nodes_by_label)
  if constexpr (ST::Options::link_nodes_by_label) {
    int dd = (d == 40 && rng() % 2) ? -1 : d;
    g_ctx = base_ctx + " C";
    incremental<ST>(g, dd, rng, true, false, nullptr, nullptr, nullptr);
    g_ctx = base_ctx + " D";
    incremental<ST>(g, dd, rng, false, false, nullptr, nullptr, nullptr);
    g_ctx = base_ctx + " F-relocate";
    incremental<ST>(g, dd, rng, rng() % 2, true, nullptr, nullptr, nullptr);
    // F: expansion of a sub-graph then incremental insertion of the rest
    if (dd >= 1) {
      Graph sub; sub.vf = g.vf;
      for (auto& p : g.ef) if (rng() % 2) sub.ef.insert(p);
      ST s; build_skeleton(s, sub, rng, contiguous);
      bool blockers = rng() % 2;
      if (blockers) s.expansion_with_blockers(dd, [](typename ST::Simplex_handle) { return false; });
      else s.expansion(dd);
      Model sm = clique_model(sub, dd);
      g_ctx = base_ctx + (blockers ? " F-blockers-then-incremental" : " F-expansion-then-incremental");
      check_tree(s, sm, true, "sub expansion");
      incremental<ST>(g, dd, rng, false, rng() % 2, &sm, &s, &sub);
    }
  }
  (void)sizeof(VH);
}

template <class ST>
void run_all(const char* name, unsigned long long seed0, int ncases, bool contiguous, V label_lim) {
  int before = g_fail;
  for (int i = 0; i < ncases; ++i) {
    unsigned long long seed = seed0 + i;
    std::mt19937_64 rng(seed * 1000003ull + 17);
    std::ostringstream c; c << name << " seed=" << seed << " "; g_ctx = c.str();
    run_case<ST>(rng, contiguous, label_lim);
    if (g_fail > before) { std::cout << "  (stopping option set " << name << " after first failing seed " << seed << ")\n"; break; }
  }
  std::cout << name << ": " << (g_fail == before ? "ok" : "FAILED") << " (" << ncases << " cases)" << std::endl;
}

#ifndef FUZZ_NO_MAIN
int main(int argc, char** argv) {
  unsigned long long seed0 = argc > 1 ? std::stoull(argv[1]) : 1;
  int n = argc > 2 ? std::stoi(argv[2]) : 300;
#if !defined(ONLY) || ONLY == 0
  run_all<Simplex_tree<O_default>>("default", seed0, n, false, 1000000000LL);
#endif
#if !defined(ONLY) || ONLY == 0
  run_all<Simplex_tree<O_full>>("full_featured", seed0, n, false, 1000000000LL);
#endif
#if !defined(ONLY) || ONLY == 0
  run_all<Simplex_tree<O_fastcof>>("fast_cofaces", seed0, n, false, 1000000000LL);
#endif
#if !defined(ONLY) || ONLY == 1
  run_all<Simplex_tree<O_stable>>("stable", seed0, n, false, 1000000000LL);
#endif
#if !defined(ONLY) || ONLY == 1
  run_all<Simplex_tree<O_default>>("default/contiguous-graphs", seed0, n, true, 0);
#endif
#if !defined(ONLY) || ONLY == 1
  run_all<Simplex_tree<O_full>>("full_featured/contiguous-graphs", seed0, n, true, 0);
#endif
#if !defined(ONLY) || ONLY == 2
  run_all<Simplex_tree<O_fastpers>>("fast_persistence", seed0, n, true, 0);
#endif
#if !defined(ONLY) || ONLY == 2
  run_all<Simplex_tree<O_contig_link>>("contiguous+link", seed0, n, true, 0);
#endif
#if !defined(ONLY) || ONLY == 2
  run_all<Simplex_tree<O_contig_stable>>("contiguous+link+stable", seed0, n, true, 0);
#endif
#if !defined(ONLY) || ONLY == 3
  run_all<Simplex_tree<O_minimal>>("minimal", seed0, n, false, 1000000000LL);
#endif
#if !defined(ONLY) || ONLY == 3
  run_all<Simplex_tree<O_short>>("short/float/link", seed0, n, false, 32767);
#endif
#if !defined(ONLY) || ONLY == 3
  run_all<Simplex_tree<O_long>>("longlong/int/link+stable/nokey", seed0, n, false, 4000000000000000000LL);
#endif
#if !defined(ONLY) || ONLY == 4
  run_all<Simplex_tree<O_data>>("link + Simplex_data=vector<int>", seed0, n, false, 1000000000LL);
  run_all<Simplex_tree<O_data_stable>>("full_featured + Simplex_data=string", seed0, n, false, 1000000000LL);
#endif
  std::cout << (g_fail ? "FAIL" : "PASS") << std::endl;
  return g_fail ? 1 : 0;
}
#endif  // FUZZ_NO_MAIN

// defect_3.cpp - with has_removable_rows, the copy of a Matrix has lost the rows of the source that are empty but were
// not erased: get_row() returns an empty row on the source and throws std::out_of_range on the copy.
//
// Property C15: copies are observationally equal to the source.
//
// Configuration: has_row_access = true and has_removable_rows = true (any matrix type; shown for a base matrix and for
// an RU matrix). With removable rows the row container is a std::map and Matrix::get_row() is rows_->at(rowIndex).
// A row that became empty (its entries were removed by remove_column / zero_column / a column addition / remove_last)
// stays in the map until the user calls erase_empty_row(): the documentation of erase_empty_row says that rows are
// only removed when the user says so ("a way to specify that a row is empty and can therefore be removed from
// dictionaries"). So source.get_row(r) is a valid call returning an empty row.
// Cause: matrix_row_access.h:76-83, Matrix_row_access copy constructor: "as the matrix is rebuild, the rows should not
// be copied": the copy starts with an empty map and only the rows that receive an entry while the columns are copied
// are created. The empty rows of the source do not exist in the copy and rows_->at(r) throws.
//
// Build: g++ -std=gnu++17 -O1 -g -fsanitize=address,undefined $(ls -d /repo/src/*/include | sed 's/^/-I/') \
//        defect_3.cpp -o defect_3
// Run:   ./defect_3      (prints FAIL and returns 1)

#include <gudhi/Matrix.h>
#include <gudhi/persistence_matrix_options.h>

#include <iostream>
#include <vector>

using namespace Gudhi::persistence_matrix;

struct Base_opt : Default_options<Column_types::INTRUSIVE_SET, true> {
  static const bool has_row_access = true;
  static const bool has_removable_rows = true;
  static const bool has_map_column_container = true;
};
struct RU_opt : Default_options<Column_types::INTRUSIVE_SET, true> {
  static const bool has_row_access = true;
  static const bool has_removable_rows = true;
  static const bool has_removable_columns = true;
  static const bool has_column_pairings = true;
  static const bool has_vine_update = true;
};

template <class M>
std::string row(M& m, unsigned r) {
  try {
    return "row with " + std::to_string(m.get_row(r).size()) + " entries";
  } catch (const std::out_of_range& e) {
    return std::string("std::out_of_range (") + e.what() + ")";
  }
}

int main() {
  bool fail = false;
  typedef std::vector<unsigned> C;
  {
    Matrix<Base_opt> m;
    m.insert_column(C{0, 1});
    m.insert_column(C{1});
    m.remove_column(0);  // row 0 is empty now, nobody erased it
    Matrix<Base_opt> c(m);
    std::string a = row(m, 0), b = row(c, 0);
    std::cout << "base matrix: source.get_row(0) = " << a << " | copy.get_row(0) = " << b << "\n";
    if (a != b) fail = true;
  }
  {
    Matrix<RU_opt> m;
    m.insert_boundary(C{});
    m.insert_boundary(C{});
    m.insert_boundary(C{0, 1});
    m.remove_last();  // the edge leaves, row 0 of R is empty now
    Matrix<RU_opt> c(m);
    std::string a = row(m, 0), b = row(c, 0);
    std::cout << "RU matrix:   source.get_row(0) = " << a << " | copy.get_row(0) = " << b << "\n";
    if (a != b) fail = true;
  }
  std::cout << (fail ? "FAIL (expected: the same answer from the copy and the source)" : "PASS") << std::endl;
  return fail ? 1 : 0;
}

// Pristine defect 2: with row access, swap_columns exchanges the two column objects including the column index each
// column object stores for the entries it creates (Row_access::columnIndex_). Column::reorder(), called when the lazy
// swaps are applied, repairs the column index of the *existing* entries only. Every entry created afterwards in one of
// the two columns is registered under the index of the other column: the rows list wrong column indices.
#include <iostream>
#include <set>
#include <vector>

#include <gudhi/Matrix.h>
#include <gudhi/persistence_matrix_options.h>

using namespace Gudhi::persistence_matrix;

struct Options : Default_options<Column_types::INTRUSIVE_LIST, true> {
  static const bool has_column_and_row_swaps = true;
  static const bool has_row_access = true;
};

int main() {
  Matrix<Options> m(0u);
  m.insert_column(std::vector<unsigned int>{0});     // column 0
  m.insert_column(std::vector<unsigned int>{1});     // column 1
  m.insert_column(std::vector<unsigned int>{0, 2});  // column 2     (3 columns, 3 rows)
  m.swap_columns(0, 1);
  // dense: col0 = 0 1 0, col1 = 1 0 0, col2 = 1 0 1
  m.get_column(0);  // applies the pending swaps
  m.add_to(2, 0);
  // dense: col0 = 1 1 1, col1 = 1 0 0, col2 = 1 0 1
  bool ok = true;
  std::vector<std::set<unsigned int> > expected = {{0, 1, 2}, {0}, {0, 2}};
  for (unsigned int r = 0; r < 3; ++r) {
    std::set<unsigned int> got;
    unsigned int n = 0;
    for (const auto& e : m.get_row(r)) {
      got.insert(e.get_column_index());
      ++n;
    }
    std::cout << "row " << r << " lists columns:";
    for (auto c : got) std::cout << " " << c;
    if (n != got.size()) std::cout << " (with duplicates)";
    std::cout << "   expected:";
    for (auto c : expected[r]) std::cout << " " << c;
    bool rowOk = got == expected[r] && n == got.size();
    std::cout << (rowOk ? "  ok" : "  WRONG") << "\n";
    ok = ok && rowOk;
  }
  auto c0 = m.get_column(0).get_content(3);
  std::cout << "column 0: " << (unsigned)c0[0] << " " << (unsigned)c0[1] << " " << (unsigned)c0[2] << " (expected 1 1 1)\n";
  std::cout << (ok ? "PASS" : "FAIL") << "\n";
  return ok ? 0 : 1;
}

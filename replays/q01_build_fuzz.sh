#!/bin/bash
# usage: build_fuzz.sh <source.cpp> <suffix> <extra flags...> ; builds one binary per option set, 4 at a time
src=$1; suf=$2; shift 2
INC="$(ls -d /repo/src/*/include | sed 's/^/-I/' | tr '\n' ' ')"
mkdir -p ./bin  # ~1 min per binary with the sanitizers
for c in O_default O_full O_fast_cofaces O_stable O_fast_pers O_contig_stable O_contig_link O_contig_link_stable O_minimal O_low O_low_ext O_myfil O_myfil_full O_intfil_link O_data_flat; do
  echo $c
done | xargs -P 4 -I{} sh -c "g++ -std=gnu++17 $* $INC -DCFG={} ./$src -o ./bin/${src%.cpp}_{}_$suf -ltbb 2>&1 | grep -E 'error' -A3 | cut -c1-300 | head -20"

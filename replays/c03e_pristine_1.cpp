// Pristine observation (C03e): initialize_filtration(true) on a complex where EVERY simplex is at +infinity leaves an
// empty cache, and an empty cache is what maybe_initialize_filtration() takes for "not initialized yet":
// the next filtration_simplex_range() silently re-initializes WITHOUT the option and lists all the ignored simplices.
#include <gudhi/Simplex_tree.h>
#include <iostream>
#include <limits>

int main() {
  using ST = Gudhi::Simplex_tree<>;
  const double inf = std::numeric_limits<double>::infinity();
  bool ok = true;

  ST st;
  st.insert_simplex_and_subfaces({0, 1}, inf);  // 3 simplices, all at +inf
  st.initialize_filtration(true);               // everything is ignored
  std::size_t n = st.filtration_simplex_range().size();
  std::cout << "all at +inf       : " << n << " simplices listed (expected 0)\n";
  ok &= (n == 0);

  // as soon as one simplex is finite the option is honoured
  ST st2;
  st2.insert_simplex_and_subfaces({0, 1}, inf);
  st2.insert_simplex({2}, 1.);
  st2.initialize_filtration(true);
  n = st2.filtration_simplex_range().size();
  std::cout << "one finite simplex: " << n << " simplices listed (expected 1)\n";
  ok &= (n == 1);

  std::cout << (ok ? "PASS" : "FAIL") << std::endl;
  return ok ? 0 : 1;
}

// RESULT (worktree /repo as is): NOTHING FOUND. 3 x 4000 and 20 x 30000 operations (6-11 vertices, up to
// ~15 000 closed bars per case), 10 configurations; identical output hash for the builds
// "-O1 -fsanitize=address,undefined", "-O2" and "-O2 -DNDEBUG".
// Large-scale cross-configuration fuzzer (no dense reference: too slow at this size).
// A long random simplicial zigzag (up to 11 vertices, dimension <= 3, thousands of operations, including "remove
// everything" phases and identities) is replayed on Zigzag_persistence with every column type; the complete streams of
// closed intervals and the open intervals after every 50th operation must be identical for all of them, and equal to
// the streams produced by the two filtered front-ends (translated back with an injective filtration). Run under
// ASan/UBSan, and with/without -DNDEBUG (the program prints a hash of the output to compare the two builds).
//
// usage: fuzz_zigzag_large [seed0] [ncases] [len]
#include <gudhi/zigzag_persistence.h>
#include <gudhi/filtered_zigzag_persistence.h>
#include "q07_zz_common.h"

using namespace zzref;
using CT = Gudhi::persistence_matrix::Column_types;

template <CT ct, class Key = int, class Dim = int>
struct Opt {
  using Internal_key = Key;
  using Dimension = Dim;
  using Cell_key = int;
  using Filtration_value = double;
  static const CT column_type = ct;
};

using Out = std::vector<std::vector<std::tuple<int, int, int>>>;  // per step: sorted closed ; every 50 steps: open appended with d=-1

template <class Options>
Out run_index(const std::vector<Op>& ops) {
  using ZP = Gudhi::zigzag_persistence::Zigzag_persistence<Options>;
  Out out(ops.size());
  int cur = 0;
  ZP zp([&](typename ZP::Dimension d, typename ZP::Index b, typename ZP::Index de) { out[cur].emplace_back((int)d, (int)b, (int)de); });
  std::vector<int> arrowOf;
  for (int k = 0; k < (int)ops.size(); ++k) {
    cur = k;
    const Op& o = ops[k];
    if (o.type == 0) {
      std::vector<typename ZP::Index> b;
      for (int c : o.bnd) b.push_back((typename ZP::Index)arrowOf[c]);
      zp.insert_cell(b, (typename ZP::Dimension)o.dim);
      if ((int)arrowOf.size() <= o.cell) arrowOf.resize(o.cell + 1);
      arrowOf[o.cell] = k;
    } else if (o.type == 1)
      zp.remove_cell((typename ZP::Index)arrowOf[o.cell]);
    else
      zp.apply_identity();
    if (k % 50 == 0 || k + 1 == (int)ops.size())
      zp.get_current_infinite_intervals([&](typename ZP::Dimension d, typename ZP::Index b) { out[k].emplace_back((int)d, (int)b, -1); });
    std::sort(out[k].begin(), out[k].end());
  }
  return out;
}

template <class Options>
Out run_stream(const std::vector<Op>& ops) {
  using FZ = Gudhi::zigzag_persistence::Filtered_zigzag_persistence<Options>;
  Out out(ops.size());
  int cur = 0;
  FZ zp([&](typename FZ::Dimension d, double b, double de) { out[cur].emplace_back((int)d, (int)b, (int)de); });
  for (int k = 0; k < (int)ops.size(); ++k) {
    cur = k;
    const Op& o = ops[k];
    if (o.type == 0) {
      zp.insert_cell(o.cell * 3 - 7, [&] {
        std::vector<int> b;
        for (int c : o.bnd) b.push_back(c * 3 - 7);
        return b;
      }(), o.dim, (double)k);
    } else if (o.type == 1)
      zp.remove_cell(o.cell * 3 - 7, (double)k);
    else
      zp.apply_identity();
    if (k % 50 == 0 || k + 1 == (int)ops.size())
      zp.get_current_infinite_intervals([&](typename FZ::Dimension d, double b) { out[k].emplace_back((int)d, (int)b, -1); });
    std::sort(out[k].begin(), out[k].end());
  }
  return out;
}

template <class Options>
Out run_storage(const std::vector<Op>& ops) {
  using FZ = Gudhi::zigzag_persistence::Filtered_zigzag_persistence_with_storage<Options>;
  Out out(ops.size());
  FZ zp;
  size_t seen = 0;
  for (int k = 0; k < (int)ops.size(); ++k) {
    const Op& o = ops[k];
    if (o.type == 0) {
      std::vector<int> b;
      for (int c : o.bnd) b.push_back(c * 3 - 7);
      zp.insert_cell(o.cell * 3 - 7, b, o.dim, (double)k);
    } else if (o.type == 1)
      zp.remove_cell(o.cell * 3 - 7, (double)k);
    else
      zp.apply_identity();
    auto& idx = zp.get_index_persistence_diagram();
    for (; seen < idx.size(); ++seen) out[k].emplace_back((int)idx[seen].dim, (int)idx[seen].birth, (int)idx[seen].death);
    if (k % 50 == 0 || k + 1 == (int)ops.size()) {
      for (auto& bar : zp.get_persistence_diagram())
        if (bar.death == FZ::Filtration_value_interval::inf) out[k].emplace_back((int)bar.dim, (int)bar.birth, -1);
    }
    std::sort(out[k].begin(), out[k].end());
  }
  return out;
}

int main(int argc, char** argv) {
  unsigned seed0 = argc > 1 ? std::atoi(argv[1]) : 1;
  int ncases = argc > 2 ? std::atoi(argv[2]) : 3;
  int len = argc > 3 ? std::atoi(argv[3]) : 5000;
  int failures = 0;
  unsigned long long hash = 1469598103934665603ULL;
  for (int c = 0; c < ncases; ++c) {
    std::mt19937 rng(seed0 + c);
    int nv = 6 + rng() % 6;
    auto ops = gen_simplicial(rng, len, nv, 1 + rng() % 3, 1 << 30);
    Out ref = run_index<Opt<CT::NAIVE_VECTOR>>(ops);
    size_t nclosed = 0;
    for (auto& v : ref)
      for (auto& t : v) {
        if (std::get<2>(t) >= 0) ++nclosed;
        hash = (hash ^ (unsigned long long)(std::get<0>(t) * 1000003 + std::get<1>(t) * 101 + std::get<2>(t))) * 1099511628211ULL;
      }
#define CMP(name, ...)                                               \
  {                                                                  \
    Out o = __VA_ARGS__;                                                  \
    if (o != ref) {                                                  \
      ++failures;                                                    \
      std::printf("MISMATCH %s seed %u\n", name, seed0 + c);         \
      for (size_t k = 0; k < o.size(); ++k)                          \
        if (o[k] != ref[k]) {                                        \
          std::printf("  first difference at step %zu\n", k);        \
          break;                                                     \
        }                                                            \
    }                                                                \
  }
    CMP("LIST", run_index<Opt<CT::LIST>>(ops));
    CMP("SET", run_index<Opt<CT::SET>>(ops));
    CMP("VECTOR", run_index<Opt<CT::VECTOR>>(ops));
    CMP("SMALL_VECTOR", run_index<Opt<CT::SMALL_VECTOR>>(ops));
    CMP("UNORDERED_SET", run_index<Opt<CT::UNORDERED_SET>>(ops));
    CMP("INTRUSIVE_LIST", run_index<Opt<CT::INTRUSIVE_LIST>>(ops));
    CMP("INTRUSIVE_SET", run_index<Opt<CT::INTRUSIVE_SET, long long, short>>(ops));
    CMP("stream", run_stream<Opt<CT::NAIVE_VECTOR>>(ops));
    CMP("storage", run_storage<Opt<CT::INTRUSIVE_LIST>>(ops));
    std::printf("case %d: nv=%d ops=%zu closed=%zu\n", c, nv, ops.size(), nclosed);
  }
  std::printf("%s hash=%llx failures=%d\n", failures ? "FAIL" : "PASS", hash, failures);
  return failures ? 1 : 0;
}

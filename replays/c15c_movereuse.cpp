// "a moved-from object is empty and usable again": for a range of option sets, build a matrix, move-construct another
// one from it, then use the source again (same insertions) and compare with a fresh matrix; the target must keep the
// original content.
#include <gudhi/Matrix.h>
#include <gudhi/persistence_matrix_options.h>
#include <iostream>
#include <set>
#include <tuple>
#include <vector>
using namespace Gudhi::persistence_matrix;
template <Column_types col, bool z2, bool boundary, bool ru, bool vine, bool mapc, bool rows, Column_indexation_types idx>
struct Opt : Default_options<col, z2> {
  static const bool is_of_boundary_type = boundary;
  static const bool has_column_pairings = true;
  static const bool can_retrieve_representative_cycles = ru && !vine;
  static const bool has_vine_update = vine;
  static const bool has_map_column_container = mapc;
  static const bool has_removable_columns = mapc;
  static const bool has_row_access = rows;
  static const Column_indexation_types column_indexation_type = idx;
};
template <class M> std::multiset<std::tuple<int, unsigned, unsigned>> bars(M& m) {
  std::multiset<std::tuple<int, unsigned, unsigned>> b;
  for (auto& x : m.get_current_barcode()) b.emplace(x.dim, x.birth, x.death);
  return b;
}
template <class M> void fill(M& m) {
  using B = typename M::template Boundary<>; (void)sizeof(B);
}
template <class M> int run(const char* name) {
  std::vector<std::vector<unsigned>> bd = {{}, {}, {}, {0, 1}, {1, 2}, {0, 2}, {3, 4, 5}};
  auto ins = [&](M& m) {
    for (auto& b : bd) {
      if constexpr (M::Option_list::is_z2) m.insert_boundary(b);
      else { std::vector<std::pair<unsigned, unsigned>> c; unsigned s = 0; for (auto x : b) c.emplace_back(x, (s++ % 2) ? 4u : 1u); m.insert_boundary(c); }
    }
  };
  int bad = 0;
  try {
    M a(0u, 5u);
    ins(a);
    auto ref = bars(a);
    M b(std::move(a));
    if (bars(b) != ref) { std::cout << name << ": target lost its barcode\n"; ++bad; }
    if (a.get_number_of_columns() != 0) { std::cout << name << ": moved-from is not empty\n"; ++bad; }
    ins(a);
    if (bars(a) != ref) { std::cout << name << ": reused moved-from matrix gives another barcode\n"; ++bad; }
    if (bars(b) != ref) { std::cout << name << ": target changed when the source was reused\n"; ++bad; }
    M c; c = std::move(b);
    if (bars(c) != ref) { std::cout << name << ": move-assigned matrix lost its barcode\n"; ++bad; }
  } catch (const std::exception& e) { std::cout << name << ": threw " << e.what() << "\n"; ++bad; }
  if (!bad) std::cout << name << ": ok\n";
  return bad;
}
constexpr auto C = Column_indexation_types::CONTAINER;
constexpr auto P = Column_indexation_types::POSITION;
constexpr auto I = Column_indexation_types::IDENTIFIER;
int main() {
  int bad = 0;
  bad += run<Matrix<Opt<Column_types::INTRUSIVE_SET, true, true, false, false, false, false, C>>>("boundary z2");
  bad += run<Matrix<Opt<Column_types::LIST, false, true, false, false, true, true, C>>>("boundary z5 map rows");
  bad += run<Matrix<Opt<Column_types::INTRUSIVE_LIST, true, true, true, false, false, false, C>>>("RU z2 rep");
  bad += run<Matrix<Opt<Column_types::SET, false, true, true, false, true, false, C>>>("RU z5 rep map");
  bad += run<Matrix<Opt<Column_types::INTRUSIVE_SET, true, true, true, true, true, true, C>>>("RU z2 vine map rows");
  bad += run<Matrix<Opt<Column_types::INTRUSIVE_SET, true, true, true, true, false, false, I>>>("RU z2 vine id-indexed");
  bad += run<Matrix<Opt<Column_types::VECTOR, true, true, true, false, false, false, I>>>("RU z2 id-indexed vector");
  bad += run<Matrix<Opt<Column_types::INTRUSIVE_SET, true, false, false, false, false, false, C>>>("chain z2");
  bad += run<Matrix<Opt<Column_types::LIST, false, false, false, false, true, true, C>>>("chain z5 map rows");
  bad += run<Matrix<Opt<Column_types::INTRUSIVE_SET, true, false, false, true, true, true, C>>>("chain z2 vine");
  bad += run<Matrix<Opt<Column_types::INTRUSIVE_SET, true, false, false, true, true, false, P>>>("chain z2 vine position-indexed");
  bad += run<Matrix<Opt<Column_types::SET, true, false, false, false, false, false, I>>>("chain z2 id-indexed");
  std::cout << (bad ? "FAIL" : "PASS") << std::endl;
  return bad != 0;
}

// defect_8.cpp - (met while fuzzing C15, not about copies) RU / boundary matrices with custom cell identifiers and a
// map column container: removing the last cell erases the swap-dictionary entry of ANOTHER row, the next access throws
// std::out_of_range.
//
// Boundary_matrix::remove_last (Boundary_matrix.h:578) calls erase_empty_row(nextInsertIndex_): it names the row of the
// removed cell by its POSITION. With identifiers given through insert_boundary(cellIndex, ...) the row of the removed
// cell is its identifier (10 below), and position 4 is the identifier of the first vertex: the entry of row 4 is
// erased from Base_swap::indexToRow_ / rowToIndex_ although the row is not empty (the edge 7 = {4,5} has an entry in
// it). The next reordering of the rows (after a vine swap, lazily at the next get_column) calls valueMap.at(4) in
// Column::reorder: std::out_of_range "unordered_map::at".
//
// Build: g++ -std=gnu++17 -O1 -g -fsanitize=address,undefined $(ls -d /repo/src/*/include | sed 's/^/-I/') \
//        defect_8.cpp -o defect_8
// Run:   ./defect_8      (prints FAIL, returns 1)
#include <gudhi/Matrix.h>
#include <gudhi/persistence_matrix_options.h>
#include <iostream>
#include <vector>
using namespace Gudhi::persistence_matrix;
struct Opt : Default_options<Column_types::SET, true> {
  static const Column_indexation_types column_indexation_type = Column_indexation_types::IDENTIFIER;
  static const bool has_column_pairings = true;
  static const bool has_vine_update = true;
  static const bool has_removable_columns = true;
  static const bool has_map_column_container = true;
};
int main() {
  typedef std::vector<unsigned> C;
  Matrix<Opt> m;
  m.insert_boundary(4, C{});         // vertex a
  m.insert_boundary(5, C{});         // vertex b
  m.insert_boundary(7, C{4, 5}, 1);  // edge ab
  m.insert_boundary(9, C{}, 0);      // vertex c
  m.insert_boundary(10, C{});        // vertex d
  m.remove_maximal_cell(10);         // the last cell
  m.vine_swap(4, 5);                 // exchange the two first vertices (adjacent, no face relation)
  bool fail = false;
  try {
    auto& col = m.get_column(7);
    std::cout << "column of the edge has " << col.size() << " entries (expected 2)\n";
  } catch (const std::out_of_range& e) {
    std::cout << "get_column(7): std::out_of_range (" << e.what() << ")\n";
    fail = true;
  }
  std::cout << (fail ? "FAIL" : "PASS") << std::endl;
  return fail;
}

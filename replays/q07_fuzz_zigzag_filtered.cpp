// RESULT (worktree /repo as is): NOTHING FOUND by this fuzzer (the defects 2 and 3 of defects.md come from
// hand-made extreme parameters, outside of what is generated here).
//   configurations (5 option sets x {stream, with_storage}): Default_filtered_zigzag_options;
//   <INTRUSIVE_SET, long long, short, Cell_key long long, float>; <LIST, int, int, std::string, int>;
//   <VECTOR, short, signed char, unsigned long, double>; <UNORDERED_SET, long, long, short, long>;
//   with_storage: ignoreCyclesAboveDim in {-1,0,1,2,3}, random preallocationSize; get_persistence_diagram with and
//   without infinite bars and get_index_persistence_diagram checked after every operation.
//   inputs: increasing and decreasing filtrations with many ties, +-infinity at both ends (floating types), keys
//   negative / sparse / large / strings, keys re-used after removal, boundaries given in arbitrary order.
//   passed: ASan+UBSan -O1: 300 + 4000 + 4000 + 10000 cases (len <= 40/80/120/150); -O3 -DNDEBUG: 5000;
//           -D_GLIBCXX_DEBUG: 500; valgrind: 300.   ~24 000 sequences x 10 runs, 0 mismatch.
// Differential fuzzer for the filtered front-ends of zigzag persistence (property C07):
//   Filtered_zigzag_persistence (streaming) and Filtered_zigzag_persistence_with_storage (+ ignoreCyclesAboveDim).
// The index intervals come from the independent rank-based reference (zz_common.h); they are translated here to the
// filtration values (monotone increasing or decreasing, with ties, optionally +-infinity at the ends); zero-length bars
// are dropped; with_storage: bars of dimension >= ignoreCyclesAboveDim are dropped and cells of dimension >
// ignoreCyclesAboveDim count as identity arrows. Cell keys are arbitrary (negative / large / strings), re-used after
// removal in some runs. Compared after EVERY operation.
//
// usage: fuzz_zigzag_filtered [seed0] [ncases] [maxlen]
#include <gudhi/filtered_zigzag_persistence.h>
#include "q07_zz_common.h"
#include <iostream>
#include <limits>
#include <string>

using namespace zzref;
using CT = Gudhi::persistence_matrix::Column_types;

template <CT ct, class Key, class Dim, class CK, class FV>
struct FOpt {
  using Internal_key = Key;
  using Dimension = Dim;
  using Cell_key = CK;
  using Filtration_value = FV;
  static const CT column_type = ct;
};

template <class CK>
CK make_key(long long v);
template <>
int make_key<int>(long long v) { return (int)v; }
template <>
long long make_key<long long>(long long v) { return v * 1000003LL; }
template <>
unsigned long make_key<unsigned long>(long long v) { return (unsigned long)(v * 7919LL); }
template <>
std::string make_key<std::string>(long long v) { return "cell#" + std::to_string(v); }
template <>
short make_key<short>(long long v) { return (short)v; }

using Bar = std::tuple<int, double, double>;  // dim, birth, death (death = +-inf marker via isOpen)

template <class V>
static void print_bars(const char* t, const V& v) {
  std::printf("  %s:", t);
  for (auto& b : v) std::printf(" [%d] %g-%g", std::get<0>(b), std::get<1>(b), std::get<2>(b));
  std::printf("\n");
}

struct Case {
  std::vector<Op> ops;
  Reference ref;
  std::vector<double> f;       // filtration value of each op
  std::vector<long long> key;  // universe cell -> raw key
};

// streaming version
template <class Options>
bool run_stream(const char* name, const Case& cs) {
  using FZ = Gudhi::zigzag_persistence::Filtered_zigzag_persistence<Options>;
  using FV = typename Options::Filtration_value;
  using CK = typename Options::Cell_key;
  std::vector<Bar> got;
  FZ zp([&](typename FZ::Dimension d, FV b, FV de) { got.emplace_back((int)d, (double)b, (double)de); });
  size_t consumed = 0;
  for (int k = 0; k < (int)cs.ops.size(); ++k) {
    const Op& o = cs.ops[k];
    long ret;
    try {
      if (o.type == 0) {
        std::vector<CK> b;
        for (int c : o.bnd) b.push_back(make_key<CK>(cs.key[c]));
        // boundary deliberately given in an arbitrary order: the front-end sorts after translation
        if (b.size() > 1 && (k % 2)) std::reverse(b.begin(), b.end());
        ret = (long)zp.insert_cell(make_key<CK>(cs.key[o.cell]), b, (typename FZ::Dimension)o.dim, (FV)cs.f[k]);
      } else if (o.type == 1)
        ret = (long)zp.remove_cell(make_key<CK>(cs.key[o.cell]), (FV)cs.f[k]);
      else
        ret = (long)zp.apply_identity();
    } catch (const std::exception& e) {
      std::printf("[%s] EXCEPTION at step %d: %s\n", name, k, e.what());
      return false;
    }
    if (ret != k) {
      std::printf("[%s] step %d returned %ld\n", name, k, ret);
      return false;
    }
    std::vector<Bar> closed(got.begin() + consumed, got.end());
    consumed = got.size();
    std::vector<Bar> expClosed;
    for (auto& p : cs.ref.closedAt[k])
      if (cs.f[p.second] != cs.f[k]) expClosed.emplace_back(p.first, (double)(FV)cs.f[p.second], (double)(FV)cs.f[k]);
    std::sort(closed.begin(), closed.end());
    std::sort(expClosed.begin(), expClosed.end());
    std::vector<Bar> open, expOpen;
    zp.get_current_infinite_intervals([&](typename FZ::Dimension d, FV b) { open.emplace_back((int)d, (double)b, 0.); });
    for (auto& p : cs.ref.openAt[k]) expOpen.emplace_back(p.first, (double)(FV)cs.f[p.second], 0.);
    std::sort(open.begin(), open.end());
    std::sort(expOpen.begin(), expOpen.end());
    if (closed != expClosed || open != expOpen) {
      std::printf("[%s] MISMATCH at step %d\n", name, k);
      print_bars("closed got", closed);
      print_bars("closed exp", expClosed);
      print_bars("open got", open);
      print_bars("open exp", expOpen);
      return false;
    }
  }
  return true;
}

// storage version
template <class Options>
bool run_storage(const char* name, const Case& cs, int dimMax, unsigned prealloc) {
  using FZ = Gudhi::zigzag_persistence::Filtered_zigzag_persistence_with_storage<Options>;
  using FV = typename Options::Filtration_value;
  using CK = typename Options::Cell_key;
  FZ zp(prealloc, dimMax);
  const double INF = (double)FZ::Filtration_value_interval::inf;
  std::vector<Bar> expClosedAll;
  std::vector<std::tuple<int, int, int>> expIdx;
  for (int k = 0; k < (int)cs.ops.size(); ++k) {
    const Op& o = cs.ops[k];
    long ret;
    try {
      if (o.type == 0) {
        std::vector<CK> b;
        for (int c : o.bnd) b.push_back(make_key<CK>(cs.key[c]));
        if (b.size() > 1 && (k % 2)) std::reverse(b.begin(), b.end());
        ret = (long)zp.insert_cell(make_key<CK>(cs.key[o.cell]), b, (typename FZ::Dimension)o.dim, (FV)cs.f[k]);
      } else if (o.type == 1)
        ret = (long)zp.remove_cell(make_key<CK>(cs.key[o.cell]), (FV)cs.f[k]);
      else
        ret = (long)zp.apply_identity();
    } catch (const std::exception& e) {
      std::printf("[%s] EXCEPTION at step %d: %s\n", name, k, e.what());
      return false;
    }
    if (ret != k) {
      std::printf("[%s] step %d returned %ld\n", name, k, ret);
      return false;
    }
    for (auto& p : cs.ref.closedAt[k]) {
      if (dimMax != -1 && p.first >= dimMax) continue;
      expIdx.emplace_back(p.first, p.second, k);
      double b = (double)(FV)cs.f[p.second], d = (double)(FV)cs.f[k];
      if (b > d) std::swap(b, d);
      if (b != d) expClosedAll.emplace_back(p.first, b, d);
    }
    std::vector<Bar> exp = expClosedAll;
    for (auto& p : cs.ref.openAt[k]) {
      if (dimMax != -1 && p.first >= dimMax) continue;
      exp.emplace_back(p.first, (double)(FV)cs.f[p.second], INF);
    }
    std::vector<Bar> got;
    for (auto& bar : zp.get_persistence_diagram()) got.emplace_back((int)bar.dim, (double)bar.birth, (double)bar.death);
    std::sort(got.begin(), got.end());
    std::sort(exp.begin(), exp.end());
    std::vector<std::tuple<int, int, int>> gotIdx;
    for (auto& bar : zp.get_index_persistence_diagram()) gotIdx.emplace_back((int)bar.dim, (int)bar.birth, (int)bar.death);
    auto e2 = expIdx;
    std::sort(gotIdx.begin(), gotIdx.end());
    std::sort(e2.begin(), e2.end());
    // without infinite bars
    std::vector<Bar> got2, exp2 = expClosedAll;
    for (auto& bar : zp.get_persistence_diagram(0., false)) got2.emplace_back((int)bar.dim, (double)bar.birth, (double)bar.death);
    std::sort(got2.begin(), got2.end());
    std::sort(exp2.begin(), exp2.end());
    if (got != exp || gotIdx != e2 || got2 != exp2) {
      std::printf("[%s dimMax=%d] MISMATCH at step %d\n", name, dimMax, k);
      print_bars("diag got", got);
      print_bars("diag exp", exp);
      std::printf("  idx got:");
      for (auto& t : gotIdx) std::printf(" [%d] %d-%d", std::get<0>(t), std::get<1>(t), std::get<2>(t));
      std::printf("\n  idx exp:");
      for (auto& t : e2) std::printf(" [%d] %d-%d", std::get<0>(t), std::get<1>(t), std::get<2>(t));
      std::printf("\n");
      return false;
    }
  }
  return true;
}

int main(int argc, char** argv) {
  unsigned seed0 = argc > 1 ? std::atoi(argv[1]) : 1;
  int ncases = argc > 2 ? std::atoi(argv[2]) : 200;
  int maxlen = argc > 3 ? std::atoi(argv[3]) : 40;
  long total = 0;
  int failures = 0;
  for (int c = 0; c < ncases; ++c) {
    unsigned seed = seed0 + c;
    std::mt19937 rng(seed);
    int len = 3 + rng() % maxlen;
    Case cs;
    int md;
    int mode = rng() % 2;
    if (mode == 0) {
      md = 1 + rng() % 3;
      cs.ops = gen_simplicial(rng, len, 3 + rng() % 3, md, MAXN);
    } else {
      md = 1 + rng() % 3;
      cs.ops = gen_general(rng, len, md, MAXN);
    }
    cs.ref = compute_reference(cs.ops, md);
    // filtration values: monotone, integer valued (exact in float/int), with ties
    int dir = (rng() % 2) ? 1 : -1;
    bool useInf = rng() % 5 == 0;
    double v = (double)((int)(rng() % 21) - 10);
    cs.f.resize(cs.ops.size());
    for (size_t k = 0; k < cs.ops.size(); ++k) {
      int stepMode = rng() % 4;
      if (stepMode == 0) v += dir * (1 + (int)(rng() % 3));
      cs.f[k] = v;
    }
    // keys: distinct, not contiguous, possibly negative
    {
      std::set<long long> used;
      int N = 0;
      for (auto& o : cs.ops)
        if (o.type == 0) N = std::max(N, o.cell + 1);
      cs.key.resize(N);
      int km = rng() % 3;
      for (int i = 0; i < N; ++i) {
        long long kk;
        do {
          kk = km == 0 ? i : (km == 1 ? (long long)(rng() % 2001) - 1000 : (long long)(rng() % 30000) - 15000);
        } while (used.count(kk));
        used.insert(kk);
        cs.key[i] = kk;
      }
      // re-use the key of a removed cell for a later inserted cell (legal: the cell is not in the complex any more)
      if (rng() % 2) {
        std::vector<long long> freeKeys;
        for (auto& o : cs.ops) {
          if (o.type == 1) freeKeys.push_back(cs.key[o.cell]);
          if (o.type == 0 && !freeKeys.empty() && rng() % 2) {
            cs.key[o.cell] = freeKeys.back();
            freeKeys.pop_back();
          }
        }
      }
    }
    Case csInf = cs;
    if (useInf) {
      // +-infinity at the two ends (only for floating point filtration values)
      double first = dir > 0 ? -std::numeric_limits<double>::infinity() : std::numeric_limits<double>::infinity();
      double last = -first;
      size_t a = rng() % 3, b = rng() % 3;
      for (size_t k = 0; k < std::min(a, csInf.f.size()); ++k) csInf.f[k] = first;
      for (size_t k = 0; k < std::min(b, csInf.f.size()); ++k) csInf.f[csInf.f.size() - 1 - k] = last;
    }
    bool ok = true;
    int dimMax = (rng() % 2) ? -1 : (int)(rng() % 4);
    unsigned prealloc = (rng() % 3 == 0) ? rng() % 50 : 0;
#define RUNS(CSE, ...)                                      \
  {                                                         \
    ++total;                                                \
    if (!run_stream<__VA_ARGS__>(#__VA_ARGS__, CSE)) ok = false; \
  }
#define RUNT(CSE, ...)                                                        \
  {                                                                           \
    ++total;                                                                  \
    if (!run_storage<__VA_ARGS__>(#__VA_ARGS__, CSE, dimMax, prealloc)) ok = false; \
  }
    RUNS(csInf, Gudhi::zigzag_persistence::Default_filtered_zigzag_options)
    RUNT(csInf, Gudhi::zigzag_persistence::Default_filtered_zigzag_options)
    RUNS(csInf, FOpt<CT::INTRUSIVE_SET, long long, short, long long, float>)
    RUNT(csInf, FOpt<CT::INTRUSIVE_SET, long long, short, long long, float>)
    RUNS(cs, FOpt<CT::LIST, int, int, std::string, int>)
    RUNT(cs, FOpt<CT::LIST, int, int, std::string, int>)
    RUNS(csInf, FOpt<CT::VECTOR, short, signed char, unsigned long, double>)
    RUNT(csInf, FOpt<CT::VECTOR, short, signed char, unsigned long, double>)
    RUNS(cs, FOpt<CT::UNORDERED_SET, long, long, short, long>)
    RUNT(cs, FOpt<CT::UNORDERED_SET, long, long, short, long>)
    if (!ok) {
      ++failures;
      std::printf("FAILED seed %u (mode %d, len %d, dir %d, dimMax %d)\n", seed, mode, len, dir, dimMax);
      print_ops(cs.ops);
      std::printf("  f:");
      for (double x : csInf.f) std::printf(" %g", x);
      std::printf("\n  keys:");
      for (auto x : cs.key) std::printf(" %lld", x);
      std::printf("\n");
      if (failures > 3) break;
    }
  }
  std::printf("%s: %d cases, %ld runs, %d failing cases\n", failures ? "FAIL" : "PASS", ncases, total, failures);
  return failures ? 1 : 0;
}

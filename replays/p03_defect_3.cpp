// defect_3.cpp - Simplex_tree::prune_above_filtration(+infinity) does not remove the simplices whose value is NaN,
// although the documentation of the function promises "s is removed if and only if f < f_s or f_s = NaN".
//
// Mechanism (Simplex_tree.h:2178-2180): the function starts with
//     if (filtration == Filtration_simplex_base_real::get_infinity()) return false;
// a shortcut that is only right when no value is NaN; the NaN test sits in rec_prune_above_filtration
// (Simplex_tree.h:2200), which is never reached. Any finite threshold, however large, does remove them.
// (NaN values are explicitly supported by this function and by make_filtration_non_decreasing, whose documentation
// says how they are ordered.)
//
// Build: g++ -std=gnu++17 -O1 -g -fsanitize=address,undefined $(ls -d /tmp/seed/P03/src/*/include | sed 's/^/-I/') defect_3.cpp -o defect_3
#include <gudhi/Simplex_tree.h>
#include <iostream>
#include <limits>
#include <cmath>

int main() {
  using ST = Gudhi::Simplex_tree<>;
  const double inf = std::numeric_limits<double>::infinity();
  const double nan = std::numeric_limits<double>::quiet_NaN();
  int fails = 0;
  auto build = [&](ST& st) {
    st.insert_simplex({0}, 1.);
    st.insert_simplex({1}, nan);
    st.insert_simplex({2}, inf);
  };
  {
    ST st;
    build(st);
    bool r = st.prune_above_filtration(std::numeric_limits<double>::max());
    std::cout << "threshold DBL_MAX : returned " << r << ", " << st.num_simplices()
              << " simplices left (expected: true, 1 : the NaN vertex and the inf vertex are removed)\n";
    if (!r || st.num_simplices() != 1) ++fails;
  }
  {
    ST st;
    build(st);
    bool r = st.prune_above_filtration(inf);
    bool nan_left = st.find({1}) != st.null_simplex();
    std::cout << "threshold +inf    : returned " << r << ", " << st.num_simplices() << " simplices left, NaN vertex "
              << (nan_left ? "still there" : "removed") << " (expected: true, 2, removed)\n";
    if (!r || st.num_simplices() != 2 || nan_left) ++fails;
  }
  std::cout << (fails ? "FAIL" : "PASS") << std::endl;
  return fails ? 1 : 0;
}

// Pristine defect (not caused by a seeded change): chain matrix, an insertion made after a transposition does not
// behave as on a matrix rebuilt from scratch on the current filtration.
//
// Chain_matrix::_reduce_boundary() reduces the inserted boundary "from the last cell", but takes as last cell the one
// with the greatest IDENTIFIER (std::set ordered by ID / get_last()), not the one at the greatest POSITION. After a
// vine swap, the order of the identifiers is not the order of the filtration anymore.
//
// v_a (ID 0), v_b (ID 1) ; vine_swap -> filtration v_b, v_a ; insert the edge {v_a, v_b} (ID 2).
// Elder rule on the current filtration (v_b, v_a, e): the edge kills the younger vertex, at position 1:
// barcode (0: 0, inf) (0: 1, 2). The matrix answers (0: 0, 2) (0: 1, inf).
#include <iostream>
#include <set>
#include <tuple>
#include <vector>

#include <gudhi/Matrix.h>
#include <gudhi/persistence_matrix_options.h>

using namespace Gudhi::persistence_matrix;

template <Column_indexation_types idx>
struct Chain_opt : Default_options<Column_types::INTRUSIVE_SET, true> {
  static const bool has_column_pairings = true;
  static const bool has_vine_update = true;
  static const bool is_of_boundary_type = false;
  static const Column_indexation_types column_indexation_type = idx;
};

using Bars = std::set<std::tuple<int, int, int> >;

template <class M>
static Bars bars(M& m) {
  Bars r;
  for (auto& b : m.get_current_barcode())
    r.emplace(b.dim, (int)b.birth, b.death == static_cast<unsigned int>(-1) ? -1 : (int)b.death);
  return r;
}

static void print(const char* name, const Bars& b) {
  std::cout << name << ":";
  for (auto& t : b) std::cout << " (" << std::get<0>(t) << ": " << std::get<1>(t) << ", " << std::get<2>(t) << ")";
  std::cout << "\n";
}

int main() {
  int errors = 0;
  const std::vector<unsigned int> empty;
  {
    using M = Matrix<Chain_opt<Column_indexation_types::IDENTIFIER> >;
    M m;
    m.insert_boundary(0, empty, 0);
    m.insert_boundary(1, empty, 0);
    m.vine_swap(0, 1);  // filtration: cell 1, cell 0
    m.insert_boundary(2, std::vector<unsigned int>{0, 1}, 1);

    M fresh;  // same filtration, built from scratch: the identifiers follow the order
    fresh.insert_boundary(0, empty, 0);
    fresh.insert_boundary(1, empty, 0);
    fresh.insert_boundary(2, std::vector<unsigned int>{0, 1}, 1);

    print("identifier indexing, swapped then inserted", bars(m));
    print("identifier indexing, rebuilt              ", bars(fresh));
    if (bars(m) != bars(fresh)) ++errors;
  }
  {
    using M = Matrix<Chain_opt<Column_indexation_types::POSITION> >;
    M m;
    m.insert_boundary(empty, 0);
    m.insert_boundary(empty, 0);
    m.vine_swap(0);
    m.insert_boundary(std::vector<unsigned int>{0, 1}, 1);  // row indices of a chain matrix are the cell IDs

    M fresh;
    fresh.insert_boundary(empty, 0);
    fresh.insert_boundary(empty, 0);
    fresh.insert_boundary(std::vector<unsigned int>{0, 1}, 1);

    print("position indexing, swapped then inserted  ", bars(m));
    print("position indexing, rebuilt                ", bars(fresh));
    if (bars(m) != bars(fresh)) ++errors;
  }
  std::cout << (errors == 0 ? "PASS" : "FAIL") << std::endl;
  return errors == 0 ? 0 : 1;
}

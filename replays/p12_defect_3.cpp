// defect_3.cpp - utilities point_cloud_edge_collapse_rips_persistence and distance_matrix_edge_collapse_rips_persistence:
// option -m / --min-persistence has NO default value although collapse.md and the help text say "Default is 0":
// when -m is not given, `min_persistence` is an uninitialised local that is passed to
// Persistent_cohomology::compute_persistent_cohomology(), so the printed diagram depends on stack garbage (with an
// unlucky value, finite bars are silently dropped: the utility then does NOT print the persistence of the input).
//
// This reproducer compiles the utility itself (its main() is renamed) and calls it twice on the same 4-point metric
// space (unit square), once with "-m 0" and once without -m, after filling the stack with the byte 0x7f
// (0x7f7f7f7f is the float 3.39e38).  Expected: the same 5 bars both times.
//
// Build (NO sanitizer, -O0 so that the variable lives on the stack):
//   g++ -std=gnu++17 -O0 -g $(ls -d /repo/src/*/include | sed 's/^/-I/') defect_3.cpp -o defect_3 \
//       -lboost_program_options -ltbb && ./defect_3
// Independent confirmation:  valgrind --track-origins=yes <utility> file.csv -d 3
//   -> "Conditional jump or move depends on uninitialised value(s)" at Persistent_cohomology.h:261 and :421
//
// Cause: src/Collapse/utilities/distance_matrix_edge_collapse_rips_persistence.cpp l.42 `Filtration_value
// min_persistence;` and l.124-126 `("min-persistence,m", po::value<Filtration_value>(&min_persistence), ...` without
// ->default_value(0); used l.91.  Same in point_cloud_edge_collapse_rips_persistence.cpp l.50, l.153-155, l.120.
// Other utilities do it right: weak_witness_persistence.cpp l.116 uses ->default_value(0), alpha_complex_3d_persistence.cpp
// l.83 initialises the variable.  (src/Rips_complex/utilities/rips_persistence.cpp l.41/l.92 has the same flaw.)

#define main utility_main
#include "/repo/src/Collapse/utilities/distance_matrix_edge_collapse_rips_persistence.cpp"
#undef main

#include <cstdio>
#include <cstring>
#include <fstream>
#include <iostream>
#include <sstream>
#include <string>

__attribute__((noinline)) void dirty_stack() {
  volatile unsigned char junk[1 << 16];
  for (std::size_t i = 0; i < sizeof(junk); ++i) junk[i] = 0x7f;
}

__attribute__((noinline)) int count_bars(std::vector<std::string> args, const char* outfile) {
  std::vector<char*> argv;
  for (auto& a : args) argv.push_back(&a[0]);
  argv.push_back(nullptr);
  std::remove(outfile);
  dirty_stack();
  utility_main((int)args.size(), argv.data());
  std::ifstream in(outfile);
  std::string line; int n = 0;
  while (std::getline(in, line)) if (!line.empty()) { ++n; std::cout << "      " << line << "\n"; }
  return n;
}

int main() {
  const char* csv = "defect_3_square.csv";
  { std::ofstream f(csv); f << "\n1;\n1.4;1;\n1;1.4;1;\n"; }  // lower triangular distance matrix of the unit square
  std::cout << "with -m 0:\n";
  int with_m = count_bars({"util", csv, "-d", "3", "-o", "defect_3_with_m.pers", "-m", "0"}, "defect_3_with_m.pers");
  std::cout << "without -m (documented default 0):\n";
  int without_m = count_bars({"util", csv, "-d", "3", "-o", "defect_3_without_m.pers"}, "defect_3_without_m.pers");
  std::cout << "bars with -m 0: " << with_m << ", bars without -m: " << without_m << " (expected equal, 5)\n";
  bool ok = with_m == without_m;
  std::cout << (ok ? "PASS (the garbage happened to be harmless in this build; use valgrind)" : "FAIL") << std::endl;
  return ok ? 0 : 1;
}

// defect_4.cpp - a moved-from chain Matrix built with birth/death comparators is not usable again: the comparators
// leave with the move and the first vine swap in the moved-from matrix throws std::bad_function_call.
//
// Property C15: "a moved-from object is empty and usable again". Matrix(Matrix&&) documents "After the move, the given
// matrix will be empty" and the library takes care to give the moved-from matrix new column settings, a new row
// container, ... so that it can be filled again (Matrix.h:1509-1517).
// Configuration: chain matrix (is_of_boundary_type = false), has_vine_update = true, has_column_pairings = false:
// the only constructors are the ones taking the two comparators (Matrix.h:629-687) and there is no way to give them
// again later.
// Cause: chain_vine_swap.h:369-373, Chain_vine_swap move constructor: birthComp_(std::move(other.birthComp_)),
// deathComp_(std::move(other.deathComp_)) leave empty std::function objects in the source; Matrix(Matrix&&) resets
// everything else of the source but not these. Move assignment and std::swap-free code paths (operator=(Matrix other)
// with an rvalue) go through the same constructor. (Copies keep their comparators, they are fine.)
//
// Build: g++ -std=gnu++17 -O1 -g -fsanitize=address,undefined $(ls -d /repo/src/*/include | sed 's/^/-I/') \
//        defect_4.cpp -o defect_4
// Run:   ./defect_4      (prints FAIL and returns 1)

#include <gudhi/Matrix.h>
#include <gudhi/persistence_matrix_options.h>

#include <functional>
#include <iostream>
#include <vector>

using namespace Gudhi::persistence_matrix;

struct Opt : Default_options<Column_types::INTRUSIVE_SET, true> {
  static const bool is_of_boundary_type = false;
  static const bool has_vine_update = true;
  static const bool has_column_pairings = false;
};

int main() {
  using M = Matrix<Opt>;
  typedef std::vector<unsigned> C;
  // comparators of the complex below (one essential class born at 0, one class born at 1 that dies at 2)
  auto birth = [](unsigned a, unsigned b) { return a < b; };
  auto death = [](unsigned a, unsigned b) { return a < b; };
  // two vertices and the edge between them: the chain of vertex 1 contains vertex 0, so that exchanging the two
  // vertices is not trivial and asks the birth comparator
  auto fill = [](M& m) {
    m.insert_boundary(C{});
    m.insert_boundary(C{});
    m.insert_boundary(C{0, 1});
  };

  bool fail = false;
  M a(birth, death);
  fill(a);
  M b(std::move(a));  // a is empty now
  std::cout << "moved-from matrix has " << a.get_number_of_columns() << " columns\n";
  fill(a);  // fill it again with the same complex
  try {
    b.vine_swap(0, 1);
    std::cout << "vine_swap(0, 1) in the destination of the move: ok\n";
    a.vine_swap(0, 1);
    std::cout << "vine_swap(0, 1) in the moved-from matrix: ok\n";
  } catch (const std::bad_function_call& e) {
    std::cout << "vine_swap(0, 1) in the moved-from matrix: std::bad_function_call (" << e.what() << ")\n";
    fail = true;
  }
  std::cout << (fail ? "FAIL (expected: the moved-from matrix is usable like a new one)" : "PASS") << std::endl;
  return fail ? 1 : 0;
}

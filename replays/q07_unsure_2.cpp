// unsure_2: Filtered_zigzag_persistence_with_storage::get_persistence_diagram(shortestInterval): the documentation says
// "Every bar shorter than the given value will not be returned", the code (filtered_zigzag_persistence.h:350) keeps a
// bar only if `death - birth > shortestInterval`: a bar whose length is EQUAL to the threshold is not shorter than it
// but is dropped. (For the default threshold 0 this is the documented omission of zero-length bars, so the two
// statements of the documentation cannot both hold with one comparison; reported as doubtful.)
//
// build: g++ -std=gnu++17 -O1 -g -fsanitize=address,undefined $(ls -d /repo/src/*/include | sed 's/^/-I/') \
//            unsure_2.cpp -o unsure_2
#include <gudhi/filtered_zigzag_persistence.h>
#include <iostream>
int main() {
  Gudhi::zigzag_persistence::Filtered_zigzag_persistence_with_storage<> zp;
  zp.insert_cell(0, {}, 0, 0.);
  zp.insert_cell(1, {}, 0, 0.);
  zp.insert_cell(2, {0, 1}, 1, 1.);  // bar [0] 0 - 1, length exactly 1
  auto diag = zp.get_persistence_diagram(1., false);
  std::cout << "get_persistence_diagram(1.0): " << diag.size() << " finite bar(s); a bar of length 1 is not shorter than 1\n";
  bool ok = diag.size() == 1;
  std::cout << (ok ? "PASS" : "FAIL") << "\n";
  return ok ? 0 : 1;
}

// differential replay: RU matrix with insertions and remove_last against a matrix rebuilt from the final cell sequence
#include <gudhi/Matrix.h>
#include <gudhi/persistence_matrix_options.h>
#include <iostream>
#include <random>
#include <set>
#include <tuple>
using namespace Gudhi::persistence_matrix;
template<Column_types C, bool Z2, bool VINE> struct RUOpt : Default_options<C, Z2> {
  static const bool has_column_pairings = true;
  static const bool has_removable_columns = true;
  static const bool has_vine_update = VINE;
  static const bool can_retrieve_representative_cycles = true;
};
using Cell = std::vector<unsigned>;   // boundary as sorted cell indices
template<class M> void ins(M& m, const Cell& b){
  if constexpr (M::Option_list::is_z2) m.insert_boundary(b);
  else { std::vector<std::pair<unsigned,unsigned>> v; unsigned s=0; for(auto x:b){ v.emplace_back(x, (s++%2)? 4u:1u);} m.insert_boundary(v); }
}
template<class M> std::multiset<std::tuple<int,unsigned,unsigned>> bars(M& m){ std::multiset<std::tuple<int,unsigned,unsigned>> s; for(auto&b:m.get_current_barcode()) s.emplace(b.dim,b.birth,b.death); return s; }
template<class O> long run(const char* name, unsigned seed){
  using M = Matrix<O>;
  std::mt19937 g(seed); long checks=0;
  for(int rep=0; rep<200; ++rep){
    M m = O::is_z2 ? M() : M(0,5);
    std::vector<Cell> cells;          // current sequence
    std::vector<int> dims;
    auto random_cell=[&]()->Cell{
      // vertex, or edge between two existing vertices, or triangle on three existing edges forming a cycle (searched)
      std::vector<unsigned> verts, edges; for(unsigned i=0;i<cells.size();++i){ if(dims[i]==0) verts.push_back(i); if(dims[i]==1) edges.push_back(i);} 
      int k=g()%3;
      if(k==2 && edges.size()>=3){ for(int t=0;t<30;++t){ unsigned a=edges[g()%edges.size()],b=edges[g()%edges.size()],c=edges[g()%edges.size()]; if(a==b||b==c||a==c) continue; std::multiset<unsigned> vs; for(auto e:{a,b,c}) for(auto v:cells[e]) vs.insert(v); bool ok=vs.size()==6; for(auto v:vs) if(vs.count(v)!=2) ok=false; if(ok){ Cell t3{a,b,c}; std::sort(t3.begin(),t3.end()); return t3; } } }
      if(k>=1 && verts.size()>=2){ unsigned a=verts[g()%verts.size()], b=verts[g()%verts.size()]; if(a!=b){ Cell e{std::min(a,b),std::max(a,b)}; return e; } }
      return Cell{};
    };
    for(int step=0; step<25; ++step){
      if(!cells.empty() && g()%3==0){ m.remove_last(); cells.pop_back(); dims.pop_back(); }
      else { Cell c=random_cell(); try{ ins(m,c);}catch(const char* e){ std::cout<<name<<": insertion threw '"<<e<<"' seed "<<seed<<" rep "<<rep<<" step "<<step<<"\n"; return -1;} catch(std::exception& e){ std::cout<<name<<": insertion threw '"<<e.what()<<"' rep "<<rep<<" step "<<step<<"\n"; return -1;} cells.push_back(c); dims.push_back(c.empty()?0:(int)c.size()-1); }
      M fresh = O::is_z2 ? M() : M(0,5); for(auto&c:cells) ins(fresh,c);
      ++checks;
      if(bars(m)!=bars(fresh)){ std::cout<<name<<": BARCODE MISMATCH seed "<<seed<<" rep "<<rep<<" step "<<step<<"\n"; return -1; }
      for(unsigned i=0;i<cells.size();++i){ auto a=m.get_column(i,false).get_content(cells.size()), b=fresh.get_column(i,false).get_content(cells.size()); if(a!=b){ std::cout<<name<<": U MISMATCH column "<<i<<" seed "<<seed<<" rep "<<rep<<" step "<<step<<"\n"; return -1; } auto c=m.get_column(i,true).get_content(cells.size()), d=fresh.get_column(i,true).get_content(cells.size()); if(c!=d){ std::cout<<name<<": R MISMATCH column "<<i<<"\n"; return -1; } }
    }
  }
  std::cout<<name<<": "<<checks<<" states compared ok\n"; return checks;
}
int main(){
  long bad=0;
#define R(C,Z,V) if(run<RUOpt<Column_types::C,Z,V>>(#C " z2=" #Z " vine=" #V, 11)<0) bad++;
  R(INTRUSIVE_SET,true,false) R(INTRUSIVE_SET,false,false) R(LIST,true,false) R(VECTOR,true,false) R(VECTOR,false,false) R(HEAP,true,false) R(SET,true,false) R(UNORDERED_SET,true,false) R(NAIVE_VECTOR,true,false) R(INTRUSIVE_LIST,true,false)
  R(INTRUSIVE_SET,true,true) R(LIST,true,true) R(VECTOR,true,true)
  std::cout<<(bad?"FAIL":"PASS")<<"\n"; return bad!=0;
}

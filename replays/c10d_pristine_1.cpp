// Pristine defect: the GMP multi-field classes accept a range whose lower bound is negative and build a
// "product of primes" out of numbers that are not primes of the range (LP64: int -> unsigned long conversion in
// mpz_init_set_ui, then mpz_get_ui keeps only the low bits of primes above 2^64).
//   - Gudhi::persistent_cohomology::Multi_field::init(-5, 100)
//   - Gudhi::persistence_fields::Multi_field_operators(-5, 100)   (set_characteristic(int, int))
// Expected: either the primes of [2,100] (as the small variant does for [0,7]) or a refusal.
// Observed: "primes" 13 37 51 81 93 (51, 81 and 93 are composite), characteristic 184792023, no exception.
#include <cassert>
#include <iostream>
#include <gmpxx.h>
#include <gudhi/Persistent_cohomology/Multi_field.h>
#include <gudhi/Fields/Multi_field_operators.h>

static bool is_prime(long n) {
  if (n < 2) return false;
  for (long d = 2; d * d <= n; ++d)
    if (n % d == 0) return false;
  return true;
}

int main() {
  bool ok = true;

  Gudhi::persistent_cohomology::Multi_field f;
  f.init(-5, 100);
  std::cout << "cohomology Multi_field::init(-5,100): characteristic=" << f.characteristic() << ", primes_:";
  for (int p : f.primes_) {
    std::cout << " " << p;
    if (!is_prime(p)) ok = false;
  }
  std::cout << std::endl;

  try {
    Gudhi::persistence_fields::Multi_field_operators op(-5, 100);
    mpz_class c = op.get_characteristic();
    std::cout << "Multi_field_operators(-5,100): accepted, characteristic=" << c << std::endl;
    // the characteristic has to be square free and made of primes <= 100 only
    mpz_class rest = c;
    for (long p = 2; p <= 100; ++p)
      if (is_prime(p) && rest % p == 0) rest /= p;
    if (rest != 1) {
      std::cout << "  characteristic is not a product of distinct primes of the range (left over " << rest << ")"
                << std::endl;
      ok = false;
    }
  } catch (const std::invalid_argument& e) {
    std::cout << "Multi_field_operators(-5,100): refused (" << e.what() << ")" << std::endl;
  }

  std::cout << (ok ? "PASS" : "FAIL") << std::endl;
  return ok ? 0 : 1;
}

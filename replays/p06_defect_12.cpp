// Defect 12 - RU matrix with row access through NON-intrusive rows (has_intrusive_rows == false) and vector containers:
// removing the last cell right after a transposition (remove_last after vine_swap, or any remove_maximal_cell of a
// cell which is not the last one) makes a row of R lose the entry of the column which takes the place of the removed
// one.
//
//   Boundary_matrix.h:549   --nextInsertIndex_;                      // first thing done by remove_last()
//   Boundary_matrix.h:573-574   if (Swap_opt::rowSwapped_ && pivot != null) { Swap_opt::_orderRows(); ...
//   base_swap.h:201         const Index numberOfColumns = _matrix()->get_number_of_columns();   // == nextInsertIndex_
// _orderRows() re-registers the entries of every column under its current index, but the counter was already
// decremented: the last column - the one about to be destroyed - is skipped and its entries keep the index of the column
// it was exchanged with by the vine swap. The rows are std::set of entry copies ordered by column index: when the
// neighbour column registers its entries under that same index (second pass, base_swap.h:226-229) the copies which
// collide are silently dropped, and matrix_.pop_back() (line 581) then erases from the rows the entries named by the
// stale index, i.e. those of the neighbour. With the map container get_number_of_columns() is matrix_.size() and
// still counts the last column, and intrusive rows unlink by node: both are fine.
//
// Build: g++ -std=gnu++17 -O1 -g -fsanitize=address,undefined -I<gudhi includes> defect_12.cpp -o defect_12
#include <gudhi/Matrix.h>
#include <gudhi/persistence_matrix_options.h>

#include <iostream>
#include <set>
using namespace Gudhi::persistence_matrix;

struct Opt : Default_options<Column_types::INTRUSIVE_SET, true> {
  static const bool has_column_pairings = true;
  static const bool has_vine_update = true;  // RU matrix
  static const bool has_map_column_container = false;
  static const bool has_removable_columns = true;
  static const bool has_row_access = true;
  static const bool has_intrusive_rows = false;
  static const bool has_removable_rows = false;
};
using M = Matrix<Opt>;
using B = std::vector<unsigned>;

int main() {
  M m;
  m.insert_boundary(B{}, 0);      // 0: vertex a
  m.insert_boundary(B{}, 0);      // 1: vertex b
  m.insert_boundary(B{}, 0);      // 2: vertex c
  m.insert_boundary(B{0, 1}, 1);  // 3: edge ab
  m.insert_boundary(B{1, 2}, 1);  // 4: edge bc
  m.remove_maximal_cell(3);       // = vine_swap(3) + remove_last(): filtration a b c bc
  bool ok = true;
  std::set<unsigned> col;
  std::cout << "column 3 of R:";
  for (auto& e : m.get_column(3)) {
    std::cout << " " << e.get_row_index();
    col.insert(e.get_row_index());
  }
  std::cout << " (expected 1 2)\n";
  if (col != std::set<unsigned>{1, 2}) ok = false;
  for (unsigned r = 0; r < 3; ++r) {
    std::cout << "row " << r << " of R: columns";
    bool has3 = false;
    for (auto& e : m.get_row(r)) {
      std::cout << " " << e.get_column_index();
      if (e.get_column_index() == 3) has3 = true;
    }
    std::cout << (has3 == (col.count(r) == 1) ? "" : "   <-- disagrees with column 3") << "\n";
    if (has3 != (col.count(r) == 1)) ok = false;
  }
  std::cout << (ok ? "PASS" : "FAIL") << std::endl;
  return ok ? 0 : 1;
}

// defect_6.cpp - (met while fuzzing C15, not about copies) RU matrix with Z_p coefficients:
// update_representative_cycles() appends the cycles to those of the previous call instead of replacing them.
//
// Matrix::update_representative_cycles is documented as the way to refresh the cycles after a modification ("needs to
// be called before calling get_representative_cycles again if the matrix was modified in between"). With
// is_z2 = false, RU_representative_cycles::update_representative_cycles (ru_rep_cycles.h:158-174) clears birthToCycle_
// but never representativeCycles_ (the Z_2 arm does, line 148): each call push_back()s all cycles again, also those of
// cells that were removed in between. get_representative_cycles() then returns duplicates and stale cycles.
//
// Build: g++ -std=gnu++17 -O1 -g -fsanitize=address,undefined $(ls -d /repo/src/*/include | sed 's/^/-I/') \
//        defect_6.cpp -o defect_6
// Run:   ./defect_6      (prints FAIL, returns 1)
#include <gudhi/Matrix.h>
#include <gudhi/persistence_matrix_options.h>
#include <iostream>
#include <vector>
using namespace Gudhi::persistence_matrix;
struct Opt : Default_options<Column_types::INTRUSIVE_SET, false> {
  static const bool has_column_pairings = true;
  static const bool can_retrieve_representative_cycles = true;
  static const bool has_removable_columns = true;
};
int main() {
  typedef std::vector<std::pair<unsigned, unsigned> > B;
  Matrix<Opt> m(3, 5);  // Z_5
  m.insert_boundary(B{});
  m.insert_boundary(B{});
  m.update_representative_cycles();
  std::size_t n1 = m.get_representative_cycles().size();
  m.update_representative_cycles();
  std::size_t n2 = m.get_representative_cycles().size();
  m.remove_last();
  m.update_representative_cycles();
  std::size_t n3 = m.get_representative_cycles().size();
  std::cout << "two vertices: " << n1 << " cycles; after a second update: " << n2 << " (expected 2); after remove_last "
            << "and update: " << n3 << " (expected 1)\n";
  bool fail = n1 != 2 || n2 != 2 || n3 != 1;
  std::cout << (fail ? "FAIL" : "PASS") << std::endl;
  return fail;
}

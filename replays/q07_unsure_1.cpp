// unsure_1: a cell of dimension -1 (the empty simplex of an augmented complex, i.e. reduced homology; nothing in the
// documentation of Zigzag_persistence::insert_cell restricts `dimension`) is stored by the matrix as a cell of
// dimension 0: Chain_matrix::_reduce_boundary (Chain_matrix.h:995-996) takes dim == -1
// (= Matrix::get_null_value<Dimension>()) for "dimension not given" and deduces it from the size of the boundary.
// Zigzag_persistence then labels the SAME class differently depending on how its bar is reported:
//   - killed by the insertion of a vertex {e}: label = (dimension of the vertex) - 1 = -1      (right)
//   - listed by get_current_infinite_intervals: label = stored dimension of the column = 0     (wrong)
//   - closed by the removal of the empty simplex: label = stored dimension of the column = 0  (wrong)
// so the bars are not "labelled with the right dimension" and a (-1)-bar is mixed with the H0 bars.
//
// build: g++ -std=gnu++17 -O1 -g -fsanitize=address,undefined $(ls -d /repo/src/*/include | sed 's/^/-I/') \
//            unsure_1.cpp -o unsure_1
// run  : ./unsure_1
#include <gudhi/zigzag_persistence.h>
#include <cstdio>
#include <vector>

int main() {
  using ZP = Gudhi::zigzag_persistence::Zigzag_persistence<>;
  bool ok = true;
  {
    std::printf("history 1: insert empty simplex e (dim -1), list open bars, insert vertex {e}\n");
    ZP zp([&](int d, int b, int e) {
      std::printf("  closed [%d] %d - %d   (expected [-1] 0 - 1)\n", d, b, e);
      if (d != -1) ok = false;
    });
    zp.insert_cell({}, -1);
    zp.get_current_infinite_intervals([&](int d, int b) {
      std::printf("  open   [%d] %d         (expected [-1] 0)\n", d, b);
      if (d != -1) ok = false;
    });
    zp.insert_cell({0}, 0);
  }
  {
    std::printf("history 2: insert empty simplex e (dim -1), remove it\n");
    ZP zp([&](int d, int b, int e) {
      std::printf("  closed [%d] %d - %d   (expected [-1] 0 - 1)\n", d, b, e);
      if (d != -1) ok = false;
    });
    zp.insert_cell({}, -1);
    zp.remove_cell(0);
  }
  std::printf("%s\n", ok ? "PASS" : "FAIL");
  return ok ? 0 : 1;
}

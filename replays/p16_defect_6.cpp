// Defect 6 (next to the property: an answer of the lazy map about the complex, not membership() itself):
// Lazy_toplex_map::all_facets_inside(s) returns false whenever s itself belongs to the complex.
//
// Documentation (Lazy_toplex_map.h l.80): "Do all the facets of a simplex belong to the complex ?" - if s is in the
// complex all its facets are.
// Cause: src/Toplex_map/include/gudhi/Lazy_toplex_map.h l.199-206. v = best_index(sigma); the facet sigma\{v} is tested
// with membership (l.198); then for every stored simplex of t0.at(v) and EVERY w in sigma (w == v included, l.201) the
// vertex w is recorded when sigma\{w} is included in that stored simplex, and the result is
// "facets_inside.size() == sigma.size() - 1" (l.206). A stored simplex that contains v and sigma\{v} (that is: contains
// sigma) records v as well, the set has sigma.size() elements, and the function answers false.
//
// Build: g++ -std=gnu++17 -O1 -g -fsanitize=address,undefined -I/repo/src/Toplex_map/include defect_6.cpp -o defect_6
#include <gudhi/Lazy_toplex_map.h>
#include <cstdio>
#include <vector>
using V = std::size_t;
using S = std::vector<V>;
static bool reference(Gudhi::Lazy_toplex_map& m, const S& s) {  // every facet is in the complex
  for (std::size_t i = 0; i < s.size(); i++) { S f; for (std::size_t j = 0; j < s.size(); j++) if (j != i) f.push_back(s[j]); if (!m.membership(f)) return false; }
  return true;
}
int main() {
  int bad = 0;
  auto check = [&](Gudhi::Lazy_toplex_map& m, const S& s, const char* what) {
    bool got = m.all_facets_inside(s), exp = reference(m, s);
    std::printf("%-58s all_facets_inside = %d, expected %d%s\n", what, (int)got, (int)exp, got == exp ? "" : "   <-- wrong");
    if (got != exp) bad++;
  };
  { Gudhi::Lazy_toplex_map m; m.insert_simplex(S{1, 2}); m.insert_simplex(S{1, 3}); m.insert_simplex(S{2, 3});
    check(m, S{1, 2, 3}, "hollow triangle, s = {1,2,3}:"); }
  { Gudhi::Lazy_toplex_map m; m.insert_simplex(S{1, 2}); m.insert_simplex(S{1, 3});
    check(m, S{1, 2, 3}, "two edges, s = {1,2,3}:"); }
  { Gudhi::Lazy_toplex_map m; m.insert_simplex(S{1, 2, 3});
    check(m, S{1, 2, 3}, "full triangle, s = {1,2,3}:");
    check(m, S{1, 2}, "full triangle, s = {1,2}:"); }
  { Gudhi::Lazy_toplex_map m; m.insert_simplex(S{1, 2, 3, 4});
    check(m, S{1, 2, 3}, "tetrahedron, s = {1,2,3}:"); }
  std::printf("%s\n", bad ? "FAIL" : "PASS");
  return bad ? 1 : 0;
}

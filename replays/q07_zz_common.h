// Common helper for the Q07 fuzzers: random zigzag sequence generator + independent rank-based reference.
// (kept in a header so that the several fuzz_*.cpp can share it; it only depends on the standard library)
//
// Reference (independent of any matrix reduction of the library):
//   K_k = complex after operation k (k = 0..n-1). H_p(K_k) = Z_k / B_k, with Z_k, B_k subspaces of the Z2 vector space
//   spanned by all the cells ever inserted ("universe", one new universe cell per insertion).
//   For i <= j, R(i,j) in H(K_i) x H(K_j) is the composition of the linear relations given by the arrows (graph of the
//   map induced by the inclusion, in the direction of the inclusion). As relations are compatible with direct sums,
//   for an interval decomposition: #intervals containing [i,j] =
//        r(i,j) = dim R - dim (R cap H_i x 0) - dim (R cap 0 x H_j).
//   R is kept as its full preimage Rt in Z_i x Z_j (contains B_i x B_j):
//        Rt(i,i)   = { (z, z + b) }
//        insertion of sigma at j+1: Rt += 0 x <d sigma>                        (B grows)
//        removal of sigma at j+1  : Rt  = Rt cap { y_sigma = 0 }               (Z shrinks, sigma is maximal)
//   multiplicity of [b,d] = r(b,d) - r(b-1,d) - r(b,d+1) + r(b-1,d+1).
//   Library convention: interval of complexes [b,d] is reported as (birth = b, death = d+1).
#ifndef ZZ_COMMON_H
#define ZZ_COMMON_H
#include <bitset>
#include <vector>
#include <map>
#include <set>
#include <random>
#include <algorithm>
#include <cstdio>
#include <cstdlib>
#include <string>
#include <tuple>

namespace zzref {

constexpr int MAXN = 128;  // max universe cells
using BV = std::bitset<2 * MAXN>;

struct Op {
  int type;                // 0 insert, 1 remove, 2 identity
  int cell = -1;           // universe id (insert: new id, remove: id of removed cell)
  int dim = 0;             // dimension of the cell
  std::vector<int> bnd;    // boundary as universe ids, increasing
};

struct Echelon {
  std::vector<BV> rows;  // rows[k] has leading bit lead[k]
  std::vector<int> lead;
  bool add(BV v) {
    for (size_t k = 0; k < rows.size(); ++k)
      if (v[lead[k]]) v ^= rows[k];
    if (v.none()) return false;
    int l = (int)v._Find_first();
    // keep fully reduced not needed
    rows.push_back(v);
    lead.push_back(l);
    return true;
  }
  int dim() const { return (int)rows.size(); }
};

inline int rank_of(const std::vector<BV>& a, const std::vector<BV>& b) {
  Echelon e;
  for (auto& v : a) e.add(v);
  for (auto& v : b) e.add(v);
  return e.dim();
}

// kernel of boundary restricted to the given p-cells; boundary vectors live on (p-1)-cells. returns basis of cycles (x-coordinates)
inline std::vector<BV> cycles_basis(const std::vector<int>& pcells, const std::vector<BV>& bndOf) {
  // gaussian elimination tracking combination
  std::vector<BV> img, comb;
  std::vector<int> lead;
  std::vector<BV> ker;
  for (int c : pcells) {
    BV v = bndOf[c];
    BV w;
    w[c] = 1;
    for (size_t k = 0; k < img.size(); ++k)
      if (v[lead[k]]) {
        v ^= img[k];
        w ^= comb[k];
      }
    if (v.none())
      ker.push_back(w);
    else {
      img.push_back(v);
      comb.push_back(w);
      lead.push_back((int)v._Find_first());
    }
  }
  return ker;
}

struct Interval {
  int dim, b, d;  // library convention: d = death arrow, or -1 for open
  bool operator<(const Interval& o) const { return std::tie(dim, b, d) < std::tie(o.dim, o.b, o.d); }
  bool operator==(const Interval& o) const { return dim == o.dim && b == o.b && d == o.d; }
};

// result: for each step k: closed[k] = multiset of (dim,b) dying at arrow k ; open[k] = multiset of (dim,b) alive after k
struct Reference {
  int n;
  std::vector<std::vector<std::pair<int, int>>> closedAt;  // [k] -> sorted (dim,b)
  std::vector<std::vector<std::pair<int, int>>> openAt;    // [k] -> sorted (dim,b)
};

inline Reference compute_reference(const std::vector<Op>& ops, int maxDim) {
  int n = (int)ops.size();
  int N = 0;
  for (auto& o : ops)
    if (o.type == 0) N = std::max(N, o.cell + 1);
  if (N > MAXN) {
    std::fprintf(stderr, "universe too large\n");
    std::exit(3);
  }
  std::vector<BV> bndOf(N);
  std::vector<int> dimOf(N, 0);
  for (auto& o : ops)
    if (o.type == 0) {
      dimOf[o.cell] = o.dim;
      for (int b : o.bnd) bndOf[o.cell][b] = 1;
    }
  // complexes
  std::vector<std::set<int>> K(n);
  {
    std::set<int> cur;
    for (int k = 0; k < n; ++k) {
      if (ops[k].type == 0) cur.insert(ops[k].cell);
      if (ops[k].type == 1) cur.erase(ops[k].cell);
      K[k] = cur;
    }
  }
  Reference ref;
  ref.n = n;
  ref.closedAt.assign(n + 1, {});
  ref.openAt.assign(n + 1, {});

  for (int p = 0; p <= maxDim; ++p) {
    // Z_k^p , B_k^p bases for every k
    std::vector<std::vector<BV>> Z(n), B(n);
    for (int k = 0; k < n; ++k) {
      std::vector<int> pc, qc;
      for (int c : K[k]) {
        if (dimOf[c] == p) pc.push_back(c);
        if (dimOf[c] == p + 1) qc.push_back(c);
      }
      Z[k] = cycles_basis(pc, bndOf);
      Echelon e;
      for (int c : qc) e.add(bndOf[c]);
      B[k] = e.rows;
    }
    auto shiftY = [&](const BV& v) { return v << MAXN; };
    // r[i][j]
    std::vector<std::vector<int>> r(n + 2, std::vector<int>(n + 2, 0));  // index shifted by 1: r[i+1][j+1]
    for (int i = 0; i < n; ++i) {
      std::vector<BV> Rt;
      {
        Echelon e;
        for (auto& z : Z[i]) e.add(z | shiftY(z));
        for (auto& b : B[i]) e.add(shiftY(b));
        Rt = e.rows;
      }
      for (int j = i; j < n; ++j) {
        if (j > i) {
          const Op& o = ops[j];
          if (o.type == 0 && o.dim == p + 1) {
            Echelon e;
            for (auto& v : Rt) e.add(v);
            e.add(shiftY(bndOf[o.cell]));
            Rt = e.rows;
          } else if (o.type == 1 && o.dim == p) {
            int bit = MAXN + o.cell;
            int sel = -1;
            for (size_t t = 0; t < Rt.size(); ++t)
              if (Rt[t][bit]) {
                sel = (int)t;
                break;
              }
            if (sel >= 0) {
              for (size_t t = 0; t < Rt.size(); ++t)
                if ((int)t != sel && Rt[t][bit]) Rt[t] ^= Rt[sel];
              Rt.erase(Rt.begin() + sel);
            }
          }
        }
        if (Rt.empty()) break;  // nothing survives further (r = 0 from here on)
        // W1 = Z_i x B_j ; W2 = B_i x Z_j
        std::vector<BV> W1, W2;
        for (auto& z : Z[i]) W1.push_back(z);
        for (auto& b : B[j]) W1.push_back(shiftY(b));
        for (auto& b : B[i]) W2.push_back(b);
        for (auto& z : Z[j]) W2.push_back(shiftY(z));
        int dR = (int)Rt.size();
        int i1 = dR + (int)W1.size() - rank_of(Rt, W1);
        int i2 = dR + (int)W2.size() - rank_of(Rt, W2);
        int val = dR - i1 - i2 + (int)B[i].size() + (int)B[j].size();
        if (val < 0) {
          std::fprintf(stderr, "reference: negative rank ?!\n");
          std::exit(3);
        }
        r[i + 1][j + 1] = val;
        if (val == 0) break;
      }
    }
    // multiplicities
    for (int b = 0; b < n; ++b)
      for (int d = b; d < n; ++d) {
        int m = r[b + 1][d + 1] - r[b][d + 1] - r[b + 1][d + 2] + r[b][d + 2];
        if (m < 0) {
          std::fprintf(stderr, "reference: negative multiplicity ?!\n");
          std::exit(3);
        }
        for (int t = 0; t < m; ++t) {
          if (d + 1 < n) ref.closedAt[d + 1].emplace_back(p, b);
          for (int k = b; k <= d; ++k) ref.openAt[k].emplace_back(p, b);
        }
      }
  }
  for (auto& v : ref.closedAt) std::sort(v.begin(), v.end());
  for (auto& v : ref.openAt) std::sort(v.begin(), v.end());
  return ref;
}

// ---------------------------------------------------------------------------------------------------------------------
// generators
// ---------------------------------------------------------------------------------------------------------------------

// simplicial zigzag on nv vertices, max dimension md
inline std::vector<Op> gen_simplicial(std::mt19937& rng, int len, int nv, int md, int maxCells) {
  std::vector<Op> ops;
  std::map<unsigned, int> present;  // mask -> universe id
  int nextId = 0;
  double pIns = 0.7, pId = (rng() % 4 == 0) ? 0.15 : 0.03;
  auto U = [&](int m) { return (int)(rng() % m); };
  for (int step = 0; step < len; ++step) {
    if (U(12) == 0) pIns = (U(2) ? 0.8 : 0.2);
    if (U(40) == 0) pIns = 0.0;  // remove everything phase
    if (present.empty() && pIns == 0.0) pIns = 0.75;
    double x = (rng() % 100000) / 100000.0;
    if (x < pId) {
      ops.push_back(Op{2});
      continue;
    }
    std::vector<unsigned> insC, remC;
    for (unsigned m = 1; m < (1u << nv); ++m) {
      int pc = __builtin_popcount(m);
      if (pc - 1 > md) continue;
      if (present.count(m)) {
        bool maximal = true;
        for (int v = 0; v < nv && maximal; ++v)
          if (!(m >> v & 1) && present.count(m | (1u << v))) maximal = false;
        if (maximal) remC.push_back(m);
      } else {
        bool ok = true;
        if (pc > 1)
          for (int v = 0; v < nv && ok; ++v)
            if ((m >> v & 1) && !present.count(m & ~(1u << v))) ok = false;
        if (ok) insC.push_back(m);
      }
    }
    bool doIns = ((rng() % 100000) / 100000.0 < pIns);
    if (nextId >= maxCells) doIns = false;
    if (doIns && insC.empty()) doIns = false;
    if (!doIns && remC.empty()) {
      if (insC.empty() || nextId >= maxCells) {
        ops.push_back(Op{2});
        continue;
      }
      doIns = true;
    }
    if (doIns) {
      unsigned m = insC[U((int)insC.size())];
      Op o{0};
      o.cell = nextId++;
      o.dim = __builtin_popcount(m) - 1;
      if (o.dim > 0)
        for (int v = 0; v < nv; ++v)
          if (m >> v & 1) o.bnd.push_back(present.at(m & ~(1u << v)));
      std::sort(o.bnd.begin(), o.bnd.end());
      present[m] = o.cell;
      ops.push_back(o);
    } else {
      unsigned m = remC[U((int)remC.size())];
      Op o{1};
      o.cell = present.at(m);
      o.dim = __builtin_popcount(m) - 1;
      present.erase(m);
      ops.push_back(o);
    }
  }
  return ops;
}

// general cell complexes: dim p cell with boundary = random (p-1)-cycle of the current complex
inline std::vector<Op> gen_general(std::mt19937& rng, int len, int md, int maxCells) {
  std::vector<Op> ops;
  std::set<int> present;
  std::vector<BV> bndOf;
  std::vector<int> dimOf;
  double pIns = 0.7, pId = (rng() % 4 == 0) ? 0.15 : 0.03;
  auto U = [&](int m) { return (int)(rng() % m); };
  for (int step = 0; step < len; ++step) {
    if (U(12) == 0) pIns = (U(2) ? 0.8 : 0.25);
    if (U(40) == 0) pIns = 0.0;
    if (present.empty() && pIns == 0.0) pIns = 0.75;
    double x = (rng() % 100000) / 100000.0;
    if (x < pId) {
      ops.push_back(Op{2});
      continue;
    }
    bool doIns = ((rng() % 100000) / 100000.0 < pIns);
    if ((int)bndOf.size() >= maxCells) doIns = false;
    std::vector<int> remC;
    for (int c : present) {
      bool maximal = true;
      for (int d : present)
        if (bndOf[d][c]) {
          maximal = false;
          break;
        }
      if (maximal) remC.push_back(c);
    }
    if (!doIns && remC.empty()) {
      if ((int)bndOf.size() >= maxCells) {
        ops.push_back(Op{2});
        continue;
      }
      doIns = true;
    }
    if (doIns) {
      int p = U(md + 1);
      if (U(3) == 0) p = std::min(p, 1);
      Op o{0};
      o.cell = (int)bndOf.size();
      o.dim = p;
      BV b;
      if (p >= 1) {
        std::vector<int> qc;
        for (int c : present)
          if (dimOf[c] == p - 1) qc.push_back(c);
        if (p == 1) {
          // any 0-chain is a cycle; favour two endpoints
          int mode = U(10);
          if (!qc.empty()) {
            if (mode < 6 && qc.size() >= 2) {
              int a = qc[U((int)qc.size())], c2 = qc[U((int)qc.size())];
              b[a] = 1;
              b.flip(c2);  // may cancel -> loop
            } else if (mode < 8) {
              for (int c : qc)
                if (U(2)) b[c] = 1;
            } else if (mode == 8) {
              b[qc[U((int)qc.size())]] = 1;
            }
          }
        } else {
          auto ker = cycles_basis(qc, bndOf);
          for (auto& z : ker)
            if (U(2)) b ^= z;
        }
      }
      for (int c = 0; c < (int)bndOf.size(); ++c)
        if (b[c]) o.bnd.push_back(c);
      bndOf.push_back(b);
      dimOf.push_back(p);
      present.insert(o.cell);
      ops.push_back(o);
    } else {
      int c = remC[U((int)remC.size())];
      Op o{1};
      o.cell = c;
      o.dim = dimOf[c];
      present.erase(c);
      ops.push_back(o);
    }
  }
  return ops;
}

inline void print_ops(const std::vector<Op>& ops) {
  for (size_t k = 0; k < ops.size(); ++k) {
    auto& o = ops[k];
    if (o.type == 0) {
      std::printf("  %zu: insert cell u%d dim %d bnd {", k, o.cell, o.dim);
      for (int b : o.bnd) std::printf("u%d ", b);
      std::printf("}\n");
    } else if (o.type == 1)
      std::printf("  %zu: remove cell u%d (dim %d)\n", k, o.cell, o.dim);
    else
      std::printf("  %zu: identity\n", k);
  }
}

}  // namespace zzref
#endif

// Defect 6: has_column_and_row_swaps, vector column container: insert_boundary(boundary) and
// insert_column(column, index) move nextInsertIndex_ past the new column BEFORE Base_matrix::_insert applies the
// pending lazy swaps; Base_swap::_orderRows then visits matrix_.at(i) for i < get_number_of_columns() =
// nextInsertIndex_, i.e. also the column that is not stored yet: std::out_of_range (vector::_M_range_check).
// insert_column(column), which increments after _insert, works.
//
// Build: g++ -std=gnu++17 -O1 -g -fsanitize=address,undefined $(ls -d /repo/src/*/include | sed 's/^/-I/') defect_6.cpp -o defect_6
#include <iostream>
#include <vector>
#include <gudhi/Matrix.h>
#include <gudhi/persistence_matrix_options.h>
using namespace Gudhi::persistence_matrix;

template <bool RA>
struct Opt : Default_options<Column_types::INTRUSIVE_SET, true> {
  static const bool has_column_and_row_swaps = true;
  static const bool has_row_access = RA;
};

static int bad = 0;

template <class M, class F>
void attempt(const char* what, F&& insert) {
  M m;
  m.insert_column(std::vector<unsigned>{0});
  m.swap_rows(0, 1);  // pending
  try {
    insert(m);
    auto c0 = m.get_column(0).get_content(3);
    auto c1 = m.get_column(1).get_content(3);
    bool ok = !c0[0] && c0[1] && !c0[2] && !c1[0] && !c1[1] && c1[2];
    std::cout << what << ": columns " << c0[0] << c0[1] << c0[2] << " " << c1[0] << c1[1] << c1[2]
              << " expected 010 001 " << (ok ? "ok" : "WRONG") << "\n";
    bad += !ok;
  } catch (const std::exception& e) {
    std::cout << what << ": threw " << e.what() << "  WRONG (expected columns 010 001)\n";
    ++bad;
  }
}

int main() {
  using M = Matrix<Opt<false> >;
  using MR = Matrix<Opt<true> >;
  attempt<M>("insert_column({2})       ", [](M& m) { m.insert_column(std::vector<unsigned>{2}); });
  attempt<M>("insert_boundary({2})     ", [](M& m) { m.insert_boundary(std::vector<unsigned>{2}); });
  attempt<M>("insert_column({2}, 1)    ", [](M& m) { m.insert_column(std::vector<unsigned>{2}, 1); });
  attempt<MR>("row access, insert_boundary({2})", [](MR& m) { m.insert_boundary(std::vector<unsigned>{2}); });
  std::cout << (bad ? "FAIL" : "PASS") << "\n";
  return bad ? 1 : 0;
}

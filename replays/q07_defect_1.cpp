// defect_1: with Internal_key = long long, Zigzag_persistence silently truncates the arrow numbers to 32 bits inside its
// matrix: after 2^32 arrows (cheap to reach with apply_identity(), which is the documented way to keep the indices
// aligned on long streams) a new cell gets the matrix identifier of an older, still present cell.
//   - the open interval of the old cell disappears (its birth is overwritten),
//   - the boundary {A, B} of the next edge collapses to one identifier: the edge is treated as a loop on one vertex and
//     kills the wrong class / the remaining open bars are wrong.
//
// build: g++ -std=gnu++17 -O1 -g -fsanitize=address,undefined $(ls -d /repo/src/*/include | sed 's/^/-I/') \
//            defect_1.cpp -o defect_1
// run  : ./defect_1        (about 5 s: 2^32 calls of apply_identity)
//
// Sequence (K_k = complex after arrow k):
//   arrow 0            : insert vertex A                      -> H0 class born at 0
//   arrows 1 .. 2^32-1 : identity
//   arrow 2^32         : insert vertex B                      -> H0 class born at 2^32
//   arrow 2^32+1       : insert edge AB                       -> kills the younger class: closed [0] (2^32, 2^32+1)
// Expected open bars at the end: exactly one, [0] born at 0.
// Observed: after arrow 2^32 only one open bar is listed (born at 2^32, the bar born at 0 is lost); after the edge
// no open bar is left although the complex (a segment) is connected and non empty.
#include <gudhi/zigzag_persistence.h>
#include <cstdio>
#include <vector>
#include <algorithm>

struct Options : Gudhi::zigzag_persistence::Default_zigzag_options {
  using Internal_key = long long;  // signed, as required by the ZigzagOptions concept
};

int main() {
  using ZP = Gudhi::zigzag_persistence::Zigzag_persistence<Options>;
  std::vector<std::pair<long long, long long>> closed;
  ZP zp([&](int d, long long b, long long e) {
    std::printf("closed: [%d] %lld %lld\n", d, b, e);
    closed.emplace_back(b, e);
  });
  bool ok = true;
  long long a = zp.insert_cell({}, 0);
  long long last = a;
  for (long long i = 1; i < (1LL << 32); ++i) last = zp.apply_identity();
  std::printf("last identity arrow: %lld\n", last);
  try {
    long long b = zp.insert_cell({}, 0);
    std::printf("vertex B inserted at arrow %lld\n", b);
    std::vector<long long> open;
    zp.get_current_infinite_intervals([&](int d, long long bi) {
      std::printf("  open: [%d] %lld\n", d, bi);
      open.push_back(bi);
    });
    std::sort(open.begin(), open.end());
    if (open != std::vector<long long>{0, b}) {
      std::printf("  -> expected open bars born at 0 and %lld\n", b);
      ok = false;
    }
    long long e = zp.insert_cell(std::vector<long long>{a, b}, 1);
    std::printf("edge AB inserted at arrow %lld\n", e);
    open.clear();
    zp.get_current_infinite_intervals([&](int d, long long bi) {
      std::printf("  open: [%d] %lld\n", d, bi);
      open.push_back(bi);
    });
    if (open != std::vector<long long>{0}) {
      std::printf("  -> expected exactly one open bar, born at 0\n");
      ok = false;
    }
    if (closed != std::vector<std::pair<long long, long long>>{{b, e}}) {
      std::printf("  -> expected exactly one closed bar (%lld, %lld)\n", b, e);
      ok = false;
    }
  } catch (const std::exception& ex) {
    std::printf("exception: %s\n", ex.what());
    ok = false;
  }
  std::printf("%s\n", ok ? "PASS" : "FAIL");
  return ok ? 0 : 1;
}

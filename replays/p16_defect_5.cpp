// Defect 5: the two variants give different answers for the empty vertex set, and the answer of the eager map depends
// on whether the label SIZE_MAX is used.
//
//  * Lazy_toplex_map::membership({}) is true for every non-empty complex, and also for a default-constructed map
//    (member "bool empty_toplex = true", Lazy_toplex_map.h l.105, tests l.182-183).
//  * Toplex_map::membership({}) is false for every complex (Toplex_map.h l.174-182): best_index of an empty range is the
//    sentinel VERTEX_UPPER_BOUND = SIZE_MAX (l.279, l.285), "if (!t0.count(v)) return false" (l.177) ... unless SIZE_MAX
//    is a vertex of the complex: then the sentinel is found in t0, every toplex containing SIZE_MAX "includes" the empty
//    range (l.179-180) and the answer becomes true. SIZE_MAX is a legal label (Vertex = std::size_t, no restriction is
//    documented).
//  * The class itself treats the empty simplex as a face of everything: maximal_cofaces({}) "gives all the toplices"
//    (l.69-70) and remove_simplex({}) "means cleaning everything" (l.152-153). insert_simplex({}) followed by
//    membership({}) is false in the eager map.
// The property asks for the same answer from both variants "for all queried vertex sets".
//
// Build: g++ -std=gnu++17 -O1 -g -fsanitize=address,undefined -I/repo/src/Toplex_map/include defect_5.cpp -o defect_5
#include <gudhi/Toplex_map.h>
#include <gudhi/Lazy_toplex_map.h>
#include <cstdio>
#include <vector>
#include <limits>
using V = std::size_t;
using S = std::vector<V>;
int main() {
  int bad = 0;
  Gudhi::Toplex_map e;
  Gudhi::Lazy_toplex_map l;
  auto cmp = [&](const char* when) {
    bool a = e.membership(S{}), b = l.membership(S{});
    std::printf("%-40s eager membership({}) = %d, lazy membership({}) = %d%s\n", when, (int)a, (int)b, a == b ? "" : "   <-- differ");
    if (a != b) bad++;
  };
  cmp("default constructed:");
  e.insert_simplex(S{}); l.insert_simplex(S{});
  cmp("after insert_simplex({}):");
  e.insert_simplex(S{1, 2}); l.insert_simplex(S{1, 2});
  cmp("after insert_simplex({1,2}):");
  bool before = e.membership(S{});
  e.insert_simplex(S{std::numeric_limits<V>::max()});
  bool after = e.membership(S{});
  std::printf("eager membership({}) before / after inserting the vertex SIZE_MAX: %d / %d (expected: the same)\n", (int)before, (int)after);
  if (before != after) bad++;
  std::printf("%s\n", bad ? "FAIL" : "PASS");
  return bad ? 1 : 0;
}

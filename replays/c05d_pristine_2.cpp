// Pristine defect 2: wrong barcodes for a prime characteristic above 2^16 (products of two field elements wrap in
// unsigned int inside Zp_field_operators::multiply_and_add* which the chain and RU reductions use).
//
// One filled triangle over Z_65537. Expected: [0: 0, inf] [0: 1, 3] [0: 2, 4] [1: 5, 6].
//   argument 0: boundary matrix (right), 1: RU matrix (wrong), 2: chain matrix (wrong)
// (building the table of inverses for this characteristic takes a few seconds)
#include <cstdlib>
#include <iostream>
#include <set>
#include <tuple>
#include <vector>
#include <gudhi/Matrix.h>
#include <gudhi/persistence_matrix_options.h>
#include <gudhi/Fields/Zp_field_operators.h>

using namespace Gudhi::persistence_matrix;

template <int flavour>
struct Options : Default_options<Column_types::INTRUSIVE_SET, false> {
  static const bool has_column_pairings = true;
  static const bool is_of_boundary_type = flavour != 2;
  static const bool can_retrieve_representative_cycles = flavour == 1;
};

template <int flavour>
int run()
{
  using M = Matrix<Options<flavour> >;
  using B = std::vector<std::pair<unsigned int, unsigned int> >;
  const unsigned int p = 65537, m1 = p - 1;
  M m(0u, p);
  m.insert_boundary(B{}, 0);
  m.insert_boundary(B{}, 0);
  m.insert_boundary(B{}, 0);
  m.insert_boundary(B{{0, m1}, {1, 1}}, 1);          // [0,1]
  m.insert_boundary(B{{1, m1}, {2, 1}}, 1);          // [1,2]
  m.insert_boundary(B{{0, m1}, {2, 1}}, 1);          // [0,2]
  m.insert_boundary(B{{3, 1}, {4, 1}, {5, m1}}, 2);  // [0,1,2]
  std::set<std::tuple<int, long, long> > got, expected{{0, 0, -1}, {0, 1, 3}, {0, 2, 4}, {1, 5, 6}};
  for (const auto& b : m.get_current_barcode()) {
    long d = b.death == M::template get_null_value<typename M::Pos_index>() ? -1 : (long)b.death;
    std::cout << "[" << b.dim << ": " << b.birth << ", " << d << "] ";
    got.emplace(b.dim, b.birth, d);
  }
  std::cout << "\n" << (got == expected ? "PASS" : "FAIL") << std::endl;
  return got == expected ? 0 : 1;
}

int main(int argc, char** argv)
{
  int a = argc > 1 ? std::atoi(argv[1]) : 2;
  if (a == 0) return run<0>();
  if (a == 1) return run<1>();
  return run<2>();
}

// defect_5.cpp - compute_incidence_between_cells: out of bounds read / wrong answer instead of the documented
// std::logic_error when the second cell is not a face of the first.
//
// Documentation (Bitmap_cubical_complex_base.h:154-155, same text in the periodic class): "@exception std::logic_error
// In case when the cube B is not n-1 dimensional face of a cube A."
// The function (Bitmap_cubical_complex_base.h:157-188) only throws when the two counters differ in MORE than one
// position.
//  (1) twice the same cell: number_of_position_in_which_counters_do_not_agree stays
//      -1 and line 182 reads coface_counter[-1] and face_counter[-1]: heap-buffer-overflow (4 bytes before the vector)
//      under AddressSanitizer, an arbitrary +-1 otherwise.
//  (2) counters that differ in one position by more than 1 (two top cells of the same row, a top cell and a far edge,
//      ...) or a coface that is degenerate in that position (a vertex and an edge given in the wrong order): no
//      exception, +-1 is returned for cells that are not incident.
// Build with -DONLY_WRONG_ANSWERS to skip (1) and see (2) under the sanitizer.
//
// build: g++ -std=gnu++17 -O1 -g -fsanitize=address,undefined -I<gudhi includes> defect_5.cpp -o defect_5
#include <gudhi/Bitmap_cubical_complex.h>
#include <iostream>
#include <vector>

typedef Gudhi::cubical_complex::Bitmap_cubical_complex_base<double> Base;

static bool expect_logic_error(Base& c, std::size_t a, std::size_t b, const char* what) {
  try {
    int i = c.compute_incidence_between_cells(a, b);
    std::cout << "compute_incidence_between_cells(" << a << ", " << b << ") [" << what << "] returned " << i
              << " ; expected std::logic_error" << std::endl;
    return false;
  } catch (std::logic_error&) {
    std::cout << "compute_incidence_between_cells(" << a << ", " << b << ") [" << what << "] threw std::logic_error as documented" << std::endl;
    return true;
  }
}

int main() {
  // 3 x 1 top cells: 7 x 3 bitmap, position = x + 7 y; top cells at (1,1)=8, (3,1)=10, (5,1)=12
  Base c(std::vector<unsigned>{3, 1}, std::vector<double>{1, 2, 3});
  bool ok = true;
  ok &= expect_logic_error(c, 8, 0, "square and a vertex: two positions differ");
  ok &= expect_logic_error(c, 8, 10, "two squares of the same row");
  ok &= expect_logic_error(c, 8, 13, "square (1,1) and the edge (6,1) at the other end of the row");
  ok &= expect_logic_error(c, 0, 1, "vertex given as the coface of an edge");
#ifndef ONLY_WRONG_ANSWERS
  ok &= expect_logic_error(c, 8, 8, "a cell and itself");  // reads coface_counter[-1]: aborts under AddressSanitizer
#endif
  std::cout << (ok ? "PASS" : "FAIL: no std::logic_error for cells that are not a coface-face pair") << std::endl;
  return ok ? 0 : 1;
}

#!/bin/bash
# usage: run.sh COL Z2 RA INTR REMR MAPC SWAPS [extra flags]
cd /tmp/replay/c09c/fz
INC=$(ls -d /repo/src/*/include | sed 's/^/-I/')
tag="$1_$2_$3_$4_$5_$6_$7$(echo "${@:8}" | tr -d ' =-')"
g++ -std=gnu++17 -O1 -g -fsanitize=address,undefined -fno-sanitize-recover=all $INC -DCOL=$1 -DZ2=$2 -DRA=$3 -DINTR=$4 -DREMR=$5 -DMAPC=$6 -DSWAPS=$7 "${@:8}" ../fuzz.cpp -o f_$tag 2> f_$tag.err || { echo "$tag COMPILE-ERROR"; exit; }
./f_$tag ${N:-400} > f_$tag.out 2>&1
echo "$tag $(grep -a 'fails:\|ERROR: AddressSanitizer\|runtime error' f_$tag.out | head -2 | tr '\n' ' ')"
rm -f f_$tag

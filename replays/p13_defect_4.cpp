// defect_4.cpp - a grid given by its vertices with a side of one vertex: top_dimensional_cells_range() does not end
// and hands out positions that are not top dimensional cells, then positions outside the bitmap.
//
// The vertex convention takes the numbers of vertices; the numbers of top cells are these minus one
// (Bitmap_cubical_complex_base.h:691-694, setup_bitmap_based_on_vertices), so a side of one vertex (a legal shape, e.g.
// a 1 x 3 array of vertex values, and everything else works for it: boundaries, coboundaries, values, filtration order
// and persistence agree with the reference on 50 random such grids) gives sizes[i] = 0.
// Top_dimensional_cells_iterator computes its bounds with the unsigned expression  sizes[dim] - 1
// (Bitmap_cubical_complex_base.h:328 in operator++, :401 in top_dimensional_cells_iterator_end), which wraps to
// 4294967295 when sizes[dim] == 0: begin() != end() although the complex has no cell of dimension dimension(), and the
// range runs through 2^32 counters. The positions it dereferences to, sum (2 counter_i + 1) multipliers_i, are first
// cells of lower dimension (here two vertices) and then positions >= size(): get_cell_data / filtration of them read
// outside the bitmap (heap-buffer-overflow under AddressSanitizer, see READ_OUTSIDE below).
// Expected: an empty range (no cell of dimension 2 in a 1 x 3 grid of vertices), or at least positions of cells.
//
// build: g++ -std=gnu++17 -O1 -g -fsanitize=address,undefined -I<gudhi includes> defect_4.cpp -o defect_4
//        (add -DREAD_OUTSIDE to read the filtration value of what the range returns: aborts under AddressSanitizer)
#include <gudhi/Bitmap_cubical_complex.h>
#include <iostream>
#include <vector>

int main() {
  typedef Gudhi::cubical_complex::Bitmap_cubical_complex_base<double> Base;
  typedef Gudhi::cubical_complex::Bitmap_cubical_complex<Base> Cpx;
  Cpx c(std::vector<unsigned>{1, 3}, std::vector<double>{1, 2, 3}, false);  // 1 x 3 vertices: a path of 2 edges
  std::cout << "cells " << c.num_simplices() << " (expected 5), dimension() " << c.dimension() << "\n";
  std::size_t top_cells_in_the_complex = 0;
  for (auto p : c.all_cells_range())
    if (c.dimension(p) == c.dimension()) ++top_cells_in_the_complex;
  std::cout << "cells of dimension " << c.dimension() << " in the complex: " << top_cells_in_the_complex << "\n";
  bool ok = true;
  std::size_t n = 0;
  for (auto t : c.top_dimensional_cells_range()) {
    if (++n > 8) {
      std::cout << "  ... (the range goes on for 2^32 steps)\n";
      break;
    }
    std::cout << "  top_dimensional_cells_range gives position " << t;
    if (t < c.num_simplices())
      std::cout << " : a cell of dimension " << c.dimension(t) << "\n";
    else
      std::cout << " : outside the bitmap (size " << c.num_simplices() << ")\n";
#ifdef READ_OUTSIDE
    std::cout << "    value " << c.filtration(t) << "\n";
#endif
    ok = false;
  }
  std::cout << (ok ? "PASS" : "FAIL: top_dimensional_cells_range() of a grid with a one vertex side is not the (empty) set of top cells") << std::endl;
  return ok ? 0 : 1;
}

#include <gudhi/Matrix.h>
#include <gudhi/persistence_matrix_options.h>
#include <iostream>
#include <memory>
using namespace Gudhi::persistence_matrix;
struct ChainOpt : Default_options<Column_types::INTRUSIVE_SET, true> {
  static const bool is_of_boundary_type = false;
  static const bool has_column_pairings = true;
  static const bool has_removable_columns = true;
};
struct RUOpt : Default_options<Column_types::INTRUSIVE_SET, true> {
  static const bool has_column_pairings = true;
  static const bool has_removable_columns = true;
  static const bool has_vine_update = true;
};
template<class M> std::string bars(const M& m){ std::string s; for(auto& b: m.get_current_barcode()){ s+="("+std::to_string(b.dim)+":"+std::to_string(b.birth)+","+(b.death==(decltype(b.death))-1?std::string("inf"):std::to_string(b.death))+") "; } return s; }
template<class M> int run(const char* name){
  auto src = std::make_unique<M>();
  src->insert_boundary({}); src->insert_boundary({}); src->insert_boundary({});   // three vertices
  src->insert_boundary({0,1});                                                     // edge 01 kills vertex 1
  M copy(*src);
  std::string before = bars(*src);
  std::cout << name << "\n source before: " << before << "\n copy before:   " << bars(copy) << "\n";
  copy.insert_boundary({1,2});                                                     // only the copy gets edge 12 (kills vertex 2)
  std::string after = bars(*src);
  std::cout << " source after the copy was modified: " << after << "\n copy after:   " << bars(copy) << "\n";
  int bad = before != after;
  if (bad) std::cout << " -> modifying the copy changed the source\n";
  src.reset();
  std::cout << " copy after the source was destroyed: " << bars(copy) << "\n";
  return bad;
}
int main(){ int bad=0; bad+=run<Matrix<ChainOpt>>("chain, removable columns"); bad+=run<Matrix<RUOpt>>("RU, vine update, removable columns"); std::cout<<(bad?"FAIL":"PASS")<<"\n"; return bad; }

// defect_2.cpp - GUDHI_COLLAPSE_USE_DENSE_ARRAY with an exact / unbounded filtration type (GMP mpq_class, mpz_class):
// numeric_limits<mpq_class> is specialised with has_infinity == false and max() == lowest() == 0, so the "absent"
// sentinel never() of the dense neighbour table is the ordinary value 0: every pair of vertices looks like an edge
// present since time 0, every edge with value >= 0 that has a common neighbour is "dominated", and edges that kill
// homology classes are removed.  The sparse (default) table gives the right answer on the same input.
// (Same family as the already fixed "integer filtration type" bug, whose fix assumed max() is an extreme value.)
//
// Build: g++ -std=gnu++17 -O1 -g -fsanitize=address,undefined -I/tmp/seed/P12/src/Collapse/include \
//            -I/tmp/seed/P12/src/common/include defect_2.cpp -o defect_2 -lgmpxx -lgmp && ./defect_2
//
// Cause: Flag_complex_edge_collapser.h l.53-58: never() = numeric_limits<Filtration_value>::max() when the type has no
// infinity; l.74 fills neighbors_data with it; l.165  if(neighbors_dense(v,c) > f) return false;  is never true for
// f >= 0, so is_dominated_by() answers true for any candidate c.  (since_ever(), l.59-64, is 0 too: in the sparse build
// this only makes every vertex "not adjacent to itself" before time 0, i.e. no collapse at all for negative values -
// inefficient but correct.)

#include <gmpxx.h>

#include <gudhi/Flag_complex_edge_collapser.h>  // sparse table -> Gudhi::collapse
#undef FLAG_COMPLEX_EDGE_COLLAPSER_H_
#define collapse collapse_dense
#define GUDHI_COLLAPSE_USE_DENSE_ARRAY
#include <gudhi/Flag_complex_edge_collapser.h>  // dense table  -> Gudhi::collapse_dense
#undef collapse

#include <algorithm>
#include <functional>
#include <iostream>
#include <limits>
#include <map>
#include <set>
#include <sstream>
#include <string>
#include <tuple>
#include <vector>

// ---- independent reference: brute-force persistence (Z/2) of the flag filtration of a weighted graph --------------
// returns the diagram as sorted strings "dim d [b, e)", zero-length intervals dropped; vertices are born before all.
template <class V, class F>
std::vector<std::string> diagram(std::vector<V> const& verts, std::vector<std::tuple<V, V, F>> const& edges) {
  int n = (int)verts.size();
  std::map<V, int> idx;
  for (int i = 0; i < n; ++i) idx[verts[i]] = i;
  std::vector<std::vector<char>> adj(n, std::vector<char>(n, 0));
  std::vector<std::vector<F>> w(n, std::vector<F>(n, F()));
  for (auto const& e : edges) {
    int a = idx.at(std::get<0>(e)), b = idx.at(std::get<1>(e));
    adj[a][b] = adj[b][a] = 1;
    w[a][b] = w[b][a] = std::get<2>(e);
  }
  struct S { std::vector<int> v; int lvl; F k; };  // lvl 0: vertex (born before everything)
  auto less = [](S const& a, S const& b) { return a.lvl != b.lvl ? a.lvl < b.lvl : (a.lvl == 1 && a.k < b.k); };
  std::vector<S> simp;
  std::vector<int> cur;
  std::function<void(int, int, F)> rec = [&](int start, int lvl, F k) {
    for (int x = start; x < n; ++x) {
      bool ok = true; int l2 = lvl; F k2 = k;
      for (int y : cur) {
        if (!adj[x][y]) { ok = false; break; }
        if (l2 == 0 || k2 < w[x][y]) { l2 = 1; k2 = w[x][y]; }
      }
      if (!ok) continue;
      cur.push_back(x); simp.push_back({cur, l2, k2}); rec(x + 1, l2, k2); cur.pop_back();
    }
  };
  rec(0, 0, F());
  std::stable_sort(simp.begin(), simp.end(), [&](S const& a, S const& b) { if (less(a, b)) return true; if (less(b, a)) return false; return a.v.size() < b.v.size(); });
  std::size_t m = simp.size();
  std::map<std::vector<int>, int> pos;
  for (std::size_t i = 0; i < m; ++i) pos[simp[i].v] = (int)i;
  std::vector<std::set<int>> col(m);
  std::vector<int> owner(m, -1);
  std::vector<char> paired(m, 0);
  std::vector<std::string> res;
  auto val = [](S const& s) { std::ostringstream o; if (s.lvl == 0) o << "-oo"; else o << s.k; return o.str(); };
  for (std::size_t j = 0; j < m; ++j) {
    auto const& s = simp[j].v;
    if (s.size() > 1)
      for (std::size_t d = 0; d < s.size(); ++d) { std::vector<int> f; for (std::size_t t = 0; t < s.size(); ++t) if (t != d) f.push_back(s[t]); col[j].insert(pos.at(f)); }
    while (!col[j].empty() && owner[*col[j].rbegin()] >= 0)
      for (int x : col[owner[*col[j].rbegin()]]) if (!col[j].erase(x)) col[j].insert(x);
    if (!col[j].empty()) {
      int l = *col[j].rbegin(); owner[l] = (int)j; paired[l] = paired[j] = 1;
      if (less(simp[l], simp[j])) res.push_back("dim " + std::to_string(simp[l].v.size() - 1) + " [" + val(simp[l]) + ", " + val(simp[j]) + ")");
    }
  }
  for (std::size_t j = 0; j < m; ++j) if (!paired[j]) res.push_back("dim " + std::to_string(simp[j].v.size() - 1) + " [" + val(simp[j]) + ", never dies)");
  std::sort(res.begin(), res.end());
  return res;
}


static int failures = 0;

template <class F> void run(const char* type_name, F one, F top) {
  using E = std::tuple<int, int, F>;
  // 4-cycle 0-1-2-3 at time `one`, diagonal (0,2) at time `top`: the diagonal kills the 1-cycle, its common neighbours
  // 1 and 3 are not adjacent, so it is not dominated and must be kept.
  std::vector<E> g = {E{0, 1, one}, E{1, 2, one}, E{2, 3, one}, E{3, 0, one}, E{0, 2, top}};
  std::vector<int> verts = {0, 1, 2, 3};
  auto out_sparse = Gudhi::collapse::flag_complex_collapse_edges(g);
  auto out_dense = Gudhi::collapse_dense::flag_complex_collapse_edges(g);
  auto show = [](const char* n, std::vector<E> const& x) { std::cout << "    " << n << ":"; for (auto const& e : x) std::cout << " (" << std::get<0>(e) << "," << std::get<1>(e) << "," << std::get<2>(e) << ")"; std::cout << "\n"; };
  std::cout << "[" << type_name << "] numeric_limits: has_infinity " << std::numeric_limits<F>::has_infinity << ", max() " << std::numeric_limits<F>::max() << ", lowest() " << std::numeric_limits<F>::lowest() << "\n";
  show("input        ", g);
  show("output sparse", out_sparse);
  show("output dense ", out_dense);
  auto d_in = diagram<int, F>(verts, g), d_sp = diagram<int, F>(verts, out_sparse), d_de = diagram<int, F>(verts, out_dense);
  auto pr = [](const char* n, std::vector<std::string> const& d) { std::cout << "    diagram " << n << ":"; for (auto const& x : d) std::cout << "  " << x; std::cout << "\n"; };
  pr("input (expected)", d_in);
  pr("sparse output   ", d_sp);
  pr("dense output    ", d_de);
  bool ok_sparse = d_in == d_sp, ok_dense = d_in == d_de;
  std::cout << "    sparse table: " << (ok_sparse ? "same diagram" : "DIAGRAM CHANGED") << "; dense table: " << (ok_dense ? "same diagram" : "DIAGRAM CHANGED") << "\n";
  if (!ok_sparse || !ok_dense) ++failures;
}

int main() {
  run<mpq_class>("mpq_class", mpq_class(1), mpq_class(5, 2));
  run<mpz_class>("mpz_class", mpz_class(1), mpz_class(3));
  run<double>("double (control)", 1., 2.5);
  std::cout << "failing cases: " << failures << " (expected 0)\n" << (failures ? "FAIL" : "PASS") << std::endl;
  return failures ? 1 : 0;
}

// Pristine defect 1: prune_above_filtration(t) where `t` is a reference to a filtration value stored in the tree
// (e.g. `st.prune_above_filtration(st.filtration(sh))`, filtration() returns a const reference) does not keep the
// sublevel complex: the threshold is passed down by reference, std::remove_if moves the nodes of the flat_map the
// reference points into, and the deeper levels are pruned with another node's value.
// Build: g++ -std=gnu++17 -O1 $(ls -d /tmp/seed/C03c/src/*/include | sed 's/^/-I/') pristine_1.cpp -o pristine_1
#include <gudhi/Simplex_tree.h>

#include <iostream>

struct Stable : Gudhi::Simplex_tree_options_default {
  static const bool stable_simplex_handles = true;
};

template <class ST>
bool run(const char* name) {
  ST st;
  st.insert_simplex({0}, 5.);
  st.insert_simplex({1}, 1.);
  st.insert_simplex({2}, 0.);
  st.insert_simplex({3}, 0.);
  st.insert_simplex({2, 3}, 0.5);
  ST ref = st;
  double t = 1.;
  ref.prune_above_filtration(t);                           // threshold held by the caller
  st.prune_above_filtration(st.filtration(st.find({1})));  // same threshold (1.), read from the tree
  bool ok = (st == ref);
  std::cout << name << ": threshold by value keeps " << ref.num_simplices() << " simplices, threshold read from vertex 1 keeps "
            << st.num_simplices() << (st.find({2, 3}) == st.null_simplex() ? " (edge {2,3}, f=0.5 <= 1, was removed)" : "")
            << "\n";
  return ok;
}

int main() {
  bool ok = run<Gudhi::Simplex_tree<>>("default options");
  ok = run<Gudhi::Simplex_tree<Stable>>("stable_simplex_handles") && ok;
  std::cout << (ok ? "PASS" : "FAIL") << std::endl;
  return ok ? 0 : 1;
}

// RESULT (worktree /repo as is): NOTHING FOUND.
//   configurations (12 per case): column types NAIVE_VECTOR, LIST, SET, VECTOR, SMALL_VECTOR, UNORDERED_SET,
//   INTRUSIVE_LIST, INTRUSIVE_SET with <int,int>; INTRUSIVE_SET<long long,short>; NAIVE_VECTOR<short,signed char>;
//   LIST<long,long>; Default_zigzag_options; random preallocationSize. (HEAP is refused by a static_assert.)
//   sequences: simplicial (3-5 vertices, dim <= 3) and general Z2 cell complexes (cells of dim <= 3 whose boundary is a
//   random cycle: loops, cells with empty boundary, edges with 0/1/3+ end points...), identities (also as first
//   arrow), phases removing everything and inserting again; every step compared with the rank-based reference.
//   passed: ASan+UBSan -O1: 300+3000+3000 cases (len<=40/100/120), 300 (len<=250), 15000 (len<=150), 4000 (len<=300);
//           -O3 -DNDEBUG: 5000 (len<=150); -D_GLIBCXX_DEBUG: 500; valgrind memcheck: 440; gcov build: 1500 cases ->
//           every line of zigzag_persistence.h executed; of chain_vine_swap.h only vine_swap() and the G x F / G x G arms
//           of _positive_vine_swap (unreachable from zigzag: the removed cell is maximal) were not.
//   total ~33 000 sequences x 12 configurations, 0 mismatch, 0 sanitizer report.
// Differential fuzzer for Gudhi::zigzag_persistence::Zigzag_persistence (index version), property C07.
// Random zigzag sequences (simplicial and general cell complexes, identities, "remove everything then insert again"
// phases) are replayed on the library for every column type / key type below; after EVERY operation the intervals
// streamed to the callback and the open ones (get_current_infinite_intervals) are compared with the independent
// rank-based reference of zz_common.h.
//
// usage: fuzz_zigzag_index [seed0] [ncases] [maxlen]
#include <gudhi/zigzag_persistence.h>
#include "q07_zz_common.h"
#include <iostream>

using namespace zzref;
using CT = Gudhi::persistence_matrix::Column_types;

template <CT ct, class Key = int, class Dim = int>
struct Opt {
  using Internal_key = Key;
  using Dimension = Dim;
  static const CT column_type = ct;
};

static int failures = 0;

template <class Options>
bool run_one(const char* name, const std::vector<Op>& ops, const Reference& ref, unsigned prealloc, bool verbose) {
  using ZP = Gudhi::zigzag_persistence::Zigzag_persistence<Options>;
  std::vector<std::tuple<int, int, int>> got;  // dim,b,d
  ZP zp([&](typename ZP::Dimension d, typename ZP::Index b, typename ZP::Index de) { got.emplace_back((int)d, (int)b, (int)de); },
        prealloc);
  std::vector<int> arrowOf(MAXN, -1);
  size_t consumed = 0;
  for (int k = 0; k < (int)ops.size(); ++k) {
    const Op& o = ops[k];
    long ret;
    try {
      if (o.type == 0) {
        std::vector<typename ZP::Index> b;
        for (int c : o.bnd) b.push_back((typename ZP::Index)arrowOf[c]);
        ret = (long)zp.insert_cell(b, (typename ZP::Dimension)o.dim);
        arrowOf[o.cell] = k;
      } else if (o.type == 1) {
        ret = (long)zp.remove_cell((typename ZP::Index)arrowOf[o.cell]);
      } else
        ret = (long)zp.apply_identity();
    } catch (const std::exception& e) {
      std::printf("[%s] EXCEPTION at step %d: %s\n", name, k, e.what());
      return false;
    }
    if (ret != k) {
      std::printf("[%s] step %d returned op number %ld\n", name, k, ret);
      return false;
    }
    std::vector<std::pair<int, int>> closed;
    for (; consumed < got.size(); ++consumed) {
      if (std::get<2>(got[consumed]) != k) {
        std::printf("[%s] step %d: streamed interval with death %d\n", name, k, std::get<2>(got[consumed]));
        return false;
      }
      closed.emplace_back(std::get<0>(got[consumed]), std::get<1>(got[consumed]));
    }
    std::sort(closed.begin(), closed.end());
    std::vector<std::pair<int, int>> open;
    zp.get_current_infinite_intervals([&](typename ZP::Dimension d, typename ZP::Index b) { open.emplace_back((int)d, (int)b); });
    std::sort(open.begin(), open.end());
    if (closed != ref.closedAt[k] || open != ref.openAt[k]) {
      if (verbose) {
        std::printf("[%s] MISMATCH at step %d\n", name, k);
        std::printf("  closed got:");
        for (auto& p : closed) std::printf(" (%d,%d)", p.first, p.second);
        std::printf("\n  closed exp:");
        for (auto& p : ref.closedAt[k]) std::printf(" (%d,%d)", p.first, p.second);
        std::printf("\n  open got:");
        for (auto& p : open) std::printf(" (%d,%d)", p.first, p.second);
        std::printf("\n  open exp:");
        for (auto& p : ref.openAt[k]) std::printf(" (%d,%d)", p.first, p.second);
        std::printf("\n");
      }
      return false;
    }
  }
  return true;
}

int main(int argc, char** argv) {
  unsigned seed0 = argc > 1 ? std::atoi(argv[1]) : 1;
  int ncases = argc > 2 ? std::atoi(argv[2]) : 200;
  int maxlen = argc > 3 ? std::atoi(argv[3]) : 40;
  long total = 0;
  for (int c = 0; c < ncases; ++c) {
    unsigned seed = seed0 + c;
    std::mt19937 rng(seed);
    int len = 3 + rng() % maxlen;
    std::vector<Op> ops;
    int md;
    int mode = rng() % 3;
    if (mode == 0) {
      md = 1 + rng() % 3;
      ops = gen_simplicial(rng, len, 3 + rng() % 3, md, MAXN);
    } else if (mode == 1) {
      md = 1 + rng() % 3;
      ops = gen_general(rng, len, md, MAXN);
    } else {
      md = 2;
      ops = gen_simplicial(rng, len, 4, 2, MAXN);
    }
    Reference ref = compute_reference(ops, md);
    unsigned prealloc = (rng() % 3 == 0) ? rng() % 50 : 0;
    bool ok = true;
#define RUN(...)                                                      \
  {                                                                   \
    bool r = run_one<__VA_ARGS__>(#__VA_ARGS__, ops, ref, prealloc, true); \
    ++total;                                                          \
    if (!r) {                                                         \
      ok = false;                                                     \
    }                                                                 \
  }
    RUN(Opt<CT::NAIVE_VECTOR>)
    RUN(Opt<CT::LIST>)
    RUN(Opt<CT::SET>)
    RUN(Opt<CT::VECTOR>)
    RUN(Opt<CT::SMALL_VECTOR>)
    RUN(Opt<CT::UNORDERED_SET>)
    RUN(Opt<CT::INTRUSIVE_LIST>)
    RUN(Opt<CT::INTRUSIVE_SET>)
    RUN(Opt<CT::INTRUSIVE_SET, long long, short>)
    RUN(Opt<CT::NAIVE_VECTOR, short, signed char>)
    RUN(Opt<CT::LIST, long, long>)
    RUN(Gudhi::zigzag_persistence::Default_zigzag_options)
    if (!ok) {
      ++failures;
      std::printf("FAILED seed %u (mode %d, len %d):\n", seed, mode, len);
      print_ops(ops);
      if (failures > 3) break;
    }
  }
  std::printf("%s: %d cases, %ld runs, %d failing cases\n", failures ? "FAIL" : "PASS", ncases, total, failures);
  return failures ? 1 : 0;
}

// defect_3.cpp - the lower star filtrations are not recomputed, they are only pushed one way from whatever the bitmap
// holds: a periodic bitmap made by its public (sizes, directions) constructor gets +inf on every edge / square when
// the filtration is imposed from its vertices, and impose_lower_star_filtration() keeps stale minima.
//
// (a) Bitmap_cubical_complex_periodic_boundary_conditions_base<T>::impose_lower_star_filtration_from_vertices
//     (Bitmap_cubical_complex_periodic_boundary_conditions_base.h:539-582) only does
//         if (data[coboundary] < data[index]) data[coboundary] = data[index];      (line 567)
//     i.e. it needs every cell that is not a vertex to hold -inf when it starts. Only construct_complex_based_on_vertices
//     fills the bitmap with -inf; the public constructor (sizes, directions) "creates an empty bitmap" filled with +inf
//     (set_up_containers(sizes, true), line 349), so after setting the vertices (Vertices_iterator) and calling the public
//     impose_lower_star_filtration_from_vertices() ("Set cells filtrations given those of the vertices") every cell of
//     positive dimension is still +inf. The non periodic class overwrites (Bitmap_cubical_complex_base.h:1042) and is
//     right, and so is the periodic constructor from the vector of vertices: the three must agree.
// (b) Bitmap_cubical_complex_base<T>::impose_lower_star_filtration (Bitmap_cubical_complex_base.h:969-1012, line 997
//         if (data[boundary] > data[index]) data[boundary] = data[index];)
//     is documented "Call it only if you are putting the filtration of the cells by your own (for instance by using
//     Top_dimensional_cells_iterator)". After raising the value of a top cell through get_cell_data (documented: "This
//     allows reading and changing the value of filtration") and calling it, the faces keep the old, smaller value: the
//     value of a cell is no longer the minimum over the top cells that contain it.
//
// build: g++ -std=gnu++17 -O1 -g -fsanitize=address,undefined -I<gudhi includes> defect_3.cpp -o defect_3
#include <gudhi/Bitmap_cubical_complex.h>
#include <gudhi/Bitmap_cubical_complex_periodic_boundary_conditions_base.h>
#include <iostream>
#include <vector>

int main() {
  typedef Gudhi::cubical_complex::Bitmap_cubical_complex_base<double> Base;
  typedef Gudhi::cubical_complex::Bitmap_cubical_complex_periodic_boundary_conditions_base<double> PBase;
  bool ok = true;

  // (a) a circle of 3 vertices with values 1 2 3: the edges must get 2 3 3
  {
    std::vector<double> vertices = {1, 2, 3};
    PBase by_constructor(std::vector<unsigned>{3}, vertices, std::vector<bool>{true}, false);
    PBase by_hand(std::vector<unsigned>{3}, std::vector<bool>{true});
    std::size_t k = 0;
    for (auto it = by_hand.vertices_iterator_begin(); it != by_hand.vertices_iterator_end(); ++it)
      by_hand.get_cell_data(*it) = vertices[k++];
    by_hand.impose_lower_star_filtration_from_vertices();
    std::cout << "(a) periodic circle, vertices 1 2 3\n    cell : constructor from vertices / (sizes,directions) + impose_lower_star_filtration_from_vertices\n";
    for (std::size_t c = 0; c < by_hand.size(); ++c) {
      std::cout << "    " << c << " (dim " << by_hand.get_dimension_of_a_cell(c) << ") : " << by_constructor.get_cell_data(c)
                << " / " << by_hand.get_cell_data(c) << "\n";
      if (by_constructor.get_cell_data(c) != by_hand.get_cell_data(c)) ok = false;
    }
    // the same history with the non periodic class is right
    Base line(std::vector<unsigned>{2});
    k = 0;
    for (auto it = line.vertices_iterator_begin(); it != line.vertices_iterator_end(); ++it)
      line.get_cell_data(*it) = vertices[k++];
    line.impose_lower_star_filtration_from_vertices();
    std::cout << "    non periodic segment with the same history: edges " << line.get_cell_data(1) << " " << line.get_cell_data(3)
              << " (expected 2 3)\n";
    if (line.get_cell_data(1) != 2 || line.get_cell_data(3) != 3) ok = false;
  }
  // (b) two top cells 1 and 5 on a segment; the first one is raised to 10
  {
    Base b(std::vector<unsigned>{2}, std::vector<double>{1., 5.});
    auto it = b.top_dimensional_cells_iterator_begin();
    b.get_cell_data(*it) = 10.;
    b.impose_lower_star_filtration();
    Base fresh(std::vector<unsigned>{2}, std::vector<double>{10., 5.});
    std::cout << "(b) segment of top cells 1 5, first top cell set to 10, impose_lower_star_filtration() called again\n"
              << "    cell : rebuilt from {10, 5} / modified\n";
    for (std::size_t c = 0; c < b.size(); ++c) {
      std::cout << "    " << c << " (dim " << b.get_dimension_of_a_cell(c) << ") : " << fresh.get_cell_data(c) << " / "
                << b.get_cell_data(c) << "\n";
      if (fresh.get_cell_data(c) != b.get_cell_data(c)) ok = false;
    }
  }
  std::cout << (ok ? "PASS" : "FAIL: the imposed filtration is not the lower star filtration of the values that were set") << std::endl;
  return ok ? 0 : 1;
}

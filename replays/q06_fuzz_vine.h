// Differential fuzzer for property C06 (vine swaps / removals leave the matrix as if rebuilt from scratch).
// Shared harness of fuzz_ru.cpp, fuzz_chain.cpp and fuzz_chain_nobarcode.cpp.
//
// Model: cells with stable uids (dimension, boundary as uids, identifier given to the library), the current order of
// the filtration, for RU matrices the row label attached to each position. Cells are random simplices on 6 vertices
// (dimension <= 3, all facets present) or general cells whose boundary is a random cycle of the current complex
// (empty boundaries with explicit dimension, parallel cells ...). Initial state: default constructor, reserving
// constructor, or constructor from the boundaries of a simplicial complex.
// Operations (random walk, 30% insertion, 45% transposition of two consecutive cells that are not face / coface,
// 17% removal: remove_last, remove_maximal_cell(one or two arguments), emptying the matrix; 8% copies: copy
// construction + assignment, move construction + move assignment, swap, assignment over a default constructed /
// an older matrix, going back to a snapshot copied earlier, modifying a copy and dropping it, moving the matrix away
// and going on with the moved-from object as an empty matrix). vine_swap_with_z_eq_1_case is used when its
// precondition can be verified through the public interface. Identifiers: default ones, or custom ones (strictly
// increasing, gaps up to FUZZ_IDSTRIDE, optionally reusing identifiers that were freed).
// Reference after every step (or every k-th step, so that several operations run with pending lazy swaps):
//   * own Z_2 reduction of the boundary matrix of the current filtration: barcode, pairing;
//   * RU: dimensions, R reduced with the reference pivots, get_pivot / get_column_with_pivot / is_zero_entry /
//     is_zero_column, U upper triangular with unit diagonal and B = R*U (CONTAINER / POSITION indexing; with
//     IDENTIFIER indexing U is not accessible: R_j - B_j in the span of the earlier boundaries), rows of R;
//   * chain: pivot, dimension, chain = own cell + earlier cells of the same dimension, unpaired and positive chains
//     are cycles, boundary of a negative chain = chain of its partner, is_paired / get_paired_chain_index, rows;
//   * the value returned by the transposition: "bars follow their cells" <=> the reference barcode is the old one
//     with the two positions exchanged; "unchanged" <=> the reference barcode in positions is unchanged;
//   * get_max_dimension, get_number_of_columns; optional: representative cycles (FUZZ_REP=1).
// Coverage and results: defects.md.
#pragma once
#include <gudhi/Matrix.h>
#include <gudhi/persistence_matrix_options.h>

#include <algorithm>
#include <cstdint>
#include <cstdio>
#include <cstdlib>
#include <functional>
#include <iostream>
#include <map>
#include <memory>
#include <random>
#include <set>
#include <sstream>
#include <string>
#include <tuple>
#include <vector>

using namespace Gudhi::persistence_matrix;
using u64 = std::uint64_t;

enum { IDX_CONTAINER = 0, IDX_POSITION = 1, IDX_IDENTIFIER = 2 };

// RA: 0 none, 1 intrusive rows, 2 set rows, 3 intrusive + removable rows, 4 set + removable rows
template <Column_types C, int IDX, bool BND, bool BAR, bool REMCOL, bool MAPC, int RA, bool DIM, bool REP>
struct Opt : Default_options<C, true> {
#ifdef FUZZ_INDEX_TYPE
  using Index = FUZZ_INDEX_TYPE;  // the concept only asks for an integer type large enough for the columns
#endif
  static const Column_indexation_types column_indexation_type =
      IDX == IDX_CONTAINER ? Column_indexation_types::CONTAINER
                           : (IDX == IDX_POSITION ? Column_indexation_types::POSITION
                                                  : Column_indexation_types::IDENTIFIER);
  static const bool is_of_boundary_type = BND;
  static const bool has_column_pairings = BAR;
  static const bool has_vine_update = true;
  static const bool can_retrieve_representative_cycles = REP;
  static const bool has_removable_columns = REMCOL;
  static const bool has_map_column_container = MAPC;
  static const bool has_row_access = (RA != 0);
  static const bool has_intrusive_rows = (RA == 1 || RA == 3);
  static const bool has_removable_rows = (RA >= 3);
  static const bool has_matrix_maximal_dimension_access = DIM;
  static const int idx = IDX;
  static const int ra = RA;
};

struct Cell {
  int dim;
  std::vector<int> bd;  // uids of the faces
  unsigned id;          // identifier given to the library (chain: row; RU/IDENTIFIER: column name)
  u64 verts;            // vertex set when the cell is a simplex (0 otherwise)
};

struct Failure {
  std::string msg;
};

using BarT = std::tuple<int, int, int>;  // dim, birth, death (-1 = none)

struct Model {
  std::vector<Cell> cells;     // by uid
  std::vector<int> order;      // uids in filtration order
  std::vector<unsigned> rowOf;  // RU only: row label of each position

  int pos_of(int uid) const {
    for (size_t i = 0; i < order.size(); ++i)
      if (order[i] == uid) return (int)i;
    return -1;
  }
  u64 bmask(int p) const {  // boundary of the cell at position p, as a mask of positions
    u64 m = 0;
    for (int f : cells[order[p]].bd) m ^= (u64(1) << pos_of(f));
    return m;
  }
  bool is_maximal(int p) const {
    for (size_t q = p + 1; q < order.size(); ++q)
      for (int f : cells[order[q]].bd)
        if (f == order[p]) return false;
    return true;
  }
  bool can_swap(int p) const {
    for (int f : cells[order[p + 1]].bd)
      if (f == order[p]) return false;
    return true;
  }
  // reference: standard reduction
  std::multiset<BarT> barcode(std::vector<int>* pairOf = nullptr) const {
    int n = order.size();
    std::vector<u64> R(n);
    std::vector<int> lowToCol(n, -1), pair(n, -1);
    for (int j = 0; j < n; ++j) {
      R[j] = bmask(j);
      while (R[j]) {
        int l = 63 - __builtin_clzll(R[j]);
        if (lowToCol[l] < 0) {
          lowToCol[l] = j;
          pair[j] = l;
          pair[l] = j;
          break;
        }
        R[j] ^= R[lowToCol[l]];
      }
    }
    std::multiset<BarT> res;
    for (int j = 0; j < n; ++j) {
      if (pair[j] < 0)
        res.insert({cells[order[j]].dim, j, -1});
      else if (pair[j] > j)
        res.insert({cells[order[j]].dim, j, pair[j]});
    }
    if (pairOf) *pairOf = pair;
    return res;
  }
};

inline std::string bars_to_string(const std::multiset<BarT>& b) {
  std::ostringstream s;
  for (auto& t : b) s << "[" << std::get<0>(t) << ":" << std::get<1>(t) << "," << std::get<2>(t) << ") ";
  return s.str();
}

inline std::multiset<BarT> transpose_bars(const std::multiset<BarT>& b, int p) {
  std::multiset<BarT> r;
  auto t = [&](int x) { return x == p ? p + 1 : (x == p + 1 ? p : x); };
  for (auto& x : b) r.insert({std::get<0>(x), t(std::get<1>(x)), t(std::get<2>(x))});
  return r;
}

template <class O>
struct Harness {
  using M = Matrix<O>;
  static constexpr bool BND = O::is_of_boundary_type;
  static constexpr bool BAR = O::has_column_pairings;
  static constexpr int IDX = O::idx;
  static constexpr bool REMCOL = O::has_removable_columns;
  static constexpr bool MAPC = O::has_map_column_container;
  static constexpr unsigned nullIdx = (unsigned)(typename O::Index)(-1);

  static constexpr bool NEEDCMP = !BND && !BAR;  // chain matrix without stored barcode: comparators are mandatory
  Model md;
  std::vector<int> cmpPair;          // pairing of the reference at the time of the current swap
  bool cmpArgsArePositions = false;  // how the comparators read their arguments (documented: PosIdx)
  std::function<bool(unsigned, unsigned)> birthCmp() {
    return [this](unsigned a, unsigned b) { return cmp_value(a, true) < cmp_value(b, true); };
  }
  std::function<bool(unsigned, unsigned)> deathCmp() {
    return [this](unsigned a, unsigned b) { return cmp_value(a, false) < cmp_value(b, false); };
  }
  long cmp_value(unsigned arg, bool birth) {
    int pos;
    if (cmpArgsArePositions || IDX != IDX_CONTAINER) {
      // (with the position / identifier overlays a column index of the underlying matrix means nothing to the user:
      // only the documented reading is possible)
      pos = arg;
    } else {
      unsigned id = m.get_pivot(arg);  // the argument is a column index
      pos = -1;
      for (size_t q = 0; q < md.order.size(); ++q)
        if (md.cells[md.order[q]].id == id) pos = q;
    }
    if (pos < 0 || pos >= (int)md.order.size() || cmpPair.size() != md.order.size()) {
      log << "  # comparator called with an argument that is no position / column: " << arg << "\n";
      return 0;
    }
    int partner = cmpPair[pos];
    if (birth) return partner < 0 ? pos : std::min(pos, partner);
    return partner < 0 ? 1000000 : std::max(pos, partner);
  }
  template <class... Args>
  M make(Args&&... args) {
    if constexpr (NEEDCMP)
      return M(std::forward<Args>(args)..., birthCmp(), deathCmp());
    else
      return M(std::forward<Args>(args)...);
  }
  M m = make();
  std::mt19937 rng;
  std::ostringstream log;  // history, printed on failure
  bool customIds;
  bool idBoundaryInIds;  // RU/IDENTIFIER: give boundaries with cell identifiers instead of row labels
  unsigned maxIdEver = 0;
  bool anyId = false;
  unsigned insertCount = 0;
  int maxCells;
  bool allowInsertAfterSwapChain;  // when false, chain insertions are only made when the (d-1)-cells are ID-monotone
  bool avoidD1 = true;  // do not remove when the position of the removed column is the row label of another cell

  Harness(unsigned seed, bool custom, int maxc) : rng(seed), customIds(custom), maxCells(maxc) {
    idBoundaryInIds = false;
    allowInsertAfterSwapChain = false;
  }

  int rnd(int n) { return (int)(rng() % (unsigned)n); }

  // initial state: 0 default constructor, 1 constructor reserving columns, 2 constructor from the boundaries of a
  // simplicial complex
  void init(int mode) {
    if (mode == 1) {
      unsigned k = rnd(3) == 0 ? 0 : rnd(40);
      log << "ctor(reserve " << k << ")\n";
      m = make(k);
    } else if (mode == 2) {
      int k = rnd(maxCells);
      std::vector<std::vector<unsigned>> bs;
      for (int i = 0; i < k; ++i) {
        Cell c;
        if (!gen_simplex(c)) break;
        c.id = i;
        std::vector<unsigned> b;
        for (int f : c.bd) b.push_back(md.pos_of(f));
        std::sort(b.begin(), b.end());
        bs.push_back(b);
        md.cells.push_back(c);
        md.order.push_back(md.cells.size() - 1);
        if constexpr (BND) md.rowOf.push_back(i);
      }
      log << "ctor(boundaries) {";
      for (auto& b : bs) {
        log << "{";
        for (unsigned x : b) log << x << ",";
        log << "},";
      }
      log << "}\n";
      m = make(bs);
      insertCount = bs.size();
      if (!bs.empty()) {
        anyId = true;
        maxIdEver = bs.size() - 1;
      }
    }
  }

  [[noreturn]] void fail(const std::string& s) { throw Failure{s}; }

  // ---------------------------------------------------------------- handles
  unsigned handle(int p) {
    const Cell& c = md.cells[md.order[p]];
    if constexpr (BND) {
      if constexpr (IDX == IDX_IDENTIFIER) return c.id;
      else return p;
    } else {
      if constexpr (IDX == IDX_CONTAINER) return m.get_column_with_pivot(c.id);
      else if constexpr (IDX == IDX_POSITION) return p;
      else return c.id;
    }
  }

  std::multiset<BarT> lib_barcode() {
    std::multiset<BarT> r;
    if constexpr (BAR) {
      for (const auto& b : m.get_current_barcode()) {
        int d = (b.death == (typename O::Index)(-1)) ? -1 : (int)b.death;
        r.insert({b.dim, (int)b.birth, d});
      }
    }
    return r;
  }

  std::vector<unsigned> content(unsigned h, unsigned len) {
    std::vector<unsigned> rows;
    auto v = m.get_column(h).get_content(len);
    for (unsigned i = 0; i < v.size(); ++i)
      if (v[i]) rows.push_back(i);
    return rows;
  }

  // ---------------------------------------------------------------- checks
  void check(const char* where) {
    const int n = md.order.size();
    if ((int)m.get_number_of_columns() != n)
      fail(std::string(where) + ": get_number_of_columns=" + std::to_string(m.get_number_of_columns()) + " expected " +
           std::to_string(n));
    std::vector<int> refPair;
    auto ref = md.barcode(&refPair);
    if constexpr (BAR) {
      auto lib = lib_barcode();
      if (lib != ref) fail(std::string(where) + ": barcode lib=" + bars_to_string(lib) + " ref=" + bars_to_string(ref));
    }
    if constexpr (O::has_matrix_maximal_dimension_access) {
      int mx = -1;
      for (int u : md.order) mx = std::max(mx, md.cells[u].dim);
      if (m.get_max_dimension() != mx)
        fail(std::string(where) + ": get_max_dimension=" + std::to_string(m.get_max_dimension()) + " expected " +
             std::to_string(mx));
    }
    if constexpr (BND)
      check_ru(where, refPair);
    else
      check_chain(where, refPair);
    if constexpr (O::can_retrieve_representative_cycles) {
      if (checkRep && !customIds) check_rep(where, refPair);
    }
  }

  bool checkRep = false;
  bool noReturnCheck = false;
  int checkEvery = 1;
  int idStride = 3;
  bool reuseIds = false;
  bool skipDefaultCollision = true;

  // a representative of the bar born at b (dying at d or never): a cycle of the right dimension whose last cell is b,
  // which is not a boundary before d and is one at d
  void check_rep(const char* where, const std::vector<int>& refPair) {
    const int n = md.order.size();
    std::map<unsigned, int> idToPos;
    for (int p = 0; p < n; ++p) idToPos[BND ? (unsigned)p : md.cells[md.order[p]].id] = p;
    m.update_representative_cycles();
    const auto& cycles = m.get_representative_cycles();
    unsigned nbars = 0;
    for (int p = 0; p < n; ++p)
      if (refPair[p] < 0 || refPair[p] > p) ++nbars;
    if (cycles.size() != nbars)
      fail(std::string(where) + ": " + std::to_string(cycles.size()) + " representative cycles for " +
           std::to_string(nbars) + " bars");
    // z homologous in K_upto to a cycle made of cells before b ?
    auto inSpan = [&](u64 z, int upto, int b) {
      std::vector<u64> basis;
      for (int j = 0; j <= upto; ++j) {
        u64 y = md.bmask(j);
        bool ch = true;
        while (y && ch) {
          ch = false;
          for (u64 b : basis)
            if (y && (63 - __builtin_clzll(y)) == (63 - __builtin_clzll(b))) {
              y ^= b;
              ch = true;
            }
        }
        if (y) basis.push_back(y);
      }
      bool ch = true;
      while (z && ch) {
        ch = false;
        for (u64 b : basis)
          if (z && (63 - __builtin_clzll(z)) == (63 - __builtin_clzll(b))) {
            z ^= b;
            ch = true;
          }
      }
      return z == 0 || (63 - __builtin_clzll(z)) < b;
    };
    std::set<int> births;
    for (const auto& cyc : cycles) {
      u64 z = 0;
      for (unsigned x : cyc) {
        auto it = idToPos.find(x);
        if (it == idToPos.end()) fail(std::string(where) + ": representative cycle with unknown cell");
        z ^= u64(1) << it->second;
      }
      if (!z) fail(std::string(where) + ": empty representative cycle");
      int b = 63 - __builtin_clzll(z);
      if (!births.insert(b).second) fail(std::string(where) + ": two representative cycles born at the same cell");
      if (!(refPair[b] < 0 || refPair[b] > b))
        fail(std::string(where) + ": representative cycle whose last cell " + std::to_string(b) + " is negative");
      u64 bd = 0;
      for (int q = 0; q < n; ++q)
        if ((z >> q) & 1) {
          bd ^= md.bmask(q);
          if (md.cells[md.order[q]].dim != md.cells[md.order[b]].dim)
            fail(std::string(where) + ": representative cycle mixes dimensions");
        }
      if (bd) fail(std::string(where) + ": representative of the bar born at " + std::to_string(b) + " is not a cycle");
      int d = refPair[b];
      if (d >= 0 && !inSpan(z, d, b))
        fail(std::string(where) + ": representative of bar [" + std::to_string(b) + "," + std::to_string(d) +
             ") does not die at its death");
      if (inSpan(z, d >= 0 ? d - 1 : n - 1, b))
        fail(std::string(where) + ": representative of the bar born at " + std::to_string(b) +
             " dies before its death");
    }
    if constexpr (BAR) {
      if (std::getenv("FUZZ_NOREPBAR")) return;
      for (const auto& bar : m.get_current_barcode()) {
        if (bar.birth >= cycles.size() + n) fail("unreachable");
        const auto& cyc = m.get_representative_cycle(bar);
        unsigned mx = 0;
        for (unsigned x : cyc) mx = std::max<unsigned>(mx, idToPos.at(x));
        if (mx != bar.birth) fail(std::string(where) + ": get_representative_cycle(bar) is not the cycle of the bar");
      }
    }
  }

  void check_ru(const char* where, const std::vector<int>& refPair) {
    const int n = md.order.size();
    unsigned len = 1;
    std::map<unsigned, int> labelToPos;
    for (int p = 0; p < n; ++p) {
      labelToPos[md.rowOf[p]] = p;
      len = std::max(len, md.rowOf[p] + 1);
    }
    std::vector<u64> R(n), U(n);
    for (int p = 0; p < n; ++p) {
      unsigned h = handle(p);
      if (m.get_column_dimension(h) != md.cells[md.order[p]].dim)
        fail(std::string(where) + ": dimension of column at position " + std::to_string(p));
      u64 r = 0;
      for (unsigned row : content(h, len)) {
        auto it = labelToPos.find(row);
        if (it == labelToPos.end())
          fail(std::string(where) + ": R column at position " + std::to_string(p) + " has unknown row " +
               std::to_string(row));
        r |= u64(1) << it->second;
      }
      R[p] = r;
      bool z = m.is_zero_column(h);
      if (z != (r == 0)) fail(std::string(where) + ": is_zero_column at position " + std::to_string(p));
      // pivots
      int expLow = (refPair[p] >= 0 && refPair[p] < p) ? refPair[p] : -1;
      int low = r ? 63 - __builtin_clzll(r) : -1;
      if (low != expLow)
        fail(std::string(where) + ": low of R column at position " + std::to_string(p) + " is " + std::to_string(low) +
             " expected " + std::to_string(expLow));
      unsigned piv = m.get_pivot(h);
      if (low < 0) {
        if (piv != nullIdx) fail(std::string(where) + ": get_pivot of zero column not null at " + std::to_string(p));
      } else {
        if (piv != md.rowOf[low])
          fail(std::string(where) + ": get_pivot at position " + std::to_string(p) + " = " + std::to_string(piv) +
               " expected " + std::to_string(md.rowOf[low]));
        unsigned cw = m.get_column_with_pivot(md.rowOf[low]);
        if (cw != h)
          fail(std::string(where) + ": get_column_with_pivot(" + std::to_string(md.rowOf[low]) + ") = " +
               std::to_string(cw) + " expected " + std::to_string(h));
      }
      // is_zero_entry
      for (int q = 0; q < n; ++q) {
        bool ze = m.is_zero_entry(h, md.rowOf[q]);
        if (ze != !((r >> q) & 1))
          fail(std::string(where) + ": is_zero_entry(" + std::to_string(h) + "," + std::to_string(md.rowOf[q]) + ")");
      }
      if constexpr (IDX != IDX_IDENTIFIER) {
        u64 u = 0;
        auto v = m.get_column(h, false).get_content(n);
        for (int i = 0; i < (int)v.size(); ++i)
          if (v[i]) u |= u64(1) << i;
        U[p] = u;
        if (!((u >> p) & 1)) fail(std::string(where) + ": U has no diagonal entry at " + std::to_string(p));
        if (u & ((u64(1) << p) - 1)) fail(std::string(where) + ": U not triangular at " + std::to_string(p));
        for (int q = 0; q < n; ++q) {
          bool ze = m.is_zero_entry(h, q, false);
          if (ze != !((u >> q) & 1)) fail(std::string(where) + ": is_zero_entry in U");
        }
      }
    }
    if constexpr (IDX != IDX_IDENTIFIER) {
      // B = R U, with U[s][t] = 1 iff stored column s has row t
      for (int t = 0; t < n; ++t) {
        u64 b = 0;
        for (int s = 0; s <= t; ++s)
          if ((U[s] >> t) & 1) b ^= R[s];
        if (b != md.bmask(t))
          fail(std::string(where) + ": B != R*U at column " + std::to_string(t));
      }
    } else {
      // R_j - B_j must be in span(B_0..B_{j-1}) : incremental basis
      std::vector<u64> basis;  // echelon by highest bit
      auto reduce = [&](u64 x) {
        for (u64 b : basis)
          if (x && (63 - __builtin_clzll(x)) == (63 - __builtin_clzll(b))) x ^= b;
        return x;
      };
      for (int j = 0; j < n; ++j) {
        u64 x = R[j] ^ md.bmask(j);
        // full reduction (basis sorted by decreasing high bit)
        bool changed = true;
        while (x && changed) {
          changed = false;
          for (u64 b : basis)
            if (x && (63 - __builtin_clzll(x)) == (63 - __builtin_clzll(b))) {
              x ^= b;
              changed = true;
            }
        }
        if (x) fail(std::string(where) + ": R column " + std::to_string(j) + " is not B_j + earlier boundaries");
        u64 y = md.bmask(j);
        changed = true;
        while (y && changed) {
          changed = false;
          for (u64 b : basis)
            if (y && (63 - __builtin_clzll(y)) == (63 - __builtin_clzll(b))) {
              y ^= b;
              changed = true;
            }
        }
        if (y) basis.push_back(y);
        (void)reduce;
      }
    }
    if constexpr (O::has_row_access) {
      for (int q = 0; q < n; ++q) {
        std::set<unsigned> exp, got;
        for (int p = 0; p < n; ++p)
          if ((R[p] >> q) & 1) exp.insert(p);
        bool threw = false;
        // without removable rows the row container only grows up to the largest row seen in a boundary: the row of a
        // cell that never had a coface may not exist (get_row would read out of the vector), it is not asked for
        if (O::ra < 3 && exp.empty()) continue;
        try {
          for (auto& e : m.get_row(md.rowOf[q])) got.insert(e.get_column_index());
        } catch (const std::out_of_range&) {
          threw = true;  // removable rows: an absent row is an empty row
        }
        if (threw && !exp.empty()) fail(std::string(where) + ": get_row threw for a non empty row");
        if (!threw && got != exp)
          fail(std::string(where) + ": row " + std::to_string(md.rowOf[q]) + " of R does not match the columns");
      }
    }
  }

  void check_chain(const char* where, const std::vector<int>& refPair) {
    const int n = md.order.size();
    unsigned len = 1;
    std::map<unsigned, int> idToPos;
    for (int p = 0; p < n; ++p) {
      idToPos[md.cells[md.order[p]].id] = p;
      len = std::max(len, md.cells[md.order[p]].id + 1);
    }
    std::vector<u64> Ccol(n);
    std::vector<unsigned> hs(n);
    for (int p = 0; p < n; ++p) {
      const Cell& c = md.cells[md.order[p]];
      unsigned h = handle(p);
      hs[p] = h;
      if (m.get_pivot(h) != c.id)
        fail(std::string(where) + ": get_pivot(handle of position " + std::to_string(p) + ") = " +
             std::to_string(m.get_pivot(h)) + " expected " + std::to_string(c.id));
      if (m.get_column_dimension(h) != c.dim) fail(std::string(where) + ": dimension at position " + std::to_string(p));
      u64 r = 0;
      for (unsigned row : content(h, len)) {
        auto it = idToPos.find(row);
        if (it == idToPos.end()) fail(std::string(where) + ": chain column with unknown row " + std::to_string(row));
        if (md.cells[md.order[it->second]].dim != c.dim) fail(std::string(where) + ": chain mixes dimensions");
        r |= u64(1) << it->second;
      }
      if (!((r >> p) & 1)) fail(std::string(where) + ": chain at position " + std::to_string(p) + " lacks its cell");
      if (r >> (p + 1)) fail(std::string(where) + ": chain at position " + std::to_string(p) + " has a later cell");
      Ccol[p] = r;
      if (m.is_zero_column(h)) fail(std::string(where) + ": is_zero_column true");
      for (int q = 0; q < n; ++q) {
        bool ze = m.is_zero_entry(h, md.cells[md.order[q]].id);
        if (ze != !((r >> q) & 1)) fail(std::string(where) + ": is_zero_entry chain");
      }
      if (m.get_column_with_pivot(c.id) != (IDX == IDX_CONTAINER ? h : (IDX == IDX_POSITION ? (unsigned)p : c.id)))
        fail(std::string(where) + ": get_column_with_pivot chain");
    }
    auto bdOfChain = [&](u64 chain) {
      u64 b = 0;
      for (int q = 0; q < n; ++q)
        if ((chain >> q) & 1) b ^= md.bmask(q);
      return b;
    };
    for (int p = 0; p < n; ++p) {
      auto& col = m.get_column(hs[p]);
      bool paired = col.is_paired();
      if (paired != (refPair[p] >= 0))
        fail(std::string(where) + ": is_paired at position " + std::to_string(p) + " = " + std::to_string(paired));
      u64 b = bdOfChain(Ccol[p]);
      if (refPair[p] < 0 || refPair[p] > p) {
        if (b) fail(std::string(where) + ": positive chain at position " + std::to_string(p) + " is not a cycle");
      } else {
        if (b != Ccol[refPair[p]])
          fail(std::string(where) + ": boundary of negative chain at " + std::to_string(p) + " is not its partner");
      }
      if constexpr (IDX == IDX_CONTAINER) {
        if (paired) {
          unsigned partner = col.get_paired_chain_index();
          if (partner != hs[refPair[p]]) fail(std::string(where) + ": paired chain index at " + std::to_string(p));
        }
      }
    }
    if constexpr (O::has_row_access && IDX == IDX_CONTAINER) {
      for (int q = 0; q < n; ++q) {
        std::set<unsigned> exp, got;
        for (int p = 0; p < n; ++p)
          if ((Ccol[p] >> q) & 1) exp.insert(hs[p]);
        if (O::ra < 3 && exp.empty()) continue;
        for (auto& e : m.get_row(md.cells[md.order[q]].id)) got.insert(e.get_column_index());
        if (got != exp) fail(std::string(where) + ": chain row does not match the columns");
      }
    }
  }

  // ---------------------------------------------------------------- operations
  // candidates for a new cell: returns false if none
  bool gen_simplex(Cell& c) {
    {
      // simplicial on at most 6 vertices
      std::map<u64, int> present;
      for (int u : md.order)
        if (md.cells[u].verts) present[md.cells[u].verts] = u;
      std::vector<u64> cand;
      for (u64 s = 1; s < 64; ++s) {
        int k = __builtin_popcountll(s);
        if (k > 4 || present.count(s)) continue;
        bool ok = true;
        if (k > 1)
          for (int v = 0; v < 6 && ok; ++v)
            if ((s >> v) & 1)
              if (!present.count(s ^ (u64(1) << v))) ok = false;
        if (ok) cand.push_back(s);
      }
      if (cand.empty()) return false;
      // favour high dimensions a bit
      u64 s = cand[rnd(cand.size())];
      for (int t = 0; t < 2; ++t) {
        u64 s2 = cand[rnd(cand.size())];
        if (__builtin_popcountll(s2) > __builtin_popcountll(s)) s = s2;
      }
      c.verts = s;
      c.dim = __builtin_popcountll(s) - 1;
      c.bd.clear();
      if (c.dim > 0)
        for (int v = 0; v < 6; ++v)
          if ((s >> v) & 1) c.bd.push_back(present[s ^ (u64(1) << v)]);
      return true;
    }
  }

  bool gen_cell(Cell& c) {
    const int n = md.order.size();
    int mode = rnd(3);
    if (mode <= 1) return gen_simplex(c);
    // general cell: boundary = random cycle of dimension d-1
    c.verts = 0;
    int d = rnd(4);
    c.dim = d;
    c.bd.clear();
    if (d == 0) return true;
    std::vector<int> P;  // positions of (d-1)-cells
    for (int p = 0; p < n; ++p)
      if (md.cells[md.order[p]].dim == d - 1) P.push_back(p);
    if (P.empty()) return true;  // empty boundary, explicit dimension
    // kernel of the boundary restricted to P
    std::vector<std::pair<u64, u64>> rows;  // (boundary, combination over P indices)
    std::vector<u64> kernel;
    for (size_t i = 0; i < P.size(); ++i) {
      u64 b = md.bmask(P[i]), comb = u64(1) << i;
      for (auto& r : rows)
        if (b && r.first && (63 - __builtin_clzll(b)) == (63 - __builtin_clzll(r.first))) {
          b ^= r.first;
          comb ^= r.second;
        }
      // rows is kept so that high bits are distinct; need repeated passes
      bool changed = true;
      while (b && changed) {
        changed = false;
        for (auto& r : rows)
          if (b && (63 - __builtin_clzll(b)) == (63 - __builtin_clzll(r.first))) {
            b ^= r.first;
            comb ^= r.second;
            changed = true;
          }
      }
      if (b)
        rows.push_back({b, comb});
      else
        kernel.push_back(comb);
    }
    if (kernel.empty()) return true;
    u64 comb = 0;
    int k = 1 + rnd(2);
    for (int i = 0; i < k; ++i) comb ^= kernel[rnd(kernel.size())];
    for (size_t i = 0; i < P.size(); ++i)
      if ((comb >> i) & 1) c.bd.push_back(md.order[P[i]]);
    return true;
  }

  bool chain_insert_safe(const Cell& c) {
    // known defect (not reported again): the chain matrix reduces a new boundary by identifier order. Insert only
    // when the identifiers of the (d-1)-cells and d-cells are increasing along the filtration.
    if (allowInsertAfterSwapChain) return true;
    for (int dd : {c.dim - 1, c.dim}) {
      long last = -1;
      for (int u : md.order)
        if (md.cells[u].dim == dd) {
          if ((long)md.cells[u].id < last) return false;
          last = md.cells[u].id;
        }
    }
    return true;
  }

  bool op_insert() {
    if ((int)md.order.size() >= maxCells) return false;
    Cell c;
    if (!gen_cell(c)) return false;
    if constexpr (!BND) {
      if (!chain_insert_safe(c)) return false;
    }
    const int n = md.order.size();
    // identifier
    unsigned id;
    bool explicitId = customIds;
    if (customIds) {
      if (reuseIds) {
        // smallest legal choice: above the identifiers (and row labels) still in use, not above all those ever used
        long mx = -1;
        for (int u : md.order) mx = std::max<long>(mx, md.cells[u].id);
        if constexpr (BND)
          if (!md.rowOf.empty()) mx = std::max<long>(mx, md.rowOf.back());
        id = mx + 1 + rnd(idStride);
      } else {
        id = anyId ? maxIdEver + 1 + rnd(idStride) : rnd(idStride + 1);
      }
    } else {
      if constexpr (BND) {
        id = n;  // position
      } else {
        id = insertCount;  // the chain matrix counts the insertions
      }
    }
    if constexpr (BND && IDX == IDX_IDENTIFIER) {
      if (!customIds) {
        // the overlay names the new cell by the current number of cells
        for (int u : md.order)
          if (md.cells[u].id == id && skipDefaultCollision) {
            log << "# default identifier " << id << " collides\n";
            return false;
          }
      }
    }
    c.id = id;
    // boundary for the library
    std::vector<unsigned> b;
    for (int f : c.bd) {
      if constexpr (BND) {
        if (IDX == IDX_IDENTIFIER && idBoundaryInIds)
          b.push_back(md.cells[f].id);
        else
          b.push_back(md.rowOf[md.pos_of(f)]);
      } else {
        b.push_back(md.cells[f].id);
      }
    }
    std::sort(b.begin(), b.end());
    bool giveDim = true;
    if (c.verts && rnd(2)) giveDim = false;
    log << "insert uid=" << md.cells.size() << " id=" << id << (explicitId ? " (explicit)" : " (default)")
        << " dim=" << c.dim << (giveDim ? "" : " (deduced)") << " boundary={";
    for (unsigned x : b) log << x << ",";
    log << "}\n";
    if (explicitId) {
      if (giveDim)
        m.insert_boundary(id, b, c.dim);
      else
        m.insert_boundary(id, b);
    } else {
      if (giveDim)
        m.insert_boundary(b, c.dim);
      else
        m.insert_boundary(b);
    }
    ++insertCount;
    anyId = true;
    maxIdEver = std::max(maxIdEver, id);
    md.cells.push_back(c);
    md.order.push_back(md.cells.size() - 1);
    if constexpr (BND) md.rowOf.push_back(id);
    return true;
  }

  bool op_swap() {
    const int n = md.order.size();
    if (n < 2) return false;
    std::vector<int> cand;
    for (int p = 0; p + 1 < n; ++p)
      if (md.can_swap(p)) cand.push_back(p);
    if (cand.empty()) return false;
    if constexpr (NEEDCMP) {
      // known defect (not reported again): without stored barcode the sign of a paired chain is read from the order
      // of the identifiers; transpositions touching a pair whose identifiers are inverted are left out
      std::vector<int> pr;
      md.barcode(&pr);
      std::vector<int> ok;
      auto inverted = [&](int q) {
        if (pr[q] < 0) return false;
        int a = std::min(q, pr[q]), b = std::max(q, pr[q]);
        return md.cells[md.order[a]].id > md.cells[md.order[b]].id;
      };
      for (int p : cand)
        if (!inverted(p) && !inverted(p + 1)) ok.push_back(p);
      cand = ok;
      if (cand.empty()) return false;
    }
    int p = cand[rnd(cand.size())];
    do_swap(p, rnd(3) == 0);
    return true;
  }

  void do_swap(int p, bool tryZ) {
    auto before = md.barcode(&cmpPair);
    const Cell& a = md.cells[md.order[p]];
    const Cell& b = md.cells[md.order[p + 1]];
    unsigned h1 = handle(p), h2 = handle(p + 1);
    bool kept;  // the two cells kept their bars (barcode in positions is transposed)
    bool useZ = false;
    if (tryZ && a.dim == b.dim) {
      // "assumes that the swap is non trivial": only when the generic function would not take a trivial branch
      if constexpr (BND) {
        bool pp = m.is_zero_column(h1) && m.is_zero_column(h2);
        if constexpr (IDX != IDX_IDENTIFIER) {
          useZ = pp || !m.is_zero_entry(h1, p + 1, false);
        } else {
          useZ = pp;
        }
      } else {
        useZ = !m.is_zero_entry(h2, a.id);
      }
    }
    log << "swap p=" << p << (useZ ? " (z_eq_1)" : "") << " handles " << h1 << "," << h2 << "\n";
    if constexpr (BND) {
      if constexpr (IDX == IDX_IDENTIFIER) {
        unsigned r = useZ ? m.vine_swap_with_z_eq_1_case(h1, h2) : m.vine_swap(h1, h2);
        if (r != h1 && r != h2) fail("vine_swap returned an unrelated identifier");
        kept = (r == h1);
      } else {
        kept = useZ ? m.vine_swap_with_z_eq_1_case(p) : m.vine_swap(p);
      }
    } else {
      if constexpr (IDX == IDX_POSITION) {
        kept = useZ ? m.vine_swap_with_z_eq_1_case(p) : m.vine_swap(p);
      } else if constexpr (IDX == IDX_CONTAINER) {
        // FUZZ_REVERSE: name the later cell first (the documentation speaks of max(pos1, pos2): unsure if legal)
        bool rev = std::getenv("FUZZ_REVERSE") && rnd(2);
        if (rev) log << "  (arguments reversed)\n";
        unsigned r = rev ? m.vine_swap(h2, h1) : (useZ ? m.vine_swap_with_z_eq_1_case(h1, h2) : m.vine_swap(h1, h2));
        if (r != h1 && r != h2) fail("vine_swap returned an unrelated index");
        kept = (r == h1);
        // documented: the returned column is the one now at the later position, i.e. the column of cell a
        if (!rev && m.get_pivot(r) != a.id)
          fail("vine_swap: returned column is not the one now at the later position");
        if (rev) {
          if (m.get_pivot(r) != a.id) log << "  # reversed: returned column is not the one at the later position\n";
          noReturnCheck = true;
        }
      } else {
        unsigned r = useZ ? m.vine_swap_with_z_eq_1_case(h1, h2) : m.vine_swap(h1, h2);
        if (r != a.id) fail("vine_swap (chain, identifier): returned cell is not the one now at the later position");
        kept = true;  // no information
      }
    }
    std::swap(md.order[p], md.order[p + 1]);
    auto after = md.barcode();
    bool isT = (after == transpose_bars(before, p));
    bool isSame = (after == before);
    if (!isT && !isSame) fail("reference barcode neither kept nor transposed ?!");
    if (noReturnCheck) {
      noReturnCheck = false;
      return;
    }
    if (!(BND == false && IDX == IDX_IDENTIFIER)) {
      if (kept && !isT) fail("vine_swap said 'bars follow their cells' but the positions of the barcode are unchanged");
      if (!kept && !isSame) fail("vine_swap said 'barcode unchanged' but the barcode is the transposed one");
    }
  }

  bool op_remove() {
    if constexpr (!REMCOL) {
      return false;
    } else {
      const int n = md.order.size();
      if constexpr (BND) {
        if (avoidD1 && customIds)
          for (int p = 0; p + 1 < n; ++p)
            if ((int)md.rowOf[p] == n - 1) return false;
      }
      if constexpr (NEEDCMP) {
        // without stored barcode: the comparators must see the model of each intermediate filtration, so the cell is
        // walked to the end by the harness, one checked transposition at a time, and removed there
        if (!MAPC || n == 0) return false;
        if (IDX != IDX_POSITION && std::getenv("FUZZ_NB_REMOVELAST") && rnd(2)) {
          log << "remove_last (no barcode)\n";
          m.remove_last();
          erase_pos(n - 1);
          return true;
        }
        std::vector<int> cand;
        for (int p = 0; p < n; ++p)
          if (md.is_maximal(p)) cand.push_back(p);
        int p = cand[rnd(cand.size())];
        std::vector<int> pr;
        for (int q = p; q + 1 < n; ++q) {
          md.barcode(&pr);
          auto inverted = [&](int x) {
            if (pr[x] < 0) return false;
            int a = std::min(x, pr[x]), b = std::max(x, pr[x]);
            return md.cells[md.order[a]].id > md.cells[md.order[b]].id;
          };
          if (inverted(q) || inverted(q + 1)) return q > p;  // known defect ahead: stop here
          do_swap(q, false);
        }
        unsigned id = md.cells[md.order[n - 1]].id;
        if constexpr (IDX == IDX_POSITION) {
          log << "remove_last\n";
          m.remove_last();
        } else {
          log << "remove_maximal_cell id=" << id << " {}\n";
          m.remove_maximal_cell(id, std::vector<typename M::ID_index>{});
        }
        erase_pos(n - 1);
        return true;
      }
      if (n == 0) {
        if (rnd(4) == 0) {
          if constexpr (BND || MAPC) {
            log << "remove_last (empty)\n";
            m.remove_last();
            return true;
          }
        }
        return false;
      }
      int kind = rnd(3);
      if (kind == 0) {
        if constexpr (BND || MAPC) {
          log << "remove_last\n";
          m.remove_last();
          erase_pos(n - 1);
          return true;
        }
        return false;
      }
      std::vector<int> cand;
      for (int p = 0; p < n; ++p)
        if (md.is_maximal(p)) cand.push_back(p);
      int p = cand[rnd(cand.size())];
      unsigned id = md.cells[md.order[p]].id;
      if constexpr (BND) {
        log << "remove_maximal_cell p=" << p << " handle=" << handle(p) << "\n";
        m.remove_maximal_cell(handle(p));
        erase_pos(p);
        return true;
      } else {
        if constexpr (!MAPC) return false;
        else {
          if constexpr (IDX == IDX_POSITION) {
            if constexpr (!BAR) return false;
            else {
              log << "remove_maximal_cell p=" << p << "\n";
              m.remove_maximal_cell((unsigned)p);
              erase_pos(p);
              return true;
            }
          } else {
            if (kind == 1 && BAR) {
              if constexpr (BAR) {
                log << "remove_maximal_cell id=" << id << "\n";
                m.remove_maximal_cell(id);
              }
            } else {
              std::vector<typename M::ID_index> after;
              for (int q = p + 1; q < n; ++q) after.push_back(md.cells[md.order[q]].id);
              log << "remove_maximal_cell id=" << id << " {";
              for (unsigned x : after) log << x << ",";
              log << "}\n";
              m.remove_maximal_cell(id, after);
            }
            erase_pos(p);
            return true;
          }
        }
      }
    }
  }

  void erase_pos(int p) {
    md.order.erase(md.order.begin() + p);
    if constexpr (BND) md.rowOf.pop_back();
  }

  // a snapshot (copy) of an earlier state, with its model: it is either overwritten by assignment, or the history
  // goes on from it (everything done on the matrix since the copy must have left it untouched)
  std::unique_ptr<M> snap;
  Model snapModel;
  unsigned snapMaxId = 0, snapInsertCount = 0;
  bool snapAnyId = false;

  void op_snapshot() {
    if (!snap || rnd(3) == 0) {
      log << "snapshot taken" << (snap ? " (assigned over the previous one)" : "") << "\n";
      if (!snap)
        snap.reset(new M(m));
      else
        *snap = m;
      snapModel = md;
      snapMaxId = maxIdEver;
      snapInsertCount = insertCount;
      snapAnyId = anyId;
    } else {
      int k = rnd(3);
      log << "back to the snapshot, kind " << k << "\n";
      if (k == 0) {
        m = *snap;
      } else if (k == 1) {
        swap(m, *snap);
        snap.reset();
      } else {
        m = std::move(*snap);
        snap.reset();
      }
      md = snapModel;
      // identifiers used since the snapshot are unknown to the restored matrix, but stay above them anyway
      insertCount = snapInsertCount;
      anyId = snapAnyId || anyId;
      if (!customIds) maxIdEver = snapMaxId;
    }
  }

  void op_copy() {
    if (rnd(4) == 0) {
      op_snapshot();
      return;
    }
    if (rnd(12) == 0) {
      // the matrix is moved away: the moved-from object goes on as an empty matrix
      log << "moved away, the moved-from matrix is used as an empty one\n";
      {
        M c(std::move(m));
      }
      md.order.clear();
      md.rowOf.clear();
      insertCount = 0;
      return;
    }
    int k = rnd(NEEDCMP ? 4 : 5);  // (kind 4 would call the comparators for another matrix than the model's)
    log << "copy/move kind " << k << "\n";
    if (k == 0) {
      M c(m);
      m = c;
    } else if (k == 1) {
      M c(std::move(m));
      m = std::move(c);
    } else if (k == 2) {
      M c(m);
      swap(m, c);
    } else if (k == 3) {
      M c = make();
      c = m;
      M d(std::move(c));
      m = d;
    } else {
      // a copy is modified and dropped: the original must not notice (shared state)
      M c(m);
      const int n = md.order.size();
      std::vector<int> cand;
      for (int p = 0; p + 1 < n; ++p)
        if (md.can_swap(p)) cand.push_back(p);
      for (int t = 0; t < 3 && !cand.empty(); ++t) {
        int p = cand[rnd(cand.size())];
        if constexpr (BND) {
          if constexpr (IDX == IDX_IDENTIFIER) c.vine_swap(handle(p), handle(p + 1));
          else c.vine_swap(p);
        } else {
          if constexpr (IDX == IDX_POSITION) c.vine_swap(p);
          else c.vine_swap(handle(p), handle(p + 1));
        }
        break;  // one swap only: the handles of the model are those of the original
      }
      if constexpr (REMCOL && (BND || MAPC)) c.remove_last();
    }
  }

  bool op_clear() {
    if constexpr (REMCOL && (BND || MAPC) && !NEEDCMP) {
      if constexpr (BND) {
        if (avoidD1 && customIds) return false;
      }
      log << "remove_last until empty\n";
      while (!md.order.empty()) {
        m.remove_last();
        erase_pos(md.order.size() - 1);
      }
      m.remove_last();
      return true;
    }
    return false;
  }

  void run(int nops) {
    check("start");
    for (int i = 0; i < nops; ++i) {
      int r = rnd(100);
      bool done = false;
      if (r < 30)
        done = op_insert();
      else if (r < 75)
        done = op_swap();
      else if (r < 92)
        done = op_remove();
      else if (r < 99) {
        op_copy();
        done = true;
      } else {
        done = op_clear();
      }
      if (!done) {
        done = op_insert();
        if (!done) done = op_swap();
      }
      // the accessors used by check() apply the pending lazy row swaps of R: checking only now and then lets several
      // operations run on a matrix with pending swaps
      if (done && (checkEvery <= 1 || rnd(checkEvery) == 0)) check("after op");
    }
    check("end");
  }
};

inline int env_int(const char* name, int def) {
  const char* v = std::getenv(name);
  return v ? std::atoi(v) : def;
}

template <class O>
int run_config(const char* name, unsigned seed0, int ncases, int nops, int maxCells, int customMode /*0,1,2=both*/,
               bool idBoundaryInIds = false, bool chainInsertAnytime = false, bool checkRep = false) {
  int fails = 0;
  for (int c = env_int("FUZZ_FIRST", 0); c < ncases; ++c) {  // FUZZ_FIRST: replay one case
    unsigned seed = seed0 + c;
    bool custom = customMode == 2 ? (c & 1) : customMode;
    Harness<O> h(seed, custom, maxCells);
    h.idBoundaryInIds = idBoundaryInIds;
    h.allowInsertAfterSwapChain = chainInsertAnytime;
    h.checkRep = checkRep || env_int("FUZZ_REP", 0);
    // run-time switches (environment), so that the same binaries explore other regimes
    h.idBoundaryInIds = h.idBoundaryInIds || env_int("FUZZ_IDB", 0);
    h.allowInsertAfterSwapChain = h.allowInsertAfterSwapChain || env_int("FUZZ_ANYINS", 0);
    h.avoidD1 = env_int("FUZZ_AVOIDD1", 1);
    h.idStride = env_int("FUZZ_IDSTRIDE", 3);
    h.reuseIds = env_int("FUZZ_REUSE", 0);
    h.maxCells = env_int("FUZZ_MAXCELLS", maxCells);
    h.skipDefaultCollision = env_int("FUZZ_SKIPCOLL", 1);
    h.cmpArgsArePositions = env_int("FUZZ_CMPPOS", 0);
    {
      static const int every[] = {1, 1, 3, 8};
      int ce = env_int("FUZZ_CHECKEVERY", -1);
      h.checkEvery = ce > 0 ? ce : every[(c / 6) % 4];
    }
    try {
      h.init(c % 3);
      h.run(nops);
    } catch (const Failure& f) {
      ++fails;
      std::cout << "FAIL " << name << " seed=" << seed << " custom=" << custom << " : " << f.msg << "\n";
      if (fails <= 2) std::cout << h.log.str() << "-----\n";
    } catch (const std::exception& e) {
      ++fails;
      std::cout << "EXC  " << name << " seed=" << seed << " custom=" << custom << " : " << e.what() << "\n";
      if (fails <= 2) std::cout << h.log.str() << "-----\n";
    }
    if (fails >= 5) break;
  }
  std::cout << (fails ? "BAD  " : "ok   ") << name << " cases=" << ncases << " fails=" << fails << std::endl;
  return fails;
}

// unsure_3.cpp - Simplex_tree serialisation with a 16 bit Vertex_handle and more than 32767 vertices: the number of
// members of a Siblings is written as a Vertex_handle (Simplex_tree.h:2753, static_cast<Vertex_handle>(size)), 39999
// becomes -25537, deserialize() reads "no vertex" and throws std::invalid_argument for a buffer produced by serialize()
// itself. UNSURE: needs negative vertex labels (the concept only asks for a signed integer type and reserves -1).
#include <gudhi/Simplex_tree.h>
#include <iostream>
struct O : Gudhi::Simplex_tree_options_default { typedef short Vertex_handle; };
int main() {
  using ST = Gudhi::Simplex_tree<O>;
  ST st;
  std::vector<short> vs;
  for (int v = -20000; v < 20000; ++v) if (v != -1) vs.push_back((short)v);
  st.insert_batch_vertices(vs, 1.0);
  std::size_t sz = st.get_serialization_size();
  std::vector<char> buf(sz);
  st.serialize(buf.data(), sz);
  ST t;
  try { t.deserialize(buf.data(), sz); std::cout << "deserialized, equal: " << (t == st) << "\n"; }
  catch (const std::exception& e) { std::cout << st.num_vertices() << " vertices: exception " << e.what() << "\n"; }
}

// Defect 4 - Chain matrix with IDENTIFIER indexing: Id_to_index_overlay::vine_swap puts the two columns in increasing
// order of their MatIdx before calling Chain_vine_swap::vine_swap, which needs them in FILTRATION order.
//
// Id_to_index_overlay.h:1063-1065 (same at 1037-1039 for vine_swap_with_z_eq_1_case)
//     Index first = _id_to_index(cellID1); Index second = _id_to_index(cellID2);
//     if (first > second) std::swap(first, second);
//     ... else return matrix_.vine_swap(first, second);
// For RU matrices MatIdx == position, so sorting is right. For chain matrices a column keeps its MatIdx when it moves
// with its cell (first swap below), so the smaller MatIdx can be the later cell. Chain_vine_swap::vine_swap then tests
// is_zero_entry(columnIndex2, pivot(columnIndex1)) (chain_vine_swap.h:405-446) on the wrong column, sees a "trivial"
// swap and only exchanges the positions: the matrix is not a compatible basis of the new filtration and the stored
// barcode is wrong. Whatever order the user gives the two identifiers in, the overlay reorders them.
//
// In addition the overlay returns the raw MatIdx given back by the chain matrix although the interface is in
// identifiers (Id_to_index_overlay.h:1080; documentation of Column_indexation_types::IDENTIFIER: "All input and output
// MatIdx indices are replaced with IDIdx indices").
//
// Build: g++ -std=gnu++17 -O1 -g -fsanitize=address,undefined -I<gudhi includes> defect_4.cpp -o defect_4
#include <gudhi/Matrix.h>
#include <gudhi/persistence_matrix_options.h>

#include <iostream>
#include <set>
#include <tuple>
using namespace Gudhi::persistence_matrix;

template <Column_indexation_types I>
struct Opt : Default_options<Column_types::INTRUSIVE_SET, true> {
  static const Column_indexation_types column_indexation_type = I;
  static const bool is_of_boundary_type = false;  // chain matrix
  static const bool has_column_pairings = true;
  static const bool has_vine_update = true;
};
using B = std::vector<unsigned>;

template <class M>
std::set<std::tuple<int, unsigned, unsigned>> bars(M& m) {
  std::set<std::tuple<int, unsigned, unsigned>> s;
  for (auto& b : m.get_current_barcode()) s.emplace(b.dim, b.birth, b.death);
  return s;
}

int main() {
  // vertices 0 1 2, edges 3 = {1,2}, 4 = {0,1}
  Matrix<Opt<Column_indexation_types::IDENTIFIER>> m;
  m.insert_boundary(B{}, 0);
  m.insert_boundary(B{}, 0);
  m.insert_boundary(B{}, 0);
  m.insert_boundary(B{1, 2}, 1);
  m.insert_boundary(B{0, 1}, 1);
  unsigned r1 = m.vine_swap(3, 4);  // filtration 0 1 2 4 3   (columns move with their cells)
  unsigned r2 = m.vine_swap(1, 2);  // filtration 0 2 1 4 3
  unsigned r3 = m.vine_swap(4, 3);  // filtration 0 2 1 3 4   (not trivial: the pairing changes)
  std::cout << "returned values: " << r1 << " " << r2 << " " << r3 << "\n";

  // fresh matrix on 0 2 1 3 4: vertices, then {1,2} (positions 1,2), then {0,1} (positions 0,2)
  Matrix<Opt<Column_indexation_types::CONTAINER>> f;
  f.insert_boundary(B{}, 0);
  f.insert_boundary(B{}, 0);
  f.insert_boundary(B{}, 0);
  f.insert_boundary(B{1, 2}, 1);
  f.insert_boundary(B{0, 2}, 1);

  std::cout << "after the three swaps  :";
  for (auto& b : m.get_current_barcode()) std::cout << "  " << b;
  std::cout << "\nfresh matrix (expected):";
  for (auto& b : f.get_current_barcode()) std::cout << "  " << b;
  std::cout << "\n";
  bool ok = bars(m) == bars(f);
  // compatible basis: the column of identifier 3 (= edge {1,2}, position 3) may only contain cells of positions <= 3
  std::cout << "column of cell 3 (position 3):";
  for (auto& e : m.get_column(3)) std::cout << " " << e.get_row_index();
  std::cout << "   (cell 4 is at position 4 and must not appear)\n";
  for (auto& e : m.get_column(3))
    if (e.get_row_index() == 4) ok = false;
  std::cout << (ok ? "PASS" : "FAIL") << std::endl;
  return ok ? 0 : 1;
}

// defect_2.cpp - the copy of a column-compressed Matrix built with a reserved number of columns is not equal to its
// source: it counts the reserved (never inserted) columns as columns and appends new columns behind them.
//
// Property C15: "Copy-constructing, copy-assigning ... matrices yields objects observationally equal to the source".
//
// Configuration: any base matrix with PersistenceMatrixOptions::has_column_compression = true (e.g. the library's own
// Cohomology_persistence_options), built with the documented constructor
//     Matrix(unsigned int numberOfColumns, Characteristic characteristic)   "reserves space for the given number of columns"
// Cause: Base_matrix_with_column_compression.h:400-422, copy constructor. The reserving constructor creates
// repToColumn_ with numberOfColumns null slots and nextColumnIndex_ = 0. The copy constructor walks over ALL slots of
// matrixToCopy.repToColumn_ and increments its own nextColumnIndex_ once per slot (also for the null ones) instead of
// taking matrixToCopy.nextColumnIndex_. The copy ends with nextColumnIndex_ == numberOfColumns:
//   - get_number_of_columns() returns numberOfColumns instead of the number of inserted columns,
//   - the next insert_column() of the copy creates column numberOfColumns instead of column <number of inserted>,
//     so get_column(i) of the copy and of the source (driven through the same operations) differ from then on.
// Copy assignment (operator=(Matrix other), by value) goes through the same constructor.
//
// Build: g++ -std=gnu++17 -O1 -g -fsanitize=address,undefined $(ls -d /repo/src/*/include | sed 's/^/-I/') \
//        defect_2.cpp -o defect_2
// Run:   ./defect_2      (prints FAIL and returns 1)

#include <gudhi/Matrix.h>
#include <gudhi/persistence_matrix_options.h>

#include <iostream>
#include <vector>

using namespace Gudhi::persistence_matrix;

struct Options : Default_options<Column_types::INTRUSIVE_LIST, true> {
  static const bool has_column_compression = true;
};
// same result with the library's Cohomology_persistence_options<> (row access + compression)

template <class M>
std::string column(M& m, unsigned i) {
  std::string s;
  for (auto x : m.get_column(i).get_content(4)) s += x ? '1' : '0';
  return s;
}

int main() {
  using M = Matrix<Options>;
  bool fail = false;

  M source(5);  // reserves 5 columns
  source.insert_column(std::vector<unsigned>{0, 1});
  source.insert_column(std::vector<unsigned>{1, 2});

  M copy(source);
  std::cout << "source.get_number_of_columns() = " << source.get_number_of_columns() << "\n";
  std::cout << "copy.get_number_of_columns()   = " << copy.get_number_of_columns() << "   (expected 2)\n";
  if (copy.get_number_of_columns() != source.get_number_of_columns()) fail = true;

  M assigned;
  assigned = source;
  std::cout << "assigned.get_number_of_columns() = " << assigned.get_number_of_columns() << "   (expected 2)\n";
  if (assigned.get_number_of_columns() != source.get_number_of_columns()) fail = true;

  // same operation on both: the third column
  source.insert_column(std::vector<unsigned>{0, 3});
  copy.insert_column(std::vector<unsigned>{0, 3});
  std::cout << "after insert_column({0,3}) in both:\n";
  std::cout << "  source column 2 = " << column(source, 2) << "   number of columns " << source.get_number_of_columns()
            << "\n";
  std::cout << "  copy   column 2 = " << column(copy, 2) << "   number of columns " << copy.get_number_of_columns()
            << "   (expected 1001 and 3; the new column used to go to index 5)\n";
  if (column(source, 2) != column(copy, 2)) fail = true;

  std::cout << (fail ? "FAIL" : "PASS") << std::endl;
  return fail ? 1 : 0;
}

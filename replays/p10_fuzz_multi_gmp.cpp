// Differential test of the GMP multi-fields against a brute-force CRT reference written with mpz_class:
//   Multi_field_element<min,max>, Shared_multi_field_element, Multi_field_operators (Persistence_matrix)
//   and persistent_cohomology::Multi_field.
// See the COVERAGE comment at the end of the file.
#include <iostream>
#include <random>
#include <vector>
#include <set>
#include <string>
#include <cassert>
#include <stdexcept>
#include <gmpxx.h>
#include <gudhi/Fields/Multi_field.h>
#include <gudhi/Fields/Multi_field_shared.h>
#include <gudhi/Fields/Multi_field_operators.h>
#include <gudhi/Persistent_cohomology/Multi_field.h>

using namespace Gudhi::persistence_fields;
typedef unsigned long long ull;
static long long nfail = 0, nchecks = 0;
static std::mt19937_64 rng(777);
static std::string g_ctx; static std::set<std::string> g_failing;
#define CHECK(got, exp, ...) do { ++nchecks; mpz_class g_ = (got), e_ = (exp); \
  if (g_ != e_) { g_failing.insert(g_ctx); if (++nfail < 60) { std::cout << "FAIL " << __LINE__ << " [" << g_ctx << "]: got " << g_ << " expected " << e_ << " | "; __VA_ARGS__; std::cout << std::endl; } } } while (0)
#define CHECKB(got, exp, ...) CHECK(mpz_class((got) ? 1 : 0), mpz_class((exp) ? 1 : 0), __VA_ARGS__)
static bool is_prime(ull n) { if (n < 2) return false; for (ull i = 2; i * i <= n; ++i) if (n % i == 0) return false; return true; }
static mpz_class refmod(const mpz_class& v, const mpz_class& P) { mpz_class r = v % P; if (r < 0) r += P; return r; }

struct Range { long long mn, mx; std::vector<ull> primes; mpz_class P; };
static Range make_range(long long mn, long long mx) { Range r{mn, mx, {}, 1}; for (long long i = mn < 0 ? 0 : mn; i <= mx; ++i) if (is_prime(i)) { r.primes.push_back(i); r.P *= (unsigned long)i; } return r; }
static ull inv_mod_prime(ull x, ull q) { // brute force for small q, Fermat otherwise
  x %= q; if (q < 2000) { for (ull k = 1; k < q; ++k) if (x * k % q == 1) return k; return 0; }
  unsigned __int128 r = 1, b = x; ull e = q - 2; while (e) { if (e & 1) r = r * b % q; b = b * b % q; e >>= 1; } return (ull)r; }
static mpz_class idem(const Range& r, ull q) { mpz_class c = r.P / (unsigned long)q; mpz_class cm = c % (unsigned long)q; ull ci = inv_mod_prime(cm.get_ui(), q); if (r.primes.size() == 1) return refmod(1, r.P); return refmod(c * (unsigned long)ci, r.P); }
static std::pair<mpz_class, mpz_class> ref_partial_inverse(const Range& r, const mpz_class& x, const mpz_class& Q) {
  mpz_class T = 1, v = 0;
  for (ull q : r.primes) { mpz_class xq = refmod(x, mpz_class((unsigned long)q)); if (Q % (unsigned long)q == 0 && xq != 0) { T *= (unsigned long)q; v = refmod(v + idem(r, q) * (unsigned long)inv_mod_prime(xq.get_ui(), q), r.P); } }
  return {v, T};
}
static mpz_class ref_partial_identity(const Range& r, const mpz_class& Q) { mpz_class v = 0; for (ull q : r.primes) if (Q % (unsigned long)q == 0) v = refmod(v + idem(r, q), r.P); return v; }
static std::vector<mpz_class> sub_products(const Range& r) {
  std::vector<mpz_class> res; size_t n = r.primes.size();
  if (n <= 5) { for (unsigned m = 1; m < (1u << n); ++m) { mpz_class q = 1; for (size_t i = 0; i < n; ++i) if (m >> i & 1) q *= (unsigned long)r.primes[i]; res.push_back(q); } }
  else { res.push_back(r.P); res.push_back((unsigned long)r.primes[0]); res.push_back((unsigned long)r.primes.back()); res.push_back(r.P / (unsigned long)r.primes[1]);
         for (int t = 0; t < 8; ++t) { mpz_class q = 1; for (size_t i = 0; i < n; ++i) if (rng() & 1) q *= (unsigned long)r.primes[i]; if (q > 1) res.push_back(q); } }
  return res;
}
static gmp_randclass grand(gmp_randinit_default);
static std::vector<mpz_class> reduced_operands(const Range& r, bool exhaustive, int nrand) {
  std::vector<mpz_class> v;
  if (exhaustive) { for (mpz_class i = 0; i < r.P; ++i) v.push_back(i); return v; }
  for (long x : {0, 1, 2, 3}) v.push_back(refmod(x, r.P));
  for (long x : {1, 2, 3}) v.push_back(refmod(r.P - x, r.P));
  v.push_back(r.P / 2); v.push_back(r.P / 2 + 1);
  for (size_t i = 0; i < r.primes.size(); i += (r.primes.size() > 12 ? r.primes.size() / 6 : 1)) { ull q = r.primes[i]; v.push_back(refmod((unsigned long)q, r.P)); v.push_back(refmod(r.P / (unsigned long)q, r.P)); v.push_back(refmod(r.P - (unsigned long)q, r.P)); }
  for (int i = 0; i < nrand; ++i) v.push_back(grand.get_z_range(r.P));
  for (int i = 0; i < nrand / 2; ++i) { mpz_class x = grand.get_z_range(r.P); ull q = r.primes[rng() % r.primes.size()]; v.push_back(x - x % (unsigned long)q); }
  return v;
}
static std::vector<mpz_class> raw_values(const Range& r) {  // arbitrary integers, negative ones included
  std::vector<mpz_class> v = {0, 1, -1, 2, -2, r.P, -r.P, r.P + 1, r.P - 1, -r.P - 1, -r.P + 1, 2 * r.P, -2 * r.P, 2 * r.P + 1, -2 * r.P - 1, r.P * r.P, -r.P * r.P - 1};
  for (const char* s : {"2147483647", "-2147483648", "4294967295", "4294967296", "-4294967296", "18446744073709551615", "18446744073709551616", "-9223372036854775808", "-18446744073709551617", "340282366920938463463374607431768211507"}) v.push_back(mpz_class(s));
  for (int i = 0; i < 6; ++i) { mpz_class x = grand.get_z_bits(20 + 40 * i); v.push_back(x); v.push_back(-x); }
  return v;
}

template <class F> void elem_checks(const Range& r, bool exhaustive, int nrand, const std::string& what) {
  g_ctx = what + " [" + std::to_string(r.mn) + "," + std::to_string(r.mx) + "]";
  const mpz_class& P = r.P;
  auto ops = reduced_operands(r, exhaustive, nrand); auto subs = sub_products(r); auto raws = raw_values(r);
  CHECK(F::get_characteristic(), P, std::cout << "characteristic");
  CHECK(F().get_value(), 0, std::cout << "default");
  CHECK(F::get_additive_identity().get_value(), 0, std::cout << "add id");
  CHECK(F::get_multiplicative_identity().get_value(), refmod(1, P), std::cout << "mult id");
  for (auto& Q : subs) CHECK(F::get_partial_multiplicative_identity(Q).get_value(), ref_partial_identity(r, Q), std::cout << "partial identity Q=" << Q);
  for (auto& v : raws) {
    F c(v); CHECK(c.get_value(), refmod(v, P), std::cout << "ctor v=" << v);
    F as; as = v; CHECK(as.get_value(), refmod(v, P), std::cout << "assign v=" << v);
    for (int k = 0; k < 3; ++k) {
      const mpz_class& a = ops[rng() % ops.size()]; F f(a);
      { F g(f); g += v; CHECK(g.get_value(), refmod(a + v, P), std::cout << "+=mpz a=" << a << " v=" << v); }
      { F g(f); g -= v; CHECK(g.get_value(), refmod(a - v, P), std::cout << "-=mpz a=" << a << " v=" << v); }
      { F g(f); g *= v; CHECK(g.get_value(), refmod(a * v, P), std::cout << "*=mpz a=" << a << " v=" << v); }
      CHECK((f + v).get_value(), refmod(a + v, P), std::cout << "f+mpz"); CHECK((f - v).get_value(), refmod(a - v, P), std::cout << "f-mpz"); CHECK((f * v).get_value(), refmod(a * v, P), std::cout << "f*mpz");
      CHECK(v + f, refmod(a + v, P), std::cout << "mpz+f a=" << a << " v=" << v); CHECK(v - f, refmod(v - a, P), std::cout << "mpz-f a=" << a << " v=" << v); CHECK(v * f, refmod(a * v, P), std::cout << "mpz*f a=" << a << " v=" << v);
      bool eq = refmod(v, P) == a;
      CHECKB(f == v, eq, std::cout << "f==mpz a=" << a << " v=" << v); CHECKB(v == f, eq, std::cout << "mpz==f"); CHECKB(f != v, !eq, std::cout << "f!=mpz"); CHECKB(v != f, !eq, std::cout << "mpz!=f");
      F same(refmod(v, P)); CHECKB(same == v, true, std::cout << "same==v v=" << v); CHECKB(v != same, false, std::cout << "v!=same");
    }
  }
  for (auto& a : ops) {
    F fa(a);
    CHECK(fa.get_value(), a, std::cout << "value"); CHECK(mpz_class(fa), a, std::cout << "cast mpz"); CHECK((unsigned int)fa, (unsigned int)a.get_ui(), std::cout << "cast uint");
    F inv = fa.get_inverse(); auto ri = ref_partial_inverse(r, a, P);
    CHECK(inv.get_value(), ri.first, std::cout << "inverse a=" << a);
    if (gcd(a, P) == 1) CHECK((fa * inv).get_value(), refmod(1, P), std::cout << "a*inv a=" << a);
    for (auto& Q : subs) { auto pi = fa.get_partial_inverse(Q); auto rp = ref_partial_inverse(r, a, Q);
      CHECK(pi.first.get_value(), rp.first, std::cout << "partial inverse value a=" << a << " Q=" << Q); CHECK(pi.second, rp.second, std::cout << "partial inverse T a=" << a << " Q=" << Q); }
    { F m(fa); F n(std::move(m)); CHECK(n.get_value(), a, std::cout << "move"); m = n; CHECK(m.get_value(), a, std::cout << "copy assign"); F z; swap(z, m); CHECK(z.get_value(), a, std::cout << "swap"); CHECK(m.get_value(), 0, std::cout << "swap2"); }
    size_t step = exhaustive ? 1 : 1;
    for (size_t j = 0; j < ops.size(); j += step) { const mpz_class& b = ops[j]; F fb(b);
      CHECK((fa + fb).get_value(), refmod(a + b, P), std::cout << "add a=" << a << " b=" << b); CHECK((fa - fb).get_value(), refmod(a - b, P), std::cout << "sub a=" << a << " b=" << b); CHECK((fa * fb).get_value(), refmod(a * b, P), std::cout << "mul a=" << a << " b=" << b);
      { F g(fa); g += fb; CHECK(g.get_value(), refmod(a + b, P), std::cout << "+="); } { F g(fa); g -= fb; CHECK(g.get_value(), refmod(a - b, P), std::cout << "-="); } { F g(fa); g *= fb; CHECK(g.get_value(), refmod(a * b, P), std::cout << "*="); }
      CHECKB(fa == fb, a == b, std::cout << "=="); CHECKB(fa != fb, a != b, std::cout << "!="); }
    { F g(fa); g += g; CHECK(g.get_value(), refmod(2 * a, P), std::cout << "self +="); } { F g(fa); g *= g; CHECK(g.get_value(), refmod(a * a, P), std::cout << "self *="); } { F g(fa); g -= g; CHECK(g.get_value(), 0, std::cout << "self -="); }
  }
}

void op_checks(Multi_field_operators& op, const Range& r, bool exhaustive, int nrand) {
  g_ctx = "Multi_field_operators [" + std::to_string(r.mn) + "," + std::to_string(r.mx) + "]";
  const mpz_class& P = r.P; auto ops = reduced_operands(r, exhaustive, nrand); auto subs = sub_products(r); auto raws = raw_values(r);
  CHECK(op.get_characteristic(), P, std::cout << "characteristic");
  for (auto& Q : subs) CHECK(op.get_partial_multiplicative_identity(Q), ref_partial_identity(r, Q), std::cout << "partial identity Q=" << Q);
  std::vector<mpz_class> all = ops; if (!exhaustive || P < 40) all.insert(all.end(), raws.begin(), raws.end());
  for (auto& a : all) {
    CHECK(op.get_value(a), refmod(a, P), std::cout << "get_value " << a); { mpz_class x = a; op.get_value_inplace(x); CHECK(x, refmod(a, P), std::cout << "get_value_inplace " << a); }
    auto ri = ref_partial_inverse(r, a, P); CHECK(op.get_inverse(a), ri.first, std::cout << "inverse a=" << a);
    for (auto& Q : subs) { auto pi = op.get_partial_inverse(a, Q); auto rp = ref_partial_inverse(r, a, Q); CHECK(pi.first, rp.first, std::cout << "partial inverse value a=" << a << " Q=" << Q); CHECK(pi.second, rp.second, std::cout << "partial inverse T a=" << a << " Q=" << Q); }
    for (auto& b : all) {
      CHECK(op.add(a, b), refmod(a + b, P), std::cout << "add a=" << a << " b=" << b); CHECK(op.subtract(a, b), refmod(a - b, P), std::cout << "sub a=" << a << " b=" << b); CHECK(op.multiply(a, b), refmod(a * b, P), std::cout << "mul a=" << a << " b=" << b);
      { mpz_class x = a; op.add_inplace(x, b); CHECK(x, refmod(a + b, P), std::cout << "add_inplace"); } { mpz_class x = a; op.subtract_inplace_front(x, b); CHECK(x, refmod(a - b, P), std::cout << "sub_front"); }
      { mpz_class x = b; op.subtract_inplace_back(a, x); CHECK(x, refmod(a - b, P), std::cout << "sub_back"); } { mpz_class x = a; op.multiply_inplace(x, b); CHECK(x, refmod(a * b, P), std::cout << "mul_inplace"); }
      CHECKB(op.are_equal(a, b), refmod(a, P) == refmod(b, P), std::cout << "are_equal a=" << a << " b=" << b);
    }
    { mpz_class x = a; op.add_inplace(x, x); CHECK(x, refmod(2 * a, P), std::cout << "alias add"); } { mpz_class x = a; op.multiply_inplace(x, x); CHECK(x, refmod(a * a, P), std::cout << "alias mul"); }
    { mpz_class x = a; op.subtract_inplace_front(x, x); CHECK(x, 0, std::cout << "alias sub"); } { mpz_class x = a; op.subtract_inplace_back(x, x); CHECK(x, 0, std::cout << "alias sub back"); }
  }
  for (int t = 0; t < 1500; ++t) {
    const mpz_class &a = all[rng() % all.size()], &b = all[rng() % all.size()], &c = all[rng() % all.size()];
    CHECK(op.multiply_and_add(a, b, c), refmod(a * b + c, P), std::cout << "multiply_and_add " << a << " " << b << " " << c);
    { mpz_class x = a; op.multiply_and_add_inplace_front(x, b, c); CHECK(x, refmod(a * b + c, P), std::cout << "maa_front"); } { mpz_class x = c; op.multiply_and_add_inplace_back(a, b, x); CHECK(x, refmod(a * b + c, P), std::cout << "maa_back"); }
    CHECK(op.add_and_multiply(a, b, c), refmod((a + b) * c, P), std::cout << "add_and_multiply " << a << " " << b << " " << c);
    { mpz_class x = a; op.add_and_multiply_inplace_front(x, b, c); CHECK(x, refmod((a + b) * c, P), std::cout << "aam_front"); } { mpz_class x = c; op.add_and_multiply_inplace_back(a, b, x); CHECK(x, refmod((a + b) * c, P), std::cout << "aam_back"); }
    // aliased arguments
    { mpz_class x = a; op.multiply_and_add_inplace_front(x, x, x); CHECK(x, refmod(a * a + a, P), std::cout << "maa_front alias"); } { mpz_class x = a; op.multiply_and_add_inplace_back(x, x, x); CHECK(x, refmod(a * a + a, P), std::cout << "maa_back alias"); }
    { mpz_class x = a; op.add_and_multiply_inplace_front(x, x, x); CHECK(x, refmod((a + a) * a, P), std::cout << "aam_front alias"); } { mpz_class x = a; op.add_and_multiply_inplace_back(x, x, x); CHECK(x, refmod((a + a) * a, P), std::cout << "aam_back alias"); }
  }
  CHECK(op.get_additive_identity(), 0, std::cout << "addid"); CHECK(op.get_multiplicative_identity(), 1, std::cout << "multid");
  mpz_class pm1 = P - 1; auto e = ref_partial_inverse(r, pm1, P).first;
  { Multi_field_operators c(op); CHECK(c.get_characteristic(), P, std::cout << "copy char"); CHECK(c.get_inverse(pm1), e, std::cout << "copy inv");
    Multi_field_operators m(std::move(c)); CHECK(m.get_characteristic(), P, std::cout << "move char"); CHECK(m.get_inverse(pm1), e, std::cout << "move inv");
    Multi_field_operators a2; a2 = m; CHECK(a2.get_characteristic(), P, std::cout << "assign char"); CHECK(a2.get_inverse(pm1), e, std::cout << "assign inv");
    Multi_field_operators s(3, 3); swap(s, a2); CHECK(s.get_characteristic(), P, std::cout << "swap char"); CHECK(a2.get_characteristic(), 3, std::cout << "swap char2"); CHECK(a2.get_inverse(2), 2, std::cout << "swap inv"); CHECK(s.get_inverse(pm1), e, std::cout << "swap inv2"); }
}

void coh_checks(const Range& r, bool exhaustive, int nrand) {
  g_ctx = "cohomology Multi_field [" + std::to_string(r.mn) + "," + std::to_string(r.mx) + "]";
  Gudhi::persistent_cohomology::Multi_field mf; mf.init(5, 13); mf.init((int)r.mn, (int)r.mx);   // re-initialisation
  const mpz_class& P = r.P; auto ops = reduced_operands(r, exhaustive, nrand); auto subs = sub_products(r);
  CHECK(mf.characteristic(), P, std::cout << "characteristic"); CHECK(mf.additive_identity(), 0, std::cout << "add id"); CHECK(mf.multiplicative_identity(), refmod(1, P), std::cout << "mult id");
  for (auto& Q : subs) CHECK(mf.multiplicative_identity(Q), ref_partial_identity(r, Q), std::cout << "partial identity Q=" << Q);
  for (auto& a : ops) {
    auto ri = ref_partial_inverse(r, a, P); auto gi = mf.inverse(a, P); CHECK(gi.first, ri.first, std::cout << "inverse a=" << a); CHECK(gi.second, ri.second, std::cout << "inverse T a=" << a);
    for (auto& Q : subs) { auto pi = mf.inverse(a, Q); auto rp = ref_partial_inverse(r, a, Q); CHECK(pi.first, rp.first, std::cout << "partial inverse value a=" << a << " Q=" << Q); CHECK(pi.second, rp.second, std::cout << "partial inverse T a=" << a << " Q=" << Q); }
    for (auto& b : ops) {
      CHECK(mf.plus_equal(a, b), refmod(a + b, P), std::cout << "plus_equal"); CHECK(mf.times(a, b), refmod(a * b, P), std::cout << "times"); CHECK(mf.times_minus(a, b), refmod(-a * b, P), std::cout << "times_minus a=" << a << " b=" << b);
    }
  }
  for (int t = 0; t < 1500; ++t) { const mpz_class &a = ops[rng() % ops.size()], &b = ops[rng() % ops.size()], &c = ops[rng() % ops.size()]; CHECK(mf.plus_times_equal(a, b, c), refmod(a + b * c, P), std::cout << "plus_times_equal"); }
}

template <unsigned mn, unsigned mx> void run_static() { Range r = make_range(mn, mx); elem_checks<Multi_field_element<mn, mx> >(r, r.P <= 120, 20, "Multi_field_element"); }

int main(int argc, char** argv) {
  int mode = argc > 1 ? atoi(argv[1]) : 0;  // 0: everything, 1: only the large / extreme run-time ranges, 2: only the compile-time ranges
  if (mode != 1) {
  run_static<2, 2>(); run_static<3, 3>(); run_static<2, 3>(); run_static<0, 5>(); run_static<1, 3>(); run_static<5, 13>(); run_static<2, 7>(); run_static<7, 7>(); run_static<8, 11>(); run_static<24, 29>();
  run_static<2, 23>(); run_static<3, 29>(); run_static<2, 53>(); run_static<2, 100>(); run_static<65521, 65521>(); run_static<65519, 65537>(); run_static<46337, 46349>(); run_static<2147483629, 2147483647>();
  run_static<65000, 65600>(); run_static<2, 300>();
  std::cout << "Multi_field_element done, checks so far " << nchecks << " failures " << nfail << std::endl;
  }
  if (mode == 2) return nfail ? 1 : 0;
  // refusals
  { g_ctx = "refusals"; long bad[][2] = {{0, 0}, {0, 1}, {1, 1}, {4, 4}, {8, 10}, {14, 16}, {24, 28}, {9, 9}, {5, 3}, {90, 96}, {25, 25}};
    for (auto& b : bad) { bool t = false; try { Shared_multi_field_element::initialize(b[0], b[1]); } catch (const std::invalid_argument&) { t = true; } CHECKB(t, true, std::cout << "Shared refuses " << b[0] << "," << b[1]); }
    for (auto& b : bad) { bool t = false; try { Multi_field_operators op; op.set_characteristic(b[0], b[1]); } catch (const std::invalid_argument&) { t = true; } CHECKB(t, true, std::cout << "operators refuse " << b[0] << "," << b[1]); }
    for (auto& b : bad) { bool t = false; try { Multi_field_operators op(b[0], b[1]); } catch (const std::invalid_argument&) { t = true; } CHECKB(t, true, std::cout << "operators ctor refuses " << b[0] << "," << b[1]); }
    bool t = false; try { Multi_field_element<8, 10> x; } catch (const std::runtime_error&) { t = true; } CHECKB(t, true, std::cout << "Multi_field_element<8,10> refused");
    t = false; try { Multi_field_element<8, 10> x(mpz_class(3)); } catch (const std::runtime_error&) { t = true; } CHECKB(t, true, std::cout << "Multi_field_element<8,10>(3) refused"); }
  long nranges = 0;
  std::vector<std::pair<long, long> > ranges;
  if (mode != 1) for (long mx = 2; mx <= 32; ++mx) for (long mn = 0; mn <= mx; ++mn) { if (mn > 2 && !is_prime(mn) && !is_prime(mn - 1) && mx - mn > 2 && (mn % 5)) continue; ranges.push_back({mn, mx}); }
  for (auto p : std::vector<std::pair<long, long> >{{2, 53}, {3, 53}, {2, 100}, {2, 300}, {65000, 65600}, {65521, 65521}, {65519, 65537}, {46337, 46349}, {46300, 46400}, {2147483629, 2147483647}, {2147483647, 2147483647}, {1000, 1100}, {97, 101}, {89, 97}})
    ranges.push_back(p);
  for (auto [mn, mx] : ranges) {
    Range r = make_range(mn, mx); if (r.primes.empty()) continue;
    if (mx > 32) std::cout << "range [" << mn << "," << mx << "] " << r.primes.size() << " primes" << std::endl;
    Shared_multi_field_element::initialize(mn, mx); elem_checks<Shared_multi_field_element>(r, r.P <= 120, 16, "Shared_multi_field_element");
    Multi_field_operators op; op.set_characteristic(mn, mx); op_checks(op, r, r.P <= 60, 12);
    Multi_field_operators op2(mn, mx); g_ctx = "ctor"; CHECK(op2.get_characteristic(), r.P, std::cout << "ctor");
    // persistent_cohomology::Multi_field::init never returns when max_prime == INT_MAX (defect 5 in defects.md): skipped
    if (mx != 2147483647) coh_checks(r, r.P <= 120, 16);
    ++nranges;
    if (nranges % 50 == 0) std::cout << nranges << " ranges, last [" << mn << "," << mx << "], checks so far " << nchecks << " failures " << nfail << std::endl;
  }
  std::cout << "run-time GMP classes: " << nranges << " ranges, checks so far " << nchecks << " failures " << nfail << std::endl;
  for (auto& c : g_failing) std::cout << "failing configuration: " << c << std::endl;
  std::cout << nchecks << " checks, " << nfail << " failures" << std::endl;
  std::cout << (nfail ? "FAIL" : "PASS") << std::endl;
  return nfail ? 1 : 0;
}

/* COVERAGE (library exactly as in the worktree, g++ 12.2, -std=gnu++17, GMP 6.2)
   Build: g++ -std=gnu++17 -O1 -g -fsanitize=address,undefined <includes> fuzz_multi_gmp.cpp -o fuzz_gmp -lgmpxx -lgmp
   Run:   ./fuzz_gmp 2 (compile-time class only), ./fuzz_gmp 1 (large / extreme run-time ranges only), ./fuzz_gmp (everything; about
          55 min with the sanitizers, 1 min with -O2 -DNDEBUG)
   Reference: primes by trial division, product in mpz_class, CRT idempotents e_q = (P/q) * ((P/q)^-1 mod q) with the inverse
   modulo q by brute force (Fermat for q >= 2000), sign-correct reduction.
   Compared for Multi_field_element<min,max> and Shared_multi_field_element: construction / assignment from arbitrary mpz_class
   (0, +-1, +-2, +-P, +-P+-1, +-2P, +-(2P+1), P^2, -P^2-1, 2^31-1, -2^31, 2^32-1, 2^32, +-2^64..., a 128-bit value, random values of
   20..220 bits with both signs), += -= *= + - * == != with elements and with raw mpz_class in both operand orders, aliasing,
   copy / move / swap, both casts, identities, get_inverse, get_partial_inverse(Q) (value and returned sub-product) and
   get_partial_multiplicative_identity(Q) for every sub-product when the range has <= 5 primes (P, first, last, P/second and 8 random
   sub-products otherwise). Multi_field_operators: get_value(_inplace), all binary functions with their in-place forms, the six fused
   functions (1500 random triples per range, also with the three arguments aliased to the same object), are_equal, inverses, partial
   inverses, partial identities on reduced AND on raw / negative operands, copy / move / assign / swap of the operator object.
   persistent_cohomology::Multi_field: init after a previous init, characteristic, identities, multiplicative_identity(Q),
   inverse(x, Q) for reduced x, plus_equal, times, times_minus, plus_times_equal (1500 random triples per range).
   Operands: all residues for P <= 120 (<= 60 for the operators), otherwise boundary values, every 1st..6th prime q, P/q, P-q,
   12-20 random residues and random zero divisors.

   PASSED WITHOUT FINDING ANYTHING:
   - Multi_field_element<min,max>: <2,2> <3,3> <2,3> <0,5> <1,3> <5,13> <2,7> <7,7> <8,11> <24,29> <2,23> <3,29> <2,53> <2,100> <65521,65521>
     <65519,65537> <46337,46349> <2147483629,2147483647> <65000,65600> <2,300>: 369 712 checks (sanitizers, and -O2 -DNDEBUG).
   - the three run-time classes: 458 ranges [min,max] with 0 <= min <= max <= 32 plus [2,53] [3,53] [2,100] [2,300] [65000,65600]
     [65521,65521] [65519,65537] [46337,46349] [46300,46400] [2147483629,2147483647] [2147483647,2147483647] (not for the cohomology class:
     it hangs, defect 5) [1000,1100] [97,101] [89,97]; refusal of [0,0] [0,1] [1,1] [4,4] [8,10] [14,16] [24,28] [9,9] [5,3] [90,96] [25,25]
     by the Persistence_matrix classes (the cohomology class does not refuse: defect 6): 44 696 773 checks with -O2 -DNDEBUG (all
     472 ranges), and with the sanitizers 42 662 376 checks on the first 450 ranges (run stopped by my 50 min limit) + 1 392 576 checks
     on the 14 large ranges (./fuzz_gmp 1). No failure, no sanitizer report. */

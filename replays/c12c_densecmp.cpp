// sparse and dense neighbour tables give the same collapse on random graphs, for double and for int weights
#include <random>
#include <iostream>
#include <vector>
#include <tuple>
#include <algorithm>
#ifdef DENSE
#define GUDHI_COLLAPSE_USE_DENSE_ARRAY
#endif
#include <gudhi/Flag_complex_edge_collapser.h>
template <class W> void run(const char* name) {
  std::mt19937 g(3);
  for (int rep = 0; rep < 3000; ++rep) {
    int n = 4 + g() % 6;
    std::vector<std::tuple<int, int, W>> e;
    for (int a = 0; a < n; ++a) for (int b = a + 1; b < n; ++b) if (g() % 3) e.emplace_back(a, b, (W)(1 + g() % 6));
    auto r = Gudhi::collapse::flag_complex_collapse_edges(e);
    std::sort(r.begin(), r.end());
    std::cout << name << " " << rep << ":";
    for (auto& x : r) std::cout << " " << std::get<0>(x) << "-" << std::get<1>(x) << "@" << std::get<2>(x);
    std::cout << "\n";
  }
}
int main() { run<double>("double"); run<int>("int"); }

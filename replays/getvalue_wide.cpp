#include <gudhi/Fields/Zp_field_operators.h>
#include <gudhi/Fields/Multi_field_small_operators.h>
#include <iostream>
using namespace Gudhi::persistence_fields;
int main(){
  int bad=0;
  Zp_field_operators<> z(7);
  std::cout<<"Zp<7>.get_value(4294967297ul) = "<<z.get_value(4294967297ul)<<" (expected 5)\n"; bad += z.get_value(4294967297ul)!=5;
  std::cout<<"Zp<7>.get_value(-8) = "<<z.get_value(-8)<<" (expected 6)\n"; bad += z.get_value(-8)!=6;
  std::cout<<"Zp<7>.get_value(10u) = "<<z.get_value(10u)<<" (expected 3)\n"; bad += z.get_value(10u)!=3;
  Zp_field_operators<unsigned short> zs(7);
  std::cout<<"Zp<ushort,7>.get_value(65537u) = "<<zs.get_value(65537u)<<" (expected 3)\n"; bad += zs.get_value(65537u)!=3;
  Multi_field_operators_with_small_characteristics m(2,13);   // Q = 30030
  std::cout<<"small ops [2,13].get_value(-7) = "<<m.get_value(-7)<<" (expected 30023)\n"; bad += m.get_value(-7)!=30023;
  std::cout<<"small ops [2,13].get_value(-7L) = "<<m.get_value(-7L)<<" (expected 30023)\n"; bad += m.get_value(-7L)!=30023;
  std::cout<<"small ops [2,13].get_value(4294967297ul) = "<<m.get_value(4294967297ul)<<" (expected "<<4294967297ul%30030<<")\n"; bad += m.get_value(4294967297ul)!=4294967297ul%30030;
  std::cout<<(bad?"FAIL":"PASS")<<"\n"; return bad;
}

// Defect 7: Heap_column: an entry range added to a column whose heap is empty is copied in the order of the range
// (Heap_column::_add, _multiply_target_and_add, _multiply_source_and_add: "if (column_.empty()) { ... }") without
// std::make_heap. Unless the range happens to be laid out as a max-heap (another Heap_column), the column is not a
// heap afterwards although every reader assumes it (front() = pivot, pop_heap/push_heap):
//   - get_content() (length up to the pivot) is cut after the row of the FIRST entry of the range: non-zero entries
//     are dropped,
//   - is_zero_column() answers "non zero" for a column which is zero (entries of equal row are not adjacent when
//     popped, so they are not cancelled), and answers correctly when asked a second time.
// The ranges used here are std::vector<Entry> sorted by increasing row, exactly what the tests of the library
// (pm_matrix_tests.h, test_base_entry_range_operation) give to add_to; the documentation of Heap_column even says
// that the range "does not need to be somehow ordered".
//
// Build: g++ -std=gnu++17 -O1 -g -fsanitize=address,undefined $(ls -d /repo/src/*/include | sed 's/^/-I/') defect_7.cpp -o defect_7
#include <iostream>
#include <vector>
#include <gudhi/Matrix.h>
#include <gudhi/persistence_matrix_options.h>
using namespace Gudhi::persistence_matrix;

template <Column_types C>
struct Opt : Default_options<C, true> {};

template <Column_types C>
int run(const char* name) {
  using M = Matrix<Opt<C> >;
  using Entry = typename M::Matrix_entry;
  int bad = 0;
  {
    M m;
    m.insert_column(std::vector<unsigned>{});  // zero column
    std::vector<Entry> range = {Entry(1), Entry(2), Entry(5)};
    m.add_to(range, 0);  // column 0 = {1, 2, 5}
    auto c = m.get_column(0).get_content();
    std::cout << name << ": get_content() after add_to({1,2,5}, 0): length " << c.size() << " expected 6 "
              << (c.size() == 6 ? "ok" : "WRONG") << "\n";
    bad += c.size() != 6;
  }
  {
    M m;
    m.insert_column(std::vector<unsigned>{});
    std::vector<Entry> range = {Entry(0), Entry(1), Entry(4), Entry(5)};
    m.add_to(range, 0);
    m.add_to(range, 0);  // c + c = 0 over Z2
    bool z1 = m.is_zero_column(0);
    bool z2 = m.is_zero_column(0);
    std::cout << name << ": is_zero_column(0) after adding {0,1,4,5} twice: " << z1 << ", asked again: " << z2
              << " expected 1 and 1 " << ((z1 && z2) ? "ok" : "WRONG") << "\n";
    bad += !(z1 && z2);
  }
  return bad;
}

int main() {
  int bad = 0;
  bad += run<Column_types::LIST>("LIST (for comparison)");
  bad += run<Column_types::HEAP>("HEAP");
  std::cout << (bad ? "FAIL" : "PASS") << "\n";
  return bad ? 1 : 0;
}

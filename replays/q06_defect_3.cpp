// Defect 3: RU matrix with IDENTIFIER indexing and default identifiers: after a vine swap followed by remove_last()
// (or remove_maximal_cell), insert_boundary(boundary) names the new cell with an identifier that is still in use.
// Id_to_index_overlay::insert_boundary(boundary, dim) uses nextIndex_ (= current number of cells) as identifier;
// remove_last() decrements it although the removed cell is the one at the last POSITION, not the one with the largest
// identifier. With the vector dictionary the entry of the live cell is overwritten (that cell cannot be reached any
// more, its name now designates the new cell); with the map dictionary emplace() silently does nothing (the new cell has
// no name and the old one keeps it).
// Documentation (Matrix.h, IDIdx): "If at the insertion of c, its ID was not specified and it was the n-th insertion,
// it is assumed that the ID is n".
//
// Build: g++ -std=gnu++17 -O1 -g -fsanitize=address,undefined -I<gudhi>/src/Persistence_matrix/include
//            -I<gudhi>/src/common/include defect_3.cpp -o defect_3
#include <gudhi/Matrix.h>
#include <gudhi/persistence_matrix_options.h>

#include <iostream>
#include <vector>

using namespace Gudhi::persistence_matrix;

template <bool map_container>
struct Opt : Default_options<Column_types::INTRUSIVE_SET, true> {
  static const Column_indexation_types column_indexation_type = Column_indexation_types::IDENTIFIER;
  static const bool is_of_boundary_type = true;
  static const bool has_column_pairings = true;
  static const bool has_vine_update = true;
  static const bool has_removable_columns = true;
  static const bool has_map_column_container = map_container;
};

template <class M>
int run(const char* name) {
  using B = std::vector<unsigned>;
  int bad = 0;
  M m;
  m.insert_boundary(B{}, 0);  // identifier 0, a vertex
  m.insert_boundary(B{}, 0);  // identifier 1, a vertex
  m.insert_boundary(B{}, 2);  // identifier 2, a 2-cell without boundary (a sphere)
  m.vine_swap(1, 2);          // filtration: 0, 2, 1
  m.remove_last();            // removes the cell at the last position: cell 1.  Cells 0 (dim 0) and 2 (dim 2) remain
  std::cout << name << ": before the insertion, dimension of cell 2 = " << m.get_column_dimension(2) << " (expected 2)\n";
  m.insert_boundary(B{}, 1);  // a new cell of dimension 1 (a loop); third and fourth insertions were 2 and this one
  // whatever name the new cell received, the cell named 2 is still the sphere
  int d2 = m.get_column_dimension(2);
  std::cout << name << ": after the insertion,  dimension of cell 2 = " << d2 << " (expected 2)\n";
  if (d2 != 2) {
    std::cout << name << ": FAIL the identifier 2 of a live cell was given to the new cell\n";
    ++bad;
  }
  // the new cell must be reachable under some identifier: the 4th insertion (n = 3) per documentation, or 1 (freed)
  // (only probed with the map dictionary, where an unknown identifier throws; with the vector dictionary it would be
  // an out of bounds read)
  bool reachable = !M::Option_list::has_map_column_container;
  for (unsigned id : {3u, 1u}) {
    if (reachable) break;
    try {
      if (m.get_column_dimension(id) == 1) reachable = true;
    } catch (...) {
    }
    if (reachable) break;
  }
  if (!reachable && d2 == 2) {
    std::cout << name << ": FAIL the new cell of dimension 1 has no identifier (neither 3 nor 1)\n";
    ++bad;
  }
  return bad;
}

int main() {
  int bad = 0;
  bad += run<Matrix<Opt<false>>>("vector container");
  bad += run<Matrix<Opt<true>>>("map container   ");
  std::cout << (bad ? "FAIL" : "PASS") << std::endl;
  return bad ? 1 : 0;
}

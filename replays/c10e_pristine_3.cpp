// Pristine defect 3 (compile-time): Multi_field_element_with_small_characteristics<min, max, T> with T different from
// the default `unsigned int` cannot compute an inverse or a partial identity: get_partial_multiplicative_identity()
// builds its result as Multi_field_element_with_small_characteristics<minimum, maximum> (third template argument
// dropped), which is not convertible to the class itself. This file does not compile on the pristine worktree;
// with `unsigned int` as third argument it compiles and prints PASS.
#include <iostream>
#include <gudhi/Fields/Multi_field_small.h>

#ifndef ELEMENT_TYPE
#define ELEMENT_TYPE unsigned long
#endif

int main() {
  using F = Gudhi::persistence_fields::Multi_field_element_with_small_characteristics<5, 13, ELEMENT_TYPE>;
  F x(7);
  F inv = x.get_inverse();
  bool ok = (inv.get_value() == 2758) && (F::get_partial_multiplicative_identity(7).get_value() == 715);
  std::cout << (ok ? "PASS" : "FAIL") << std::endl;
  return ok ? 0 : 1;
}

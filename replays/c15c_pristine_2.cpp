// Pristine: moving a chain matrix with IDENTIFIER indexation (Id_to_index_overlay over Chain_matrix) leaves the
// overlay's idToIndex_ pointing at the pivotToColumnIndex_ member of the moved-from source (Id_to_index_overlay.h, move
// constructor: idToIndex_(std::exchange(other.idToIndex_, nullptr)) although for chain matrices the pointer designates
// a member of other.matrix_). The target then looks its columns up in the (emptied) dictionary of the source, and
// in a destroyed object once the source is gone.
#include <gudhi/Matrix.h>
#include <gudhi/persistence_matrix_options.h>
#include <iostream>
#include <utility>
#include <vector>
using namespace Gudhi::persistence_matrix;
struct Opt : Default_options<Column_types::INTRUSIVE_SET, true> {
  static const bool is_of_boundary_type = false;
  static const Column_indexation_types column_indexation_type = Column_indexation_types::IDENTIFIER;
  static const bool has_column_pairings = true;
};
int main() {
  using M = Matrix<Opt>;
  using B = std::vector<unsigned int>;
  M a;
  a.insert_boundary(B{});
  a.insert_boundary(B{});
  a.insert_boundary(B{});
  a.insert_boundary(B{0, 1});
  a.insert_boundary(B{1, 2});
  a.insert_boundary(B{0, 2});
  a.insert_boundary(B{3, 4, 5});
  M b(std::move(a));
  std::cout << "moved-from: " << a.get_number_of_columns() << " columns, target: " << b.get_number_of_columns()
            << std::endl;
  unsigned int entries = 0;
  for (unsigned int i = 0; i < 7; ++i) {
    for (auto& e : b.get_column(i)) {  // SIGSEGV: reads element i of the empty vector of the source
      (void)e;
      ++entries;
    }
  }
  std::cout << "PASS: " << entries << " entries read in the target" << std::endl;
  return 0;
}

// Small exhaustive/randomized search on HEAP columns fed with entry ranges that are NOT stored as a heap
// (ascending std::vector<Entry>, shuffled vectors; the documentation of Heap_column says that the added range
// "does not need to be somehow ordered").  Heap_column::_add/_multiply_*_and_add copy the range as is into an empty
// column (no make_heap), so the column is temporarily not a heap; this program looks for an observable consequence
// (is_zero_column / is_zero_entry / get_content against a dense model).
//
// Build: g++ -std=gnu++17 -O1 -g -fsanitize=address,undefined $(ls -d /repo/src/*/include | sed 's/^/-I/') fuzz_heap_ranges.cpp -o fuzz_heap_ranges
// RESULT: see the end of the file.
#include <iostream>
#include <vector>
#include <random>
#include <algorithm>
#include <string>
#include <gudhi/Matrix.h>
#include <gudhi/persistence_matrix_options.h>
using namespace Gudhi::persistence_matrix;

template <bool Z2>
struct Opt : Default_options<Column_types::HEAP, Z2> {};

static bool sortedRanges = false;
static bool onlyFinalCheck = false;

template <bool Z2>
long run(unsigned long nbCases, unsigned p) {
  using M = Matrix<Opt<Z2> >;
  using Entry = typename M::Matrix_entry;
  const unsigned NR = 6;
  std::mt19937_64 rng(12345 + p);
  long bad = 0;
  for (unsigned long c = 0; c < nbCases && bad < 5; ++c) {
    M m(0, p);
    if constexpr (Z2)
      m.insert_column(std::vector<unsigned>{});
    else
      m.insert_column(std::vector<std::pair<unsigned, unsigned> >{});
    std::vector<unsigned> model(NR, 0);
    std::string hist;
    unsigned nops = 1 + rng() % 6;
    for (unsigned o = 0; o < nops; ++o) {
      std::vector<Entry> range;
      unsigned k = rng() % 5;
      std::vector<unsigned> rows(NR);
      for (unsigned i = 0; i < NR; ++i) rows[i] = i;
      std::shuffle(rows.begin(), rows.end(), rng);
      if (sortedRanges) std::sort(rows.begin(), rows.begin() + k);  // ascending, as in the tests of the library
      hist += " add{";
      std::vector<unsigned> src(NR, 0);
      for (unsigned i = 0; i < k; ++i) {
        Entry e(rows[i]);
        unsigned v = Z2 ? 1 : 1 + rng() % (p - 1);
        if constexpr (!Z2) e.set_element(v);
        src[rows[i]] = v;
        range.push_back(e);
        hist += std::to_string(rows[i]) + ":" + std::to_string(v) + " ";
      }
      hist += "}";
      unsigned kind = rng() % 3;
      int coef = int(rng() % (2 * p + 1)) - int(p);
      unsigned cf = ((coef % int(p)) + p) % p;
      if (kind == 0) {
        m.add_to(range, 0);
        for (unsigned r = 0; r < NR; ++r) model[r] = (model[r] + src[r]) % p;
      } else if (kind == 1) {
        hist += "mt" + std::to_string(coef);
        m.multiply_target_and_add_to(range, coef, 0);
        for (unsigned r = 0; r < NR; ++r) model[r] = (model[r] * cf + src[r]) % p;
      } else {
        hist += "ms" + std::to_string(coef);
        m.multiply_source_and_add_to(coef, range, 0);
        for (unsigned r = 0; r < NR; ++r) model[r] = (model[r] + cf * src[r]) % p;
      }
      if (rng() % 3 == 0) {
        unsigned r = rng() % NR;
        hist += " zero(" + std::to_string(r) + ")";
        m.zero_entry(0, r);
        model[r] = 0;
      }
      bool every = onlyFinalCheck ? false : rng() % 2;
      if (every || o + 1 == nops) {
        bool z = true;
        for (unsigned v : model) z = z && v == 0;
        bool firstAnswer = m.is_zero_column(0);
        bool ok = firstAnswer == z;
        for (unsigned r = 0; r < NR; ++r) ok = ok && (m.is_zero_entry(0, r) == (model[r] == 0));
        auto content = m.get_column(0).get_content(NR);
        for (unsigned r = 0; r < NR; ++r) ok = ok && (unsigned(content[r]) == model[r]);
        auto content2 = m.get_column(0).get_content();
        int piv = -1;
        for (unsigned r = 0; r < NR; ++r)
          if (model[r]) piv = r;
        ok = ok && content2.size() == unsigned(piv + 1);
        hist += " [check]";
        if (!ok) {
          ++bad;
          std::cout << "MISMATCH p=" << p << " z2=" << Z2 << ":" << hist << "  is_zero_column=" << firstAnswer << " (asked again: "
                    << m.is_zero_column(0) << ") expected " << z << " get_content().size()=" << content2.size() << " expected " << piv + 1
                    << "\n";
          break;
        }
      }
    }
  }
  return bad;
}

int main(int argc, char** argv) {
  unsigned long n = argc > 1 ? std::atol(argv[1]) : 200000;
  // ./fuzz_heap_ranges nbCases [sorted|shuffled] [final]
  sortedRanges = argc > 2 && std::string(argv[2]) == "sorted";
  onlyFinalCheck = argc > 3 && std::string(argv[3]) == "final";
  long bad = 0;
  bad += run<true>(n, 2);
  bad += run<false>(n, 2);
  bad += run<false>(n, 3);
  bad += run<false>(n, 5);
  std::cout << (bad ? "FAIL" : "PASS: no mismatch") << "\n";
  return bad ? 1 : 0;
}

// =====================================================================================================================
// RESULT: this program finds defect 7 (see defects.md / defect_7.cpp) immediately, with shuffled AND with ascending
// ranges, in Z_2 and Z_p (p = 2, 3, 5):
//   ./fuzz_heap_ranges 300000 sorted final   -> get_content() too short (entries above the first one of the range lost)
//   ./fuzz_heap_ranges 300000 sorted         -> is_zero_column() false on a zero column, true when asked again
// is_zero_entry and get_content(length) were never wrong (they sum over all stored entries).
// With ranges given by DECREASING row (a valid heap layout; bit 128 of fuzz_base_matrix.cpp) the main fuzzer finds
// nothing on HEAP: 8 configurations x (30 x 150 + 30 x 150 + 30 x 180 + 40 x 200 + 25 x 180 [_GLIBCXX_DEBUG] + 40 x 200
// [-O2 -DNDEBUG]) seeds x steps.

#!/bin/bash
# usage: run_all.sh "<coltypes>" nbSeeds nbSteps firstSeed avoidMask [extra g++ flags]
# compiles one small binary per configuration (4 jobs in parallel) and runs it
COLS=${1:-"LIST SET HEAP VECTOR NAIVE_VECTOR SMALL_VECTOR UNORDERED_SET INTRUSIVE_LIST INTRUSIVE_SET"}
NS=${2:-30}; ST=${3:-150}; FS=${4:-1}; AV=${5:-0xffff}; EXTRA=${6:-"-O0 -fsanitize=address,undefined"}
OUT=${OUTDIR:-/tmp/p09_fuzz_bin}; mkdir -p $OUT
SRC=$(cd "$(dirname "$0")" && pwd)/fuzz_base_matrix.cpp
INC="$(ls -d /repo/src/*/include | sed 's/^/-I/')"
export ASAN_OPTIONS=detect_leaks=0
gen() {
for c in $COLS; do
 for z in true false; do
  for ra in "0,false" "1,false" "1,true" "2,false" "2,true"; do
   if [ $c = HEAP ] && [ "$ra" != "0,false" ]; then continue; fi
   for ms in "false,false,false" "true,false,false" "false,true,false" "true,true,false" "false,false,true"; do
    if [ $c = HEAP ] && [ "$ms" = "false,false,true" ]; then continue; fi
    echo "$c $z,$ra,$ms"
   done
  done
 done
done
}
one() {
  c=$1; cfg=$2; tag=$(echo "${c}_${cfg}" | tr ',' '_')
  b=$OUT/$tag
  if [ ! -x $b ] || [ $SRC -nt $b ]; then
    g++ -std=gnu++17 $EXTRA -g -DCOLTYPE=$c -DCFG="$cfg" $INC $SRC -o $b 2> $b.err || { echo "COMPILE-FAIL $c $cfg"; return; }
  fi
  $b $NS $ST $FS $AV > $b.out 2>&1; rc=$?
  if [ $rc -ne 0 ]; then echo "RC=$rc $c $cfg : $(grep -m1 -E 'FAIL|ERROR|runtime error' $b.out | cut -c1-250)"; else tail -1 $b.out; fi
}
export -f one; export SRC OUT INC NS ST FS AV EXTRA
gen | xargs -P 14 -L 1 bash -c 'one $0 $1'

// Differential fuzzer for property C09 (general matrices behave as dense matrices, whatever the column
// representation).  One translation unit per column type:
//
//   g++ -std=gnu++17 -O1 -g -fsanitize=address,undefined -DCOLTYPE=LIST \
//       $(ls -d /repo/src/*/include | sed 's/^/-I/') fuzz_base_matrix.cpp -o fuzz_LIST
//   ./fuzz_LIST [nbSeeds=40] [nbSteps=150] [firstSeed=1] [avoidMask=0xffff]
//   (optionally add  -include asan_pool_shim.h  so that ASan sees recycled entries of the entry pool, and -DNDEBUG)
//
// COLTYPE in LIST SET HEAP VECTOR NAIVE_VECTOR SMALL_VECTOR UNORDERED_SET INTRUSIVE_LIST INTRUSIVE_SET.
// For the column type, every combination that compiles of
//   {Z_2, Z_p (p in 2,3,5,7,11 at run time)} x row access {off, intrusive, set} x removable rows {no, yes}
//   x column container {vector, map} x swaps {off, on}     (Base_matrix)
//   {Z_2, Z_p} x row access {off, intrusive, set} x removable rows  (Base_matrix_with_column_compression)
// is instantiated (HEAP: no row access, no compression).  Reference: a dense matrix of unsigned (std::map of
// std::vector) + for the compressed variant the partition of the columns into classes.
//
// avoidMask: bit set = stay away from an already reported defect so that the fuzzer can look further:
//   1  no operation with source column == target column (uncompressed)                     (defect 1)
//   2  swaps: entry ranges / constructor columns only use rows the swap dictionaries know   (defect 2)
//   4  swaps: entry ranges only added when no row swap is pending                           (defect 3)
//   8  swaps + map container: columns stay contiguous 0..n-1                                (defect 4)
//   16 compression: no copy of a matrix built with a reserved number of columns             (defect 5)
//   32 unsorted entry ranges for HEAP are not used                                          (see fuzz notes)
//   64 swaps: insert_boundary / insert_column(col, index) only when no swap is pending      (defect 6)
//   128 HEAP: std::vector<Entry> ranges are given by decreasing row (a valid heap layout)    (defect 7)
//   256 swaps + map container: swap_rows only between two known rows                        (defect 8, only
//       visible with -D_GLIBCXX_DEBUG)
//   512 compression: m.add_to(m.get_column(s), t) not used when s and t are in the same class (defect 10)
//
// RESULTS are summarised at the end of this file.

#include <cstdio>
#include <cstdlib>
#include <iostream>
#include <map>
#include <set>
#include <memory>
#include <random>
#include <sstream>
#include <vector>
#include <algorithm>

#include <gudhi/Matrix.h>
#include <gudhi/persistence_matrix_options.h>

using namespace Gudhi::persistence_matrix;

#ifndef COLTYPE
#define COLTYPE LIST
#endif
static constexpr Column_types CT = Column_types::COLTYPE;
#define STR2(x) #x
#define STR(x) STR2(x)

template <Column_types C, bool Z2, int RA /*0 off, 1 intrusive, 2 set*/, bool RemRows, bool Map, bool Swaps, bool Comp>
struct Opt : Default_options<C, Z2> {
  static const bool has_row_access = (RA != 0);
  static const bool has_intrusive_rows = (RA != 2);
  static const bool has_removable_rows = RemRows;
  static const bool has_map_column_container = Map;
  static const bool has_removable_columns = Map;
  static const bool has_column_and_row_swaps = Swaps;
  static const bool has_column_compression = Comp;
};

static unsigned avoidMask = 0xffff;
static long totalSteps = 0, totalChecks = 0;
static int failures = 0;

struct Fail : std::runtime_error {
  using std::runtime_error::runtime_error;
};

template <class O>
struct Harness {
  using M = Matrix<O>;
  using Entry = typename M::Matrix_entry;
  using Dense = std::vector<unsigned>;
  static constexpr bool Z2 = O::is_z2;
  static constexpr bool RA = O::has_row_access;
  static constexpr bool Swaps = O::has_column_and_row_swaps;
  static constexpr bool Map = O::has_map_column_container;
  static constexpr bool Comp = O::has_column_compression;
  static constexpr bool RemRows = O::has_removable_rows;
  static constexpr unsigned NR = 24;
  using Content = typename std::conditional<Z2, std::vector<unsigned>, std::vector<std::pair<unsigned, unsigned> > >::type;

  struct State {
    std::unique_ptr<M> m;
    std::map<unsigned, Dense> cols;  // existing columns
    unsigned next = 0;               // next insertion index
    std::vector<int> cls;            // compression: class of each column
    int nextCls = 0;
    unsigned rowBound = 0;           // rows [0,rowBound) exist in a non removable row container
    unsigned regBound = 0;           // vector dictionary of the swaps knows rows [0,regBound)
    std::set<unsigned> regKeys;      // map dictionary of the swaps knows these rows
    bool pendingRowSwap = false;
    bool pendingAnySwap = false;  // row swap, or column swap with row access
    bool reservedCtor = false;
  };

  std::mt19937_64 rng;
  unsigned p = 2;
  State s;
  std::unique_ptr<State> twin;  // frozen copy, has to stay equal to its model
  std::ostringstream log;

  unsigned rnd(unsigned n) { return n == 0 ? 0 : rng() % n; }
  bool coin(unsigned pct) { return rnd(100) < pct; }

  [[noreturn]] void fail(const std::string& what) {
    throw Fail(what);
  }

  unsigned mod(long v) const { return static_cast<unsigned>(((v % (long)p) + (long)p) % (long)p); }

  // ---------- random material
  unsigned rnd_row() { return coin(85) ? rnd(6) : rnd(NR); }

  Dense rnd_dense(unsigned emptyPct = 15) {
    Dense d(NR, 0);
    if (coin(emptyPct)) return d;
    if (coin(12)) {  // a long column (more than the 8 inline slots of SMALL_VECTOR, prune threshold of HEAP)
      unsigned k = 8 + rnd(8);
      for (unsigned i = 0; i < k; ++i) d[rnd(NR)] = Z2 ? 1 : 1 + rnd(p - 1);
      return d;
    }
    unsigned k = 1 + rnd(4);
    for (unsigned i = 0; i < k; ++i) d[rnd_row()] = Z2 ? 1 : 1 + rnd(p - 1);
    return d;
  }

  static bool is_zero(const Dense& d) {
    for (unsigned v : d)
      if (v) return false;
    return true;
  }

  Content to_content(const Dense& d) {
    Content c;
    for (unsigned r = 0; r < NR; ++r) {
      if (d[r] == 0) continue;
      if constexpr (Z2) {
        c.push_back(r);
      } else {
        c.push_back({r, d[r] + (coin(20) ? p * rnd(3) : 0)});  // unreduced values are accepted by the constructors
      }
    }
    return c;
  }

  std::vector<Entry> to_range(const Dense& d, bool shuffle) {
    std::vector<Entry> range;
    for (unsigned r = 0; r < NR; ++r) {
      if (d[r] == 0) continue;
      Entry e(r);
      if constexpr (!Z2) e.set_element(d[r]);
      range.push_back(e);
    }
    if (shuffle) std::shuffle(range.begin(), range.end(), rng);
    else if (CT == Column_types::HEAP && (avoidMask & 128)) std::reverse(range.begin(), range.end());
    return range;
  }

  std::string show(const Dense& d) {
    std::ostringstream o;
    o << "{";
    for (unsigned r = 0; r < NR; ++r)
      if (d[r]) o << r << ":" << d[r] << " ";
    o << "}";
    return o.str();
  }

  // ---------- model helpers
  bool row_known(const State& st, unsigned r) const {
    if constexpr (!Swaps) return true;
    if constexpr (Map)
      return st.regKeys.count(r) != 0;
    else
      return r < st.regBound;
  }
  bool dense_rows_known(const State& st, const Dense& d) const {
    for (unsigned r = 0; r < NR; ++r)
      if (d[r] && !row_known(st, r)) return false;
    return true;
  }
  void register_rows(State& st, const Dense& d) {
    int piv = -1;
    for (unsigned r = 0; r < NR; ++r)
      if (d[r]) {
        piv = r;
        if constexpr (Swaps && Map) st.regKeys.insert(r);
      }
    if (piv >= 0) {
      st.rowBound = std::max(st.rowBound, unsigned(piv + 1));
      st.regBound = std::max(st.regBound, unsigned(piv + 1));
    }
  }

  // compression: after the content of the class of column t changed
  void comp_propagate(State& st, unsigned t, const Dense& nd) {
    int c = st.cls[t];
    for (auto& kv : st.cols)
      if (st.cls[kv.first] == c) kv.second = nd;
    if (is_zero(nd)) return;  // zero classes are never merged by the library
    for (auto& kv : st.cols) {
      if (st.cls[kv.first] != c && kv.second == nd) {
        int other = st.cls[kv.first];
        for (auto& kv2 : st.cols)
          if (st.cls[kv2.first] == c) st.cls[kv2.first] = other;
        break;
      }
    }
  }

  void set_target(State& st, unsigned t, const Dense& nd) {
    if constexpr (Comp)
      comp_propagate(st, t, nd);
    else
      st.cols[t] = nd;
  }

  unsigned pick_col(State& st) {
    auto it = st.cols.begin();
    std::advance(it, rnd(st.cols.size()));
    return it->first;
  }

  // ---------- the operations
  void op_insert(State& st) {
    Dense d = rnd_dense();
    if constexpr (Swaps) {
      // nothing to avoid: insert_column registers the rows
    }
    Content c = to_content(d);
    bool atIndex = false;
    unsigned idx = st.next;
    bool plainOnly = Swaps && (avoidMask & 64) && st.pendingAnySwap;
    if constexpr (!RA && !Comp) {
      if (coin(25)) {
        bool contiguousOnly = Swaps && Map && (avoidMask & 8);
        if (!contiguousOnly && !plainOnly) {
          // a free index: a removed one, or beyond the end
          std::vector<unsigned> freeIdx;
          for (unsigned i = 0; i < st.next + 3; ++i)
            if (!st.cols.count(i)) freeIdx.push_back(i);
          idx = freeIdx[rnd(freeIdx.size())];
          atIndex = true;
        }
      }
    }
    log << "insert_column(" << show(d) << (atIndex ? ", at " + std::to_string(idx) : "") << ") -> " << idx << "\n";
    if (atIndex) {
      if constexpr (!RA && !Comp) st.m->insert_column(c, idx);
    } else {
      if (plainOnly || coin(50))
        st.m->insert_column(c);
      else
        st.m->insert_boundary(c);
    }
    st.cols[idx] = d;
    if (idx >= st.next) st.next = idx + 1;
    register_rows(st, d);
    st.pendingRowSwap = st.pendingAnySwap = false;  // insertion applies the lazy swaps
    if constexpr (Comp) {
      st.cls.resize(std::max<std::size_t>(st.cls.size(), idx + 1), -1);
      st.cls[idx] = st.nextCls++;
      if (!is_zero(d)) {
        for (auto& kv : st.cols)
          if (kv.first != idx && kv.second == d) {
            st.cls[idx] = st.cls[kv.first];
            break;
          }
      }
    }
  }

  void op_remove_last(State& st) {
    if constexpr (!Comp) {
      log << "remove_last()\n";
      st.m->remove_last();
      if (st.next == 0) return;
      --st.next;
      st.cols.erase(st.next);
    }
  }

  void op_remove_column(State& st) {
    if constexpr (Map && !Comp) {
      if (st.cols.empty()) return;
      if (Swaps && (avoidMask & 8)) return;
      unsigned c = coin(80) ? pick_col(st) : rnd(st.next + 1);
      log << "remove_column(" << c << ")\n";
      st.m->remove_column(c);
      if (st.next > 0 && c == st.next - 1) --st.next;
      st.cols.erase(c);
    }
  }

  // kind: 0 add_to, 1 multiply_target_and_add_to, 2 multiply_source_and_add_to
  void op_add(State& st) {
    if (st.cols.empty()) return;
    unsigned t = pick_col(st);
    unsigned kind = rnd(3);
    int coef = 0;
    switch (rnd(6)) {
      case 0: coef = 0; break;
      case 1: coef = 1; break;
      case 2: coef = -1; break;
      case 3: coef = int(p); break;
      default: coef = int(rnd(4 * p + 3)) - int(2 * p); break;
    }
    unsigned cf = Z2 ? (coef % 2 != 0 ? 1 : 0) : mod(coef);
    unsigned P = Z2 ? 2 : p;

    unsigned srcKind = rnd(5);  // 0,1: column index; 2: entry vector; 3: standalone column; 4: column reference
    Dense src;
    unsigned sidx = 0;
    bool shuffle = false;
    if (srcKind <= 1 || srcKind == 4) {
      sidx = pick_col(st);
      if constexpr (!Comp) {
        if ((avoidMask & 1) && sidx == t) return;
      }
      if constexpr (!Comp) {
        if (srcKind == 4 && sidx == t) return;  // m.add_to(m.get_column(t), t): aliasing visible to the caller
      }
      // compression: get_column of a column of the class of the target is the representative itself
      if constexpr (Comp) {
        if ((avoidMask & 512) && srcKind == 4 && st.cls[sidx] == st.cls[t]) srcKind = 0;
      }
      src = st.cols[sidx];
    } else {
      src = rnd_dense(20);
      if constexpr (Swaps) {
        if ((avoidMask & 2) && !dense_rows_known(st, src)) return;
        if ((avoidMask & 4) && st.pendingRowSwap) return;
      }
      if (srcKind == 2 && (CT == Column_types::UNORDERED_SET || (CT == Column_types::HEAP && !(avoidMask & 32))))
        shuffle = coin(50);
    }

    Dense nd = st.cols[t];
    for (unsigned r = 0; r < NR; ++r) {
      unsigned long a = nd[r], b = src[r];
      switch (kind) {
        case 0: nd[r] = (a + b) % P; break;
        case 1: nd[r] = (a * cf + b) % P; break;
        case 2: nd[r] = (a + b * cf) % P; break;
      }
    }
    log << (kind == 0 ? "add_to" : kind == 1 ? "multiply_target_and_add_to" : "multiply_source_and_add_to") << "(src="
        << (srcKind <= 1 ? "col " + std::to_string(sidx)
                         : srcKind == 4 ? "get_column(" + std::to_string(sidx) + ")"
                                        : std::string(srcKind == 2 ? "entries " : "column object ") + show(src) +
                                              (shuffle ? " shuffled" : ""))
        << ", coef=" << coef << ", target=" << t << ")\n";

    auto apply = [&](const auto& source) {
      switch (kind) {
        case 0: st.m->add_to(source, t); break;
        case 1: st.m->multiply_target_and_add_to(source, coef, t); break;
        case 2: st.m->multiply_source_and_add_to(coef, source, t); break;
      }
    };
    if (srcKind <= 1) {
      unsigned tt = t;
      switch (kind) {
        case 0: st.m->add_to(sidx, tt); break;
        case 1: st.m->multiply_target_and_add_to(sidx, coef, tt); break;
        case 2: st.m->multiply_source_and_add_to(coef, sidx, tt); break;
      }
    } else if (srcKind == 2) {
      std::vector<Entry> range = to_range(src, shuffle);
      apply(range);
    } else if (srcKind == 3) {
      typename M::Column_settings settings(p);
      typename M::Column col(to_content(src), &settings);
      apply(col);
    } else {
      if constexpr (Swaps) {
        st.pendingRowSwap = st.pendingAnySwap = false;  // get_column applies the swaps
      }
      const auto& col = st.m->get_column(sidx);
      apply(col);
    }
    set_target(st, t, nd);
  }

  void op_zero_entry(State& st) {
    if constexpr (!Comp) {
      if (st.cols.empty()) return;
      unsigned c = pick_col(st);
      unsigned r = rnd_row();
      if (coin(50)) {  // prefer an existing entry
        std::vector<unsigned> nz;
        for (unsigned i = 0; i < NR; ++i)
          if (st.cols[c][i]) nz.push_back(i);
        if (!nz.empty()) r = nz[rnd(nz.size())];
      }
      if (coin(3)) r = NR + 5 + rnd(100);  // far away: always zero
      log << "zero_entry(" << c << ", " << r << ")\n";
      st.m->zero_entry(c, r);
      if (r < NR) st.cols[c][r] = 0;
    }
  }

  void op_zero_column(State& st) {
    if constexpr (!Comp) {
      if (st.cols.empty()) return;
      unsigned c = pick_col(st);
      log << "zero_column(" << c << ")\n";
      st.m->zero_column(c);
      st.cols[c] = Dense(NR, 0);
    }
  }

  // operations through the (mutable) column returned by get_column
  void op_column_level(State& st) {
    if constexpr (!Comp) {
      if (st.cols.empty()) return;
      unsigned t = pick_col(st);
      unsigned P = Z2 ? 2 : p;
      switch (rnd(4)) {
        case 0: {
          unsigned v = coin(30) ? 0 : coin(30) ? 1 : rnd(3 * P + 2);
          log << "get_column(" << t << ") *= " << v << "\n";
          st.m->get_column(t) *= v;
          for (auto& x : st.cols[t]) x = (unsigned long)(x) * (v % P) % P;
          break;
        }
        case 1: {
          unsigned r = rnd_row();
          log << "get_column(" << t << ").clear(" << r << ")\n";
          st.m->get_column(t).clear(r);
          st.cols[t][r] = 0;
          break;
        }
        case 2: {
          log << "get_column(" << t << ").clear()\n";
          st.m->get_column(t).clear();
          st.cols[t] = Dense(NR, 0);
          break;
        }
        case 3: {
          unsigned sidx = pick_col(st);
          if (sidx == t) return;
          log << "get_column(" << t << ") += get_column(" << sidx << ")\n";
          st.m->get_column(t) += st.m->get_column(sidx);
          for (unsigned r = 0; r < NR; ++r) st.cols[t][r] = (st.cols[t][r] + st.cols[sidx][r]) % P;
          break;
        }
      }
      st.pendingRowSwap = st.pendingAnySwap = false;  // get_column applies the swaps
    }
  }

  void op_swap_rows(State& st) {
    if constexpr (Swaps && !Comp) {
      unsigned r1 = rnd_row(), r2 = rnd_row();
      if constexpr (Map) {
        if ((avoidMask & 256) && st.regKeys.count(r1) != st.regKeys.count(r2)) return;
      }
      log << "swap_rows(" << r1 << ", " << r2 << ")\n";
      st.m->swap_rows(r1, r2);
      for (auto& kv : st.cols) std::swap(kv.second[r1], kv.second[r2]);
      st.pendingRowSwap = st.pendingAnySwap = true;
      if constexpr (Map) {
        bool k1 = st.regKeys.count(r1), k2 = st.regKeys.count(r2);
        if (k1 != k2) {
          if (k1) {
            st.regKeys.erase(r1);
            st.regKeys.insert(r2);
          } else {
            st.regKeys.erase(r2);
            st.regKeys.insert(r1);
          }
        }
      } else {
        st.regBound = std::max(st.regBound, std::max(r1, r2) + 1);
      }
    }
  }

  void op_swap_columns(State& st) {
    if constexpr (Swaps && !Comp) {
      if (st.cols.empty()) return;
      unsigned c1 = pick_col(st), c2 = pick_col(st);
      log << "swap_columns(" << c1 << ", " << c2 << ")\n";
      st.m->swap_columns(c1, c2);
      std::swap(st.cols[c1], st.cols[c2]);
      if constexpr (RA) st.pendingAnySwap = true;
    }
  }

  void op_erase_empty_row(State& st) {
    unsigned r = rnd_row();
    for (auto& kv : st.cols)
      if (kv.second[r]) return;  // only empty rows
    if constexpr (Comp) {
      // rows of the compressed matrix: same emptiness
    }
    log << "erase_empty_row(" << r << ")\n";
    st.m->erase_empty_row(r);
    if constexpr (Swaps && Map) st.regKeys.erase(r);
  }

  void copy_model(const State& from, State& to) {
    to.cols = from.cols;
    to.next = from.next;
    to.cls = from.cls;
    to.nextCls = from.nextCls;
    to.rowBound = from.rowBound;
    to.regBound = from.regBound;
    to.regKeys = from.regKeys;
    to.pendingRowSwap = from.pendingRowSwap;
    to.pendingAnySwap = from.pendingAnySwap;
    to.reservedCtor = from.reservedCtor;
  }

  void op_copy_move(State& st) {
    if constexpr (Comp) {
      if ((avoidMask & 16) && st.reservedCtor) return;
    }
    unsigned k = rnd(6);
    switch (k) {
      case 0: {  // replace by a copy, original destroyed first... after
        log << "m = copy(m) (original destroyed after)\n";
        std::unique_ptr<M> c(new M(*st.m));
        st.m.swap(c);
        break;
      }
      case 1: {  // keep a frozen twin
        log << "twin = copy(m)\n";
        twin.reset(new State());
        twin->m.reset(new M(*st.m));
        copy_model(st, *twin);
        break;
      }
      case 2: {  // move construction; the moved-from matrix has to be an empty usable matrix
        log << "m = move(m); moved-from checked\n";
        std::unique_ptr<M> c(new M(std::move(*st.m)));
        State old;
        old.m = std::move(st.m);
        st.m = std::move(c);
        check(old, "moved-from matrix");
        {
          Dense d = rnd_dense(0);
          old.m->insert_column(to_content(d));
          old.cols[0] = d;
          old.next = 1;
          old.cls = {0};
          register_rows(old, d);
          check(old, "moved-from matrix after an insertion");
        }
        break;
      }
      case 3: {  // assignment to a non-empty matrix
        log << "other = some matrix; other = m; m <- other\n";
        std::unique_ptr<M> other(new M(3, p));
        other->insert_column(to_content(rnd_dense(0)));
        other->insert_column(to_content(rnd_dense(0)));
        *other = *st.m;
        st.m.swap(other);
        break;
      }
      case 4: {  // swap with a copy
        log << "swap(m, copy)\n";
        std::unique_ptr<M> c(new M(*st.m));
        swap(*st.m, *c);
        break;
      }
      case 5: {  // the twin takes over, the main one is dropped
        if (!twin) return;
        log << "m <- twin (main dropped)\n";
        st.m = std::move(twin->m);
        copy_model(*twin, st);
        twin.reset();
        break;
      }
    }
  }

  // ---------- the comparisons
  void check_rows(State& st, const char* who) {
    if constexpr (RA) {
      for (unsigned r = 0; r < NR; ++r) {
        // expected content of the row
        std::multiset<std::pair<unsigned, unsigned> > expected;  // (column, value)
        std::map<int, unsigned> expectedClasses;                 // compression: class -> value
        for (auto& kv : st.cols) {
          if (kv.second[r] == 0) continue;
          expected.insert({kv.first, kv.second[r]});
          if constexpr (Comp) expectedClasses[st.cls[kv.first]] = kv.second[r];
        }
        bool nonEmpty = !expected.empty();
        if constexpr (!RemRows) {
          if (!nonEmpty && r >= st.rowBound) continue;  // the row may not exist
        }
        std::multiset<std::pair<unsigned, unsigned> > got;
        std::vector<unsigned> order;
        try {
          const auto& row = st.m->get_row(r);
          for (const auto& e : row) {
            unsigned v = 1;
            if constexpr (!Z2) v = e.get_element();
            got.insert({e.get_column_index(), v});
            order.push_back(e.get_column_index());
            if (e.get_row_index() != r)
              fail(std::string(who) + ": entry of row " + std::to_string(r) + " says row " +
                   std::to_string(e.get_row_index()));
          }
        } catch (const std::out_of_range&) {
          if (!RemRows) throw;
          if (nonEmpty) fail(std::string(who) + ": get_row(" + std::to_string(r) + ") does not exist but is not empty");
          continue;
        }
        st.pendingRowSwap = st.pendingAnySwap = false;
        if constexpr (Comp) {
          std::map<int, unsigned> gotClasses;
          for (auto& cv : got) {
            if (!st.cols.count(cv.first))
              fail(std::string(who) + ": row " + std::to_string(r) + " lists unknown column " + std::to_string(cv.first));
            int c = st.cls[cv.first];
            if (gotClasses.count(c))
              fail(std::string(who) + ": row " + std::to_string(r) + " lists a class twice");
            gotClasses[c] = cv.second;
          }
          if (gotClasses != expectedClasses) fail(std::string(who) + ": compressed row " + std::to_string(r) + " differs");
        } else {
          if (got != expected) {
            std::ostringstream o;
            o << who << ": row " << r << " differs: got ";
            for (auto& cv : got) o << "(" << cv.first << "," << cv.second << ") ";
            o << " expected ";
            for (auto& cv : expected) o << "(" << cv.first << "," << cv.second << ") ";
            fail(o.str());
          }
          if constexpr (!O::has_intrusive_rows) {
            if (!std::is_sorted(order.begin(), order.end()))
              fail(std::string(who) + ": set row " + std::to_string(r) + " not ordered by column");
          }
        }
      }
    }
  }

  void check(State& st, const char* who, bool deep = true) {
    ++totalChecks;
    unsigned expectedCount = (Map && !Comp) ? st.cols.size() : st.next;
    if (st.m->get_number_of_columns() != expectedCount)
      fail(std::string(who) + ": get_number_of_columns() = " + std::to_string(st.m->get_number_of_columns()) +
           " expected " + std::to_string(expectedCount));
    auto lightPart = [&]() {
    // first the queries that do not apply the lazy swaps
    for (auto& kv : st.cols) {
      unsigned c = kv.first;
      bool z = is_zero(kv.second);
      if (st.m->is_zero_column(c) != z)
        fail(std::string(who) + ": is_zero_column(" + std::to_string(c) + ") = " + std::to_string(!z) + " expected " +
             std::to_string(z) + " model " + show(kv.second));
      for (unsigned r = 0; r < NR + 2; ++r) {
        bool ze = r >= NR || kv.second[r] == 0;
        if (st.m->is_zero_entry(c, r) != ze)
          fail(std::string(who) + ": is_zero_entry(" + std::to_string(c) + ", " + std::to_string(r) + ") = " +
               std::to_string(!ze) + " expected " + std::to_string(ze) + " model " + show(kv.second));
      }
    }
    if constexpr (!Map && !RA && !Comp) {  // holes of the vector container read as empty columns
      for (unsigned c = 0; c < st.next; ++c)
        if (!st.cols.count(c)) {
          if (!st.m->is_zero_column(c)) fail(std::string(who) + ": hole " + std::to_string(c) + " not zero");
        }
    }
    };
    auto deepPart = [&]() {
    for (auto& kv : st.cols) {
      unsigned c = kv.first;
      const auto& col = st.m->get_column(c);
      st.pendingRowSwap = st.pendingAnySwap = false;
      auto content = col.get_content(NR);
      Dense got(content.begin(), content.end());
      if (got != kv.second)
        fail(std::string(who) + ": get_column(" + std::to_string(c) + ").get_content = " + show(got) + " expected " +
             show(kv.second));
      // content up to the pivot
      auto content2 = col.get_content();
      int piv = -1;
      for (unsigned r = 0; r < NR; ++r)
        if (kv.second[r]) piv = r;
      if constexpr (CT != Column_types::VECTOR) {  // lazily erased entries count for the default length (documented)
        if (content2.size() != unsigned(piv + 1))
          fail(std::string(who) + ": get_content() of column " + std::to_string(c) + " has length " +
               std::to_string(content2.size()) + " expected " + std::to_string(piv + 1));
      }
      for (unsigned r = 0; r < content2.size() && r < NR; ++r)
        if (content2[r] != kv.second[r]) fail(std::string(who) + ": get_content() differs");
      if constexpr (CT != Column_types::HEAP && CT != Column_types::VECTOR) {
        Dense it(NR, 0);
        unsigned n = 0;
        int last = -1;
        for (const auto& e : col) {
          unsigned v = 1;
          if constexpr (!Z2) v = e.get_element();
          if (e.get_row_index() >= NR) fail(std::string(who) + ": entry with a row out of the model");
          if (it[e.get_row_index()] != 0) fail(std::string(who) + ": row listed twice in a column");
          it[e.get_row_index()] = v;
          if (v == 0) fail(std::string(who) + ": stored zero entry");
          if constexpr (CT != Column_types::UNORDERED_SET) {
            if (int(e.get_row_index()) <= last) fail(std::string(who) + ": column not ordered");
            last = e.get_row_index();
          }
          if constexpr (RA && !Comp) {
            if (e.get_column_index() != c)
              fail(std::string(who) + ": entry of column " + std::to_string(c) + " says column " +
                   std::to_string(e.get_column_index()));
          }
          ++n;
        }
        if (it != kv.second) fail(std::string(who) + ": iteration over column " + std::to_string(c) + " differs");
        if (col.size() != n) fail(std::string(who) + ": size() differs");
      }
      if constexpr (CT == Column_types::VECTOR) {
        unsigned n = 0;
        for (unsigned v : kv.second) n += (v != 0);
        if (col.size() != n)
          fail(std::string(who) + ": Vector_column::size() = " + std::to_string(col.size()) + " expected " +
               std::to_string(n));
      }
    }
    check_rows(st, who);
    };
    // the queries of the light part do not apply the lazy swaps, but some of them tidy up lazy columns (HEAP):
    // the order of the two parts is random
    if (!deep) {
      lightPart();
    } else if (coin(50)) {
      lightPart();
      deepPart();
    } else {
      deepPart();
      lightPart();
    }
  }

  void init(State& st) {
    unsigned k = rnd(3);
    unsigned n0 = rnd(4);
    std::vector<Content> columns;
    std::vector<Dense> denses;
    if (k == 1) {
      for (unsigned i = 0; i < n0; ++i) {
        Dense d = rnd_dense();
        if constexpr (Swaps) {
          if (avoidMask & 2) {
            for (unsigned r = n0; r < NR; ++r) d[r] = 0;  // the constructor only registers rows [0, nb columns)
          }
        }
        denses.push_back(d);
        columns.push_back(to_content(d));
      }
    }
    if (k == 0) {
      unsigned res = rnd(5);
      if (Comp && (avoidMask & 16) && coin(50)) res = 0;
      log << "Matrix(" << res << ", " << p << ")\n";
      st.m.reset(new M(res, p));
      st.reservedCtor = res != 0;
      if constexpr (Swaps) {
        st.regBound = res;
        if constexpr (Map)
          for (unsigned r = 0; r < res; ++r) st.regKeys.insert(r);
      }
      if constexpr (RA && !RemRows) st.rowBound = res;
    } else if (k == 1) {
      log << "Matrix(columns, " << p << "):";
      for (auto& d : denses) log << " " << show(d);
      log << "\n";
      st.m.reset(new M(columns, p));
      for (unsigned i = 0; i < n0; ++i) {
        st.cols[i] = denses[i];
        register_rows(st, denses[i]);
      }
      st.next = n0;
      if constexpr (Swaps) {
        st.regBound = std::max(st.regBound, n0);
        if constexpr (Map)
          for (unsigned r = 0; r < n0; ++r) st.regKeys.insert(r);
      }
      if constexpr (RA && !RemRows) st.rowBound = std::max(st.rowBound, n0);
      if constexpr (Comp) {
        st.cls.assign(n0, -1);
        for (unsigned i = 0; i < n0; ++i) {
          st.cls[i] = st.nextCls++;
          if (!is_zero(denses[i]))
            for (unsigned j = 0; j < i; ++j)
              if (denses[j] == denses[i]) {
                st.cls[i] = st.cls[j];
                break;
              }
        }
      }
    } else {
      log << "Matrix(); set_characteristic(" << p << ")\n";
      st.m.reset(new M());
      st.m->set_characteristic(p);
    }
  }

  bool run(unsigned long seed, unsigned steps, const char* name) {
    rng.seed(seed * 7919 + 13);
    static const unsigned primes[] = {2, 3, 5, 7, 11};
    p = Z2 ? 2 : primes[rnd(5)];
    s = State();
    twin.reset();
    log.str("");
    try {
      init(s);
      check(s, "main");
      for (unsigned i = 0; i < steps; ++i) {
        ++totalSteps;
        unsigned o = rnd(100);
        if (o < 22)
          op_insert(s);
        else if (o < 27)
          op_remove_last(s);
        else if (o < 32)
          op_remove_column(s);
        else if (o < 62)
          op_add(s);
        else if (o < 70)
          op_zero_entry(s);
        else if (o < 73)
          op_zero_column(s);
        else if (o < 82)
          op_swap_rows(s);
        else if (o < 88)
          op_swap_columns(s);
        else if (o < 92)
          op_erase_empty_row(s);
        else if (o < 96)
          op_copy_move(s);
        else if (o < 99)
          op_column_level(s);
        else {
          // nothing: two checks in a row
        }
        if (coin(35)) continue;  // no observation at all: the queries themselves tidy up lazy structures
        bool deep = coin(60);
        log << (deep ? "  [deep check]\n" : "  [light check]\n");
        check(s, "main", deep);
        if (twin) check(*twin, "twin", coin(30));
      }
      // everything is destroyed here: sanitizers look at the destructors
      twin.reset();
      s = State();
    } catch (const std::exception& e) {
      ++failures;
      if (std::getenv("FUZZ_RETHROW")) throw;
      std::cout << "FAIL " << name << " seed=" << seed << " p=" << p << ": " << e.what() << "\n";
      if (failures <= 6) std::cout << "---- history\n" << log.str() << "----\n";
      // the matrices may be in a bad state: leak them rather than running destructors
      (void)s.m.release();
      if (twin) (void)twin->m.release();
      return false;
    }
    return true;
  }
};

template <bool Z2, int RA, bool RemRows, bool Map, bool Swaps, bool Comp>
void run_config(unsigned nbSeeds, unsigned steps, unsigned long first) {
  using O = Opt<CT, Z2, RA, RemRows, Map, Swaps, Comp>;
  char name[200];
  std::snprintf(name, sizeof name, "%s z2=%d ra=%d remRows=%d map=%d swaps=%d comp=%d", STR(COLTYPE), Z2, RA, RemRows,
                Map, Swaps, Comp);
  int before = failures;
  for (unsigned long sd = first; sd < first + nbSeeds; ++sd) {
    Harness<O> h;
    h.run(sd, steps, name);
    if (failures - before >= 3) break;  // enough for this configuration
  }
  std::cout << (failures == before ? "ok   " : "BAD  ") << name << "\n" << std::flush;
}

template <bool Z2, int RA, bool RemRows>
void run_ra(unsigned n, unsigned st, unsigned long f) {
  run_config<Z2, RA, RemRows, false, false, false>(n, st, f);
  run_config<Z2, RA, RemRows, true, false, false>(n, st, f);
  run_config<Z2, RA, RemRows, false, true, false>(n, st, f);
  run_config<Z2, RA, RemRows, true, true, false>(n, st, f);
  if constexpr (CT != Column_types::HEAP) run_config<Z2, RA, RemRows, false, false, true>(n, st, f);
}

template <bool Z2>
void run_field(unsigned n, unsigned st, unsigned long f) {
  run_ra<Z2, 0, false>(n, st, f);
  if constexpr (CT != Column_types::HEAP) {
    run_ra<Z2, 1, false>(n, st, f);
    run_ra<Z2, 1, true>(n, st, f);
    run_ra<Z2, 2, false>(n, st, f);
    run_ra<Z2, 2, true>(n, st, f);
  }
}

int main(int argc, char** argv) {
  unsigned nbSeeds = argc > 1 ? std::atoi(argv[1]) : 40;
  unsigned steps = argc > 2 ? std::atoi(argv[2]) : 150;
  unsigned long first = argc > 3 ? std::atol(argv[3]) : 1;
  if (argc > 4) avoidMask = std::strtoul(argv[4], nullptr, 0);
#ifdef CFG
  // a single configuration: -DCFG="z2,rowAccess(0|1|2),removableRows,mapContainer,swaps,compression"
  run_config<CFG>(nbSeeds, steps, first);
#else
  run_field<true>(nbSeeds, steps, first);
  run_field<false>(nbSeeds, steps, first);
#endif
  std::cout << STR(COLTYPE) << ": " << totalSteps << " steps, " << totalChecks << " checks, " << failures
            << " failing runs\n";
  return failures == 0 ? 0 : 1;
}

// =====================================================================================================================
// RESULTS (worktree /repo, g++ 12, boost 1.83)
//
// Found with this program (each one minimised in defect_<n>.cpp, see defects.md); switching the corresponding avoid bit
// off makes the fuzzer find it again within a few seeds (checked with COLTYPE=LIST, 25 seeds x 150 steps per mask):
//   defect 1 (bit 1), 2 (bit 2), 3 (bit 4), 4 (bit 8), 5 (bit 16), 6 (bit 64), 7 (bit 128, HEAP), 8 (bit 256, needs
//   -D_GLIBCXX_DEBUG), 10 (bit 512).
//
// NEGATIVE RESULTS: with avoidMask = 0xffff (all reported defects avoided) nothing else was found in
//   * 408 configurations = 9 column types x {Z_2, Z_p} x row access {off, intrusive, intrusive+removable rows, set,
//     set+removable rows} x {vector, map, vector+swaps, map+swaps, compression} (HEAP: 8 configurations), each
//       - 30 seeds x 150 steps, -O0 -fsanitize=address,undefined                        (first version)
//       - 40 seeds x 200 steps (30 x 150 for SMALL_VECTOR, HEAP), same flags             (+ long columns of 8..15 entries,
//         operations through the mutable column returned by get_column: *=, clear(row), clear(), +=)
//       - 30 seeds x 180 steps, same flags + -include asan_pool_shim.h (entries allocated with new/delete so that ASan
//         sees destroyed entries), + 35% of the steps without any observation, light/deep checks in random order
//   * 258 configurations (LIST VECTOR SET NAIVE_VECTOR HEAP UNORDERED_SET), 25 seeds x 180 steps, -O0 -D_GLIBCXX_DEBUG
//   * 108 configurations (VECTOR HEAP INTRUSIVE_SET), 40 seeds x 200 steps, -O2 -DNDEBUG, no sanitizer
//   * the four single binaries VECTOR, NAIVE_VECTOR, UNORDERED_SET, INTRUSIVE_SET built exactly with
//     -O1 -g -fsanitize=address,undefined: 50 configurations x 40 seeds x 200 steps each (400000 steps, 360000 checks
//     per column type)
//   * the 80 compression configurations again with the final version: 60 seeds x 250 steps, ASan+UBSan + pool shim.
// A step = one of: insert_column / insert_boundary / insert_column(col, free index) ; remove_last ; remove_column ;
// add_to, multiply_target_and_add_to, multiply_source_and_add_to with source = column index | std::vector<Entry> |
// standalone Column object | reference returned by get_column, coefficients in {0, 1, -1, p, random in [-2p, 2p+2]},
// targets including empty columns ; zero_entry (present, absent, far away rows) ; zero_column ; swap_rows ;
// swap_columns ; erase_empty_row (of empty rows) ; copy construction (original dropped, or kept as a frozen twin that is
// re-checked at every later step), move construction (moved-from matrix checked empty, then reused), copy
// assignment onto a non-empty matrix, swap() ; column level *=, clear, +=.
// After a step (65% of them): get_number_of_columns, is_zero_column and is_zero_entry of every column and row (these do
// not apply the lazy swaps), and in 60% of the checks also get_column(i).get_content(n), get_content(), iteration over
// the column (order, duplicates, stored zeros, column index of the entries), size(), and every row through get_row
// (exact multiset of (column, value), row index of the entries, ordering for set rows; for the compressed matrix one
// entry per class).  Matrices are built by Matrix(n, p), Matrix(columns, p) or Matrix() + set_characteristic(p),
// p in {2, 3, 5, 7, 11}.
// NOT covered: row indices above 24, more than ~20 columns, characteristic above 11, Multi_field operators, holes of
// the vector container used as targets, get_row of rows that never existed in a removable row container.

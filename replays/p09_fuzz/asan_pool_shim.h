// Test instrumentation only (NOT part of the library, the library headers are untouched):
// replaces Gudhi::Simple_object_pool (a boost::pool, whose recycled chunks AddressSanitizer cannot see) by a
// new/delete allocator so that a use of a destroyed matrix entry becomes a heap-use-after-free report.
// Use with:  g++ ... -include ./asan_pool_shim.h ...
// The include guard below is the one of gudhi/Simple_object_pool.h, so the real header is skipped.
#ifndef SIMPLE_OBJECT_POOL_H_
#define SIMPLE_OBJECT_POOL_H_

#include <unordered_set>
#include <utility>
#include <cstddef>

namespace Gudhi {

template <class T>
class Simple_object_pool
{
 public:
  typedef T element_type;
  typedef std::size_t size_type;
  typedef std::ptrdiff_t difference_type;

  Simple_object_pool() {}
  Simple_object_pool(const Simple_object_pool&) {}
  Simple_object_pool(Simple_object_pool&&) {}
  Simple_object_pool& operator=(const Simple_object_pool&) { return *this; }
  ~Simple_object_pool() {
    // the real pool gives its memory back as a whole: objects still alive are not an error
    for (T* p : alive_) ::operator delete(static_cast<void*>(p));
  }

  template <class... U>
  T* construct(U&&... u) {
    void* mem = ::operator new(sizeof(T));
    T* p = new (mem) T(std::forward<U>(u)...);
    alive_.insert(p);
    return p;
  }

  void destroy(T* p) {
    p->~T();
    alive_.erase(p);
    ::operator delete(static_cast<void*>(p));
  }

 private:
  std::unordered_set<T*> alive_;
};

}  // namespace Gudhi

#endif  // SIMPLE_OBJECT_POOL_H_

// Defect 4: has_column_and_row_swaps + has_map_column_container: Base_swap::_orderRows visits the columns
// 0 .. get_number_of_columns()-1 with matrix_.at(i), but with the map container get_number_of_columns() is the number
// of stored columns and the indices need not be contiguous (remove_column, insert_column(col, index)): the first
// application of a lazy swap throws std::out_of_range (unordered_map::at) - or skips the columns whose index is
// >= the number of columns.
//
// Build: g++ -std=gnu++17 -O1 -g -fsanitize=address,undefined $(ls -d /repo/src/*/include | sed 's/^/-I/') defect_4.cpp -o defect_4
#include <iostream>
#include <vector>
#include <gudhi/Matrix.h>
#include <gudhi/persistence_matrix_options.h>
using namespace Gudhi::persistence_matrix;

struct Opt : Default_options<Column_types::INTRUSIVE_SET, true> {
  static const bool has_column_and_row_swaps = true;
  static const bool has_map_column_container = true;
};

int main() {
  using M = Matrix<Opt>;
  int bad = 0;
  {
    M m;
    m.insert_column(std::vector<unsigned>{0});
    m.insert_column(std::vector<unsigned>{1});
    m.remove_column(0);
    m.swap_rows(0, 1);  // column 1 = {0}
    try {
      auto c = m.get_column(1).get_content(2);
      bool ok = c[0] && !c[1];
      std::cout << "remove_column(0); swap_rows(0,1): column 1 = " << c[0] << " " << c[1] << " expected 1 0 "
                << (ok ? "ok" : "WRONG") << "\n";
      bad += !ok;
    } catch (const std::exception& e) {
      std::cout << "remove_column(0); swap_rows(0,1); get_column(1) threw " << e.what() << "  WRONG (expected 1 0)\n";
      ++bad;
    }
  }
  {
    M m;
    m.insert_column(std::vector<unsigned>{0}, 3);  // only column: index 3
    m.swap_rows(0, 1);                             // column 3 = {1}
    try {
      auto c = m.get_column(3).get_content(2);
      bool ok = !c[0] && c[1];
      std::cout << "insert_column(col, 3); swap_rows(0,1): column 3 = " << c[0] << " " << c[1] << " expected 0 1 "
                << (ok ? "ok" : "WRONG") << "\n";
      bad += !ok;
    } catch (const std::exception& e) {
      std::cout << "insert_column(col, 3); swap_rows(0,1); get_column(3) threw " << e.what()
                << "  WRONG (expected 0 1)\n";
      ++bad;
    }
  }
  std::cout << (bad ? "FAIL" : "PASS") << "\n";
  return bad ? 1 : 0;
}

// Defect 4: Toplex_map::remove_vertex(x) throws std::out_of_range when x is not a vertex of the complex.
//
// Documentation (Toplex_map.h l.87): "Remove the vertex and all its cofaces from the complex." - no precondition.
// The star of an absent vertex is empty, so nothing should happen; remove_simplex({x}) and contraction(x, y) accept
// absent vertices (they test t0.count first), and the lazy variant, which has no remove_vertex, does remove_simplex({x}).
// Cause: src/Toplex_map/include/gudhi/Toplex_map.h l.259, "for (... : Simplex_ptr_set(t0.at(x)))": t0.at(x) without
// the "if (t0.count(x))" guard that remove_simplex (l.156) has. It also happens for a vertex that WAS in the complex and
// has been removed (second call of remove_vertex on the same vertex), and on the empty complex.
//
// Build: g++ -std=gnu++17 -O1 -g -fsanitize=address,undefined -I/repo/src/Toplex_map/include defect_4.cpp -o defect_4
#include <gudhi/Toplex_map.h>
#include <cstdio>
#include <vector>
using V = std::size_t;
using S = std::vector<V>;
int main() {
  int bad = 0;
  Gudhi::Toplex_map m;
  m.insert_simplex(S{1, 2, 3});
  m.remove_vertex(2);  // fine
  std::printf("after remove_vertex(2): membership {1,3}=%d {2}=%d (expected 1 0)\n", (int)m.membership(S{1, 3}), (int)m.membership(S{2}));
  try {
    m.remove_vertex(2);  // vertex 2 is no longer there
    std::printf("second remove_vertex(2): no exception\n");
  } catch (const std::exception& e) { std::printf("second remove_vertex(2) threw: %s (expected: nothing happens)\n", e.what()); bad++; }
  try {
    m.remove_vertex(7);  // never was there
    std::printf("remove_vertex(7): no exception\n");
  } catch (const std::exception& e) { std::printf("remove_vertex(7) threw: %s (expected: nothing happens)\n", e.what()); bad++; }
  try {
    m.remove_simplex(S{7});  // the same request through remove_simplex is accepted
    std::printf("remove_simplex({7}): no exception\n");
  } catch (const std::exception& e) { std::printf("remove_simplex({7}) threw: %s\n", e.what()); bad++; }
  Gudhi::Toplex_map empty;
  try { empty.remove_vertex(0); std::printf("remove_vertex(0) on the empty complex: no exception\n"); }
  catch (const std::exception& e) { std::printf("remove_vertex(0) on the empty complex threw: %s\n", e.what()); bad++; }
  std::printf("%s\n", bad ? "FAIL" : "PASS");
  return bad ? 1 : 0;
}

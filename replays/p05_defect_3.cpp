// Defect 3 (minor, undefined behaviour): destroying a moved-from RU matrix with Z_p coefficients dereferences a null
// Column_settings pointer (RU_matrix::reset, RU_matrix.h:360, called by Matrix::~Matrix with the colSettings_ that the
// move constructor set to nullptr).
//
// Build:  g++ -std=gnu++17 -O1 -g -fsanitize=address,undefined $(ls -d /tmp/seed/P05/src/*/include | sed 's/^/-I/') \
//             defect_3.cpp -o defect_3 && ./defect_3
// UBSan prints
//   RU_matrix.h:360:20: runtime error: member access within null pointer of type 'struct Column_settings'
// The program re-executes itself with UBSAN_OPTIONS=halt_on_error=1 so that the report turns into a non-zero exit
// status; without -fsanitize=undefined it cannot observe anything and prints PASS.
#include <cstdlib>
#include <cstring>
#include <iostream>
#include <sys/wait.h>
#include <unistd.h>
#include <gudhi/Matrix.h>

using namespace Gudhi::persistence_matrix;

struct RU_zp_options : Default_options<Column_types::INTRUSIVE_SET, false> {
  static const bool has_column_pairings = true;
  static const bool can_retrieve_representative_cycles = true;  // R and U are both stored
};

static void scenario() {
  using M = Matrix<RU_zp_options>;
  M a(10, 5);
  std::vector<std::pair<unsigned int, unsigned int> > none, edge{{0, 4}, {1, 1}};
  a.insert_boundary(none);
  a.insert_boundary(none);
  a.insert_boundary(edge);
  M b(std::move(a));  // a.colSettings_ == nullptr from now on
  std::cout << "b has " << b.get_number_of_columns() << " columns, " << b.get_current_barcode().size() << " bar(s)"
            << std::endl;
  // ~Matrix(a): matrix_.reset(nullptr) -> RU_matrix::reset: operators_ = &(colSettings->operators) with colSettings == 0
}

int main(int argc, char** argv) {
  if (argc > 1 && !std::strcmp(argv[1], "child")) {
    scenario();
    return 0;
  }
  pid_t pid = fork();
  if (pid == 0) {
    setenv("UBSAN_OPTIONS", "halt_on_error=1:print_stacktrace=0", 1);
    char child[] = "child";
    char* args[] = {argv[0], child, nullptr};
    execv("/proc/self/exe", args);
    _exit(127);
  }
  int status = 0;
  waitpid(pid, &status, 0);
  bool ok = WIFEXITED(status) && WEXITSTATUS(status) == 0;
  std::cout << "expected: the moved-from matrix is destroyed without undefined behaviour; observed: "
            << (ok ? "clean exit" : "UBSan stopped the program in ~Matrix of the moved-from object") << "\n";
  std::cout << (ok ? "PASS" : "FAIL") << std::endl;
  return ok ? 0 : 1;
}

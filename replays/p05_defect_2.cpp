// Defect 2: Chain_matrix::remove_last() with has_vine_update picks the wrong column when the last cell of the
// filtration has ID 0 (i.e. the matrix holds a single cell with ID 0) and that cell is not stored at MatIdx 0.
//
// Build:  g++ -std=gnu++17 -O1 -g -fsanitize=address,undefined $(ls -d /tmp/seed/P05/src/*/include | sed 's/^/-I/') \
//             defect_2.cpp -o defect_2 && ./defect_2
//
// History: insert a vertex (ID 0), remove_last, insert a vertex again with the same (legal) ID 0, remove_last.
// The second remove_last dereferences matrix_.find(0) == matrix_.end(): null-pointer read / SEGV under the sanitizers
// (and undefined behaviour without them).  The IDENTIFIER-indexed chain matrix takes the same path.
// The program runs the crashing call in a child process and reports what happened.
#include <iostream>
#include <sys/wait.h>
#include <unistd.h>
#include <gudhi/Matrix.h>

using namespace Gudhi::persistence_matrix;

template <Column_indexation_types I>
struct Chain_vine_options : Default_options<Column_types::INTRUSIVE_SET, true> {
  static const bool is_of_boundary_type = false;  // chain matrix
  static const bool has_column_pairings = true;
  static const bool has_vine_update = true;
  static const bool has_removable_columns = true;
  static const bool has_map_column_container = true;  // required for remove_last with vine updates
  static const Column_indexation_types column_indexation_type = I;
};

template <class M>
int history() {
  M m;
  std::vector<unsigned int> empty;
  m.insert_boundary(0, empty, 0);  // vertex with ID 0  -> MatIdx 0
  m.remove_last();                 // fine
  m.insert_boundary(0, empty, 0);  // vertex with ID 0 again (IDs only have to increase along the filtration) -> MatIdx 1
  if (m.get_number_of_columns() != 1 || m.get_current_barcode().size() != 1) return 2;
  m.remove_last();  // looks for MatIdx 0, which does not exist
  if (m.get_number_of_columns() != 0 || m.get_current_barcode().size() != 0) return 3;
  return 0;
}

template <class M>
int in_child(const char* name) {
  std::cout << name << ": " << std::flush;
  pid_t pid = fork();
  if (pid == 0) {
    if (!freopen("/dev/null", "w", stderr)) _exit(4);
    _exit(history<M>());
  }
  int status = 0;
  waitpid(pid, &status, 0);
  if (WIFEXITED(status) && WEXITSTATUS(status) == 0) {
    std::cout << "second remove_last left an empty matrix, as expected\n";
    return 0;
  }
  if (WIFSIGNALED(status))
    std::cout << "second remove_last killed the process with signal " << WTERMSIG(status) << " (expected: empty matrix)\n";
  else
    std::cout << "second remove_last failed, child exit code " << WEXITSTATUS(status)
              << " (1 = sanitizer abort, 3 = wrong state; expected: empty matrix)\n";
  return 1;
}

int main() {
  int bad = 0;
  bad += in_child<Matrix<Chain_vine_options<Column_indexation_types::POSITION> > >("chain+vine / POSITION  ");
  bad += in_child<Matrix<Chain_vine_options<Column_indexation_types::CONTAINER> > >("chain+vine / CONTAINER ");
  bad += in_child<Matrix<Chain_vine_options<Column_indexation_types::IDENTIFIER> > >("chain+vine / IDENTIFIER");
  std::cout << (bad ? "FAIL" : "PASS") << std::endl;
  return bad ? 1 : 0;
}

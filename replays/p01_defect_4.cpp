// defect_4.cpp  -  (neighbouring operation, NOT in the operation list of property C01: reported as an extra)
// Simplex_tree::expansion(max_dim) on an EMPTY complex sets the dimension to 0 instead of -1.
//
// Simplex_tree.h:1582-1593
//     dimension_ = max_dim;
//     for (root members) if (has_children) siblings_expansion(children, max_dim - 1);   // lowers dimension_ to min k
//     dimension_ = max_dim - dimension_;
// With no vertex at all the loop does nothing and dimension_ becomes max_dim - max_dim = 0, with
// dimension_to_be_lowered_ == false, so dimension() and upper_bound_dimension() answer 0 for the empty complex and
// operator== with an empty Simplex_tree is false (operator== compares dimension_).
// This is what Rips_complex::create_complex does on an empty point cloud: insert_graph(empty graph); expansion(d).
//
// build: g++ -std=gnu++17 -O1 -g -fsanitize=address,undefined -I<gudhi includes> defect_4.cpp -o defect_4
#include <gudhi/Simplex_tree.h>
#include <boost/graph/adjacency_list.hpp>
#include <iostream>

int main() {
  typedef boost::adjacency_list<boost::vecS, boost::vecS, boost::directedS,
                                boost::property<Gudhi::vertex_filtration_t, double>,
                                boost::property<Gudhi::edge_filtration_t, double>> Graph;
  Gudhi::Simplex_tree<> st, empty;
  Graph g(0);
  st.insert_graph(g);
  st.expansion(3);
  bool ok = true;
  std::cout << "num_simplices() = " << st.num_simplices() << ", is_empty() = " << st.is_empty() << std::endl;
  std::cout << "dimension() = " << st.dimension() << " (expected -1)" << std::endl;
  ok &= st.dimension() == -1;
  std::cout << "st == Simplex_tree<>() : " << (st == empty) << " (expected 1)" << std::endl;
  ok &= (st == empty);
  std::cout << (ok ? "PASS" : "FAIL") << std::endl;
  return ok ? 0 : 1;
}

// RU matrix, IDENTIFIER indexing, vine updates, removable columns: vine swap of the last two cells then remove_last()
#include <gudhi/Matrix.h>
#include <iostream>
#include <set>
#include <tuple>
using namespace Gudhi::persistence_matrix;
template <bool mapc> struct Opt : Default_options<Column_types::INTRUSIVE_SET, true> {
  static const bool has_column_pairings = true;
  static const bool has_vine_update = true;
  static const bool has_removable_columns = true;
  static const bool has_map_column_container = mapc;
  static const Column_indexation_types column_indexation_type = Column_indexation_types::IDENTIFIER;
};
template <class M> int run(const char* name) {
  try {
    M m;
    std::vector<unsigned> e;
    m.insert_boundary(e); m.insert_boundary(e); m.insert_boundary(e);   // vertices 0 1 2
    m.vine_swap(1, 2);                                                  // cells of identifiers 1 and 2
    m.remove_last();                                                    // removes the cell now last: identifier 1
    std::cout << name << ": columns left " << m.get_number_of_columns();
    // the cells of identifiers 0 and 2 must still be addressable, 1 must be gone
    bool ok = true;
    try { m.get_column_dimension(0); m.get_column_dimension(2); } catch (...) { ok = false; }
    bool gone = false;
    try { m.get_column_dimension(1); } catch (...) { gone = true; }
    ok = ok && (gone || !M::Option_list::has_map_column_container) && m.get_number_of_columns() == 2;
    m.remove_last();  // now the cell of identifier 2
    ok = ok && m.get_number_of_columns() == 1 && m.get_column_dimension(0) == 0;
    std::cout << (ok ? " ok" : " WRONG") << std::endl;
    return !ok;
  } catch (const std::exception& e) { std::cout << name << ": threw " << e.what() << std::endl; return 1; }
}
int main() {
  int bad = run<Matrix<Opt<false>>>("vector") + run<Matrix<Opt<true>>>("map");
  std::cout << (bad ? "FAIL" : "PASS") << std::endl; return bad;
}

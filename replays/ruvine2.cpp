#include <gudhi/Matrix.h>
#include <gudhi/persistence_matrix_options.h>
#include <iostream>
#include <random>
using namespace Gudhi::persistence_matrix;
template<bool PAIR, bool MAP> struct Opt : Default_options<Column_types::INTRUSIVE_SET, true> {
  static const bool has_column_pairings = PAIR;
  static const bool has_vine_update = true;
  static const bool has_map_column_container = MAP;
  static const bool can_retrieve_representative_cycles = true;
};
template<class A, class B> int run(const char* name){
  std::mt19937 g(5); long cmp=0;
  for(int rep=0;rep<400;++rep){
    A a; B b;
    std::vector<std::vector<unsigned>> cells;
    int nv=3+g()%3;
    for(int i=0;i<nv;++i) cells.push_back({});
    for(int x=0;x<nv;++x) for(int y=x+1;y<nv;++y) if(g()%3) cells.push_back({(unsigned)x,(unsigned)y});
    for(auto&c:cells){ a.insert_boundary(c); b.insert_boundary(c);} 
    unsigned n=cells.size();
    for(int step=0;step<50;++step){
      unsigned i=g()%(n-1);
      bool face=false; for(auto x:cells[i+1]) if(x==i) face=true;
      if(face) continue;
      bool ra, rb;
      try{ ra=a.vine_swap(i); rb=b.vine_swap(i);} catch(std::exception& e){ std::cout<<name<<": threw "<<e.what()<<" rep "<<rep<<" step "<<step<<"\n"; return 1; }
      if(ra!=rb){ std::cout<<name<<": return values differ rep "<<rep<<" step "<<step<<"\n"; return 1; }
      std::swap(cells[i],cells[i+1]);
      for(auto&c:cells){ for(auto&x:c){ if(x==i) x=i+1; else if(x==i+1) x=i; } std::sort(c.begin(),c.end()); }
      for(unsigned k=0;k<n;++k){ ++cmp; if(a.get_column(k,true).get_content(n)!=b.get_column(k,true).get_content(n) || a.get_column(k,false).get_content(n)!=b.get_column(k,false).get_content(n)){ std::cout<<name<<": R/U differ at column "<<k<<" rep "<<rep<<" step "<<step<<"\n"; return 1; } }
    }
  }
  std::cout<<name<<": "<<cmp<<" columns compared ok\n"; return 0;
}
int main(){ int bad=0; bad+=run<Matrix<Opt<true,false>>,Matrix<Opt<false,false>>>("barcode vs no barcode (vector container)"); bad+=run<Matrix<Opt<true,true>>,Matrix<Opt<false,true>>>("barcode vs no barcode (map container)"); std::cout<<(bad?"FAIL":"PASS")<<"\n"; return bad; }

#include <gudhi/Matrix.h>
#include <gudhi/persistence_matrix_options.h>
#include <iostream>
using namespace Gudhi::persistence_matrix;
template<Column_types C> struct Plain : Default_options<C, true> { };
template<Column_types C> int run(const char* n, int kind){
  Matrix<Plain<C>> p;
  p.insert_column(std::vector<unsigned>{0,1,3});
  std::cout<<n<<" Z_2 kind "<<kind<<": "<<std::flush;
  if(kind==1) p.multiply_target_and_add_to(0,1,0); else p.multiply_source_and_add_to(1,0,0);   // expected zero
  std::cout<<"["; for(auto& e: p.get_column(0)) std::cout<<e.get_row_index()<<" "; std::cout<<"]"<<std::endl;
  return 0;
}
int main(int argc,char**argv){
  int w=atoi(argv[1]), k=atoi(argv[2]);
  switch(w){
   case 0: return run<Column_types::INTRUSIVE_SET>("intrusive_set",k);
   case 1: return run<Column_types::INTRUSIVE_LIST>("intrusive_list",k);
   case 2: return run<Column_types::LIST>("list",k);
   case 3: return run<Column_types::SET>("set",k);
   case 4: return run<Column_types::UNORDERED_SET>("unordered_set",k);
   case 5: return run<Column_types::VECTOR>("vector",k);
   case 6: return run<Column_types::NAIVE_VECTOR>("naive_vector",k);
   case 8: return run<Column_types::HEAP>("heap",k);
  }
}

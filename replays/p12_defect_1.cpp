// defect_1.cpp - GUDHI_COLLAPSE_USE_DENSE_ARRAY: an edge whose filtration value equals the "absent" sentinel of the
// dense neighbour table (+infinity for floating types, numeric_limits<F>::max() for integer types, e.g. 255 for
// unsigned char) makes the collapser treat NON-adjacent vertices as adjacent: edges that are not dominated are
// removed and the persistence diagram changes.  The sparse (default) table gives the right answer on the same input.
//
// Build: g++ -std=gnu++17 -O1 -g -fsanitize=address,undefined -I/tmp/seed/P12/src/Collapse/include \
//            -I/tmp/seed/P12/src/common/include defect_1.cpp -o defect_1 && ./defect_1
// (the file includes the header twice, once per neighbour-table implementation, by renaming the namespace)
//
// Cause: Flag_complex_edge_collapser.h
//   l.53-58  never() is the value stored for "no edge" in neighbors_data (l.74, l.92-93)
//   l.165    is_dominated_by (dense):  if(neighbors_dense(v,c) > f) return false;     -> never() > never() is false
//   l.266    push loop (dense):        if (neighbors_dense(dominator,w) > e_ngb_later_begin->first) still_dominated = false;
// With f == never() both tests answer "c is adjacent to v" for every pair, present or not (l.266 has the same flaw
// but every edge with that value that could lead there is already removed through l.165).
// Consequence: in the dense build EVERY edge whose value is never() and whose end points have at least one common
// neighbour is removed, dominated or not.
// The sparse code tests presence (l.186/189: iterator walk, l.271: wit == ngb_dom.end()) and is not affected.

#include <gudhi/Flag_complex_edge_collapser.h>  // sparse table -> Gudhi::collapse
#undef FLAG_COMPLEX_EDGE_COLLAPSER_H_
#define collapse collapse_dense
#define GUDHI_COLLAPSE_USE_DENSE_ARRAY
#include <gudhi/Flag_complex_edge_collapser.h>  // dense table  -> Gudhi::collapse_dense
#undef collapse

#include <algorithm>
#include <climits>
#include <cstdint>
#include <functional>
#include <iostream>
#include <limits>
#include <map>
#include <set>
#include <sstream>
#include <string>
#include <tuple>
#include <vector>

// ---- independent reference: brute-force persistence (Z/2) of the flag filtration of a weighted graph --------------
// returns the diagram as sorted strings "dim d [b, e)", zero-length intervals dropped; vertices are born before all.
template <class V, class F>
std::vector<std::string> diagram(std::vector<V> const& verts, std::vector<std::tuple<V, V, F>> const& edges) {
  int n = (int)verts.size();
  std::map<V, int> idx;
  for (int i = 0; i < n; ++i) idx[verts[i]] = i;
  std::vector<std::vector<char>> adj(n, std::vector<char>(n, 0));
  std::vector<std::vector<F>> w(n, std::vector<F>(n, F()));
  for (auto const& e : edges) {
    int a = idx.at(std::get<0>(e)), b = idx.at(std::get<1>(e));
    adj[a][b] = adj[b][a] = 1;
    w[a][b] = w[b][a] = std::get<2>(e);
  }
  struct S { std::vector<int> v; int lvl; F k; };  // lvl 0: vertex (born before everything)
  auto less = [](S const& a, S const& b) { return a.lvl != b.lvl ? a.lvl < b.lvl : (a.lvl == 1 && a.k < b.k); };
  std::vector<S> simp;
  std::vector<int> cur;
  std::function<void(int, int, F)> rec = [&](int start, int lvl, F k) {
    for (int x = start; x < n; ++x) {
      bool ok = true; int l2 = lvl; F k2 = k;
      for (int y : cur) {
        if (!adj[x][y]) { ok = false; break; }
        if (l2 == 0 || k2 < w[x][y]) { l2 = 1; k2 = w[x][y]; }
      }
      if (!ok) continue;
      cur.push_back(x); simp.push_back({cur, l2, k2}); rec(x + 1, l2, k2); cur.pop_back();
    }
  };
  rec(0, 0, F());
  std::stable_sort(simp.begin(), simp.end(), [&](S const& a, S const& b) { if (less(a, b)) return true; if (less(b, a)) return false; return a.v.size() < b.v.size(); });
  std::size_t m = simp.size();
  std::map<std::vector<int>, int> pos;
  for (std::size_t i = 0; i < m; ++i) pos[simp[i].v] = (int)i;
  std::vector<std::set<int>> col(m);
  std::vector<int> owner(m, -1);
  std::vector<char> paired(m, 0);
  std::vector<std::string> res;
  auto val = [](S const& s) { std::ostringstream o; if (s.lvl == 0) o << "-oo"; else o << +s.k; return o.str(); };
  for (std::size_t j = 0; j < m; ++j) {
    auto const& s = simp[j].v;
    if (s.size() > 1)
      for (std::size_t d = 0; d < s.size(); ++d) { std::vector<int> f; for (std::size_t t = 0; t < s.size(); ++t) if (t != d) f.push_back(s[t]); col[j].insert(pos.at(f)); }
    while (!col[j].empty() && owner[*col[j].rbegin()] >= 0)
      for (int x : col[owner[*col[j].rbegin()]]) if (!col[j].erase(x)) col[j].insert(x);
    if (!col[j].empty()) {
      int l = *col[j].rbegin(); owner[l] = (int)j; paired[l] = paired[j] = 1;
      if (less(simp[l], simp[j])) res.push_back("dim " + std::to_string(simp[l].v.size() - 1) + " [" + val(simp[l]) + ", " + val(simp[j]) + ")");
    }
  }
  for (std::size_t j = 0; j < m; ++j) if (!paired[j]) res.push_back("dim " + std::to_string(simp[j].v.size() - 1) + " [" + val(simp[j]) + ", never dies)");
  std::sort(res.begin(), res.end());
  return res;
}

template <class E> void show(const char* name, std::vector<E> const& g) {
  std::cout << "    " << name << ":";
  for (auto const& e : g) std::cout << " (" << +std::get<0>(e) << "," << +std::get<1>(e) << "," << +std::get<2>(e) << ")";
  std::cout << "\n";
}

static int failures = 0;

template <class F> void run(const char* type_name, F top) {
  using E = std::tuple<int, int, F>;
  struct Scenario { const char* name; std::vector<E> g; };
  std::vector<Scenario> sc = {
      // A: 4-cycle 0-1-2-3 at time 1, diagonal (0,2) at time `top`.  The diagonal kills the 1-cycle, its common
      //    neighbours 1 and 3 are not adjacent, so it is not dominated and must be kept.            (line 165)
      {"A: square + diagonal(top)", {E{0, 1, 1}, E{1, 2, 1}, E{2, 3, 1}, E{3, 0, 1}, E{0, 2, top}}},
      // B: (0,3) at `top` is not dominated (its common neighbours 1 and 4 are not adjacent) and must be kept; the
      //    dense table removes it (line 165 again), and then (0,1), which may only be delayed to `top` (at `top` the
      //    vertex 3 becomes a common neighbour of 0 and 1 and is not adjacent to the dominator 2), disappears as well.
      {"B: delayed edge", {E{0, 1, 5}, E{0, 2, 1}, E{1, 2, 1}, E{1, 3, 1}, E{0, 3, top}, E{0, 4, 1}, E{3, 4, 1}}},
  };
  for (auto const& s : sc) {
    std::cout << "[" << type_name << ", top = " << +top << "] " << s.name << "\n";
    std::set<int> vs;
    for (auto const& e : s.g) { vs.insert(std::get<0>(e)); vs.insert(std::get<1>(e)); }
    std::vector<int> verts(vs.begin(), vs.end());
    auto out_sparse = Gudhi::collapse::flag_complex_collapse_edges(s.g);
    auto out_dense = Gudhi::collapse_dense::flag_complex_collapse_edges(s.g);
    show("input        ", s.g);
    show("output sparse", out_sparse);
    show("output dense ", out_dense);
    auto d_in = diagram<int, F>(verts, s.g), d_sp = diagram<int, F>(verts, out_sparse), d_de = diagram<int, F>(verts, out_dense);
    auto pr = [](const char* n, std::vector<std::string> const& d) { std::cout << "    diagram " << n << ":"; for (auto const& x : d) std::cout << "  " << x; std::cout << "\n"; };
    pr("input (expected)", d_in);
    pr("sparse output   ", d_sp);
    pr("dense output    ", d_de);
    bool ok_sparse = d_in == d_sp, ok_dense = d_in == d_de;
    std::cout << "    sparse table: " << (ok_sparse ? "same diagram" : "DIAGRAM CHANGED") << "; dense table: " << (ok_dense ? "same diagram" : "DIAGRAM CHANGED") << "\n";
    if (!ok_sparse || !ok_dense) ++failures;
  }
}

int main() {
  run<int>("int", INT_MAX);
  run<unsigned char>("unsigned char", 255);
  run<double>("double", std::numeric_limits<double>::infinity());
  std::cout << "--- control: same graphs, top one step below the sentinel (expected: nothing changes) ---\n";
  int before = failures;
  run<int>("int", INT_MAX - 1);
  run<unsigned char>("unsigned char", 254);
  run<double>("double", std::numeric_limits<double>::max());
  int control_failures = failures - before;
  std::cout << "failing scenarios with top == sentinel: " << before << " (expected 0), control failures: " << control_failures << "\n";
  std::cout << (failures ? "FAIL" : "PASS") << std::endl;
  return failures ? 1 : 0;
}

// Pristine defect 2 (history dependent): re-imposing the lower-star filtration after the generating values were
// changed does not restore "value = min over the top cells containing the cell" (resp. "max over the vertices").
// impose_lower_star_filtration() only ever LOWERS the value of a face and the periodic
// impose_lower_star_filtration_from_vertices() only ever RAISES the value of a coface, so stale values of a previous
// imposition survive. The non-periodic impose_lower_star_filtration_from_vertices() overwrites and is correct.
//
// Build: g++ -std=gnu++17 -O1 $(ls -d /tmp/seed/C13c/src/*/include | sed 's/^/-I/') pristine_2.cpp -o pristine_2
#include <gudhi/Bitmap_cubical_complex.h>

#include <iostream>
#include <vector>

using Base = Gudhi::cubical_complex::Bitmap_cubical_complex_base<double>;
using Cubical = Gudhi::cubical_complex::Bitmap_cubical_complex<Base>;
using PBase = Gudhi::cubical_complex::Bitmap_cubical_complex_periodic_boundary_conditions_base<double>;
using PCubical = Gudhi::cubical_complex::Bitmap_cubical_complex<PBase>;

template <class C>
bool same(C& c, const std::vector<double>& expected, const char* name) {
  bool ok = true;
  std::cout << name << ":";
  for (std::size_t i = 0; i < c.num_simplices(); ++i) {
    std::cout << " " << c.get_cell_data(i);
    if (c.get_cell_data(i) != expected[i]) ok = false;
  }
  std::cout << "   expected:";
  for (double e : expected) std::cout << " " << e;
  std::cout << (ok ? "  ok" : "  WRONG") << std::endl;
  return ok;
}

int main() {
  int failures = 0;
  {  // 1d, two top cells 1 and 5 : cells are v e v e v
    Cubical c({2}, {1., 5.});
    failures += !same(c, {1, 1, 1, 5, 5}, "top cells {1,5}                   ");
    auto it = c.top_dimensional_cells_iterator_begin();
    c.get_cell_data(*it) = 7.;  // raise the first top cell
    c.impose_lower_star_filtration();
    failures += !same(c, {7, 7, 5, 5, 5}, "top cells {7,5} after re-imposing ");
  }
  {  // 1d, three vertices, non periodic : this sibling is correct
    Cubical c({3}, {1., 5., 2.}, false);
    auto it = c.vertices_iterator_begin();
    ++it;
    c.get_cell_data(*it) = 0.;  // lower the middle vertex
    c.impose_lower_star_filtration_from_vertices();
    failures += !same(c, {1, 1, 0, 2, 2}, "vertices {1,0,2} non periodic      ");
  }
  {  // 1d, three vertices, periodic : cells are v e v e v e
    PCubical c({3}, {1., 5., 2.}, {true}, false);
    auto it = c.vertices_iterator_begin();
    ++it;
    c.get_cell_data(*it) = 0.;  // lower the middle vertex
    c.impose_lower_star_filtration_from_vertices();
    failures += !same(c, {1, 1, 0, 2, 2, 2}, "vertices {1,0,2} periodic          ");
  }
  std::cout << (failures ? "FAIL" : "PASS") << std::endl;
  return failures ? 1 : 0;
}

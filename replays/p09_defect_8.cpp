// Defect 8 (undefined behaviour, diagnosed by the debug mode of libstdc++): Base_swap::swap_rows with the map
// column container (the swap dictionaries are std::unordered_map) keeps using an iterator of indexToRow_ after
// an emplace into indexToRow_ that rehashes the table:
//     if (it1 == indexToRow_.end()) {
//       indexToRow_.emplace(rowIndex1, it2->second);   // may rehash: it2 is invalidated
//       rowToIndex_.at(it2->second) = rowIndex1;       // dereferences it2
//       indexToRow_.erase(it2);                        // erases through it2
// (and the symmetric branch for it2 == end()).  Reached when one of the two rows is unknown to the dictionary and the
// dictionary is exactly at its load limit (13 known rows with libstdc++).  With the release containers of libstdc++
// the node survives the rehash and the result is the expected one; the standard makes it undefined behaviour
// ([unord.req]: rehashing invalidates iterators) and -D_GLIBCXX_DEBUG aborts with
// "attempt to dereference a singular iterator".
//
// Build: g++ -std=gnu++17 -O0 -g -D_GLIBCXX_DEBUG $(ls -d /repo/src/*/include | sed 's/^/-I/') defect_8.cpp -o defect_8
// Run:   ./defect_8    -> aborts inside Base_swap::swap_rows (exit status 134); prints PASS if the call returns.
#include <iostream>
#include <vector>
#include <gudhi/Matrix.h>
#include <gudhi/persistence_matrix_options.h>
using namespace Gudhi::persistence_matrix;

struct Opt : Default_options<Column_types::INTRUSIVE_SET, true> {
  static const bool has_column_and_row_swaps = true;
  static const bool has_map_column_container = true;
};

int main() {
  using M = Matrix<Opt>;
  M m;
  std::vector<unsigned> col;
  for (unsigned r = 0; r < 13; ++r) col.push_back(r);  // 13 rows known to the swap dictionaries
  m.insert_column(col);
  std::cout << "swap_rows(100, 0): row 100 is not in the dictionary, row 0 is" << std::endl;
  m.swap_rows(100, 0);  // _GLIBCXX_DEBUG: Error: attempt to dereference a singular iterator.
  auto c = m.get_column(0).get_content(101);
  bool ok = c[100] && !c[0];
  std::cout << "entry (0,100) = " << c[100] << ", entry (0,0) = " << c[0] << " expected 1 0\n";
  std::cout << (ok ? "PASS (the invalid iterator was not diagnosed: build with -D_GLIBCXX_DEBUG)" : "FAIL") << "\n";
  return ok ? 0 : 1;
}

// Pristine: re-reading the text output of a Simplex_tree does not rebuild an equal tree when a filtration value
// needs more than 6 significant digits (operator<< prints with the default stream precision), nor when it is infinite.
#include <gudhi/Simplex_tree.h>
#include <iostream>
#include <sstream>
#include <limits>
int main() {
  bool ok = true;
  {
    Gudhi::Simplex_tree<> st;
    st.insert_simplex_and_subfaces({0, 1}, 0.1234567891);
    std::stringstream ss;
    ss << st;
    Gudhi::Simplex_tree<> read;
    ss >> read;
    if (!(read == st)) {
      std::cout << "precision: re-read tree differs: filtration " << read.filtration(read.find({0, 1})) << " vs 0.1234567891 (text was: " << ss.str() << ")\n";
      ok = false;
    }
  }
  {
    Gudhi::Simplex_tree<> st;
    st.insert_simplex_and_subfaces({0, 1}, 1.5);
    st.insert_simplex_and_subfaces({2}, std::numeric_limits<double>::infinity());
    std::stringstream ss;
    ss << st;
    Gudhi::Simplex_tree<> read;
    ss >> read;
    if (!(read == st)) {
      std::cout << "infinity: re-read tree has " << read.num_simplices() << " simplices, the written one " << st.num_simplices() << "\n";
      ok = false;
    }
  }
  std::cout << (ok ? "PASS" : "FAIL") << std::endl;
  return ok ? 0 : 1;
}

// Defect 1: a REFUSED characteristic leaves the run-time Z_p classes corrupted.
//   Shared_Zp_field_element<>::initialize, Zp_field_operators<>::set_characteristic and persistent_cohomology::Field_Zp::init
//   overwrite the table of inverses (and, for Field_Zp, the characteristic itself) BEFORE / WHILE they find out that the
//   argument is not a prime. They throw std::invalid_argument ("refused"), but the object (or the shared static state) is
//   left half-written: it still claims characteristic 17 while its inverse table is the one of Z/15Z, so x * x^-1 != 1.
// Build: g++ -std=gnu++17 -O1 -g -fsanitize=address,undefined -I<repo>/src/Persistence_matrix/include -I<repo>/src/Persistent_cohomology/include defect_1.cpp -o defect_1
#include <cassert>
#include <iostream>
#include <stdexcept>
#include <vector>
#include <gudhi/Fields/Zp_field_shared.h>
#include <gudhi/Fields/Zp_field_operators.h>
#include <gudhi/Persistent_cohomology/Field_Zp.h>

using namespace Gudhi::persistence_fields;

int main() {
  int failures = 0;
  {  // ---- Shared_Zp_field_element
    using F = Shared_Zp_field_element<>;
    F::initialize(17);
    bool refused = false;
    try { F::initialize(15); } catch (const std::invalid_argument&) { refused = true; }
    std::cout << "Shared_Zp_field_element: initialize(15) refused=" << refused << ", get_characteristic()=" << F::get_characteristic() << std::endl;
    F x(2);
    F inv = x.get_inverse();
    std::cout << "  inverse of 2 = " << inv.get_value() << " (expected 9), 2 * inverse = " << (x * inv).get_value() << " (expected 1)" << std::endl;
    if (!refused || F::get_characteristic() != 17 || (x * inv).get_value() != 1) ++failures;
  }
  {  // ---- Zp_field_operators
    Zp_field_operators<> op(17);
    bool refused = false;
    try { op.set_characteristic(15); } catch (const std::invalid_argument&) { refused = true; }
    std::cout << "Zp_field_operators: set_characteristic(15) refused=" << refused << ", get_characteristic()=" << op.get_characteristic() << std::endl;
    unsigned int inv = op.get_inverse(2);
    std::cout << "  inverse of 2 = " << inv << " (expected 9), 2 * inverse = " << op.multiply(2, inv) << " (expected 1)" << std::endl;
    if (!refused || op.get_characteristic() != 17 || op.multiply(2, inv) != 1) ++failures;
  }
  {  // ---- persistent_cohomology::Field_Zp
    Gudhi::persistent_cohomology::Field_Zp f;
    f.init(17);
    bool refused = false;
    try { f.init(15); } catch (const std::invalid_argument&) { refused = true; }
    std::cout << "Field_Zp: init(15) refused=" << refused << ", characteristic()=" << f.characteristic() << " (expected 17: 15 was refused)" << std::endl;
    int inv = f.inverse(2, 17).first;
    std::cout << "  inverse of 2 = " << inv << ", 2 * inverse = " << f.times(2, inv) << " (expected 1)" << std::endl;
    // note: f.inverse(3, 17) would now read inverse_[3] beyond the size (2) of the vector (inside its reserved capacity)
    if (!refused || f.characteristic() != 17 || f.times(2, inv) != 1) ++failures;
  }
  std::cout << (failures ? "FAIL" : "PASS") << " (" << failures << " of 3 classes corrupted by a refused characteristic)" << std::endl;
  return failures ? 1 : 0;
}

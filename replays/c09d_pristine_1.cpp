// Pristine finding (C09d): out-of-range read in get_row() for a row which the lazy row swaps know but the
// (vector, non removable) row container does not.
//
// Base matrix, row access with non removable rows (rows = std::vector<Row>), lazy row/column swaps.
//   columns (0) and (1,2): the row container has 3 rows.
//   swap_rows(3, 0): accepted, the swap dictionaries grow to 4 rows; the row container would grow when the swap is
//                    applied, because the entry of row 0 moves to row 3...
//   zero_column(0) : ...but the entry is removed before the swap is applied.
//   get_row(3)     : in the dense model row 3 exists (it took part in a swap) and is empty;
//                    Matrix_row_access::get_row does rows_->operator[](3) on a vector of size 3.
//
// Build with -D_GLIBCXX_ASSERTIONS (std::vector::operator[] then aborts on the out-of-range index) or with
// -fsanitize=address (heap-buffer-overflow). Without either the read is silent undefined behaviour.
#include <unistd.h>
#include <csignal>
#include <cstdlib>
#include <iostream>
#include <vector>

#include <gudhi/persistence_matrix_options.h>
#include <gudhi/Matrix.h>

using Gudhi::persistence_matrix::Column_types;
using Gudhi::persistence_matrix::Default_options;
using Gudhi::persistence_matrix::Matrix;

struct Options : Default_options<Column_types::VECTOR, true> {
  static const bool has_column_and_row_swaps = true;
  static const bool has_row_access = true;
  static const bool has_intrusive_rows = false;
  static const bool has_removable_rows = false;
};

extern "C" void on_abort(int) {
  const char msg[] = "FAIL: get_row(3) indexed the row container out of range (abort from _GLIBCXX_ASSERTIONS)\n";
  if (write(1, msg, sizeof(msg) - 1)) {}
  _Exit(1);
}



int main() {
  std::signal(SIGABRT, on_abort);

  Matrix<Options> m;
  m.insert_column(std::vector<unsigned int>{0});
  m.insert_column(std::vector<unsigned int>{1, 2});
  m.swap_rows(3, 0);
  m.zero_column(0);

  std::size_t n = 0;
  for (const auto& entry : m.get_row(3)) {  // dense model: empty row
    (void)entry;
    ++n;
  }
  if (n != 0) {
    std::cout << "FAIL: row 3 lists " << n << " entries, the dense model has none" << std::endl;
    return 1;
  }
#ifdef _GLIBCXX_ASSERTIONS
  std::cout << "PASS" << std::endl;
#else
  std::cout << "PASS (but built without -D_GLIBCXX_ASSERTIONS: an out-of-range read is not detected)" << std::endl;
#endif
  return 0;
}

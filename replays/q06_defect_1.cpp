// Defect 1: RU matrix (vine updates, map column container, removable columns) whose cells carry custom
// identifiers: remove_last() / remove_maximal_cell() forget the lazy-swap bookkeeping of the row whose LABEL equals
// the POSITION of the removed column (Boundary_matrix::remove_last calls erase_empty_row(nextInsertIndex_), a position,
// while erase_empty_row expects a row index, i.e. a cell identifier). The row that loses its entry in
// indexToRow_/rowToIndex_ is a row of another, still present cell:
//   * is_zero_entry() then answers "zero" for its non-zero entries,
//   * the next vine swap touching that row throws std::out_of_range (or leaves R inconsistent).
//
// Build: g++ -std=gnu++17 -O1 -g -fsanitize=address,undefined -I<gudhi>/src/Persistence_matrix/include
//            -I<gudhi>/src/common/include defect_1.cpp -o defect_1
#include <gudhi/Matrix.h>
#include <gudhi/persistence_matrix_options.h>

#include <iostream>
#include <vector>

using namespace Gudhi::persistence_matrix;

struct Opt : Default_options<Column_types::INTRUSIVE_SET, true> {
  static const bool has_column_pairings = true;
  static const bool has_vine_update = true;
  static const bool has_removable_columns = true;
  static const bool has_map_column_container = true;
};

template <class M>
std::vector<unsigned> rows_of(M& m, unsigned col, unsigned len) {
  std::vector<unsigned> r;
  auto v = m.get_column(col).get_content(len);
  for (unsigned i = 0; i < v.size(); ++i)
    if (v[i]) r.push_back(i);
  return r;
}

int main() {
  int bad = 0;
  Matrix<Opt> m;
  using B = std::vector<unsigned>;
  // identifiers strictly increasing along the filtration, as documented for insert_boundary(cellIndex, boundary)
  m.insert_boundary(1, B{});       // position 0: vertex a, row 1
  m.insert_boundary(3, B{});       // position 1: vertex b, row 3
  m.insert_boundary(4, B{1, 3});   // position 2: edge ab, row 4
  m.insert_boundary(6, B{});       // position 3: vertex c, row 6   (3 == label of the row of vertex b)

  std::cout << "R column of the edge before remove_last: ";
  for (unsigned r : rows_of(m, 2, 8)) std::cout << r << " ";
  std::cout << " is_zero_entry(2, 3) = " << m.is_zero_entry(2, 3) << " (expected 0)\n";

  m.remove_last();  // removes vertex c (position 3); a fresh matrix on {a, b, ab} is expected

  std::cout << "R column of the edge after remove_last:  ";
  for (unsigned r : rows_of(m, 2, 8)) std::cout << r << " ";
  bool z = m.is_zero_entry(2, 3);
  std::cout << " is_zero_entry(2, 3) = " << z << " (expected 0)\n";
  if (z) {
    std::cout << "FAIL: is_zero_entry(2, 3) says the entry (edge ab, vertex b) is zero although the column contains row 3\n";
    ++bad;
  }

  // the two vertices are not face/coface of each other: the transposition is legal. On a fresh matrix the barcode
  // becomes: vertex b at position 0 essential, vertex a at position 1 killed by the edge: [0, inf) [1, 2)
  try {
    m.vine_swap(0);
    std::cout << "barcode after vine_swap(0): ";
    bool okEss = false, okFin = false;
    unsigned n = 0;
    for (const auto& bar : m.get_current_barcode()) {
      std::cout << "[" << bar.dim << ": " << bar.birth << ", " << (int)bar.death << ") ";
      ++n;
      if (bar.birth == 0 && bar.death == (unsigned)-1) okEss = true;
      if (bar.birth == 1 && bar.death == 2) okFin = true;
    }
    std::cout << "\n";
    auto rows = rows_of(m, 2, 8);
    std::cout << "R column of the edge after the swap: ";
    for (unsigned r : rows) std::cout << r << " ";
    std::cout << "(expected 1 3)\n";
    if (!(n == 2 && okEss && okFin) || rows != std::vector<unsigned>{1, 3}) {
      std::cout << "FAIL: state after the swap differs from the matrix rebuilt from scratch\n";
      ++bad;
    }
  } catch (const std::exception& e) {
    std::cout << "FAIL: vine_swap(0) after remove_last threw: " << e.what() << "\n";
    ++bad;
  }
  std::cout << (bad ? "FAIL" : "PASS") << std::endl;
  return bad ? 1 : 0;
}

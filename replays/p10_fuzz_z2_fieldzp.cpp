// Differential test of Z2_field_element, Z2_field_operators (Persistence_matrix) and persistent_cohomology::Field_Zp
// against plain 64/128-bit integer arithmetic. See the COVERAGE comment at the end of the file.
#include <iostream>
#include <cassert>
#include <random>
#include <vector>
#include <limits>
#include <type_traits>
#include <stdexcept>
#include <gudhi/Fields/Z2_field.h>
#include <gudhi/Fields/Z2_field_operators.h>
#include <gudhi/Persistent_cohomology/Field_Zp.h>
using namespace Gudhi::persistence_fields;
typedef __int128 i128; typedef unsigned long long ull;
static long long nfail = 0, nchecks = 0;
static std::mt19937_64 rng(99);
static ull refmod(i128 v, ull p) { i128 r = v % (i128)p; if (r < 0) r += p; return (ull)r; }
#define CHECK(got, exp, ...) do { ++nchecks; ull g_ = (ull)(got), e_ = (ull)(exp); \
  if (g_ != e_) { if (++nfail < 60) { std::cout << "FAIL " << __LINE__ << ": got " << g_ << " expected " << e_ << " | "; __VA_ARGS__; std::cout << std::endl; } } } while (0)
static bool is_prime(ull n) { if (n < 2) return false; for (ull i = 2; i * i <= n; ++i) if (n % i == 0) return false; return true; }
template <class I> static std::vector<I> machine_ints() {
  std::vector<I> v; using L = std::numeric_limits<I>;
  i128 cands[] = {0, 1, 2, 3, -1, -2, -3, 127, 128, -128, -129, 255, 256, 32767, 32768, -32768, -32769, 65535, 65536, 2147483647LL, -2147483648LL, 2147483648LL, 4294967295LL, 4294967296LL, -4294967296LL, -4294967297LL};
  for (i128 c : cands) if (c >= (i128)L::min() && c <= (i128)L::max()) v.push_back((I)c);
  v.push_back(L::max()); v.push_back(L::min()); v.push_back(L::max() - 1); v.push_back(L::min() + 1);
  for (int i = 0; i < 10; ++i) v.push_back((I)rng());
  return v;
}
template <class I> void z2_elem() {
  using F = Z2_field_element;
  for (I v : machine_ints<I>()) { i128 V = (i128)v; ull rv = refmod(V, 2);
    F c(v); CHECK(c.get_value(), rv, std::cout << "Z2 ctor v=" << (long long)v << " size " << sizeof(I));
    F as; as = v; CHECK(as.get_value(), rv, std::cout << "Z2 assign v=" << (long long)v << " size " << sizeof(I) << (std::is_signed_v<I> ? "s" : "u"));
    for (int a = 0; a < 2; ++a) { F f(a);
      { F g(f); g += v; CHECK(g.get_value(), (a + rv) % 2, std::cout << "Z2 +=int"); } { F g(f); g -= v; CHECK(g.get_value(), (a + rv) % 2, std::cout << "Z2 -=int"); } { F g(f); g *= v; CHECK(g.get_value(), (a * rv) % 2, std::cout << "Z2 *=int"); }
      CHECK((f + v).get_value(), (a + rv) % 2, std::cout << "Z2 f+int"); CHECK((f - v).get_value(), (a + rv) % 2, std::cout << "Z2 f-int"); CHECK((f * v).get_value(), (a * rv) % 2, std::cout << "Z2 f*int");
      CHECK((ull)(v + f), (a + rv) % 2, std::cout << "Z2 int+f v=" << (long long)v); CHECK((ull)(v - f), (a + rv) % 2, std::cout << "Z2 int-f v=" << (long long)v); CHECK((ull)(v * f), (a * rv) % 2, std::cout << "Z2 int*f v=" << (long long)v);
      bool eq = (ull)a == rv; CHECK(f == v, eq, std::cout << "Z2 f==int v=" << (long long)v); CHECK(v == f, eq, std::cout << "Z2 int==f"); CHECK(f != v, !eq, std::cout << "Z2 f!=int"); CHECK(v != f, !eq, std::cout << "Z2 int!=f"); }
    CHECK(Z2_field_operators::get_value(v), rv, std::cout << "Z2op get_value v=" << (long long)v); }
}
template <class U> void z2_ops() {
  using O = Z2_field_operators; O op;
  auto vals = machine_ints<U>();
  for (U a : vals) { ull ra = (ull)a % 2;
    CHECK(op.get_inverse(a), ra, std::cout << "Z2op inverse"); auto pi = op.get_partial_inverse(a, 2u); CHECK(pi.first, ra, std::cout << "Z2op pinv"); CHECK(pi.second, 2, std::cout << "Z2op pinvQ");
    for (U b : vals) { ull rb = (ull)b % 2;
      CHECK(op.add(a, b), (ra + rb) % 2, std::cout << "Z2op add"); CHECK(op.subtract(a, b), (ra + rb) % 2, std::cout << "Z2op sub"); CHECK(op.multiply(a, b), ra * rb, std::cout << "Z2op mul"); CHECK(op.are_equal(a, b), ra == rb, std::cout << "Z2op eq");
      { U x = a; op.add_inplace(x, b); CHECK(x, (ra + rb) % 2, std::cout << "Z2op add_inplace"); } { U x = a; op.subtract_inplace_front(x, b); CHECK(x, (ra + rb) % 2, std::cout << "Z2op sub_front"); }
      { U x = b; op.subtract_inplace_back(a, x); CHECK(x, (ra + rb) % 2, std::cout << "Z2op sub_back"); } { U x = a; op.multiply_inplace(x, b); CHECK(x, ra * rb, std::cout << "Z2op mul_inplace"); }
      for (U c : {(U)0, (U)1, (U)vals[rng() % vals.size()], (U)std::numeric_limits<U>::max()}) { ull rc = (ull)c % 2;
        CHECK(op.multiply_and_add(a, b, c), (ra * rb + rc) % 2, std::cout << "Z2op maa"); CHECK(op.add_and_multiply(a, b, c), ((ra + rb) * rc) % 2, std::cout << "Z2op aam");
        { U x = a; op.multiply_and_add_inplace_front(x, b, c); CHECK(x, (ra * rb + rc) % 2, std::cout << "Z2op maa_front"); } { U x = c; op.multiply_and_add_inplace_back(a, b, x); CHECK(x, (ra * rb + rc) % 2, std::cout << "Z2op maa_back"); }
        { U x = a; op.add_and_multiply_inplace_front(x, b, c); CHECK(x, ((ra + rb) * rc) % 2, std::cout << "Z2op aam_front"); } { U x = c; op.add_and_multiply_inplace_back(a, b, x); CHECK(x, ((ra + rb) * rc) % 2, std::cout << "Z2op aam_back"); } } } }
}
void z2_basic() {
  using F = Z2_field_element;
  CHECK(F::get_characteristic(), 2, std::cout << "Z2 char"); CHECK(Z2_field_operators::get_characteristic(), 2, std::cout << "Z2op char"); CHECK(F().get_value(), 0, std::cout << "Z2 default");
  CHECK(F::get_additive_identity().get_value(), 0, std::cout << "Z2 addid"); CHECK(F::get_multiplicative_identity().get_value(), 1, std::cout << "Z2 multid"); CHECK(F::get_partial_multiplicative_identity(2).get_value(), 1, std::cout << "Z2 pmultid");
  CHECK(Z2_field_operators::get_additive_identity(), 0, std::cout << "Z2op addid"); CHECK(Z2_field_operators::get_multiplicative_identity(), 1, std::cout << "Z2op multid"); CHECK(Z2_field_operators::get_partial_multiplicative_identity(2), 1, std::cout << "Z2op pmultid");
  for (int a = 0; a < 2; ++a) { F fa(a); CHECK((unsigned int)fa, a, std::cout << "Z2 cast"); CHECK(fa.get_inverse().get_value(), a, std::cout << "Z2 inverse"); auto pi = fa.get_partial_inverse(2); CHECK(pi.first.get_value(), a, std::cout << "Z2 pinv"); CHECK(pi.second, 2, std::cout << "Z2 pinvQ");
    { F m(fa); F n(std::move(m)); CHECK(n.get_value(), a, std::cout << "Z2 move"); CHECK(m.get_value(), 0, std::cout << "Z2 moved-from"); m = n; CHECK(m.get_value(), a, std::cout << "Z2 assign"); F z; swap(z, m); CHECK(z.get_value(), a, std::cout << "Z2 swap"); }
    for (int b = 0; b < 2; ++b) { F fb(b); CHECK((fa + fb).get_value(), (a + b) % 2, std::cout << "Z2 add"); CHECK((fa - fb).get_value(), (a + b) % 2, std::cout << "Z2 sub"); CHECK((fa * fb).get_value(), a * b, std::cout << "Z2 mul"); CHECK(fa == fb, a == b, std::cout << "Z2 =="); CHECK(fa != fb, a != b, std::cout << "Z2 !=");
      { F g(fa); g += fb; CHECK(g.get_value(), (a + b) % 2, std::cout << "Z2 +="); } { F g(fa); g -= fb; CHECK(g.get_value(), (a + b) % 2, std::cout << "Z2 -="); } { F g(fa); g *= fb; CHECK(g.get_value(), a * b, std::cout << "Z2 *="); } } }
}

void field_zp(int p, bool exhaustive) {
  Gudhi::persistent_cohomology::Field_Zp f; f.init(3); f.init(p);  // re-initialisation
  CHECK(f.characteristic(), p, std::cout << "Field_Zp char"); CHECK(f.additive_identity(), 0, std::cout << "addid"); CHECK(f.multiplicative_identity(), 1, std::cout << "multid"); CHECK(f.multiplicative_identity(p), 1, std::cout << "multid(P)");
  std::vector<int> ops; if (exhaustive) for (int i = 0; i < p; ++i) ops.push_back(i); else { for (int x : {0, 1, 2, 3, p - 1, p - 2, p - 3, p / 2, p / 2 + 1, p / 3, 255, 256, 32767, 32768}) if (x < p && x >= 0) ops.push_back(x); for (int i = 0; i < 60; ++i) ops.push_back(rng() % p); }
  for (int a : ops) { auto inv = f.inverse(a, p); CHECK(inv.second, p, std::cout << "Field_Zp inverse Q"); if (a == 0) CHECK(inv.first, 0, std::cout << "inv0"); else { CHECK(inv.first > 0 && inv.first < p, 1, std::cout << "inv range"); CHECK(refmod((i128)inv.first * a, p), 1 % p, std::cout << "Field_Zp inverse p=" << p << " a=" << a << " inv=" << inv.first); CHECK(f.times(a, inv.first), 1 % p, std::cout << "a*inv"); }
    for (int b : ops) { CHECK(f.plus_equal(a, b), refmod((i128)a + b, p), std::cout << "Field_Zp plus_equal p=" << p << " " << a << " " << b); CHECK(f.times(a, b), refmod((i128)a * b, p), std::cout << "Field_Zp times p=" << p << " " << a << " " << b);
      CHECK(f.times_minus(a, b), refmod(-(i128)a * b, p), std::cout << "Field_Zp times_minus p=" << p << " " << a << " " << b); } }
  for (int t = 0; t < (exhaustive && p <= 23 ? p * p * p : 5000); ++t) { int a, b, c; if (exhaustive && p <= 23) { a = t % p; b = t / p % p; c = t / p / p; } else { a = ops[rng() % ops.size()]; b = ops[rng() % ops.size()]; c = ops[rng() % ops.size()]; }
    CHECK(f.plus_times_equal(a, b, c), refmod((i128)a + (i128)b * c, p), std::cout << "Field_Zp plus_times_equal p=" << p << " " << a << " " << b << " " << c); }
}

int main(int argc, char** argv) {
  int mode = argc > 1 ? atoi(argv[1]) : 0;
  z2_basic();
  z2_elem<signed char>(); z2_elem<char>(); z2_elem<unsigned char>(); z2_elem<short>(); z2_elem<unsigned short>(); z2_elem<int>(); z2_elem<unsigned int>(); z2_elem<long>(); z2_elem<unsigned long>(); z2_elem<long long>(); z2_elem<unsigned long long>(); z2_elem<bool>();
  z2_ops<unsigned char>(); z2_ops<unsigned short>(); z2_ops<unsigned int>(); z2_ops<unsigned long>(); z2_ops<unsigned long long>(); z2_ops<bool>();
  std::cout << "Z2 done, checks so far " << nchecks << " failures " << nfail << std::endl;
  for (int p = 2; p < 400; ++p) if (is_prime(p)) field_zp(p, p < 200);
  for (int p : {509, 1021, 4099, 8191}) field_zp(p, false);
  if (mode >= 1) for (int p : {16381, 32749, 32771, 46327, 46337}) field_zp(p, false);
  std::cout << "Field_Zp primes done, checks so far " << nchecks << " failures " << nfail << std::endl;
  for (int c = -3; c < 3000; ++c) if (!is_prime(c < 0 ? 0 : c)) { Gudhi::persistent_cohomology::Field_Zp f; bool t = false; try { f.init(c); } catch (const std::invalid_argument&) { t = true; } CHECK(t, 1, std::cout << "Field_Zp refuses " << c); }
  for (int c : {46338, 46339, 46349, 65521, 2147483647, -2147483647 - 1, 46336, 46335, 46331, 215 * 215, 211 * 211, 199 * 211}) { Gudhi::persistent_cohomology::Field_Zp f; bool t = false; try { f.init(c); } catch (const std::invalid_argument&) { t = true; } CHECK(t, 1, std::cout << "Field_Zp refuses " << c); }
  std::cout << nchecks << " checks, " << nfail << " failures" << std::endl;
  std::cout << (nfail ? "FAIL" : "PASS") << std::endl;
  return nfail ? 1 : 0;
}

/* COVERAGE (library exactly as in the worktree, g++ 12.2, -std=gnu++17)
   Build: g++ -std=gnu++17 -O1 -g -fsanitize=address,undefined <includes> fuzz_z2_fieldzp.cpp -o fuzz_z2 ; run: ./fuzz_z2 1
   PASSED WITHOUT FINDING ANYTHING (sanitizers, and -O2 -DNDEBUG): 2 915 251 checks.
   - Z2_field_element: construction / assignment / += -= *= + - * == != with every native integer type in both operand orders
     (values 0 +-1 +-2 +-3, the limits of every type, powers of two around 2^7 2^8 2^15 2^16 2^31 2^32, random), element-element
     operations, inverse, partial inverse, identities, cast, copy / move / swap. Z2_field_operators: get_value for every integer type;
     add, subtract, multiply, the six fused functions, all in-place forms, are_equal, get_inverse, get_partial_inverse for
     bool, unsigned char, unsigned short, unsigned int, unsigned long, unsigned long long on all pairs of ~35 values per type.
   - persistent_cohomology::Field_Zp: every prime below 400 (all pairs of residues for p < 200; all triples for plus_times_equal
     when p <= 23, 5000 random triples otherwise), 509 1021 4099 8191 16381 32749 32771 46327 46337 with boundary and 60 random
     residues: inverse, plus_equal, times, times_minus, plus_times_equal, identities, init after a previous init; refusal of every
     non-prime in [-3, 3000) and of 46338 46339 46349 65521 2^31-1 -2^31 46336 46335 46331 215^2 211^2 199*211. */

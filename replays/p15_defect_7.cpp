// defect_7.cpp - (met while fuzzing C15, not about copies) chain matrix with representative cycles and cell
// identifiers that are not 0..n-1: update_representative_cycles() reads a column that does not exist (SEGV / garbage).
//
// insert_boundary(cellIndex, boundary, dim) allows any strictly increasing identifiers. Chain_representative_cycles::
// update_representative_cycles (chain_rep_cycles.h:145-147) loops "for i < get_number_of_columns()" and takes
// get_column(get_column_with_pivot(i)): it assumes that the identifiers are exactly 0..n-1 (the comment above the loop
// says so, the documentation of the public functions does not). With one cell of identifier 5, i = 0 is not a pivot:
// get_column_with_pivot(0) is the null index (or reads past pivotToColumnIndex_), get_column() of it is out of the
// column container: AddressSanitizer reports a SEGV / heap-buffer-overflow in Chain_column_extra_properties::is_paired
// (std::unordered_map::at throws std::out_of_range with has_map_column_container).
//
// Build: g++ -std=gnu++17 -O1 -g -fsanitize=address,undefined $(ls -d /repo/src/*/include | sed 's/^/-I/') \
//        defect_7.cpp -o defect_7
// Run:   ./defect_7      (crashes under the sanitizer; that is the failure)
#include <gudhi/Matrix.h>
#include <gudhi/persistence_matrix_options.h>
#include <iostream>
#include <vector>
using namespace Gudhi::persistence_matrix;
struct Opt : Default_options<Column_types::INTRUSIVE_SET, true> {
  static const bool has_column_pairings = true;
  static const bool can_retrieve_representative_cycles = true;
  static const bool is_of_boundary_type = false;
};
int main() {
  Matrix<Opt> m;
  m.insert_boundary(5, std::vector<unsigned>{}, 0);  // one vertex, identifier 5
  std::cout << "one vertex with identifier 5 inserted; update_representative_cycles() ..." << std::endl;
  m.update_representative_cycles();  // SEGV here
  std::cout << m.get_representative_cycles().size() << " cycle(s) (expected 1: {5})\n";
  bool fail = m.get_representative_cycles().size() != 1 || m.get_representative_cycles()[0] != std::vector<unsigned>{5};
  std::cout << (fail ? "FAIL" : "PASS") << std::endl;
  return fail;
}

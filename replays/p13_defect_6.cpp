// defect_6.cpp - put_data_to_bins does not put anything into bins: it rescales the values (and can enlarge the range).
// (Outside the core of property C13 - the result is still a monotone filtration - but it is a documented function of
// Bitmap_cubical_complex_base.h and the documented contract is easy to check against a reference.)
//
// Documentation (Bitmap_cubical_complex_base.h:234-254): put_data_to_bins(std::size_t number_of_bins) rounds the values
// "to a sequence of values equally distributed in the range of data", "the parameter of the function is the number of
// bins (distinct values) we want to have in the cubical complex"; put_data_to_bins(T diameter_of_bin): "the bottleneck
// distance between the persistence diagram of the cubical complex before and after using such a function will be
// bounded by the parameter diameter_of_bin".
// Code, first overload (lines 613-621):   dx = (max - min) / number_of_bins;
//                                         data[i] = min + dx * (data[i] - min) / number_of_bins;
// there is no rounding (the division is a floating point division), and the formula is not even the identity: every
// value is multiplied by (max - min) / number_of_bins^2. With the values 0..9 and 2 bins the result is 0, 2.25, ...,
// 20.25: still 10 distinct values, range [0, 20.25] instead of [0, 9].
// Second overload (lines 630-638):        number_of_bins = (max - min) / diameter_of_bin;
//                                         data[i] = min + diameter_of_bin * (data[i] - min) / number_of_bins;
// again no rounding; with the values 0..9 and diameter 1 every value is divided by 9: the top cell of value 9 gets
// the value 1 (moved by 8) although the documentation bounds the bottleneck distance by the diameter 1. A diameter
// larger than the range gives number_of_bins = 0 and a division by zero (inf / nan values).
// Reference: v -> min + dx * floor((v - min) / dx) (any rounding to a multiple of dx would do for the checks below).
//
// build: g++ -std=gnu++17 -O1 -g -fsanitize=address,undefined -I<gudhi includes> defect_6.cpp -o defect_6
#include <gudhi/Bitmap_cubical_complex.h>
#include <cmath>
#include <iostream>
#include <set>
#include <vector>

int main() {
  typedef Gudhi::cubical_complex::Bitmap_cubical_complex_base<double> Base;
  std::vector<double> values = {0, 1, 2, 3, 4, 5, 6, 7, 8, 9};
  bool ok = true;
  {
    Base c(std::vector<unsigned>{10}, values);
    c.put_data_to_bins((std::size_t)2);
    std::set<double> distinct;
    double mx = 0;
    std::cout << "put_data_to_bins(2 bins) on top cells 0..9 gives top cells:";
    for (auto t : c.top_dimensional_cells_range()) {
      std::cout << " " << c.get_cell_data(t);
      distinct.insert(c.get_cell_data(t));
      mx = std::max(mx, c.get_cell_data(t));
    }
    std::cout << "\n  distinct values " << distinct.size() << " (documented: 2 bins), maximum " << mx
              << " (the data are in [0, 9])\n";
    if (distinct.size() > 3 || mx > 9) ok = false;
  }
  {
    Base c(std::vector<unsigned>{10}, values);
    c.put_data_to_bins(1.0);
    double worst = 0;
    std::size_t k = 0;
    std::cout << "put_data_to_bins(diameter 1.0) on top cells 0..9 gives top cells:";
    for (auto t : c.top_dimensional_cells_range()) {
      std::cout << " " << c.get_cell_data(t);
      worst = std::max(worst, std::fabs(c.get_cell_data(t) - values[k++]));
    }
    std::cout << "\n  largest displacement of a value " << worst << " (documented: bottleneck distance bounded by the diameter 1)\n";
    if (worst > 1.0) ok = false;
  }
  {
    Base c(std::vector<unsigned>{3}, std::vector<double>{0, 1, 2});
    c.put_data_to_bins(5.0);  // a bin larger than the range: everything should fall into one bin
    std::cout << "put_data_to_bins(diameter 5.0) on top cells 0 1 2 gives top cells:";
    for (auto t : c.top_dimensional_cells_range()) {
      std::cout << " " << c.get_cell_data(t);
      if (!std::isfinite(c.get_cell_data(t))) ok = false;
    }
    std::cout << "  (expected finite values)\n";
  }
  std::cout << (ok ? "PASS" : "FAIL: put_data_to_bins does not round the values to bins") << std::endl;
  return ok ? 0 : 1;
}

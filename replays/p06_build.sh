#!/bin/bash
# usage: b.sh src out group
INC=$(ls -d /repo/src/*/include | sed 's/^/-I/' | tr '\n' ' ')
g++ -std=gnu++17 -O1 -g -fsanitize=address,undefined $INC -DGROUP=$3 $1 -o bin/$2 -ltbb > bin/$2.buildlog 2>&1
echo "built $2 $?"

// defect_2.cpp - Simplex_tree::extend_filtration() / decode_extended_filtration(): with finite vertex values whose
// range (max - min) is larger than 1/DBL_MIN (~4.49e307), the ascending values leave [-2,-1] and the descending values
// leave [1,2]; decode_extended_filtration() then classifies original simplices and coned simplices as EXTRA (the cone
// point) and returns NaN instead of the original vertex value.
//
// Mechanism (Simplex_tree.h:2435-2454): scale = 1 / (maxval - minval) is a SUBNORMAL number when the range exceeds
// 2^1022, so it carries fewer than 53 significant bits; (v - minval) * scale for v == maxval is then
// 1.0000000000000002 instead of <= 1, the vertex gets -2 + 1.0000000000000002 = -0.99999999999999978 > -1 and its cone
// gets 2 - 1.0000000000000002 = 0.99999999999999978 < 1. decode_extended_filtration (Simplex_tree.h:2380-2389) tests
// f in [-2,-1] / [1,2] and falls to the EXTRA branch.
// (With a range that overflows to +inf, e.g. -1e308 .. 1e308, scale is 0 and every vertex is decoded as minval.)
//
// Build: g++ -std=gnu++17 -O1 -g -fsanitize=address,undefined $(ls -d /tmp/seed/P03/src/*/include | sed 's/^/-I/') defect_2.cpp -o defect_2
#include <gudhi/Simplex_tree.h>
#include <iostream>
#include <iomanip>

int main() {
  using ST = Gudhi::Simplex_tree<>;
  ST st;
  st.insert_simplex({0}, 0.);
  st.insert_simplex({1}, 1.7e308);  // finite double
  st.insert_simplex({0, 1}, 1.7e308);
  auto efd = st.extend_filtration();
  int fails = 0;
  std::cout << std::setprecision(17);
  for (auto sh : st.filtration_simplex_range()) {
    std::vector<int> s;
    for (auto v : st.simplex_vertex_range(sh)) s.push_back(v);
    double f = st.filtration(sh);
    auto d = st.decode_extended_filtration(f, efd);
    bool is_cone_point = (s.size() == 1 && s[0] == 2);
    bool is_coned = !is_cone_point && s[0] == 2;  // vertices in decreasing order: the cone point 2 comes first
    Gudhi::Extended_simplex_type expected = is_cone_point ? Gudhi::Extended_simplex_type::EXTRA
                                            : is_coned    ? Gudhi::Extended_simplex_type::DOWN
                                                          : Gudhi::Extended_simplex_type::UP;
    const char* names[] = {"UP", "DOWN", "EXTRA"};
    std::cout << "simplex {";
    for (auto v : s) std::cout << v << " ";
    std::cout << "} extended value " << f << " decoded value " << d.first << " type " << names[(int)d.second]
              << " (expected type " << names[(int)expected] << ")";
    if (d.second != expected) {
      std::cout << "   <-- WRONG";
      ++fails;
    }
    std::cout << "\n";
  }
  std::cout << (fails ? "FAIL" : "PASS") << std::endl;
  return fails ? 1 : 0;
}

// Defect 6 (minor, column level): after RU_matrix::remove_last() the columns of U stored as VECTOR columns (lazy
// erasure, no row access) still carry the erased last entry, and get_content() (default length -1) returns a vector
// that is longer than "the biggest row index with non zero value" promised by the PersistenceMatrixColumn concept:
// it ends with a zero at the row of the removed cell.  The other 8 column types return the documented length.
//
// Build:  g++ -std=gnu++17 -O1 -g -fsanitize=address,undefined $(ls -d /tmp/seed/P05/src/*/include | sed 's/^/-I/') \
//             defect_6.cpp -o defect_6 && ./defect_6
#include <iostream>
#include <gudhi/Matrix.h>

using namespace Gudhi::persistence_matrix;

template <Column_types C>
struct RU_options : Default_options<C, true> {
  static const bool has_column_pairings = true;
  static const bool can_retrieve_representative_cycles = true;  // R and U
  static const bool has_removable_columns = true;
};

template <Column_types C>
int run(const char* name) {
  Matrix<RU_options<C> > m;
  m.insert_boundary({});
  m.insert_boundary({});
  m.insert_boundary({0, 1});
  m.insert_boundary({0, 1});  // second edge between the same vertices: reduced by column 2, U gets an entry (2,3)
  m.remove_last();            // the entry of U in row 3 goes away with the cell
  auto content = m.get_column(2, false).get_content();  // U is stored transposed for Z2: {2} expected -> length 3
  std::cout << name << ": get_content() of U's column 2 has length " << content.size() << " (expected 3):";
  for (auto v : content) std::cout << " " << v;
  std::cout << "\n";
  return content.size() == 3 ? 0 : 1;
}

int main() {
  int bad = 0;
  bad += run<Column_types::INTRUSIVE_SET>("INTRUSIVE_SET");
  bad += run<Column_types::HEAP>("HEAP         ");
  bad += run<Column_types::NAIVE_VECTOR>("NAIVE_VECTOR ");
  bad += run<Column_types::VECTOR>("VECTOR       ");
  std::cout << (bad ? "FAIL" : "PASS") << std::endl;
  return bad ? 1 : 0;
}

// Defect 3: a copy of a Lazy_toplex_map reads an uninitialised bool (undefined behaviour, reported by UBSan as
// "load of value 190, which is not a valid value for type 'bool'" at boost/heap/fibonacci_heap.hpp:679) as soon as it is
// modified.
//
// Mechanism: the copy constructor (src/Toplex_map/include/gudhi/Lazy_toplex_map.h l.44-59) copies the member
// 'cleaning_priority' with the copy constructor of boost::heap::fibonacci_heap (l.48). Boost (1.83 here) clones the
// nodes with parent_pointing_heap_node::node_cloner (boost/heap/detail/heap_node.hpp l.246-264), which allocates a
// marked_heap_node but constructs only its parent_pointing_heap_node base: the member 'bool mark' of every cloned node
// is never initialised. The next cleaning_priority.update() in insert_simplex (l.145) that increases the priority of a
// node which has a parent runs cascading_cut() and reads parent->mark. The value read only steers the shape of the heap,
// so no wrong membership answer follows, but it is UB in every build and a hard error under -fsanitize=undefined
// -fno-sanitize-recover. (The root cause is in Boost; GUDHI's copy constructor relies on it. Rebuilding the queue by
// pushing the (priority, vertex) pairs of the original into the copy would avoid it.)
//
// Build: g++ -std=gnu++17 -O1 -g -fsanitize=address,undefined -I/repo/src/Toplex_map/include defect_3.cpp -o defect_3
// Needs the sanitizers: ASan fills fresh memory with 0xbe, UBSan checks the loaded bool; __ubsan_on_report counts.
#include <gudhi/Lazy_toplex_map.h>
#include <cstdio>
#include <vector>
using V = std::size_t;
using S = std::vector<V>;
static int reports = 0;
extern "C" void __ubsan_on_report(void) { reports++; }  // called by the UBSan runtime for every report

int main() {
  Gudhi::Lazy_toplex_map m;
  for (V i = 0; i < 8; i++) m.insert_simplex(S{i});  // 8 nodes in the priority queue
  m.remove_simplex(S{0});                              // erases a node: the heap consolidates, nodes get children
  int before = reports;
  Gudhi::Lazy_toplex_map c(m);                         // copy
  bool ok = true;
  for (V i = 1; i < 8; i++) {                          // legal use of the copy
    c.insert_simplex(S{i, 100});
    c.insert_simplex(S{i, 101});
  }
  for (V i = 1; i < 8; i++) ok = ok && c.membership(S{i, 100}) && c.membership(S{i, 101}) && m.membership(S{i}) && !m.membership(S{i, 100});
  std::printf("answers of the copy and of the original as expected: %d\n", (int)ok);
  std::printf("UBSan reports while using the copy: %d (expected 0)\n", reports - before);
#if !defined(__SANITIZE_ADDRESS__)
  std::printf("(built without the sanitizers: the uninitialised read cannot be observed)\n");
#endif
  bool pass = ok && reports == before;
  std::printf("%s\n", pass ? "PASS" : "FAIL");
  return pass ? 0 : 1;
}

// Defect 6 - Chain matrix with POSITION indexing: Position_to_index_overlay::remove_maximal_cell(position)
//  (a) hands MatIdx values to Chain_matrix::remove_maximal_cell(cellID, columnsToSwap), which documents and treats
//      columnsToSwap as IDENTIFIERS (Chain_matrix.h:329 "@param columnsToSwap Vector of IDIdx", line 786
//      "pivotToColumnIndex_.at(i)"):
//          Position_to_index_overlay.h:687-698  columnsToSwap[..] = positionToIndex_[p]; ...
//                                               matrix_.remove_maximal_cell(pivot, columnsToSwap);
//      As soon as a column does not hold the cell whose identifier equals its MatIdx (after any swap which exchanged
//      the pivots, or with custom identifiers) the wrong columns are swapped: GUDHI_CHECK "need to be adjacent" throws
//      in debug mode, with -DNDEBUG a column is added to itself (crash) or the matrix is silently corrupted.
//  (b) shifts positionToIndex_ down by one as if every internal swap moved the columns with their cells
//      (Position_to_index_overlay.h:690-694), whereas Chain_vine_swap::vine_swap may leave the two columns in place
//      and exchange their pivots (returns columnIndex2); Position_to_index_overlay::vine_swap handles this (line 852)
//      but remove_maximal_cell does not: afterwards a position points to the erased column.
//
// Build: g++ -std=gnu++17 -O1 -g -fsanitize=address,undefined -I<gudhi includes> defect_6.cpp -o defect_6
//        (scenario (a) with -DNDEBUG: SEGV under ASan, a column is added to itself)
#include <gudhi/Matrix.h>
#include <gudhi/persistence_matrix_options.h>

#include <iostream>
#include <set>
#include <tuple>
using namespace Gudhi::persistence_matrix;

struct Opt : Default_options<Column_types::INTRUSIVE_SET, true> {
  static const Column_indexation_types column_indexation_type = Column_indexation_types::POSITION;
  static const bool is_of_boundary_type = false;  // chain matrix
  static const bool has_column_pairings = true;
  static const bool has_vine_update = true;
  static const bool has_map_column_container = true;
  static const bool has_removable_columns = true;
};
using M = Matrix<Opt>;
using B = std::vector<unsigned>;

std::set<std::tuple<int, unsigned, unsigned>> bars(M& m) {
  std::set<std::tuple<int, unsigned, unsigned>> s;
  for (auto& b : m.get_current_barcode()) s.emplace(b.dim, b.birth, b.death);
  return s;
}

// boundary of a triangle: vertices 0 1 2, edges 3={0,1} 4={1,2} 5={0,2}, then an isolated vertex 6
void build(M& m) {
  m.insert_boundary(B{}, 0);
  m.insert_boundary(B{}, 0);
  m.insert_boundary(B{}, 0);
  m.insert_boundary(B{0, 1}, 1);
  m.insert_boundary(B{1, 2}, 1);
  m.insert_boundary(B{0, 2}, 1);
  m.insert_boundary(B{}, 0);
}

bool compare_with_fresh(M& m, const char* what) {
  // expected result in both scenarios: filtration 0 1 2 {0,1} e {2'} where the edge at position 4 was removed:
  // vertices 0 1 2, edge {0,1}, one more edge, vertex. Scenario (a): remaining edge {1,2}; (b): remaining edge {0,2}.
  bool ok = true;
  try {
    std::cout << what << ": " << m.get_number_of_columns() << " columns, pivots by position:";
    for (unsigned p = 0; p < m.get_number_of_columns(); ++p) std::cout << " " << m.get_pivot(p);
    std::cout << "\n  barcode:";
    for (auto& b : m.get_current_barcode()) std::cout << "  " << b;
    std::cout << "\n";
    M f;
    f.insert_boundary(B{}, 0);
    f.insert_boundary(B{}, 0);
    f.insert_boundary(B{}, 0);
    f.insert_boundary(B{0, 1}, 1);
    f.insert_boundary(B{1, 2}, 1);  // {1,2} or {0,2}: same barcode
    f.insert_boundary(B{}, 0);
    std::cout << "  expected:";
    for (auto& b : f.get_current_barcode()) std::cout << "  " << b;
    std::cout << "\n";
    if (bars(m) != bars(f)) ok = false;
  } catch (const std::exception& e) {
    std::cout << "\n  exception while reading the matrix: " << e.what() << "\n";
    ok = false;
  }
  return ok;
}

int main() {
  bool ok = true;
  {  // (b) no swap before: MatIdx == identifier for every column, only the position bookkeeping is wrong
    M m;
    build(m);
    try {
      m.remove_maximal_cell(4u);  // edge {1,2}: maximal, has to cross the edge {0,2} (not trivial) and the vertex
    } catch (const std::exception& e) {
      std::cout << "(b) exception in remove_maximal_cell: " << e.what() << "\n";
      ok = false;
    }
    ok = compare_with_fresh(m, "(b) remove_maximal_cell(4) on a fresh matrix") && ok;
  }
  {  // (a) one swap before, which exchanges the pivots of columns 4 and 5
    M m;
    build(m);
    bool r = m.vine_swap(4);  // filtration 0 1 2 {0,1} {0,2} {1,2} 6 ; returns false: columns stay, pivots exchanged
    std::cout << "(a) vine_swap(4) -> " << r << "\n";
    try {
      m.remove_maximal_cell(4u);  // edge {0,2}
    } catch (const std::exception& e) {
      std::cout << "(a) exception in remove_maximal_cell: " << e.what() << "\n";
      ok = false;
    }
    ok = compare_with_fresh(m, "(a) remove_maximal_cell(4) after vine_swap(4)") && ok;
  }
  std::cout << (ok ? "PASS" : "FAIL") << std::endl;
  return ok ? 0 : 1;
}

// both Perseus readers with one value more than the grid has top-dimensional cells: must throw, not write past the bitmap
#include <gudhi/Bitmap_cubical_complex.h>
#include <fstream>
#include <iostream>
using Base = Gudhi::cubical_complex::Bitmap_cubical_complex_base<double>;
using PBase = Gudhi::cubical_complex::Bitmap_cubical_complex_periodic_boundary_conditions_base<double>;
template <class C> bool refuses(const char* f) {
  try { Gudhi::cubical_complex::Bitmap_cubical_complex<C> c(f); } catch (const std::exception& e) { std::cout << "  refused: " << e.what() << "\n"; return true; }
  return false;
}
int main() {
  { std::ofstream f("np.txt"); f << "2\n2\n2\n1\n2\n3\n4\n5\n6\n7\n8\n9\n10\n11\n12\n13\n14\n15\n16\n17\n18\n19\n20\n21\n22\n23\n24\n25\n26\n27\n28\n29\n30\n31\n32\n33\n34\n35\n36\n37\n38\n39\n40\n"; }
  { std::ofstream f("p.txt"); f << "2\n-3\n-3\n1 2 3 4 5 6 7 8 9 10 11 12 13 14 15 16 17 18 19 20 21 22 23 24 25 26 27 28 29 30 31 32 33 34 35 36 37 38 39 40 41 42 43 44 45 46 47 48 49 50\n"; }
  bool a = refuses<Base>("np.txt"), b = refuses<PBase>("p.txt");
  std::cout << (a && b ? "PASS" : "FAIL") << "\n";
  return !(a && b);
}

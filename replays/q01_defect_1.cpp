// Defect 1: operator>>(std::istream&, Simplex_tree&) LOWERS the dimension of a tree that already holds simplices.
//
// operator>> inserts the simplices of the stream with insert_simplex() and then calls st.set_dimension(max_dim) where
// max_dim is the largest dimension READ FROM THE STREAM (Simplex_tree.h:2941-2953).  set_dimension(d) means "exactly d"
// and switches the lazy recomputation off.  If the tree already contained a simplex of larger dimension (second file
// read into the same tree, or an empty / truncated stream: max_dim stays -1), the tree then reports a dimension smaller
// than the dimension of a simplex it holds:
//   - dimension() and upper_bound_dimension() are wrong (upper_bound_dimension() is not an upper bound any more),
//   - star_simplex_range() / cofaces_simplex_range() (link_nodes_by_label == false) return an EMPTY range because they
//     cut on dimension_ (Simplex_tree.h:1466),
//   - operator== against the same complex built directly is false,
//   - num_simplices_by_dimension() sizes its result with dimension_ and writes out of bounds (heap-buffer-overflow,
//     Simplex_tree.h:849-850) -- done last here, run under -fsanitize=address to see it; without the sanitizer it is
//     silent memory corruption or a crash.
//
// build: g++ -std=gnu++17 -O1 -g -fsanitize=address,undefined $(ls -d /repo/src/*/include | sed 's/^/-I/') defect_1.cpp -o defect_1
#include <gudhi/Simplex_tree.h>
#include <iostream>
#include <sstream>

int main() {
  using ST = Gudhi::Simplex_tree<>;
  int failures = 0;
  ST st;
  st.insert_simplex_and_subfaces({0, 1, 2}, 1.);  // a triangle: dimension 2

  // a second complex (an edge 5-6 with its vertices) read into the same tree
  std::istringstream is("0 5 1.0\n0 6 1.0\n1 5 6 2.0\n");
  is >> st;

  ST ref;  // the same complex, built directly
  ref.insert_simplex_and_subfaces({0, 1, 2}, 1.);
  ref.insert_simplex({5}, 1.);
  ref.insert_simplex({6}, 1.);
  ref.insert_simplex({5, 6}, 2.);

  std::cout << "num_simplices: " << st.num_simplices() << " (expected 10)\n";
  std::cout << "dimension of the simplex {0,1,2}: " << st.dimension(st.find({0, 1, 2})) << "\n";
  std::cout << "upper_bound_dimension(): " << st.upper_bound_dimension() << " (expected >= 2)\n";
  std::cout << "dimension(): " << st.dimension() << " (expected 2)\n";
  if (st.dimension() != 2) ++failures;
  std::cout << "st == same complex built directly: " << (st == ref) << " (expected 1)\n";
  if (!(st == ref)) ++failures;
  std::size_t n = 0;
  for (auto sh : st.cofaces_simplex_range(st.find({0, 1}), 1)) { (void)sh; ++n; }
  std::cout << "cofaces of codimension 1 of {0,1}: " << n << " (expected 1: {0,1,2})\n";
  if (n != 1) ++failures;

  // an empty stream: nothing inserted, but the dimension becomes -1
  ST st2;
  st2.insert_simplex_and_subfaces({0, 1, 2}, 1.);
  std::istringstream empty("");
  empty >> st2;
  std::cout << "after reading an empty stream: num_simplices " << st2.num_simplices() << ", dimension() "
            << st2.dimension() << " (expected 2)\n";
  if (st2.dimension() != 2) ++failures;
  n = 0;
  for (auto sh : st2.star_simplex_range(st2.find({0}))) { (void)sh; ++n; }
  std::cout << "star of the vertex 0: " << n << " simplices (expected 4)\n";
  if (n != 4) ++failures;

  std::cout << (failures ? "FAIL" : "PASS") << " (" << failures << " wrong answers)" << std::endl;
  std::cout << "now num_simplices_by_dimension() (out-of-bounds write, reported by AddressSanitizer):" << std::endl;
  auto v = st.num_simplices_by_dimension();
  std::cout << "by dimension:";
  for (auto x : v) std::cout << " " << x;
  std::cout << " (expected 5 4 1)" << std::endl;
  return failures ? 1 : 0;
}

// Pristine: 2 x 2 (and 2-row / 2-column) inputs: all four corner squares share vertex 0 and the last
// corner initialisation wins, so the returned global minimum is input[last] whatever the values.
#include <gudhi/Persistence_on_rectangle.h>
#include <cstdio>
#include <vector>
int main() {
  bool ok = true;
  {
    std::vector<double> v{1, 2, 3, 4};  // 2 x 2, minimum is 1
    double gm = Gudhi::cubical_complex::persistence_on_rectangle_from_top_cells(
        v.data(), 2u, 2u, [](double b, double d) { std::printf("  H0 %g %g\n", b, d); },
        [](double b, double d) { std::printf("  H1 %g %g\n", b, d); });
    std::printf("2x2 {1,2,3,4}: global min returned %g (expected 1)\n", gm);
    ok &= (gm == 1);
  }
  {
    std::vector<double> v{1, 5, 6, 2, 7, 8};  // 2 x 3, minimum is 1
    double gm = Gudhi::cubical_complex::persistence_on_rectangle_from_top_cells(
        v.data(), 2u, 3u, [](double b, double d) { std::printf("  H0 %g %g\n", b, d); },
        [](double b, double d) { std::printf("  H1 %g %g\n", b, d); });
    std::printf("2x3 {1,5,6 / 2,7,8}: global min returned %g (expected 1)\n", gm);
    ok &= (gm == 1);
  }
  std::puts(ok ? "PASS" : "FAIL");
  return ok ? 0 : 1;
}

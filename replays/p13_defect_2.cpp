// defect_2.cpp - Bitmap_cubical_complex::skeleton_simplex_range(d) leaves out the cells of dimension < d.
//
// Documentation (Bitmap_cubical_complex.h:350-352 and 383-386): "A range containing all the cells of dimension at most
// k" / "Returns a range containing all the cells of dimension at most `dimension`" - the meaning skeleton_simplex_range
// has in the FilteredComplex concept and in Simplex_tree.
// Skeleton_simplex_iterator (Bitmap_cubical_complex.h:288-313) advances while
//     get_dimension_of_a_cell(position) != this->dimension
// so only the cells of dimension exactly d are produced. The 1-skeleton of one square has no vertex, the 2-skeleton
// is the square alone: these are not cell complexes (the faces of the produced cells are missing).
//
// build: g++ -std=gnu++17 -O1 -g -fsanitize=address,undefined -I<gudhi includes> defect_2.cpp -o defect_2
#include <gudhi/Bitmap_cubical_complex.h>
#include <iostream>
#include <vector>

int main() {
  typedef Gudhi::cubical_complex::Bitmap_cubical_complex_base<double> Base;
  typedef Gudhi::cubical_complex::Bitmap_cubical_complex<Base> Cpx;
  Cpx c({1, 1}, {0.});  // one square: 4 vertices, 4 edges, 1 square
  std::size_t expected[3] = {4, 8, 9};
  bool ok = true;
  for (unsigned d = 0; d <= 2; ++d) {
    std::size_t n = 0, low = 0;
    for (auto sh : c.skeleton_simplex_range(d)) {
      ++n;
      if (c.dimension(sh) < d) ++low;
    }
    std::cout << "skeleton_simplex_range(" << d << ") : " << n << " cells, " << low << " of dimension < " << d
              << " ; expected " << expected[d] << " cells (dimension at most " << d << ")\n";
    if (n != expected[d]) ok = false;
  }
  std::cout << (ok ? "PASS" : "FAIL: skeleton_simplex_range(d) holds only the cells of dimension exactly d") << std::endl;
  return ok ? 0 : 1;
}

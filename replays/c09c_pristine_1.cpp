// Pristine defect 1: Base_swap::_orderRows() resets the lazy row permutation only for the first
// get_number_of_columns() row indices instead of for all rows.
// With more rows than columns, a swapped row whose index is >= the number of columns stays permuted after the
// permutation was applied to the columns: is_zero_entry / zero_entry then address the wrong row.
// (With fewer rows than columns the same loop writes out of the bounds of indexToRow_/rowToIndex_.)
#include <iostream>
#include <vector>

#include <gudhi/Matrix.h>
#include <gudhi/persistence_matrix_options.h>

using namespace Gudhi::persistence_matrix;

struct Options : Default_options<Column_types::INTRUSIVE_SET, true> {
  static const bool has_column_and_row_swaps = true;
};

int main() {
  Matrix<Options> m(0u);
  m.insert_column(std::vector<unsigned int>{3});     // column 0
  m.insert_column(std::vector<unsigned int>{0, 4});  // column 1   -> 2 columns, 5 rows
  // dense: col0 = 0 0 0 1 0, col1 = 1 0 0 0 1
  m.swap_rows(3, 4);
  // dense: col0 = 0 0 0 0 1, col1 = 1 0 0 1 0
  bool ok = true;
  bool lazy = !m.is_zero_entry(0, 4) && m.is_zero_entry(0, 3) && !m.is_zero_entry(1, 3) && m.is_zero_entry(1, 4);
  std::cout << "before the permutation is applied: " << (lazy ? "ok" : "WRONG") << "\n";
  ok = ok && lazy;
  auto c0 = m.get_column(0).get_content(5);  // applies the pending row permutation
  auto c1 = m.get_column(1).get_content(5);
  bool content = c0 == decltype(c0){0, 0, 0, 0, 1} && c1 == decltype(c1){1, 0, 0, 1, 0};
  std::cout << "contents: " << (content ? "ok" : "WRONG") << "\n";
  ok = ok && content;
  bool after = !m.is_zero_entry(0, 4) && m.is_zero_entry(0, 3) && !m.is_zero_entry(1, 3) && m.is_zero_entry(1, 4);
  std::cout << "is_zero_entry after the permutation was applied: (0,4)=" << m.is_zero_entry(0, 4)
            << " (0,3)=" << m.is_zero_entry(0, 3) << " (1,3)=" << m.is_zero_entry(1, 3)
            << " (1,4)=" << m.is_zero_entry(1, 4) << " expected 0 1 0 1: " << (after ? "ok" : "WRONG") << "\n";
  ok = ok && after;
  std::cout << (ok ? "PASS" : "FAIL") << "\n";
  return ok ? 0 : 1;
}

// Pristine defect candidate: Filtered_zigzag_persistence_with_storage loses the filtration value of the first cells
// when that value is +infinity (a legal start of a monotonically decreasing assignment), because
// previousFiltrationValue_ is initialised to +infinity and the value is therefore never recorded.
// get_filtration_value_from_index() then steps before filtrationValues_.begin() (undefined behaviour).
#include <gudhi/filtered_zigzag_persistence.h>
#include <iostream>
#include <limits>
int main() {
  using ZP = Gudhi::zigzag_persistence::Filtered_zigzag_persistence_with_storage<>;
  const double inf = std::numeric_limits<double>::infinity();
  ZP zp;
  zp.insert_cell(0, {}, 0, inf);     // arrow 0, value +inf
  zp.insert_cell(1, {}, 0, inf);     // arrow 1, value +inf
  zp.insert_cell(2, {0, 1}, 1, 5.);  // arrow 2, value 5 : the component born at arrow 1 dies -> bar {5, +inf} in dim 0
  double f0 = zp.get_filtration_value_from_index(0);
  double f1 = zp.get_filtration_value_from_index(1);
  double f2 = zp.get_filtration_value_from_index(2);
  std::cout << "f(0)=" << f0 << " f(1)=" << f1 << " f(2)=" << f2 << "  (expected inf inf 5)\n";
  bool ok = f0 == inf && f1 == inf && f2 == 5.;
  auto diag = zp.get_persistence_diagram();
  for (auto& b : diag) std::cout << "dim " << b.dim << " [" << b.birth << ", " << b.death << "]\n";
  // expected: finite-index bar (arrows 1..2) translated to values {inf, 5} -> reported as [5, inf], plus the open bar
  // born at arrow 0 (value inf).
  std::cout << (ok ? "PASS" : "FAIL") << std::endl;
  return ok ? 0 : 1;
}

#include <gudhi/Lazy_toplex_map.h>
#include <iostream>
#include <vector>
using V = Gudhi::Lazy_toplex_map::Vertex;
int main() {
  Gudhi::Lazy_toplex_map lm;
  const V x = 5000, y = 4000;
  for (V j = 1; j <= 9; ++j) lm.insert_simplex(std::vector<V>{y, 100 + j});
  for (V i = 1; i <= 8; ++i) lm.insert_simplex(std::vector<V>{x, 200 + i});
  V k = lm.contraction(x, y);
  std::cout << "k=" << k << " size=" << lm.num_maximal_simplices() << " nv=" << lm.num_vertices() << std::endl;
  try {
    for (V j = 0; j < 200; ++j) lm.insert_simplex(std::vector<V>{10000 + 2 * j, 10001 + 2 * j});
  } catch (const std::exception& e) { std::cout << "FAIL exception: " << e.what() << std::endl; return 1; }
  bool ok = !lm.membership(std::vector<V>{x}) && lm.membership(std::vector<V>{y, 203}) && lm.membership(std::vector<V>{10000, 10001});
  std::cout << (ok ? "PASS" : "FAIL") << std::endl; return !ok;
}

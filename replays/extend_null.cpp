// Pristine defect 2: extend_filtration() on a complex whose largest vertex label is -2 uses label -1 == null_vertex()
// for the cone point.
// Build (release, as the library is normally used):
//   g++ -std=gnu++17 -O1 -DNDEBUG $(ls -d /tmp/seed/C03c/src/*/include | sed 's/^/-I/') pristine_2.cpp -o pristine_2
// (without -DNDEBUG the GUDHI_CHECK of insert_simplex_raw throws a `const char*`, which is not the documented
//  std::invalid_argument either)
#include <gudhi/Simplex_tree.h>

#include <iostream>
#include <vector>

int main() {
  using ST = Gudhi::Simplex_tree<>;
  ST st;
  // negative labels are accepted everywhere else (only null_vertex() == -1 is reserved)
  st.insert_simplex({-4}, 1.);
  st.insert_simplex({-3}, 2.);
  st.insert_simplex({-2}, 3.);
  st.insert_simplex({-4, -3}, 2.);
  st.insert_simplex({-3, -2}, 3.);
  std::size_t n = st.num_simplices();
  bool ok = true;
  try {
    st.extend_filtration();
  } catch (const char* msg) {
    std::cout << "extend_filtration() threw a const char*: " << msg << "\n";
    std::cout << "FAIL" << std::endl;
    return 1;
  }
  std::cout << "null_vertex() = " << st.null_vertex() << ", vertices after extend_filtration():";
  for (auto v : st.complex_vertex_range()) {
    std::cout << " " << v;
    if (v == st.null_vertex()) ok = false;
  }
  std::cout << "\nnum_simplices = " << st.num_simplices() << " (cone of " << n << " simplices: expected " << 2 * n + 1
            << ")\n";
  // every simplex of the filtration must show all its vertices, and come after its faces
  for (auto sh : st.filtration_simplex_range()) {
    std::vector<int> vs;
    for (auto v : st.simplex_vertex_range(sh)) vs.push_back(v);
    if (static_cast<int>(vs.size()) != st.dimension(sh) + 1) {
      ok = false;
      std::cout << "simplex of dimension " << st.dimension(sh) << " and value " << st.filtration(sh) << " lists "
                << vs.size() << " vertices\n";
    }
  }
  std::cout << (ok ? "PASS" : "FAIL") << std::endl;
  return ok ? 0 : 1;
}

// Differential fuzzer for Gudhi::Toplex_map and Gudhi::Lazy_toplex_map (property C16).
// Reference: dense model = std::set of bitmasks over n<=10 vertex slots, holding every non-empty simplex.
// Usage: fuzz_toplex [seed0] [nseeds] [steps] [mode]
//   mode 0: mixed ops; mode 1: insertion-heavy (makes the lazy map clean often); mode 2: removal-heavy;
//   mode 3: adds the operation 'insert all the faces of a simplex that contain one vertex' (finds defect 1)
// See the comment at the end of the file for what was covered.
#include <gudhi/Toplex_map.h>
#include <gudhi/Lazy_toplex_map.h>
#include <cstdio>
#include <cstdlib>
#include <random>
#include <set>
#include <vector>
#include <list>
#include <string>
#include <sstream>
#include <memory>
#include <stdexcept>

using Gudhi::Toplex_map;
using Gudhi::Lazy_toplex_map;
using V = std::size_t;
using Mask = unsigned;

struct Model {
  std::set<Mask> cx;  // all non-empty simplices
  void insert(Mask m) {
    for (Mask s = m; s; s = (s - 1) & m) cx.insert(s);
  }
  void remove(Mask m) {
    for (auto it = cx.begin(); it != cx.end();)
      if ((*it & m) == m) it = cx.erase(it); else ++it;
  }
  void contract(int d, int k) {  // d is identified with k, k survives
    std::set<Mask> n;
    for (Mask s : cx) {
      if (s >> d & 1) s = (s & ~(1u << d)) | (1u << k);
      n.insert(s);
    }
    cx.swap(n);
  }
  bool has(Mask m) const { return cx.count(m) > 0; }
  std::set<Mask> maximal() const {
    std::set<Mask> r;
    for (Mask s : cx) {
      bool mx = true;
      for (Mask t : cx) if (t != s && (t & s) == s) { mx = false; break; }
      if (mx) r.insert(s);
    }
    return r;
  }
  Mask vertices() const { Mask r = 0; for (Mask s : cx) r |= s; return r; }
};

static std::vector<V> labels;
static int N;
static std::mt19937_64 rng;
static std::ostringstream hist;
static bool failed = false;
static bool g_dups = false;

static std::vector<V> to_vec(Mask m, bool messy) {
  std::vector<V> v;
  for (int i = 0; i < N; i++) if (m >> i & 1) v.push_back(labels[i]);
  if (messy && !v.empty()) {
    std::shuffle(v.begin(), v.end(), rng);
    if (g_dups && rng() % 3 == 0) v.push_back(v[rng() % v.size()]);  // duplicate (only with env DUPS=1: see defects.md, unsure)
  }
  return v;
}
static std::string show(Mask m) {
  std::string s = "{";
  for (int i = 0; i < N; i++) if (m >> i & 1) s += std::to_string(labels[i]) + ",";
  return s + "}";
}
static int slot(V lab) { for (int i = 0; i < N; i++) if (labels[i] == lab) return i; return -1; }
static Mask to_mask(const Toplex_map::Simplex& s) { Mask m = 0; for (V v : s) { int i = slot(v); if (i < 0) return ~0u; m |= 1u << i; } return m; }

#define FAIL(...) do { failed = true; std::printf("FAIL: "); std::printf(__VA_ARGS__); std::printf("\n"); } while (0)

static void check_eager(const Toplex_map& tm, const Model& mo, const char* who) {
  for (Mask m = 1; m < (1u << N); m++) {
    bool got = tm.membership(to_vec(m, false));
    if (got != mo.has(m)) { FAIL("%s membership(%s) = %d expected %d", who, show(m).c_str(), got, mo.has(m)); return; }
  }
  // foreign vertex
  { std::vector<V> q = to_vec(1, false); q.push_back(labels[0] + 1 == labels[1 % N] ? 777777 : labels[0] + 1);
    if (slot(q.back()) < 0 && tm.membership(q)) { FAIL("%s membership with foreign vertex true", who); return; } }
  auto mx = mo.maximal();
  auto ms = tm.maximal_simplices();
  std::set<Mask> got;
  for (auto& p : ms) got.insert(to_mask(*p));
  if (got != mx || ms.size() != mx.size()) {
    FAIL("%s maximal simplices differ: got %zu expected %zu", who, ms.size(), mx.size());
    for (Mask m : got) std::printf("  got %s\n", show(m).c_str());
    for (Mask m : mx) std::printf("  exp %s\n", show(m).c_str());
    return;
  }
  if (tm.num_maximal_simplices() != mx.size()) { FAIL("%s num_maximal_simplices", who); return; }
  if (tm.num_vertices() != (std::size_t)__builtin_popcount(mo.vertices())) { FAIL("%s num_vertices %zu expected %d", who, tm.num_vertices(), __builtin_popcount(mo.vertices())); return; }
  for (Mask m = 1; m < (1u << N); m++) {
    bool ismx = mx.count(m);
    if (tm.maximality(to_vec(m, false)) != ismx) { FAIL("%s maximality(%s)", who, show(m).c_str()); return; }
    if ((rng() & 7) == 0) {
      std::set<Mask> exp; for (Mask t : mx) if ((t & m) == m) exp.insert(t);
      auto co = tm.maximal_cofaces(to_vec(m, false));
      std::set<Mask> g; for (auto& p : co) g.insert(to_mask(*p));
      if (g != exp || co.size() != exp.size()) { FAIL("%s maximal_cofaces(%s)", who, show(m).c_str()); return; }
    }
  }
}
static void check_lazy(Lazy_toplex_map& lm, const Model& mo, const char* who) {
  // random order of the queries: membership() may clean
  std::vector<Mask> qs; for (Mask m = 1; m < (1u << N); m++) qs.push_back(m);
  std::shuffle(qs.begin(), qs.end(), rng);
  for (Mask m : qs) {
    bool got = lm.membership(to_vec(m, false));
    if (got != mo.has(m)) { FAIL("%s membership(%s) = %d expected %d", who, show(m).c_str(), got, mo.has(m)); return; }
  }
  if (lm.num_vertices() != (std::size_t)__builtin_popcount(mo.vertices())) { FAIL("%s num_vertices %zu expected %d", who, lm.num_vertices(), __builtin_popcount(mo.vertices())); return; }
}

int run(unsigned long seed, int steps, int mode) {
  rng.seed(seed);
  hist.str("");
  failed = false;
  N = 2 + rng() % 7;  // 2..8
  if (mode == 3) N = 5 + rng() % 4;
  labels.clear();
  int labmode = rng() % 4;
  std::set<V> used;
  for (int i = 0; i < N; i++) {
    V l;
    do {
      switch (labmode) {
        case 0: l = i; break;
        case 1: l = rng() % 50; break;
        case 2: l = rng(); break;
        default: l = std::numeric_limits<V>::max() - (rng() % 20); break;  // near the top, SIZE_MAX included
      }
    } while (used.count(l));
    used.insert(l); labels.push_back(l);
  }
  std::unique_ptr<Toplex_map> tm(new Toplex_map);
  std::unique_ptr<Lazy_toplex_map> lm(new Lazy_toplex_map);
  Model me, ml;  // eager / lazy models (they may diverge after a contraction picks different survivors)
  bool same = true;
  for (int step = 0; step < steps && !failed; step++) {
    int r = rng() % 100;
    int op;
    if (mode == 1) op = r < 70 ? 0 : r < 82 ? 1 : r < 88 ? 2 : r < 95 ? 3 : 4;
    else if (mode == 2) op = r < 35 ? 0 : r < 70 ? 1 : r < 82 ? 2 : r < 94 ? 3 : 4;
    else if (mode == 3) op = r < 40 ? 0 : r < 65 ? 1 : r < 75 ? 2 : r < 80 ? 3 : r < 85 ? 4 : 5;
    else op = r < 45 ? 0 : r < 65 ? 1 : r < 75 ? 2 : r < 92 ? 3 : 4;
    Mask m = 1 + rng() % ((1u << N) - 1);
    if (rng() % 3 == 0) { // bias to small simplices
      Mask m2 = m & (Mask)rng(); if (m2) m = m2;
    }
    bool messy = rng() % 4 == 0;
    try {
      if (op == 0) {
        auto v = to_vec(m, messy);
        hist << "insert " << show(m) << (messy ? " messy" : "") << "\n";
        int kind = rng() % 3;
        if (kind == 0) { tm->insert_simplex(v); lm->insert_simplex(v); }
        else if (kind == 1) { std::set<V> s(v.begin(), v.end()); tm->insert_simplex(s); lm->insert_simplex(s); }
        else { std::list<V> s(v.begin(), v.end()); tm->insert_simplex(s); lm->insert_simplex(s); }
        me.insert(m); ml.insert(m);
      } else if (op == 1) {
        // sometimes pick an existing simplex (maximal or not)
        if (rng() % 2 && !me.cx.empty()) { auto it = me.cx.begin(); std::advance(it, rng() % me.cx.size()); m = *it; }
        auto v = to_vec(m, messy);
        hist << "remove " << show(m) << (messy ? " messy" : "") << "\n";
        tm->remove_simplex(v); lm->remove_simplex(v);
        me.remove(m); ml.remove(m);
      } else if (op == 2) {
        int i = rng() % N;
        hist << "remove_vertex " << labels[i] << "\n";
        if (me.has(1u << i)) tm->remove_vertex(labels[i]);  // absent vertex: see defect; avoided here
        std::vector<V> q{labels[i]};
        lm->remove_simplex(q);
        me.remove(1u << i); ml.remove(1u << i);
      } else if (op == 3) {
        int i = rng() % N, j = rng() % N;
        if (i == j) j = (j + 1) % N;
        hist << "contract " << labels[i] << " " << labels[j] << "\n";
        bool both_e = me.has(1u << i) && me.has(1u << j);
        V k = tm->contraction(labels[i], labels[j]);
        if (both_e) { int ks = slot(k); int d = ks == i ? j : i; if (ks != i && ks != j) FAIL("eager contraction returned %zu", k); else me.contract(d, ks); }
        else { V exp = me.has(1u << i) ? labels[i] : labels[j]; if (!me.has(1u<<i) && !me.has(1u<<j)) exp = labels[j]; if (k != exp) FAIL("eager contraction absent vertex returned %zu exp %zu", k, exp); }
        bool both_l = ml.has(1u << i) && ml.has(1u << j);
        V k2 = lm->contraction(labels[i], labels[j]);
        if (both_l) { int ks = slot(k2); int d = ks == i ? j : i; if (ks != i && ks != j) FAIL("lazy contraction returned %zu", k2); else ml.contract(d, ks); }
        if (both_e && k != k2) { same = false; hist << "  (survivors differ: eager " << k << " lazy " << k2 << ")\n"; }
      } else if (op == 5) {
        // insert every face of m that contains one chosen vertex of m (largest first): many non-maximal insertions
        std::vector<int> vs; for (int i = 0; i < N; i++) if (m >> i & 1) vs.push_back(i);
        int v = vs[rng() % vs.size()];
        hist << "insert all faces of " << show(m) << " containing " << labels[v] << "\n";
        for (Mask s2 = m; s2; s2 = (s2 - 1) & m) if (s2 >> v & 1) { tm->insert_simplex(to_vec(s2, false)); lm->insert_simplex(to_vec(s2, false)); }
        me.insert(m); ml.insert(m);
      } else {
        hist << "copy\n";
        int w = rng() % 3;
        if (w == 0) { std::unique_ptr<Toplex_map> c(new Toplex_map(*tm)); if (rng() % 2) { c->insert_simplex(to_vec(m, false)); c->remove_simplex(to_vec(m, false)); std::swap(c, tm); me.insert(m); me.remove(m); lm->insert_simplex(to_vec(m, false)); lm->remove_simplex(to_vec(m, false)); ml.insert(m); ml.remove(m); hist << " eager copy continued after insert+remove " << show(m) << "\n"; } else { c->remove_simplex(std::vector<V>()); } }
        else if (w == 1) { std::unique_ptr<Lazy_toplex_map> c(new Lazy_toplex_map(*lm)); if (rng() % 2) { std::swap(c, lm); hist << " lazy copy continued\n"; } else { c->insert_simplex(to_vec(m, false)); c->remove_simplex(to_vec(m,false)); check_lazy(*c, [&]{ Model x = ml; x.insert(m); x.remove(m); return x; }(), "lazy-side-copy"); } }
        else { std::unique_ptr<Lazy_toplex_map> c(new Lazy_toplex_map(std::move(*lm))); std::swap(c, lm); hist << " lazy moved\n"; }
      }
    } catch (const std::exception& e) {
      FAIL("exception %s", e.what());
    }
    if (failed) break;
    try {
      check_eager(*tm, me, "eager");
      if (!failed) {
        // membership() of the lazy map cleans: most of the time query a copy so that the history is not "healed"
        int w = rng() % 10;
        if (w < 7) { Lazy_toplex_map c(*lm); check_lazy(c, ml, "lazy(copy queried)"); }
        else if (w < 8 && (mode != 3 || rng() % 8 == 0)) check_lazy(*lm, ml, "lazy");
        // else: no check at this step
      }
      if (!failed && same && me.cx != ml.cx) FAIL("models diverged?!");
    } catch (const std::exception& e) {
      FAIL("exception in check %s", e.what());
    }
  }
  if (failed) {
    std::printf("seed %lu N=%d history:\n%s\n", seed, N, hist.str().c_str());
    return 1;
  }
  return 0;
}

int main(int argc, char** argv) {
  unsigned long s0 = argc > 1 ? std::strtoul(argv[1], 0, 10) : 1;
  int ns = argc > 2 ? std::atoi(argv[2]) : 100;
  int steps = argc > 3 ? std::atoi(argv[3]) : 60;
  int mode = argc > 4 ? std::atoi(argv[4]) : 0;
  int bad = 0;
  g_dups = std::getenv("DUPS") != nullptr;
  for (int i = 0; i < ns; i++) { bad += run(s0 + i, steps, mode); if (bad >= 5) break; }
#ifdef INSTR
  std::printf("coverage: clean calls %ld, of which inside a remove/contraction loop %ld, simplices dropped by such a clean %ld, erase_max of an absent simplex inside a loop %ld\n", Gudhi::g_clean_calls, Gudhi::g_clean_in_loop, Gudhi::g_clean_dropped_in_loop, Gudhi::g_erase_absent);
#endif
  std::printf("%s: %d failing seeds of %d\n", bad ? "FAIL" : "PASS", bad, ns);
  return bad != 0;
}

/* COVERAGE / RESULTS (library as in /repo, g++ 12.2, Boost 1.83)

   What one case does: 2..8 vertex slots (5..8 in mode 3) with labels that are 0..N-1, random in [0,50), random 64-bit
   values, or within 20 of SIZE_MAX (SIZE_MAX included); a Toplex_map and a Lazy_toplex_map receive the same history of
   insert_simplex (ranges given as std::vector - possibly unsorted -, std::set, std::list), remove_simplex (random
   vertex sets and simplices picked among the existing ones, maximal or not), remove_vertex (eager; remove_simplex({v})
   for the lazy map; only for present vertices in the eager map, see defect 4), contraction(x, y) with x != y (present
   or absent vertices; the reference identifies the vertex that the call did not return with the one it returned), copy
   construction in the middle of the history (the copy replaces the original, or is modified on the side and checked,
   or is cleared on the side; the lazy map is also "moved", which is a copy), removing everything / inserting again
   happens by itself with so few vertices.
   After EVERY step: eager map - membership() of all 2^N-1 non-empty vertex sets and of a set with a foreign vertex,
   maximal_simplices() == the maximal simplices of the model as a set and in number (no duplicate, none inside another),
   num_maximal_simplices(), num_vertices(), maximality() of every vertex set, maximal_cofaces() of 1/8 of them;
   lazy map - membership() of all non-empty vertex sets in random order (70%: on a fresh copy, 10%: on the map itself,
   20%: not at this step, because the queries of the lazy map clean it) and num_vertices(). The two models are compared
   with each other as long as the two contractions returned the same survivors.

   Runs WITHOUT any failure:
     -O1 -g -fsanitize=address,undefined : mode 0: 1500 seeds x 200 steps, 2000 x 150, 600 x 100;  mode 1: 1500 x 120 (twice);
                                           mode 2: 1500 x 120 (twice);  mode 3: 2000 x 300, 600 x 150
     -O2 -DNDEBUG, no sanitizer          : mode 0: 6000 seeds x 150 steps
   The only sanitizer output in these runs is defect 3 (uninitialised bool read in the queue of a copied lazy map).
   With DUPS=1 (ranges with a repeated vertex) the eager insert_simplex throws std::out_of_range: see "unsure".
   Measured with an instrumented private copy of Lazy_toplex_map.h (instr/): in these runs clean() is called thousands
   of times but never from inside the loops of remove_simplex / contraction; that needs the wrapped size_lbound of
   defect 1, which fuzz_lazy_bursts.cpp reaches.
*/

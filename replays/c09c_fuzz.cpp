// differential fuzz of Base_matrix vs dense model
#include <iostream>
#include <random>
#include <set>
#include <utility>
#include <vector>
#include <sstream>

#include <gudhi/Matrix.h>
#include <gudhi/persistence_matrix_options.h>

using Gudhi::persistence_matrix::Column_types;
using Gudhi::persistence_matrix::Default_options;
using Gudhi::persistence_matrix::Matrix;

template <Column_types col_type, bool z2, bool ra, bool intr, bool remr, bool mapc, bool swaps>
struct Opt : Default_options<col_type, z2> {
  static const bool has_row_access = ra;
  static const bool has_intrusive_rows = intr;
  static const bool has_removable_rows = remr;
  static const bool has_map_column_container = mapc;
  static const bool has_column_and_row_swaps = swaps;
};

using Dense = std::vector<std::vector<unsigned int> >;
static const unsigned int P = 5;
#ifndef NROWS
#define NROWS 9
#endif
static const unsigned int NR = NROWS;
#ifndef MINCOLS
#define MINCOLS 0
#endif

template <class O>
struct H {
  using M = Matrix<O>;
  M m;
  Dense d;  // d[c][r]
  std::ostringstream log;
  int maxRow = -1;
  H() : m(0u, P) {}

  void insert(const std::vector<unsigned int>& dense) {
    if constexpr (O::is_z2) {
      std::vector<unsigned int> c;
      for (unsigned r = 0; r < NR; ++r) if (dense[r]) c.push_back(r);
      m.insert_column(c);
    } else {
      std::vector<std::pair<unsigned int, unsigned int> > c;
      for (unsigned r = 0; r < NR; ++r) if (dense[r]) c.push_back({r, dense[r]});
      m.insert_column(c);
    }
    d.push_back(dense);
    for (unsigned r = 0; r < NR; ++r) if (dense[r] && (int)r > maxRow) maxRow = r;
  }

  bool check(bool touchColumnsFirst) {
    bool ok = true;
    if (m.get_number_of_columns() != d.size()) { log << "ncols " << m.get_number_of_columns() << " vs " << d.size() << "\n"; ok = false; }
    auto lazy = [&]() {
      for (unsigned c = 0; c < d.size(); ++c) {
        bool z = true;
        for (unsigned r = 0; r < NR; ++r) {
          z = z && d[c][r] == 0;
          if (m.is_zero_entry(c, r) != (d[c][r] == 0)) { log << "is_zero_entry(" << c << "," << r << ") wrong\n"; ok = false; }
        }
        if (m.is_zero_column(c) != z) { log << "is_zero_column(" << c << ") wrong\n"; ok = false; }
      }
    };
    auto cols = [&]() {
      for (unsigned c = 0; c < d.size(); ++c) {
        auto content = m.get_column(c).get_content(NR);
        for (unsigned r = 0; r < NR; ++r)
          if ((unsigned)content[r] != d[c][r]) { log << "content col " << c << " row " << r << ": " << (unsigned)content[r] << " vs " << d[c][r] << "\n"; ok = false; }
      }
    };
    if (touchColumnsFirst) { cols(); lazy(); } else { lazy(); cols(); }
    if constexpr (O::has_row_access) {
      for (unsigned r = 0; r < NR; ++r) {
        std::set<std::pair<unsigned, unsigned> > exp, got;
        for (unsigned c = 0; c < d.size(); ++c) if (d[c][r]) exp.insert({c, d[c][r]});
        bool hasRow = true;
        if ((int)r > maxRow) continue;
        try {
          auto& row = m.get_row(r);
          unsigned n = 0;
          for (auto& e : row) {
            ++n;
            unsigned v = 1;
            if constexpr (!O::is_z2) v = e.get_element();
            got.insert({e.get_column_index(), v});
            if (e.get_row_index() != r) { log << "row " << r << " has entry with row index " << e.get_row_index() << "\n"; ok = false; }
          }
          if (n != got.size()) { log << "row " << r << " duplicates\n"; ok = false; }
        } catch (const std::exception& e) { hasRow = false; }
        if (!hasRow && !exp.empty()) { log << "row " << r << " missing\n"; ok = false; }
        if (hasRow && got != exp) {
          log << "row " << r << " got:";
          for (auto& p : got) log << " (" << p.first << "," << p.second << ")";
          log << " exp:";
          for (auto& p : exp) log << " (" << p.first << "," << p.second << ")";
          log << "\n";
          ok = false;
        }
      }
    }
    return ok;
  }
};

template <class O>
bool run(unsigned seed, bool verbose) {
  std::mt19937 g(seed);
  auto rnd = [&](unsigned n) { return (unsigned)(g() % n); };
  const unsigned mod = O::is_z2 ? 2 : P;
  H<O> h;
  std::ostringstream ops;
  unsigned ncol0 = (MINCOLS ? MINCOLS : 2) + rnd(5);
#ifdef SQUARE
  ncol0 = NR;
#endif
  for (unsigned i = 0; i < ncol0; ++i) {
    std::vector<unsigned> c(NR, 0);
    unsigned dens = rnd(4);
    for (unsigned r = 0; r < NR; ++r) if (rnd(4) < dens) c[r] = 1 + rnd(mod - 1);
#ifdef SQUARE
    if (i == 0) c[NR - 1] = 1;
#endif
    h.insert(c);
    ops << "insert";
    for (auto v : c) ops << " " << v;
    ops << "\n";
  }
  unsigned nops = 1 + rnd(25);
  for (unsigned k = 0; k < nops; ++k) {
    unsigned n = h.d.size();
    unsigned op = rnd(12);
    if (n == 0) op = 9;
#ifdef SQUARE
    if (op == 9 || op == 10) op = 11;
#endif
    unsigned s = n ? rnd(n) : 0, t = n ? rnd(n) : 0;
    unsigned coef = rnd(mod + 2);
    switch (op) {
      case 0: {
        if (s == t) break;
        ops << "add_to " << s << " " << t << "\n";
        h.m.add_to(s, t);
        for (unsigned r = 0; r < NR; ++r) h.d[t][r] = (h.d[t][r] + h.d[s][r]) % mod;
        break;
      }
      case 1: case 2: {
        if (s == t) break;
        ops << "mtaa " << s << " " << coef << " " << t << "\n";
        h.m.multiply_target_and_add_to(s, coef, t);
        for (unsigned r = 0; r < NR; ++r) h.d[t][r] = (h.d[t][r] * coef + h.d[s][r]) % mod;
        break;
      }
      case 3: case 4: {
        if (s == t) break;
        ops << "msaa " << coef << " " << s << " " << t << "\n";
        h.m.multiply_source_and_add_to(coef, s, t);
        for (unsigned r = 0; r < NR; ++r) h.d[t][r] = (h.d[t][r] + h.d[s][r] * coef) % mod;
        break;
      }
      case 5: {
        unsigned r = rnd(NR);
        if constexpr (O::has_row_access && O::has_removable_rows) {
          // rows may not exist
        }
        ops << "zero_entry " << t << " " << r << "\n";
        h.m.zero_entry(t, r);
        h.d[t][r] = 0;
        break;
      }
      case 6: {
        if (rnd(3)) break;
        ops << "zero_column " << t << "\n";
        h.m.zero_column(t);
        for (unsigned r = 0; r < NR; ++r) h.d[t][r] = 0;
        break;
      }
      case 7: {
        if constexpr (O::has_column_and_row_swaps) {
          unsigned r1 = rnd(NR), r2 = rnd(NR);
          ops << "swap_rows " << r1 << " " << r2 << "\n";
          h.m.swap_rows(r1, r2);
          for (auto& c : h.d) std::swap(c[r1], c[r2]);
        }
        break;
      }
      case 8: {
        if constexpr (O::has_column_and_row_swaps) {
          ops << "swap_columns " << s << " " << t << "\n";
          h.m.swap_columns(s, t);
          std::swap(h.d[s], h.d[t]);
        }
        break;
      }
      case 9: {
        std::vector<unsigned> c(NR, 0);
        unsigned dens = rnd(4);
        for (unsigned r = 0; r < NR; ++r) if (rnd(4) < dens) c[r] = 1 + rnd(mod - 1);
        ops << "insert";
        for (auto v : c) ops << " " << v;
        ops << "\n";
        h.insert(c);
        break;
      }
      case 10: {
        if (rnd(2) || n <= MINCOLS) break;
        ops << "remove_last\n";
        h.m.remove_last();
        h.d.pop_back();
        break;
      }
      case 11: {
        bool first = rnd(2);
        ops << "check " << first << "\n";
        if (!h.check(first)) {
          if (verbose) std::cout << "seed " << seed << " FAILED at intermediate check\n" << ops.str() << h.log.str();
          return false;
        }
        break;
      }
    }
  }
  bool first = rnd(2);
  ops << "check " << first << "\n";
  if (!h.check(first)) {
    if (verbose) std::cout << "seed " << seed << " FAILED\n" << ops.str() << h.log.str();
    return false;
  }
  return true;
}

#ifndef COL
#define COL INTRUSIVE_SET
#endif
#ifndef Z2
#define Z2 false
#endif
#ifndef RA
#define RA false
#endif
#ifndef INTR
#define INTR true
#endif
#ifndef REMR
#define REMR false
#endif
#ifndef MAPC
#define MAPC false
#endif
#ifndef SWAPS
#define SWAPS false
#endif

int main(int argc, char** argv) {
  unsigned n = argc > 1 ? atoi(argv[1]) : 2000;
  unsigned start = argc > 2 ? atoi(argv[2]) : 0;
  using O = Opt<Column_types::COL, Z2, RA, INTR, REMR, MAPC, SWAPS>;
  unsigned fails = 0;
  for (unsigned s = start; s < start + n; ++s) {
    if (!run<O>(s, fails < 2)) ++fails;
  }
  std::cout << "fails: " << fails << " / " << n << "\n";
  return fails != 0;
}

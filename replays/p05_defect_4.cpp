// Defect 4: with Z_p coefficients, the chain matrix does not reduce the input coefficients modulo p although the
// boundary and RU flavours do; the same boundaries then give a wrong barcode (silently) or the exception
// "A chain column should not be multiplied by 0.".
//
// Build:  g++ -std=gnu++17 -O1 -g -fsanitize=address,undefined $(ls -d /tmp/seed/P05/src/*/include | sed 's/^/-I/') \
//             defect_4.cpp -o defect_4 && ./defect_4
//
// Input A (p = 7): hollow triangle, every coefficient c given as c + 7k (6 = -1, 13 = 6 + 7, 8 = 1 + 7, 15 = 1 + 14).
//   correct barcode: H0 (0,inf) (1,4) (2,3)   H1 (5,inf)
//   chain matrix   : H0 (0,5)  (1,4) (2,3)    -> no essential component, no 1-cycle
// Input B (p = 5): one edge {0: 4, 1: 6}: the chain matrix throws std::invalid_argument.
#include <algorithm>
#include <iostream>
#include <string>
#include <vector>
#include <gudhi/Matrix.h>

using namespace Gudhi::persistence_matrix;

struct Boundary_options : Default_options<Column_types::INTRUSIVE_SET, false> {
  static const bool has_column_pairings = true;
};
struct RU_options : Default_options<Column_types::INTRUSIVE_SET, false> {
  static const bool has_column_pairings = true;
  static const bool can_retrieve_representative_cycles = true;
};
struct Chain_options : Default_options<Column_types::INTRUSIVE_SET, false> {
  static const bool has_column_pairings = true;
  static const bool is_of_boundary_type = false;
};

using Boundary = std::vector<std::pair<unsigned int, unsigned int> >;

template <class M>
std::string barcode(const std::vector<Boundary>& boundaries, unsigned int p) {
  try {
    M m(boundaries.size(), p);
    for (const Boundary& b : boundaries) m.insert_boundary(b);
    std::vector<std::string> bars;
    for (const auto& bar : m.get_current_barcode())
      bars.push_back("H" + std::to_string(bar.dim) + "(" + std::to_string(bar.birth) + "," +
                     (bar.death == static_cast<unsigned int>(-1) ? std::string("inf") : std::to_string(bar.death)) +
                     ")");
    std::sort(bars.begin(), bars.end());
    std::string s;
    for (auto& b : bars) s += b + " ";
    return s;
  } catch (const std::exception& e) {
    return std::string("exception: ") + e.what();
  }
}

int check(const char* what, const std::vector<Boundary>& boundaries, unsigned int p, const std::string& expected) {
  std::string b = barcode<Matrix<Boundary_options> >(boundaries, p);
  std::string r = barcode<Matrix<RU_options> >(boundaries, p);
  std::string c = barcode<Matrix<Chain_options> >(boundaries, p);
  std::cout << what << " (p = " << p << ")\n  expected : " << expected << "\n  boundary : " << b << "\n  RU       : " << r
            << "\n  chain    : " << c << "\n";
  return (b != expected) + (r != expected) + (c != expected);
}

int main() {
  int bad = 0;
  // same complexes with reduced coefficients, as a control
  bad += check("hollow triangle, reduced coefficients  ",
               {{}, {}, {}, {{0, 6}, {2, 1}}, {{0, 6}, {1, 1}}, {{1, 6}, {2, 1}}}, 7,
               "H0(0,inf) H0(1,4) H0(2,3) H1(5,inf) ");
  bad += check("hollow triangle, coefficients c + 7k   ",
               {{}, {}, {}, {{0, 6}, {2, 1}}, {{0, 13}, {1, 8}}, {{1, 13}, {2, 15}}}, 7,
               "H0(0,inf) H0(1,4) H0(2,3) H1(5,inf) ");
  bad += check("one edge {0:4, 1:6}                    ", {{}, {}, {{0, 4}, {1, 6}}}, 5, "H0(0,inf) H0(1,2) ");
  std::cout << (bad ? "FAIL" : "PASS") << std::endl;
  return bad ? 1 : 0;
}

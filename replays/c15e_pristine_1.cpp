// Pristine observation (arguable, low severity): a Simplex_tree holding a NaN filtration value is never equal to its
// copies, its moved version, its deserialisation - nor to itself: rec_equal compares the values with operator==.
// NaN is a reachable state: insert_simplex / assign_filtration accept it, prune_above_filtration and
// make_filtration_non_decreasing document a special treatment for it.
//
// Build: g++ -std=gnu++17 -O1 $(ls -d /repo/src/*/include | sed 's/^/-I/') pristine_1.cpp -o pristine_1
#include <iostream>
#include <limits>
#include <vector>

#include <gudhi/Simplex_tree.h>

int main() {
  Gudhi::Simplex_tree<> st;
  st.insert_simplex({0}, 1.);
  st.insert_simplex({1}, std::numeric_limits<double>::quiet_NaN());

  Gudhi::Simplex_tree<> copy(st);

  std::vector<char> buffer(st.get_serialization_size());
  st.serialize(buffer.data(), buffer.size());
  Gudhi::Simplex_tree<> back;
  back.deserialize(buffer.data(), buffer.size());

  bool ok = true;
  if (!(st == st)) { std::cout << "st == st is false" << std::endl; ok = false; }
  if (!(copy == st)) { std::cout << "copy == st is false" << std::endl; ok = false; }
  if (!(back == st)) { std::cout << "deserialised == st is false" << std::endl; ok = false; }
  std::cout << (ok ? "PASS" : "FAIL") << std::endl;
  return ok ? 0 : 1;
}

// Defect 7 - Chain matrix with IDENTIFIER indexing: remove_maximal_cell(cellID, columnsToSwap) translates the
// identifiers of columnsToSwap twice.
//
//   Id_to_index_overlay.h:842-845   std::transform(columnsToSwap..., [&](ID_index id) { return _id_to_index(id); });
//                                   matrix_.remove_maximal_cell(cellID, translatedIndices);        // MatIdx values
//   Chain_matrix.h:785-787          for (ID_index i : columnsToSwap)
//                                     startIndex = Swap_opt::vine_swap(startIndex, pivotToColumnIndex_.at(i));  // again
// Chain_matrix::remove_maximal_cell documents columnsToSwap as IDIdx (Chain_matrix.h:329) and Matrix.h:950 says the
// same for the user. The call only works while MatIdx == identifier for all the cells involved: it breaks with custom
// identifiers (scenario 1: std::out_of_range) and after a swap which exchanged two pivots (scenario 2: the cell is
// swapped with itself; GUDHI_CHECK throws in debug mode, undefined behaviour with -DNDEBUG).
//
// Build: g++ -std=gnu++17 -O1 -g -fsanitize=address,undefined -I<gudhi includes> defect_7.cpp -o defect_7
#include <gudhi/Matrix.h>
#include <gudhi/persistence_matrix_options.h>

#include <iostream>
using namespace Gudhi::persistence_matrix;

struct Opt : Default_options<Column_types::INTRUSIVE_SET, true> {
  static const Column_indexation_types column_indexation_type = Column_indexation_types::IDENTIFIER;
  static const bool is_of_boundary_type = false;  // chain matrix
  static const bool has_column_pairings = true;
  static const bool has_vine_update = true;
  static const bool has_map_column_container = true;
  static const bool has_removable_columns = true;
};
using M = Matrix<Opt>;
using B = std::vector<unsigned>;

int main() {
  bool ok = true;
  {
    M m;
    m.insert_boundary(10, B{}, 0);  // three isolated vertices with identifiers 10 11 12
    m.insert_boundary(11, B{}, 0);
    m.insert_boundary(12, B{}, 0);
    try {
      m.remove_maximal_cell(10, {11, 12});  // 11 and 12 are the cells after 10 in the filtration
      std::cout << "scenario 1: " << m.get_number_of_columns() << " columns left (expected 2)\n";
      if (m.get_number_of_columns() != 2) ok = false;
    } catch (const std::exception& e) {
      std::cout << "scenario 1: exception " << e.what() << " (expected: cell 10 removed, 2 columns left)\n";
      ok = false;
    }
  }
  {
    M m;  // boundary of a triangle and an isolated vertex, default identifiers
    m.insert_boundary(B{}, 0);
    m.insert_boundary(B{}, 0);
    m.insert_boundary(B{}, 0);
    m.insert_boundary(B{0, 1}, 1);
    m.insert_boundary(B{1, 2}, 1);  // id 4
    m.insert_boundary(B{0, 2}, 1);  // id 5
    m.insert_boundary(B{}, 0);      // id 6
    m.vine_swap(4, 5);              // filtration 0 1 2 3 5 4 6 ; the columns stay in place and exchange their pivots
    try {
      m.remove_maximal_cell(5, {4, 6});  // cell 5 is maximal, 4 and 6 come after it
      std::cout << "scenario 2: " << m.get_number_of_columns() << " columns left (expected 6), barcode:";
      for (auto& b : m.get_current_barcode()) std::cout << "  " << b;
      std::cout << "\n            expected:  [0] 0 - inf  [0] 1 - 3  [0] 2 - 4  [0] 5 - inf\n";
      if (m.get_number_of_columns() != 6 || m.get_current_barcode().size() != 4) ok = false;
    } catch (const std::exception& e) {
      std::cout << "scenario 2: exception " << e.what() << "\n";
      ok = false;
    }
  }
  std::cout << (ok ? "PASS" : "FAIL") << std::endl;
  return ok ? 0 : 1;
}

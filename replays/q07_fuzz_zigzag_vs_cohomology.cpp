// RESULT (worktree /repo as is): NOTHING FOUND. 12 + 150 random flag complexes (up to ~1500 simplices, dimension
// <= 3, ties in the filtration values), 7 column types + the 2 filtered front-ends, ASan+UBSan: all equal to the bars
// predicted from Persistent_cohomology. (Side remark, not a zigzag defect: with equal filtration values on VERTICES the
// union-find of Persistent_cohomology pairs by value and its simplex pairs are not the index-order pairs; the vertices
// get distinct values here for that reason.)
// Sibling-implementation check at larger scale: "an insertion-only sequence reproduces ordinary persistence", and the
// symmetric up-down zigzag K_0 c ... c K_n = K_n > ... > K_0 (every cell removed in reverse order of insertion) whose
// interval decomposition is known from the ordinary barcode:
//     finite ordinary pair (b,d)  -> zigzag bars (b, d) and (2n-1-d, 2n-1-b)      (library convention: death arrow)
//     essential class born at b   -> zigzag bar  (b, 2n-1-b)
// The ordinary barcode comes from Gudhi::persistent_cohomology (Z/2) on a Simplex_tree (random flag complexes with
// random, tie-rich filtration values; dimension <= 3), i.e. a completely different algorithm of the library.
// Compared: Zigzag_persistence (several column types), Filtered_zigzag_persistence, ..._with_storage.
//
// usage: fuzz_zigzag_vs_cohomology [seed0] [ncases] [npoints]
#include <gudhi/Simplex_tree.h>
#include <gudhi/Persistent_cohomology.h>
#include <gudhi/zigzag_persistence.h>
#include <gudhi/filtered_zigzag_persistence.h>
#include <random>
#include <map>
#include <set>
#include <cstdio>

using CT = Gudhi::persistence_matrix::Column_types;
template <CT ct>
struct Opt {
  using Internal_key = int;
  using Dimension = int;
  using Cell_key = int;
  using Filtration_value = double;
  static const CT column_type = ct;
};
using Bars = std::multiset<std::tuple<int, int, int>>;

template <class Options>
Bars run_index(const std::vector<std::vector<int>>& bnd, const std::vector<int>& dim) {
  using ZP = Gudhi::zigzag_persistence::Zigzag_persistence<Options>;
  Bars out;
  ZP zp([&](int d, int b, int e) { out.emplace(d, b, e); });
  int n = (int)bnd.size();
  for (int i = 0; i < n; ++i) zp.insert_cell(bnd[i], dim[i]);
  Bars openMid;
  zp.get_current_infinite_intervals([&](int d, int b) { openMid.emplace(d, b, -1); });
  for (int i = n - 1; i >= 0; --i) zp.remove_cell(i);
  int nopen = 0;
  zp.get_current_infinite_intervals([&](int, int) { ++nopen; });
  if (nopen) out.emplace(-99, nopen, 0);
  for (auto& t : openMid) out.insert(t);
  return out;
}

int main(int argc, char** argv) {
  unsigned seed0 = argc > 1 ? std::atoi(argv[1]) : 1;
  int ncases = argc > 2 ? std::atoi(argv[2]) : 10;
  int npts = argc > 3 ? std::atoi(argv[3]) : 25;
  int failures = 0;
  for (int c = 0; c < ncases; ++c) {
    std::mt19937 rng(seed0 + c);
    using ST = Gudhi::Simplex_tree<>;
    ST st;
    int nv = 5 + rng() % npts;
    double p = 0.15 + (rng() % 50) / 100.0;
    for (int v = 0; v < nv; ++v) st.insert_simplex({v}, (double)(rng() % 4) + v * 0.001);  // distinct values: the union-find of Persistent_cohomology pairs the vertices by filtration VALUE, ties in dimension 0 would make its index pairs arbitrary
    for (int a = 0; a < nv; ++a)
      for (int b = a + 1; b < nv; ++b)
        if ((rng() % 1000) / 1000.0 < p) st.insert_simplex({a, b}, 4. + (double)(rng() % 6));
    st.expansion(1 + rng() % 3);
    st.initialize_filtration();
    // filtration order -> index
    std::vector<std::vector<int>> bnd;
    std::vector<int> dim;
    std::vector<double> fil;
    int idx = 0;
    std::map<std::vector<int>, int> indexOf;  // vertices -> position (Persistent_cohomology overwrites the keys)
    auto verts = [&](ST::Simplex_handle sh) {
      std::vector<int> v;
      for (auto x : st.simplex_vertex_range(sh)) v.push_back((int)x);
      std::sort(v.begin(), v.end());
      return v;
    };
    for (auto sh : st.filtration_simplex_range()) {
      indexOf[verts(sh)] = idx;
      st.assign_key(sh, idx++);
      std::vector<int> b;
      for (auto bh : st.boundary_simplex_range(sh)) b.push_back((int)st.key(bh));
      std::sort(b.begin(), b.end());
      bnd.push_back(b);
      dim.push_back(st.dimension(sh));
      fil.push_back(st.filtration(sh));
    }
    int n = idx;
    Gudhi::persistent_cohomology::Persistent_cohomology<ST, Gudhi::persistent_cohomology::Field_Zp> pcoh(st, true);
    pcoh.init_coefficients(2);
    pcoh.compute_persistent_cohomology(-1.);  // keep zero-length pairs
    Bars expected;
    int nEss = 0, nFin = 0;
    for (auto& pr : pcoh.get_persistent_pairs()) {
      auto sb = std::get<0>(pr), sd = std::get<1>(pr);
      int b = indexOf.at(verts(sb));
      int d = st.dimension(sb);
      if (sd == st.null_simplex()) {
        expected.emplace(d, b, 2 * n - 1 - b);
        expected.emplace(d, b, -1);  // open at the top
        ++nEss;
      } else {
        int e = indexOf.at(verts(sd));
        expected.emplace(d, b, e);
        expected.emplace(d, 2 * n - 1 - e, 2 * n - 1 - b);
        ++nFin;
      }
    }
    bool ok = true;
#define CHK(name, ...)                                                    \
  {                                                                       \
    Bars got = __VA_ARGS__;                                               \
    if (got != expected) {                                                \
      ok = false;                                                         \
      std::printf("MISMATCH %s seed %u: got %zu bars, expected %zu\n", name, seed0 + c, got.size(), expected.size()); \
      if (std::getenv("ZZ_VERBOSE")) { for (auto& t : got) if (!expected.count(t)) std::printf("  only got [%d] %d %d\n", std::get<0>(t), std::get<1>(t), std::get<2>(t)); \
      for (auto& t : expected) if (!got.count(t)) std::printf("  only exp [%d] %d %d\n", std::get<0>(t), std::get<1>(t), std::get<2>(t)); } \
    }                                                                     \
  }
    CHK("NAIVE_VECTOR", run_index<Opt<CT::NAIVE_VECTOR>>(bnd, dim));
    CHK("INTRUSIVE_LIST", run_index<Opt<CT::INTRUSIVE_LIST>>(bnd, dim));
    CHK("INTRUSIVE_SET", run_index<Opt<CT::INTRUSIVE_SET>>(bnd, dim));
    CHK("SET", run_index<Opt<CT::SET>>(bnd, dim));
    CHK("LIST", run_index<Opt<CT::LIST>>(bnd, dim));
    CHK("VECTOR", run_index<Opt<CT::VECTOR>>(bnd, dim));
    CHK("UNORDERED_SET", run_index<Opt<CT::UNORDERED_SET>>(bnd, dim));
    // filtered front-ends: filtration values going up (fil) then continuing up on the way down (monotone): maxf + (maxf - fil)
    {
      double maxf = fil.back();
      std::multiset<std::tuple<int, double, double>> expF, gotS, gotT;
      auto fv = [&](int arrow) { return arrow < n ? fil[arrow] : maxf + (maxf - fil[2 * n - 1 - arrow]); };
      for (auto& t : expected) {
        if (std::get<2>(t) == -1) continue;
        double b = fv(std::get<1>(t)), e = fv(std::get<2>(t));
        if (b != e) expF.emplace(std::get<0>(t), b, e);
      }
      Gudhi::zigzag_persistence::Filtered_zigzag_persistence<Opt<CT::INTRUSIVE_LIST>> zs(
          [&](int d, double b, double e) { gotS.emplace(d, b, e); });
      Gudhi::zigzag_persistence::Filtered_zigzag_persistence_with_storage<Opt<CT::INTRUSIVE_LIST>> zt;
      for (int i = 0; i < n; ++i) {
        std::vector<int> b;
        for (int x : bnd[i]) b.push_back(7 * x + 3);
        zs.insert_cell(7 * i + 3, b, dim[i], fil[i]);
        zt.insert_cell(7 * i + 3, b, dim[i], fil[i]);
      }
      for (int i = n - 1; i >= 0; --i) {
        zs.remove_cell(7 * i + 3, maxf + (maxf - fil[i]));
        zt.remove_cell(7 * i + 3, maxf + (maxf - fil[i]));
      }
      for (auto& bar : zt.get_persistence_diagram()) gotT.emplace(bar.dim, bar.birth, bar.death);
      if (gotS != expF || gotT != expF) {
        ok = false;
        std::printf("MISMATCH filtered seed %u: stream %zu storage %zu expected %zu\n", seed0 + c, gotS.size(), gotT.size(), expF.size());
      }
    }
    if (!ok) ++failures;
    std::printf("case %d: %d simplices, %d finite pairs, %d essential -> %s\n", c, n, nFin, nEss, ok ? "ok" : "FAILED");
  }
  std::printf("%s (%d failures)\n", failures ? "FAIL" : "PASS", failures);
  return failures ? 1 : 0;
}

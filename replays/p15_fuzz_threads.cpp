// fuzz_threads.cpp - "independent objects used from different threads": every thread owns its simplex trees and
// matrices (several option sets, Z2 and Zp coefficients, all the field classes that are not documented as shared) and
// drives them through insertions, copies, moves, swaps, serialisation, barcode / representative cycle computations.
// Built with -fsanitize=thread: any access to a common mutable global of the library is reported as a data race.
// The results of all the threads are compared with the result of the same workload run alone (same seed).
//
// Build: g++ -std=gnu++17 -O1 -g -fsanitize=thread $(ls -d /repo/src/*/include | sed 's/^/-I/') \
//        fuzz_threads.cpp -o fuzz_threads -ltbb -lpthread
// RESULT: 4 threads x 40 rounds: no race reported, identical results.
#include <gudhi/Simplex_tree.h>
#include <gudhi/Matrix.h>
#include <gudhi/persistence_matrix_options.h>
#include <gudhi/Fields/Zp_field_operators.h>
#include <gudhi/Fields/Zp_field.h>
#include <gudhi/Fields/Z2_field.h>
#include <gudhi/Fields/Multi_field_small_operators.h>

#include <iostream>
#include <random>
#include <sstream>
#include <thread>
#include <vector>

using namespace Gudhi::persistence_matrix;

template <Column_types CT, bool Z2, bool BNDT, bool VINE, bool REP>
struct Opt : Default_options<CT, Z2> {
  static const bool has_column_pairings = true;
  static const bool has_vine_update = VINE;
  static const bool can_retrieve_representative_cycles = REP;
  static const bool is_of_boundary_type = BNDT;
  static const bool has_row_access = CT != Column_types::HEAP;
  static const bool has_removable_columns = true;
  static const bool has_map_column_container = !BNDT;
};

template <class O>
void matrix_work(std::mt19937& rng, std::ostream& os) {
  using M = Matrix<O>;
  using ER = typename M::Entry_representative;
  // boundaries of a filled triangle + a pending vertex, Z_5 signs
  auto mk = [](std::initializer_list<std::pair<unsigned, unsigned>> l) {
    std::vector<ER> r;
    for (auto& p : l) {
      if constexpr (O::is_z2) r.push_back(p.first); else r.push_back(ER(p.first, p.second));
    }
    return r;
  };
  M m(10, 5);
  m.insert_boundary(mk({}));
  m.insert_boundary(mk({}));
  m.insert_boundary(mk({}));
  m.insert_boundary(mk({{0, 4}, {1, 1}}));
  m.insert_boundary(mk({{0, 4}, {2, 1}}));
  m.insert_boundary(mk({{1, 4}, {2, 1}}));
  m.insert_boundary(mk({{3, 1}, {4, 4}, {5, 1}}));
  M c(m);
  M d(std::move(c));
  swap(m, d);
  c = d;
  if (rng() % 2) m.remove_last();
  for (auto& b : m.get_current_barcode()) os << b.birth << "," << b.death << "," << b.dim << ";";
  if constexpr (O::can_retrieve_representative_cycles) {
    m.update_representative_cycles();
    os << m.get_representative_cycles().size() << ";";
  }
  if constexpr (O::has_vine_update && O::is_of_boundary_type) {
    os << m.vine_swap(1) << ";";
    for (auto& b : m.get_current_barcode()) os << b.birth << "," << b.death << "," << b.dim << ";";
  }
}

void tree_work(std::mt19937& rng, std::ostream& os) {
  using ST = Gudhi::Simplex_tree<Gudhi::Simplex_tree_options_full_featured>;
  ST st;
  for (int i = 0; i < 30; ++i) {
    std::vector<int> s;
    for (int j = 0, n = 1 + rng() % 4; j < n; ++j) s.push_back(rng() % 9);
    st.insert_simplex_and_subfaces(s, (double)(rng() % 10));
  }
  ST c(st);
  ST d(std::move(c));
  c = d;
  std::swap(c, d);
  st.initialize_filtration();
  for (auto sh : st.filtration_simplex_range()) os << st.filtration(sh) << " ";
  std::size_t sz = st.get_serialization_size();
  std::vector<char> buf(sz);
  st.serialize(buf.data(), sz);
  Gudhi::Simplex_tree<Gudhi::Simplex_tree_options_full_featured> e;
  e.deserialize(buf.data(), sz);
  os << (e == st) << ";";
  std::stringstream ss;
  ss << st;
  ST f;
  ss >> f;
  os << (f == st) << ";";
  Gudhi::Simplex_tree<Gudhi::Simplex_tree_options_minimal> mini;
  mini.insert_simplex_and_subfaces({0, 1, 2});
  os << mini.filtration(mini.find({0, 1})) << ";";  // static null_ of the dummy filtration base
  // field elements (lazy tables)
  Gudhi::persistence_fields::Zp_field_element<7> a(3), b(5);
  os << (a * b).get_value() << "," << a.get_inverse().get_value() << ";";
  Gudhi::persistence_fields::Multi_field_operators_with_small_characteristics mf(3, 11);
  os << mf.get_inverse(7u) << ";";
}

std::string workload(unsigned seed) {
  std::mt19937 rng(seed);
  std::ostringstream os;
  for (int round = 0; round < 40; ++round) {
    tree_work(rng, os);
    matrix_work<Opt<Column_types::INTRUSIVE_SET, true, true, true, true>>(rng, os);
    matrix_work<Opt<Column_types::LIST, false, true, false, true>>(rng, os);
    matrix_work<Opt<Column_types::VECTOR, false, false, false, true>>(rng, os);
    matrix_work<Opt<Column_types::INTRUSIVE_LIST, true, false, true, false>>(rng, os);
    matrix_work<Opt<Column_types::HEAP, false, true, false, false>>(rng, os);
    matrix_work<Opt<Column_types::UNORDERED_SET, false, false, false, false>>(rng, os);
  }
  return os.str();
}

int main() {
  const int NT = 4;
  std::vector<std::string> expected(NT), got(NT);
  for (int i = 0; i < NT; ++i) expected[i] = workload(100 + i);
  std::vector<std::thread> th;
  for (int i = 0; i < NT; ++i) th.emplace_back([i, &got]() { got[i] = workload(100 + i); });
  for (auto& t : th) t.join();
  bool ok = true;
  for (int i = 0; i < NT; ++i) ok = ok && got[i] == expected[i];
  std::cout << (ok ? "PASS" : "FAIL (results differ between threaded and sequential runs)") << std::endl;
  return ok ? 0 : 1;
}

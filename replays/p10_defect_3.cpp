// Defect 3: the table of inverses is built with a product that overflows the integer type it is computed in.
//   Shared_Zp_field_element<T>::initialize (Zp_field_shared.h:87-95) computes `Element mult = inv * i` in the element type T;
//   Zp_field_operators<T>::set_characteristic (Zp_field_operators.h:84-93) computes `unsigned int mult = inv * i`.
//   inv and i both go up to p - 1, so the product is cut as soon as (p-1)^2 > max(type). The search loop
//   `while (mult % p != 1)` then either stops on a wrong `inv` (wrong inverse stored) or never stops (hang), and the
//   test `mult == characteristic` that is supposed to refuse composite numbers never fires (hang instead of refusal).
//   Inside the quantifier of the property (p < 2^16, element type able to hold p):
//     (a) Shared_Zp_field_element<unsigned short>, p = 263     -> inverse of 262 is 213 (expected 262)
//     (b) Shared_Zp_field_element<unsigned short>, p = 257     -> initialize never returns
//     (c) Shared_Zp_field_element<unsigned char>,  c = 121=11^2 -> initialize never returns instead of throwing
//   Outside the quantifier (p > 2^16; no bound is documented, unsigned int is the default element type):
//     (d) Zp_field_operators<>, p = 100003 -> 20757 wrong inverses   (e) Zp_field_operators<>, p = 65537 -> never returns
//   (arithmetic itself, _add/_subtract/_multiply, is overflow safe for these p: only the inverse table is wrong)
// Build: g++ -std=gnu++17 -O1 -g -fsanitize=address,undefined -I<repo>/src/Persistence_matrix/include defect_3.cpp -o defect_3
// Run:   ./defect_3        (cases that hang are cut after 10 s by alarm() and reported)
#include <csignal>
#include <csetjmp>
#include <cstdlib>
#include <string>
#include <unistd.h>
#include <iostream>
#include <stdexcept>
#include <vector>
#include <gudhi/Fields/Zp_field_shared.h>
#include <gudhi/Fields/Zp_field_operators.h>

using namespace Gudhi::persistence_fields;

static sigjmp_buf env;
static void on_alarm(int) { siglongjmp(env, 1); }
// runs f(); returns false if it did not come back within `seconds`
template <class Fn> bool returns_in_time(Fn f, unsigned seconds) {
  if (sigsetjmp(env, 1) == 0) { alarm(seconds); f(); alarm(0); return true; }
  return false;
}

int main() {
  signal(SIGALRM, on_alarm);
  int failures = 0;
  {  // (a)
    using F = Shared_Zp_field_element<unsigned short>;
    F::initialize(263);
    int bad = 0; unsigned firstBad = 0, firstInv = 0;
    for (unsigned i = 1; i < 263; ++i) { F x(i); F inv = x.get_inverse(); if ((x * inv).get_value() != 1) { if (!bad) { firstBad = i; firstInv = inv.get_value(); } ++bad; } }
    std::cout << "(a) Shared_Zp_field_element<unsigned short>, p=263: " << bad << " elements with x * x^-1 != 1";
    if (bad) std::cout << "; first: inverse of " << firstBad << " = " << firstInv << " and " << firstBad << "*" << firstInv << " mod 263 = " << (firstBad * firstInv) % 263 << " (expected 1)";
    std::cout << std::endl;
    if (bad) ++failures;
  }
  {  // (b)
    bool ok = returns_in_time([] { Shared_Zp_field_element<unsigned short>::initialize(257); }, 10);
    std::cout << "(b) Shared_Zp_field_element<unsigned short>::initialize(257): " << (ok ? "returned" : "did NOT return within 10 s (expected: returns at once, 257 is prime)") << std::endl;
    if (!ok) ++failures;
  }
  {  // (c)
    bool thrown = false;
    bool ok = returns_in_time([&] { try { Shared_Zp_field_element<unsigned char>::initialize(121); } catch (const std::invalid_argument&) { thrown = true; } }, 10);
    std::cout << "(c) Shared_Zp_field_element<unsigned char>::initialize(121): " << (ok ? (thrown ? "refused" : "ACCEPTED") : "did NOT return within 10 s (expected: std::invalid_argument, 121 = 11 * 11)") << std::endl;
    if (!ok || !thrown) ++failures;
  }
  {  // (d) outside the quantifier of the property (p > 2^16)
    int bad = -1;
    bool ok = returns_in_time([&] { Zp_field_operators<> op(100003); bad = 0; for (unsigned i = 1; i < 100003; ++i) if (op.multiply(i, op.get_inverse(i)) != 1) ++bad; }, 120);
    std::cout << "(d) Zp_field_operators<unsigned int>, p=100003: " << (ok ? std::to_string(bad) + " elements with x * x^-1 != 1 (expected 0)" : std::string("did not return within 120 s")) << std::endl;
    if (!ok || bad) ++failures;
  }
  {  // (e) outside the quantifier of the property (p > 2^16)
    bool ok = returns_in_time([] { Zp_field_operators<> op(65537); }, 60);
    std::cout << "(e) Zp_field_operators<unsigned int>(65537): " << (ok ? "returned" : "did NOT return within 60 s (expected: a few seconds, 65537 is prime)") << std::endl;
    if (!ok) ++failures;
  }
  std::cout << (failures ? "FAIL" : "PASS") << " (" << failures << " of 5 cases)" << std::endl;
  std::_Exit(failures ? 1 : 0);  // no leak report for the vectors abandoned by the interrupted calls
}

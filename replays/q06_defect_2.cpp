// Defect 2: RU matrix with IDENTIFIER indexing: after a vine swap, insert_boundary() does not read the boundary
// in cell identifiers any more. Id_to_index_overlay::insert_boundary hands the boundary unchanged to RU_matrix /
// Boundary_matrix, whose rows are attached to POSITIONS (a vine swap exchanges the two rows), while every other
// function of the identifier-indexed matrix (get_column, vine_swap, remove_maximal_cell, get_column_dimension ...)
// follows the cell: the new cell is glued to the wrong faces and the barcode is wrong. The chain matrix with the same
// indexing, given exactly the same calls, answers correctly.
//
// Build: g++ -std=gnu++17 -O1 -g -fsanitize=address,undefined -I<gudhi>/src/Persistence_matrix/include
//            -I<gudhi>/src/common/include defect_2.cpp -o defect_2
#include <gudhi/Matrix.h>
#include <gudhi/persistence_matrix_options.h>

#include <iostream>
#include <set>
#include <tuple>
#include <vector>

using namespace Gudhi::persistence_matrix;

template <bool boundary_type>
struct Opt : Default_options<Column_types::INTRUSIVE_SET, true> {
  static const Column_indexation_types column_indexation_type = Column_indexation_types::IDENTIFIER;
  static const bool is_of_boundary_type = boundary_type;
  static const bool has_column_pairings = true;
  static const bool has_vine_update = true;
};

using Bars = std::multiset<std::tuple<int, int, int>>;

template <class M>
Bars run(const char* name) {
  using B = std::vector<unsigned>;
  M m;
  m.insert_boundary(0, B{});  // vertex a, identifier 0
  m.insert_boundary(1, B{});  // vertex b, identifier 1
  m.insert_boundary(2, B{});  // vertex c, identifier 2
  m.vine_swap(1, 2);          // b and c exchange their places: filtration a, c, b
  m.insert_boundary(3, B{0, 1});  // edge ab, "indices of the boundary = cellIndex values of precedent calls"
  Bars bars;
  std::cout << name << ": ";
  for (const auto& bar : m.get_current_barcode()) {
    std::cout << "[" << bar.dim << ": " << bar.birth << ", " << (int)bar.death << ") ";
    bars.insert({bar.dim, (int)bar.birth, (int)bar.death});
  }
  std::cout << "\n";
  return bars;
}

int main() {
  // filtration a, c, b, ab : ab kills b, which is at position 2
  Bars expected = {{0, 0, -1}, {0, 1, -1}, {0, 2, 3}};
  Bars chain = run<Matrix<Opt<false>>>("chain matrix, IDENTIFIER");
  Bars ru = run<Matrix<Opt<true>>>("RU matrix,    IDENTIFIER");
  std::cout << "expected (rebuild of a, c, b, ab): [0: 0, -1) [0: 1, -1) [0: 2, 3)\n";
  bool ok = (ru == expected) && (chain == expected);
  if (ru != expected) std::cout << "RU matrix: edge {0,1} was glued to a and c (rows of positions 0 and 1), not to a and b\n";
  std::cout << (ok ? "PASS" : "FAIL") << std::endl;
  return ok ? 0 : 1;
}

// fuzz_collapse_large.cpp - second differential test of Gudhi::collapse::flag_complex_collapse_edges (property C12)
// on larger graphs (12..36 vertices, up to 630 edges), where the whole flag complex is too big for fuzz_collapse.cpp.
//
// Reference (independent of GUDHI): cliques up to dimension 3 are enumerated by brute force, Z/2 persistence by plain
// column reduction (sparse columns); the diagrams in dimension 0, 1, 2 (exact, since the 3-skeleton is complete) of the
// flag filtration of the input and of the output are compared as multisets.  Also checked: output edges are input
// edges, once each, with a value >= input value; and the number of output edges never exceeds the input.
// Graph families: complete graphs with random / tied weights, Erdos-Renyi, Rips graphs of points on a circle / a
// torus-like grid / uniform in the square (real distances and quantized distances = many ties), random relabelling
// of the vertices with gaps.
//
// Build: g++ -std=gnu++17 -O2 [-DNDEBUG] [-fsanitize=address,undefined] [-DGUDHI_COLLAPSE_USE_DENSE_ARRAY] [-DGUDHI_USE_TBB]
//        -I/tmp/seed/P12/src/Collapse/include -I/tmp/seed/P12/src/common/include fuzz_collapse_large.cpp -ltbb
// Run: ./a.out [seed] [ncases]
//
// RESULT: -O2, SPARSE / DENSE / SPARSE+TBB / DENSE+TBB, seed 5 x 1500 graphs each (345399 input edges, ~137000 output
// edges; TBB and non-TBB builds order ties differently and return different - both correct - edge sets): 0 failure.

#include <gudhi/Flag_complex_edge_collapser.h>

#include <algorithm>
#include <array>
#include <cmath>
#include <cstdint>
#include <cstdlib>
#include <functional>
#include <iostream>
#include <map>
#include <random>
#include <set>
#include <tuple>
#include <vector>

using V = int;
using F = double;
using FE = std::tuple<V, V, F>;
struct Iv { int dim; double b, d; bool operator<(Iv const& o) const { return std::tie(dim, b, d) < std::tie(o.dim, o.b, o.d); } bool operator==(Iv const& o) const { return dim == o.dim && b == o.b && d == o.d; } };

static const double VERT = -1e300;  // vertices below everything
static const double ESS = 1e300;

std::vector<Iv> diagram(std::vector<V> const& verts, std::vector<FE> const& edges, int maxdim /*skeleton dim*/) {
  int n = (int)verts.size();
  std::map<V, int> idx;
  for (int i = 0; i < n; ++i) idx[verts[i]] = i;
  std::vector<std::vector<char>> adj(n, std::vector<char>(n, 0));
  std::vector<std::vector<F>> w(n, std::vector<F>(n, 0));
  for (auto const& e : edges) {
    int a = idx.at(std::get<0>(e)), b = idx.at(std::get<1>(e));
    if (a == b || adj[a][b]) { std::cerr << "bad graph\n"; std::abort(); }
    adj[a][b] = adj[b][a] = 1; w[a][b] = w[b][a] = std::get<2>(e);
  }
  struct S { std::vector<int> v; double k; };
  std::vector<S> simp;
  std::vector<int> cur;
  std::function<void(int, double)> rec = [&](int start, double k) {
    for (int x = start; x < n; ++x) {
      bool ok = true; double k2 = k;
      for (int y : cur) { if (!adj[x][y]) { ok = false; break; } k2 = std::max(k2, w[x][y]); }
      if (!ok) continue;
      cur.push_back(x);
      simp.push_back({cur, k2});
      if ((int)cur.size() <= maxdim) rec(x + 1, k2);
      cur.pop_back();
    }
  };
  rec(0, VERT);
  std::stable_sort(simp.begin(), simp.end(), [](S const& a, S const& b) { return a.k != b.k ? a.k < b.k : a.v.size() < b.v.size(); });
  std::size_t m = simp.size();
  std::map<std::vector<int>, int> pos;
  for (std::size_t i = 0; i < m; ++i) pos[simp[i].v] = (int)i;
  std::vector<std::vector<int>> col(m);
  std::vector<int> owner(m, -1);
  std::vector<char> paired(m, 0);
  std::vector<Iv> res;
  std::vector<int> tmp;
  for (std::size_t j = 0; j < m; ++j) {
    auto const& s = simp[j].v;
    std::vector<int>& c = col[j];
    if (s.size() > 1) {
      for (std::size_t d = 0; d < s.size(); ++d) {
        std::vector<int> f;
        for (std::size_t t = 0; t < s.size(); ++t) if (t != d) f.push_back(s[t]);
        c.push_back(pos.at(f));
      }
      std::sort(c.begin(), c.end());
    }
    while (!c.empty() && owner[c.back()] >= 0) {
      auto const& o = col[owner[c.back()]];
      tmp.clear();
      std::set_symmetric_difference(c.begin(), c.end(), o.begin(), o.end(), std::back_inserter(tmp));
      c.swap(tmp);
    }
    if (!c.empty()) {
      int l = c.back();
      owner[l] = (int)j; paired[l] = paired[j] = 1;
      if (simp[l].k != simp[j].k) res.push_back({(int)simp[l].v.size() - 1, simp[l].k, simp[j].k});
    }
  }
  for (std::size_t j = 0; j < m; ++j) if (!paired[j]) res.push_back({(int)simp[j].v.size() - 1, simp[j].k, ESS});
  std::vector<Iv> r2;
  for (auto const& i : res) if (i.dim < maxdim) r2.push_back(i);
  std::sort(r2.begin(), r2.end());
  return r2;
}

int main(int argc, char** argv) {
  std::uint64_t seed = argc > 1 ? std::strtoull(argv[1], 0, 10) : 1;
  int ncases = argc > 2 ? std::atoi(argv[2]) : 100;
  std::mt19937_64 rng(seed);
  long fails = 0; long tot_in = 0, tot_out = 0;
  for (int c = 0; c < ncases; ++c) {
    int n = 12 + rng() % 25;
    std::vector<V> label(n);
    for (int i = 0; i < n; ++i) label[i] = i;
    if (rng() % 2) { std::set<int> s; while ((int)s.size() < n) s.insert(rng() % 200); label.assign(s.begin(), s.end()); }
    std::shuffle(label.begin(), label.end(), rng);
    int shape = rng() % 6;
    std::vector<FE> edges;
    auto U = [&](double a, double b) { return std::uniform_real_distribution<double>(a, b)(rng); };
    if (shape <= 1) {
      double p = shape == 0 ? 1.0 : U(0.3, 0.9);
      int levels = (rng() % 2) ? 1 + rng() % 5 : 0;
      for (int i = 0; i < n; ++i) for (int j = 0; j < i; ++j) if (U(0, 1) <= p)
        edges.emplace_back(label[i], label[j], levels ? double(rng() % levels) : U(0, 1));
    } else {
      std::vector<std::array<double, 3>> pts(n);
      if (shape == 2) for (int i = 0; i < n; ++i) { double a = 2 * M_PI * i / n + U(0, 0.05); pts[i] = {std::cos(a), std::sin(a), 0}; }
      else if (shape == 3) for (auto& q : pts) q = {U(0, 1), U(0, 1), 0};
      else if (shape == 4) for (int i = 0; i < n; ++i) { double a = U(0, 2 * M_PI), b = U(0, 2 * M_PI); pts[i] = {(2 + std::cos(a)) * std::cos(b), (2 + std::cos(a)) * std::sin(b), std::sin(a)}; }
      else for (int i = 0; i < n; ++i) pts[i] = {double(i % 5), double(i / 5), 0};  // grid: massive ties
      double maxd = 0;
      for (int i = 0; i < n; ++i) for (int j = 0; j < i; ++j) maxd = std::max(maxd, std::hypot(std::hypot(pts[i][0] - pts[j][0], pts[i][1] - pts[j][1]), pts[i][2] - pts[j][2]));
      double thr = U(0.4, 1.0) * maxd;
      bool quant = rng() % 2;
      for (int i = 0; i < n; ++i) for (int j = 0; j < i; ++j) {
        double d = std::hypot(std::hypot(pts[i][0] - pts[j][0], pts[i][1] - pts[j][1]), pts[i][2] - pts[j][2]);
        if (d <= thr) { bool sw = rng() % 2; edges.emplace_back(sw ? label[i] : label[j], sw ? label[j] : label[i], quant ? std::floor(8 * d / maxd) : d); }
      }
    }
    if (edges.empty()) continue;
    std::shuffle(edges.begin(), edges.end(), rng);
    auto out = Gudhi::collapse::flag_complex_collapse_edges(edges);
    tot_in += edges.size(); tot_out += out.size();
    bool ok = true;
    std::map<std::pair<V, V>, F> inmap; std::set<V> vs;
    for (auto const& e : edges) { inmap[{std::get<0>(e), std::get<1>(e)}] = std::get<2>(e); vs.insert(std::get<0>(e)); vs.insert(std::get<1>(e)); }
    std::set<std::pair<V, V>> seen;
    for (auto const& e : out) {
      auto k = std::make_pair(std::get<0>(e), std::get<1>(e));
      auto it = inmap.find(k);
      if (it == inmap.end() || std::get<2>(e) < it->second || !seen.insert(k).second) { ok = false; std::cerr << "FAIL: bad output edge\n"; }
    }
    std::vector<V> verts(vs.begin(), vs.end());
    auto d1 = diagram(verts, edges, 3), d2 = diagram(verts, out, 3);
    if (!(d1 == d2)) { ok = false; std::cerr << "FAIL: diagrams differ (dims 0..2), case " << c << " shape " << shape << " n " << n << "\n"; }
    if (!ok) {
      ++fails;
      std::cerr.precision(17);
      std::cerr << "input = {"; for (auto const& e : edges) std::cerr << "{" << std::get<0>(e) << "," << std::get<1>(e) << "," << std::get<2>(e) << "},"; std::cerr << "}\n";
      if (fails >= 3) break;
    }
  }
  std::cout << "cases " << ncases << " failures " << fails << " edges in " << tot_in << " out " << tot_out << "\n" << (fails ? "FAIL" : "PASS") << std::endl;
  return fails ? 1 : 0;
}

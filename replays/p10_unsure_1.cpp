// UNSURE 1 (input of doubtful legality): a NEGATIVE lower bound given to the `int` interval of Multi_field_operators /
// persistent_cohomology::Multi_field is neither refused nor clamped to 0: mpz_init_set_ui(tmp_prime, minimum) receives 2^64 - 5,
// mpz_nextprime walks through the primes above 2^64 and mpz_get_ui keeps their low bits: 13, 37, 51, 81, 93, ... are taken as "primes".
// [-5, 100] becomes the ring Z/(13*37*51*81*93)Z (51, 81, 93 are not prime, 3 divides three of the factors).
// Multi_field_operators_with_small_characteristics(-5, 100) refuses the same interval.
// Build: g++ -std=gnu++17 -O1 -g -I<repo>/src/Persistence_matrix/include -I<repo>/src/Persistent_cohomology/include unsure_1.cpp -o unsure_1 -lgmpxx -lgmp
#include <cassert>
#include <iostream>
#include <gmpxx.h>
#include <gudhi/Persistent_cohomology/Multi_field.h>
#include <gudhi/Fields/Multi_field_operators.h>
int main() {
  Gudhi::persistent_cohomology::Multi_field mf;
  mf.init(-5, 100);
  std::cout << "persistent_cohomology::Multi_field::init(-5, 100): characteristic " << mf.characteristic() << ", primes_:";
  for (auto p : mf.primes_) std::cout << " " << p;
  std::cout << std::endl;
  Gudhi::persistence_fields::Multi_field_operators op(-5, 100);
  std::cout << "Multi_field_operators(-5, 100): characteristic " << op.get_characteristic() << " (product of the primes of [0,100]: 2305567963945518424753102147331756070)" << std::endl;
  bool bad = op.get_characteristic() == 184792023;
  std::cout << (bad ? "FAIL" : "PASS") << std::endl;
  return bad ? 1 : 0;
}

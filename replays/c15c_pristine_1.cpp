// Pristine: a moved-from Matrix is not usable again. The move constructor leaves colSettings_ == nullptr in the source
// (Matrix.h: colSettings_(std::exchange(other.colSettings_, nullptr))), and every later insertion (or
// set_characteristic) dereferences it.
#include <gudhi/Matrix.h>
#include <gudhi/persistence_matrix_options.h>
#include <iostream>
#include <utility>
#include <vector>
using namespace Gudhi::persistence_matrix;
struct Opt : Default_options<Column_types::INTRUSIVE_SET, false> {};  // Z_p boundary matrix
int main() {
  using M = Matrix<Opt>;
  using B = std::vector<std::pair<unsigned int, unsigned int> >;
  M a(5, 5);  // 5 columns reserved, characteristic 5
  a.insert_boundary(B{});
  a.insert_boundary(B{});
  a.insert_boundary(B{{0, 1}, {1, 4}});
  M b(std::move(a));
  std::cout << "moved-from: " << a.get_number_of_columns() << " columns, target: " << b.get_number_of_columns()
            << std::endl;
  a.insert_boundary(B{});  // null pointer dereference (SIGSEGV; UBSan: member access within null pointer)
  a.insert_boundary(B{});
  a.insert_boundary(B{{0, 1}, {1, 4}});
  std::cout << "PASS: moved-from matrix reused, " << a.get_number_of_columns() << " columns" << std::endl;
  return 0;
}

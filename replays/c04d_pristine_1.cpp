// Pristine observation (boundary of the accepted range, d = 0): the routes do not agree on "expansion to dimension 0".
// The clique complex truncated at dimension 0 has the vertices only.
//   - insert_edge_as_flag(u, v, f, dim_max = 0, ...) creates nothing for an edge (consistent with the statement),
//   - expansion(0) / expansion_with_blockers(0, never) / Rips_complex::create_complex(st, 0) keep the edges of the graph
//     (dimension() == 1), because the graph is inserted before the (no-op) expansion.
#include <gudhi/Simplex_tree.h>
#include <gudhi/Rips_complex.h>
#include <iostream>
#include <vector>

int main() {
  using ST = Gudhi::Simplex_tree<Gudhi::Simplex_tree_options_full_featured>;
  std::vector<std::vector<double>> m = {{}, {1.}, {1., 1.}};  // 3 points, all at distance 1
  ST rips_st;
  Gudhi::rips_complex::Rips_complex<double>(m, 2.).create_complex(rips_st, 0);

  ST one_shot;
  for (int v = 0; v < 3; ++v) one_shot.insert_simplex({v}, 0.);
  one_shot.insert_simplex({0, 1}, 1.); one_shot.insert_simplex({0, 2}, 1.); one_shot.insert_simplex({1, 2}, 1.);
  ST blockers = one_shot;
  one_shot.expansion(0);
  blockers.expansion_with_blockers(0, [](ST::Simplex_handle) { return false; });

  ST incremental;
  std::vector<ST::Simplex_handle> added;
  for (int v = 0; v < 3; ++v) incremental.insert_edge_as_flag(v, v, 0., 0, added);
  incremental.insert_edge_as_flag(0, 1, 1., 0, added);
  incremental.insert_edge_as_flag(0, 2, 1., 0, added);
  incremental.insert_edge_as_flag(1, 2, 1., 0, added);

  std::cout << "d = 0: Rips " << rips_st.num_simplices() << " simplices (dim " << rips_st.dimension() << "), one-shot "
            << one_shot.num_simplices() << " (dim " << one_shot.dimension() << "), blockers " << blockers.num_simplices()
            << " (dim " << blockers.dimension() << "), incremental " << incremental.num_simplices() << " (dim "
            << incremental.dimension() << "), reported " << added.size() << std::endl;
  bool same = rips_st.num_simplices() == 3 && one_shot.num_simplices() == 3 && blockers.num_simplices() == 3 &&
              incremental.num_simplices() == 3;
  std::cout << (same ? "PASS" : "FAIL") << std::endl;
  return same ? 0 : 1;
}

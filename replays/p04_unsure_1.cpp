// unsure_1 (NOT counted as a defect, see defects.md "unsure"): at maximal dimension 0 the routes disagree.
//   Rips_complex::create_complex(st, 0) and insert_graph + expansion(0) / expansion_with_blockers(0, ...) keep the
//   edges (result of dimension 1), insert_edge_as_flag(u, v, f, 0, ...) inserts nothing (result of dimension 0).
// The statement of C04 ("cliques with at most d+1 vertices") would ask for the vertices only; the documentation of
// expansion() speaks of "the maximal simplicial complex of dimension at most d admitting the graph G as 1-skeleton",
// which does not exist for d = 0 when G has an edge, so d >= 1 is probably an implicit precondition there; the
// documentation of Rips_complex::create_complex ("expands it until a given maximal dimension") has no such escape.
#include <gudhi/Simplex_tree.h>
#include <gudhi/Rips_complex.h>
#include <gudhi/distance_functions.h>
#include <iostream>
#include <vector>
using ST = Gudhi::Simplex_tree<Gudhi::Simplex_tree_options_full_featured>;
int main() {
  std::vector<std::vector<double>> pts = {{0.}, {1.}, {2.}};
  Gudhi::rips_complex::Rips_complex<double> rips(pts, 1.5, Gudhi::Euclidean_distance());
  ST a;
  rips.create_complex(a, 0);
  ST b;
  std::vector<ST::Simplex_handle> added;
  for (int v = 0; v < 3; ++v) b.insert_edge_as_flag(v, v, 0., 0, added);
  b.insert_edge_as_flag(0, 1, 1., 0, added);
  b.insert_edge_as_flag(1, 2, 1., 0, added);
  std::cout << "Rips create_complex(st, 0): " << a.num_simplices() << " simplices, dimension " << a.dimension() << "\n";
  std::cout << "insert_edge_as_flag(.., dim_max = 0): " << b.num_simplices() << " simplices, dimension " << b.dimension()
            << "\n";
  std::cout << (a == b ? "same" : "DIFFERENT") << std::endl;
  return 0;
}

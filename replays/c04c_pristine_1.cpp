// Pristine observation: maximal dimension 0 (and negative values) is not handled consistently by the three routes.
// Graph: K4 on {0,1,2,3}, all vertices 0, all edges 1.  The clique complex truncated at dimension 0 has 4 simplices.
//   expansion(0)                      -> leaves the 6 edges in place        (10 simplices, dimension 1)
//   expansion_with_blockers(0, never) -> k starts at -1, never reaches 0: FULL expansion (15 simplices, dimension 3)
//   insert_edge_as_flag(.., 0, ..)    -> silently drops every edge           (4 simplices, reports 4)
#include <gudhi/Simplex_tree.h>
#include <iostream>
using namespace Gudhi;
struct Opt : Simplex_tree_options_default { static const bool link_nodes_by_label = true; };
using ST = Simplex_tree<Opt>;
static void load(ST& st) {
  for (int v = 0; v < 4; ++v) st.insert_simplex({v}, 0.);
  for (int a = 0; a < 4; ++a) for (int b = a + 1; b < 4; ++b) st.insert_simplex({a, b}, 1.);
}
int main() {
  bool ok = true;
  for (int d : {0, -1}) {
    ST s1; load(s1); s1.expansion(d);
    ST s2; load(s2); s2.expansion_with_blockers(d, [](ST::Simplex_handle) { return false; });
    ST s3; std::vector<ST::Simplex_handle> a;
    for (int v = 0; v < 4; ++v) s3.insert_edge_as_flag(v, v, 0., d, a);
    for (int x = 0; x < 4; ++x) for (int y = x + 1; y < 4; ++y) s3.insert_edge_as_flag(x, y, 1., d, a);
    std::cout << "max_dim=" << d << ": expansion -> " << s1.num_simplices() << " simplices (dim " << s1.dimension() << "), "
              << "expansion_with_blockers(never) -> " << s2.num_simplices() << " (dim " << s2.dimension() << "), "
              << "insert_edge_as_flag -> " << s3.num_simplices() << " (dim " << s3.dimension() << ", reported " << a.size() << ")\n";
    if (d == 0 && !(s1.num_simplices() == 4 && s2.num_simplices() == 4 && s3.num_simplices() == 4)) ok = false;
    if (!(s1 == s2) || !(s1 == s3)) ok = false;
  }
  std::cout << (ok ? "PASS" : "FAIL") << std::endl;
  return ok ? 0 : 1;
}

// Pristine defect 4 (property C06, RU matrix with IDENTIFIER indexing): an insertion after a vine swap does not
// behave as on a fresh matrix.
// The vine swaps of the RU matrix exchange the rows of R, so a row does not stand for the cell whose ID it carries
// anymore, but a boundary inserted afterwards is still read as a set of row indices = cell IDs.
//
// Filtration: v0 (ID 0), v1 (ID 1), v2 (ID 2). vine_swap(1, 2) -> v0 v2 v1. Then the edge {v0, v2} is inserted with
// ID 3 and boundary {0, 2}. On the resulting filtration v0 v2 v1 e it kills v2 at position 1: [0,inf) [1,3] [2,inf).
#include <gudhi/Matrix.h>
#include <gudhi/persistence_matrix_options.h>
#include <iostream>
#include <set>
#include <tuple>
#include <vector>

using namespace Gudhi::persistence_matrix;

struct RU_opts : Default_options<Column_types::INTRUSIVE_SET, true> {
  static const Column_indexation_types column_indexation_type = Column_indexation_types::IDENTIFIER;
  static const bool has_vine_update = true;
  static const bool has_column_pairings = true;
};
using M = Matrix<RU_opts>;
using B = std::vector<unsigned int>;
using Bars = std::multiset<std::tuple<int, int, int> >;

Bars bars(M& m) {
  Bars b;
  for (const auto& bar : m.get_current_barcode())
    b.insert({bar.dim, (int)bar.birth, bar.death == M::get_null_value<unsigned int>() ? -1 : (int)bar.death});
  return b;
}
void print(const char* n, const Bars& b) {
  std::cout << n;
  for (auto& t : b) std::cout << " [" << std::get<0>(t) << ": " << std::get<1>(t) << ", " << std::get<2>(t) << "]";
  std::cout << "\n";
}

int main() {
  M m;
  m.insert_boundary(0, B{});
  m.insert_boundary(1, B{});
  m.insert_boundary(2, B{});
  m.vine_swap(1, 2);               // filtration: v0 v2 v1
  m.insert_boundary(3, B{0, 2});   // edge {v0, v2}

  Bars expected = {{0, 0, -1}, {0, 1, 3}, {0, 2, -1}};
  print("swapped matrix:", bars(m));
  print("expected      :", expected);
  bool ok = bars(m) == expected;
  std::cout << (ok ? "PASS" : "FAIL") << std::endl;
  return ok ? 0 : 1;
}

// defect_2: Simplex_tree::insert_edge_as_flag() cancels a pending recomputation of the dimension.
// After remove_maximal_simplex() lowered the real dimension (dimension_to_be_lowered_ == true, dimension_ == old
// value, documented: "upper_bound_dimension() returns the old value ... call dimension() to recompute the exact
// dimension"), inserting ANY edge with insert_edge_as_flag() resets dimension_to_be_lowered_ to false while keeping
// the stale dimension_. From then on dimension() returns the stale value for ever, num_simplices_by_dimension()
// throws "Bug in Gudhi" in debug mode (and returns a vector with a trailing 0 with -DNDEBUG: debug and release builds
// differ), and the tree compares different (operator==) from the same complex built in one shot.
// Cause: Simplex_tree.h insert_edge_as_flag(), l.1698-1699 and l.1734-1739:
//     const auto tmp_dim = dimension_;  auto tmp_max_dim = dimension_;   ...
//     if (tmp_dim <= tmp_max_dim) { dimension_ = tmp_max_dim; dimension_to_be_lowered_ = false; }
// tmp_max_dim starts at dimension_ and only grows, so the test is always true: the flag is cleared even when no
// simplex of dimension dimension_ was created (it should only be cleared when tmp_max_dim > tmp_dim, or ==  with a
// simplex of that dimension really created).
// History (all legal: the complex is at every step the flag complex of the current graph, truncated at 3):
//   build the tetrahedron 0123 edge by edge, remove the star of edge {2,3} (cofaces first), add vertex 4, add edge {3,4}.
// Build: g++ -std=gnu++17 -O1 -g -fsanitize=address,undefined -I<gudhi includes> defect_2.cpp -o defect_2 -ltbb
#include <gudhi/Simplex_tree.h>
#include <iostream>
#include <vector>

using ST = Gudhi::Simplex_tree<Gudhi::Simplex_tree_options_full_featured>;

int main() {
  bool fail = false;
  ST st;
  std::vector<ST::Simplex_handle> added;
  for (int v = 0; v < 4; ++v) st.insert_edge_as_flag(v, v, 0., 3, added);
  for (int u = 0; u < 4; ++u)
    for (int v = u + 1; v < 4; ++v) st.insert_edge_as_flag(u, v, 1., 3, added);
  std::cout << "tetrahedron: dimension() = " << st.dimension() << ", " << st.num_simplices() << " simplices\n";
  // remove edge {2,3} and its cofaces, largest first
  st.remove_maximal_simplex(st.find({0, 1, 2, 3}));
  st.remove_maximal_simplex(st.find({0, 2, 3}));
  st.remove_maximal_simplex(st.find({1, 2, 3}));
  st.remove_maximal_simplex(st.find({2, 3}));
  std::cout << "after removing the star of {2,3}: upper_bound_dimension() = " << st.upper_bound_dimension()
            << " (3 is allowed here, the recomputation is pending)\n";
  st.insert_edge_as_flag(4, 4, 2., 3, added);
  st.insert_edge_as_flag(3, 4, 2., 3, added);  // creates only the edge {3,4}

  int real = -1;
  for (auto sh : st.complex_simplex_range()) real = std::max(real, st.dimension(sh));
  int got = st.dimension();
  std::cout << "after insert_edge_as_flag(3,4): dimension() = " << got << ", largest simplex has dimension " << real
            << " (expected equal)\n";
  if (got != real) fail = true;

  // the same complex by the one-shot route
  ST one;
  for (int v = 0; v < 5; ++v) one.insert_simplex({v}, v == 4 ? 2. : 0.);
  for (int u = 0; u < 4; ++u)
    for (int v = u + 1; v < 4; ++v)
      if (!(u == 2 && v == 3)) one.insert_simplex({u, v}, 1.);
  one.insert_simplex({3, 4}, 2.);
  one.expansion(3);
  std::cout << "one-shot expansion: dimension() = " << one.dimension() << ", incremental == one-shot : " << (st == one)
            << " (expected 1)\n";
  if (!(st == one)) fail = true;

  bool r = st.prune_above_dimension(2);
  std::cout << "prune_above_dimension(2) returns " << r << " (expected 0: nothing of dimension 3 exists)\n";
  if (r) fail = true;

  ST st2;  // replay up to the insertion to show num_simplices_by_dimension
  {
    std::vector<ST::Simplex_handle> a;
    for (int v = 0; v < 4; ++v) st2.insert_edge_as_flag(v, v, 0., 3, a);
    for (int u = 0; u < 4; ++u)
      for (int v = u + 1; v < 4; ++v) st2.insert_edge_as_flag(u, v, 1., 3, a);
    st2.remove_maximal_simplex(st2.find({0, 1, 2, 3}));
    st2.remove_maximal_simplex(st2.find({0, 2, 3}));
    st2.remove_maximal_simplex(st2.find({1, 2, 3}));
    st2.remove_maximal_simplex(st2.find({2, 3}));
    st2.insert_edge_as_flag(4, 4, 2., 3, a);
    st2.insert_edge_as_flag(3, 4, 2., 3, a);
  }
  try {
    auto v = st2.num_simplices_by_dimension();
    std::cout << "num_simplices_by_dimension():";
    for (auto x : v) std::cout << " " << x;
    std::cout << " (expected 5 6 2)\n";
    if (v.size() != 3) fail = true;
  } catch (const std::logic_error& e) {
    std::cout << "num_simplices_by_dimension() throws: " << e.what() << "\n";
    fail = true;
  }
  std::cout << (fail ? "FAIL" : "PASS") << std::endl;
  return fail ? 1 : 0;
}

// unsure_2.cpp - chain matrix: insert_boundary after vine swaps never returns (Chain_matrix::_reduce_boundary loops and
// the vector chainsInH grows until memory is exhausted).
// The reduction (Chain_matrix.h:1008-1040) always takes the entry of LARGEST IDENTIFIER of the working column and adds
// the column having it as pivot, which only terminates if identifiers increase along the filtration. After a vine
// swap the identifiers stay with their cells, so this is no longer true. UNSURE because insert_boundary(cellIndex, ...)
// documents "all IDs have to be strictly increasing in the order of filtration" - whether the order after the swaps is
// meant is not said; the zigzag module inserts after swaps with such matrices.
// The program prints "before", then never comes back: memory grows until the allocation fails (AddressSanitizer:
// allocation-size-too-big in Chain_matrix::_reduce_by_G, Chain_matrix.h:1056) or the process is killed.
#include <gudhi/Matrix.h>
#include <gudhi/persistence_matrix_options.h>
#include <iostream>
#include <vector>
using namespace Gudhi::persistence_matrix;
struct Opt : Default_options<Column_types::SET, true> {
  static const Column_indexation_types column_indexation_type = Column_indexation_types::POSITION;
  static const bool is_of_boundary_type = false;
  static const bool has_column_pairings = true;
  static const bool has_vine_update = true;
};
int main() {
  typedef std::vector<unsigned> C;
  Matrix<Opt> m;
  m.insert_boundary(C{}, 0); m.insert_boundary(C{}, 0); m.insert_boundary(C{0, 1}, 1); m.insert_boundary(C{});
  m.insert_boundary(C{0, 3}, 1); m.insert_boundary(C{}, 0); m.insert_boundary(C{}, 0); m.insert_boundary(C{5, 6}, 1);
  m.insert_boundary(C{});
  m.vine_swap(0);  // two vertices
  m.vine_swap(4);  // edge {0,3} and vertex 5
  m.insert_boundary(10, C{3, 5}, 1); m.insert_boundary(12, C{5, 8}, 1); m.insert_boundary(15, C{3, 8});
  m.insert_boundary(18, C{1, 6});
  m.vine_swap(8);  // vertex 8 and edge 10 = {3,5}
  std::cout << "before insert_boundary(19, {3, 6})" << std::endl;
  m.insert_boundary(19, C{3, 6});  // a new edge between existing vertices
  std::cout << "after\n";
}

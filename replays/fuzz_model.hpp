// Shared reference model for the P06 (property C06) differential fuzzers fuzz_ru.cpp and fuzz_chain.cpp.
//
// The model is a filtered cell complex kept as an explicit list of cells in filtration order. Persistence is
// recomputed FROM SCRATCH (plain left-to-right column reduction over Z2 on 64-bit bitsets) after every
// operation, so it shares no code and no state with the library.
#pragma once
#include <algorithm>
#include <cstdint>
#include <iostream>
#include <map>
#include <random>
#include <set>
#include <sstream>
#include <string>
#include <tuple>
#include <vector>

namespace model {

using u64 = std::uint64_t;
constexpr int MAXN = 62;

struct Cell {
  unsigned id = 0;              // identifier of the cell (stays with the cell)
  int dim = 0;
  std::vector<unsigned> faces;  // identifiers of the cells of its boundary
  u64 vmask = 0;                // vertex set (only used to generate cofaces); 0 for "spherical" cells
};

struct Bar {
  int dim, birth, death;  // death == -1: essential
  bool operator<(const Bar& o) const { return std::tie(dim, birth, death) < std::tie(o.dim, o.birth, o.death); }
  bool operator==(const Bar& o) const { return dim == o.dim && birth == o.birth && death == o.death; }
};

inline int low(u64 c) { return c == 0 ? -1 : 63 - __builtin_clzll(c); }

struct Model {
  std::vector<Cell> cells;  // filtration order

  int size() const { return (int)cells.size(); }
  int pos_of(unsigned id) const {
    for (int i = 0; i < size(); ++i)
      if (cells[i].id == id) return i;
    return -1;
  }
  bool has_id(unsigned id) const { return pos_of(id) >= 0; }
  unsigned max_id() const {
    unsigned m = 0;
    for (auto& c : cells) m = std::max(m, c.id);
    return m;
  }
  // boundary matrix with rows and columns indexed by position
  std::vector<u64> D() const {
    std::vector<u64> d(size(), 0);
    for (int j = 0; j < size(); ++j)
      for (unsigned f : cells[j].faces) {
        int p = pos_of(f);
        d[j] ^= (u64(1) << p);
      }
    return d;
  }
  // partner[p] = position paired with p, or -1 (essential)
  std::vector<int> pairing() const {
    std::vector<u64> R = D();
    std::vector<int> partner(size(), -1), colOfLow(size(), -1);
    for (int j = 0; j < size(); ++j) {
      while (R[j] != 0 && colOfLow[low(R[j])] != -1) R[j] ^= R[colOfLow[low(R[j])]];
      if (R[j] != 0) {
        colOfLow[low(R[j])] = j;
        partner[j] = low(R[j]);
        partner[low(R[j])] = j;
      }
    }
    return partner;
  }
  std::vector<Bar> barcode() const {
    auto p = pairing();
    std::vector<Bar> b;
    for (int i = 0; i < size(); ++i) {
      if (p[i] == -1)
        b.push_back({cells[i].dim, i, -1});
      else if (p[i] > i)
        b.push_back({cells[i].dim, i, p[i]});
    }
    std::sort(b.begin(), b.end());
    return b;
  }
  bool can_swap(int i) const {
    if (i < 0 || i + 1 >= size()) return false;
    for (unsigned f : cells[i + 1].faces)
      if (f == cells[i].id) return false;
    return true;
  }
  bool is_maximal(int i) const {
    for (int j = i + 1; j < size(); ++j)
      for (unsigned f : cells[j].faces)
        if (f == cells[i].id) return false;
    return true;
  }
  void swap(int i) { std::swap(cells[i], cells[i + 1]); }
  void remove(int i) { cells.erase(cells.begin() + i); }
  std::string str() const {
    std::ostringstream s;
    for (int i = 0; i < size(); ++i) {
      s << "  pos " << i << ": id " << cells[i].id << " dim " << cells[i].dim << " bd{";
      for (unsigned f : cells[i].faces) s << f << " ";
      s << "}\n";
    }
    return s.str();
  }
};

inline std::string str(const std::vector<Bar>& b) {
  std::ostringstream s;
  for (auto& x : b) s << "[" << x.dim << "](" << x.birth << "," << x.death << ") ";
  return s.str();
}

// barcode with positions i and i+1 exchanged
inline std::vector<Bar> transposed(std::vector<Bar> b, int i) {
  auto t = [&](int& x) {
    if (x == i)
      x = i + 1;
    else if (x == i + 1)
      x = i;
  };
  for (auto& x : b) {
    t(x.birth);
    t(x.death);
  }
  std::sort(b.begin(), b.end());
  return b;
}

struct Gen {
  std::mt19937_64 rng;
  int nextVertexBit = 0;
  int maxVertices = 6;
  int maxDim = 3;
  bool allowParallel = true;   // several cells with the same boundary (legal in a CW / Delta complex)
  bool allowSpherical = false;  // cells of dimension > 0 with empty boundary (legal in a CW complex)

  explicit Gen(u64 seed) : rng(seed) {}
  int uni(int a, int b) { return std::uniform_int_distribution<int>(a, b)(rng); }  // inclusive
  bool coin(double p) { return std::uniform_real_distribution<double>(0, 1)(rng) < p; }

  // proposes a new cell (without identifier) that can be appended to the model; false if the attempt failed
  bool propose(const Model& m, Cell& out) {
    std::vector<int> verts;
    for (int i = 0; i < m.size(); ++i)
      if (m.cells[i].dim == 0 && m.cells[i].vmask != 0) verts.push_back(i);
    int d;
    if (verts.empty())
      d = 0;
    else {
      int r = uni(0, 99);
      if ((int)verts.size() < 2)
        d = 0;
      else if (r < 12 && (int)verts.size() < maxVertices)
        d = 0;
      else if (r < 55)
        d = 1;
      else if (r < 88)
        d = 2;
      else
        d = 3;
      if (d > maxDim) d = maxDim;
    }
    out = Cell();
    out.dim = d;
    if (allowSpherical && coin(0.03)) {
      out.dim = uni(1, 2);
      out.vmask = 0;
      return true;
    }
    if (d == 0) {
      if (nextVertexBit >= 60) return false;
      out.vmask = u64(1) << (nextVertexBit++);
      return true;
    }
    if ((int)verts.size() < d + 1) return false;
    std::shuffle(verts.begin(), verts.end(), rng);
    u64 mask = 0;
    for (int k = 0; k <= d; ++k) mask |= m.cells[verts[k]].vmask;
    std::map<unsigned, int> dd;
    for (int k = 0; k <= d; ++k) {
      u64 fm = mask & ~m.cells[verts[k]].vmask;
      std::vector<int> cand;
      for (int i = 0; i < m.size(); ++i)
        if (m.cells[i].dim == d - 1 && m.cells[i].vmask == fm) cand.push_back(i);
      if (cand.empty()) return false;
      const Cell& f = m.cells[cand[uni(0, (int)cand.size() - 1)]];
      out.faces.push_back(f.id);
      for (unsigned g : f.faces) dd[g] ^= 1;
    }
    for (auto& p : dd)
      if (p.second) return false;  // boundary of boundary not zero (mixed parallel copies)
    std::sort(out.faces.begin(), out.faces.end());
    out.vmask = mask;
    if (!allowParallel || coin(0.8)) {
      for (auto& c : m.cells)
        if (c.dim == d && c.vmask == mask) return false;  // already there
    }
    return true;
  }
};

}  // namespace model

// fuzz_collapse_gmp.cpp - differential test of flag_complex_collapse_edges with Filtration_value = mpq_class, SPARSE
// neighbour table only (the dense table is wrong for this type, see defect_2.cpp).  Random graphs with 3..9 vertices,
// rational weights with many ties, negative / zero / positive; the persistence diagram (brute force, all dimensions,
// Z/2) of the output must equal that of the input.
// Build: g++ -std=gnu++17 -O1 -g -fsanitize=address,undefined -I/tmp/seed/P12/src/Collapse/include
//        -I/tmp/seed/P12/src/common/include fuzz_collapse_gmp.cpp -lgmpxx -lgmp ; run: ./a.out [seed] [ncases]
// RESULT: seeds 1..3 x 2000 cases: no failure.
#include <gmpxx.h>

#include <gudhi/Flag_complex_edge_collapser.h>  // sparse table -> Gudhi::collapse
#undef FLAG_COMPLEX_EDGE_COLLAPSER_H_
#define collapse collapse_dense
#define GUDHI_COLLAPSE_USE_DENSE_ARRAY
#include <gudhi/Flag_complex_edge_collapser.h>  // dense table  -> Gudhi::collapse_dense
#undef collapse

#include <algorithm>
#include <functional>
#include <iostream>
#include <limits>
#include <map>
#include <set>
#include <sstream>
#include <string>
#include <tuple>
#include <vector>

// ---- independent reference: brute-force persistence (Z/2) of the flag filtration of a weighted graph --------------
// returns the diagram as sorted strings "dim d [b, e)", zero-length intervals dropped; vertices are born before all.
template <class V, class F>
std::vector<std::string> diagram(std::vector<V> const& verts, std::vector<std::tuple<V, V, F>> const& edges) {
  int n = (int)verts.size();
  std::map<V, int> idx;
  for (int i = 0; i < n; ++i) idx[verts[i]] = i;
  std::vector<std::vector<char>> adj(n, std::vector<char>(n, 0));
  std::vector<std::vector<F>> w(n, std::vector<F>(n, F()));
  for (auto const& e : edges) {
    int a = idx.at(std::get<0>(e)), b = idx.at(std::get<1>(e));
    adj[a][b] = adj[b][a] = 1;
    w[a][b] = w[b][a] = std::get<2>(e);
  }
  struct S { std::vector<int> v; int lvl; F k; };  // lvl 0: vertex (born before everything)
  auto less = [](S const& a, S const& b) { return a.lvl != b.lvl ? a.lvl < b.lvl : (a.lvl == 1 && a.k < b.k); };
  std::vector<S> simp;
  std::vector<int> cur;
  std::function<void(int, int, F)> rec = [&](int start, int lvl, F k) {
    for (int x = start; x < n; ++x) {
      bool ok = true; int l2 = lvl; F k2 = k;
      for (int y : cur) {
        if (!adj[x][y]) { ok = false; break; }
        if (l2 == 0 || k2 < w[x][y]) { l2 = 1; k2 = w[x][y]; }
      }
      if (!ok) continue;
      cur.push_back(x); simp.push_back({cur, l2, k2}); rec(x + 1, l2, k2); cur.pop_back();
    }
  };
  rec(0, 0, F());
  std::stable_sort(simp.begin(), simp.end(), [&](S const& a, S const& b) { if (less(a, b)) return true; if (less(b, a)) return false; return a.v.size() < b.v.size(); });
  std::size_t m = simp.size();
  std::map<std::vector<int>, int> pos;
  for (std::size_t i = 0; i < m; ++i) pos[simp[i].v] = (int)i;
  std::vector<std::set<int>> col(m);
  std::vector<int> owner(m, -1);
  std::vector<char> paired(m, 0);
  std::vector<std::string> res;
  auto val = [](S const& s) { std::ostringstream o; if (s.lvl == 0) o << "-oo"; else o << s.k; return o.str(); };
  for (std::size_t j = 0; j < m; ++j) {
    auto const& s = simp[j].v;
    if (s.size() > 1)
      for (std::size_t d = 0; d < s.size(); ++d) { std::vector<int> f; for (std::size_t t = 0; t < s.size(); ++t) if (t != d) f.push_back(s[t]); col[j].insert(pos.at(f)); }
    while (!col[j].empty() && owner[*col[j].rbegin()] >= 0)
      for (int x : col[owner[*col[j].rbegin()]]) if (!col[j].erase(x)) col[j].insert(x);
    if (!col[j].empty()) {
      int l = *col[j].rbegin(); owner[l] = (int)j; paired[l] = paired[j] = 1;
      if (less(simp[l], simp[j])) res.push_back("dim " + std::to_string(simp[l].v.size() - 1) + " [" + val(simp[l]) + ", " + val(simp[j]) + ")");
    }
  }
  for (std::size_t j = 0; j < m; ++j) if (!paired[j]) res.push_back("dim " + std::to_string(simp[j].v.size() - 1) + " [" + val(simp[j]) + ", never dies)");
  std::sort(res.begin(), res.end());
  return res;
}



#include <random>
int main(int argc, char** argv) {
  std::mt19937_64 rng(argc > 1 ? atoi(argv[1]) : 1);
  int ncases = argc > 2 ? atoi(argv[2]) : 2000;
  long fails = 0, removed = 0;
  for (int c = 0; c < ncases; ++c) {
    using F = mpq_class; using E = std::tuple<int, int, F>;
    int n = 3 + rng() % 7;
    double p = 0.2 + 0.8 * (rng() % 100) / 100.;
    int levels = 1 + rng() % 6; int shift = (rng() % 2) ? levels / 2 + 1 : 0;
    std::vector<E> g; std::set<int> vs;
    for (int i = 0; i < n; ++i) for (int j = 0; j < i; ++j) if ((rng() % 1000) < p * 1000) { g.emplace_back(rng() % 2 ? i : j, 0, F(long(rng() % levels) - shift, 1 + rng() % 3)); std::get<1>(g.back()) = std::get<0>(g.back()) == i ? j : i; std::get<2>(g.back()).canonicalize(); vs.insert(i); vs.insert(j); }
    if (g.empty()) continue;
    std::vector<int> verts(vs.begin(), vs.end());
    auto out = Gudhi::collapse::flag_complex_collapse_edges(g);
    removed += g.size() - out.size();
    if (diagram<int, F>(verts, g) != diagram<int, F>(verts, out)) { ++fails; std::cout << "FAIL case " << c << "\n"; }
  }
  std::cout << "sparse table, mpq_class weights (negative, zero, positive, ties): cases " << ncases << " failures " << fails << " edges removed " << removed << "\n" << (fails ? "FAIL" : "PASS") << "\n";
  return fails != 0;
}

// Pristine finding 1 (not seeded): with a narrow unsigned vertex type (std::uint16_t / std::uint8_t) the
// "no dominator" sentinel `Vertex dominator = -1; ... if(dominator==-1) break;` never compares equal
// (65535 is promoted to int and compared with -1), so an edge that has no dominator and no later common neighbour
// is treated as dominated forever and removed.  A 4-cycle with two diagonals loses ALL its edges.
// Build: g++ -std=gnu++17 -O1 -I<worktree>/src/Collapse/include -I<worktree>/src/common/include pristine_1.cpp -o pristine_1
#include <gudhi/Flag_complex_edge_collapser.h>
#include <cstdint>
#include <iostream>
#include <tuple>
#include <vector>

template <class V>
std::size_t run(const char* name) {
  std::vector<std::tuple<V, V, double>> edges{{0, 1, 1.}, {1, 2, 1.}, {2, 3, 1.}, {3, 0, 1.}, {0, 2, 2.}, {1, 3, 3.}};
  auto out = Gudhi::collapse::flag_complex_collapse_edges(edges);
  std::cout << name << ": " << out.size() << " edges kept:";
  for (auto& e : out) std::cout << " " << +std::get<0>(e) << "-" << +std::get<1>(e) << "@" << std::get<2>(e);
  std::cout << "\n";
  return out.size();
}

int main() {
  // The flag filtration has H0 = 4 components merging at 1 and one H1 class [1,2): at least the 4 sides and the
  // diagonal 0-2 must survive (5 edges), which is what signed vertex types give.
  std::size_t s = run<short>("Vertex = short        ");
  std::size_t u = run<std::uint16_t>("Vertex = std::uint16_t");
  bool ok = (s == 5 && u == 5);
  std::cout << (ok ? "PASS" : "FAIL") << std::endl;
  return ok ? 0 : 1;
}

#include <gudhi/Fields/Multi_field_small.h>
#include <gudhi/Fields/Multi_field_small_shared.h>
#include <gudhi/Fields/Multi_field_small_operators.h>
#include <gudhi/Fields/Multi_field.h>
#include <gudhi/Fields/Multi_field_operators.h>
#include <iostream>
using namespace Gudhi::persistence_fields;
int main(int argc,char**argv){
  int which=atoi(argv[1]);
  int bad=0;
  if(which==0){ using F=Multi_field_element_with_small_characteristics<2,5>;
    F x(5); auto r=x.get_partial_inverse(6);
    std::cout<<"small<2,5> x=5 QS=6 -> value "<<r.first.get_value()<<" T "<<r.second<<" (expected 5, 6)\n"; if(r.first.get_value()!=5||r.second!=6) bad++; }
  if(which==1){ using F=Shared_multi_field_element_with_small_characteristics<>;
    F::initialize(2,5); F x(5); auto r=x.get_partial_inverse(6);
    std::cout<<"small shared x=5 QS=6 -> value "<<r.first.get_value()<<" T "<<r.second<<" (expected 5, 6)\n"; if(r.first.get_value()!=5||r.second!=6) bad++; }
  if(which==2){ Multi_field_operators_with_small_characteristics op(2,5);
    auto r=op.get_partial_inverse(5,6);
    std::cout<<"small operators x=5 QS=6 -> value "<<r.first<<" T "<<r.second<<" (expected 5, 6)\n"; if(r.first!=5||r.second!=6) bad++; }
  if(which==3){ using F=Multi_field_element<2,5>;
    F x(5); auto r=x.get_partial_inverse(6);
    std::cout<<"gmp<2,5> x=5 QS=6 -> value "<<r.first.get_value()<<" T "<<r.second<<" (expected 5, 6)\n"; if(r.first.get_value()!=5||r.second!=6) bad++;}
  if(which==4){ Multi_field_operators op(2,5);
    auto r=op.get_partial_inverse(5,6);
    std::cout<<"gmp operators x=5 QS=6 -> value "<<r.first<<" T "<<r.second<<" (expected 5, 6)\n"; if(r.first!=5||r.second!=6) bad++;}
  if(which==5){ using F=Multi_field_element_with_small_characteristics<2,3>;
    F x(3); auto r=x.get_partial_inverse(2);
    std::cout<<"small<2,3> x=3 QS=2 -> value "<<r.first.get_value()<<" T "<<r.second<<" (expected 3, 2)\n"; }
  std::cout<<(bad?"FAIL":"PASS")<<"\n"; return bad;
}

// Known finding C05 (Boundary_matrix::remove_last -> erase_empty_row(position)): R of an RU matrix with vine updates,
// map column container, removable columns, identifiers 1, 2, 5 at positions 0, 1, 2. remove_last() removes the cell of
// identifier 5 at position 2 and calls erase_empty_row(2): the row mapping erased is the one of the cell of identifier
// 2, which is still in the matrix. After the edge is inserted again, a vine swap of the two vertices exchanges a
// registered row with an unregistered one and the next access to R throws (or answers with the wrong rows).
#include <iostream>
#include <set>
#include <tuple>
#include <vector>
#include <gudhi/Matrix.h>
using namespace Gudhi::persistence_matrix;
struct Opt : Default_options<Column_types::INTRUSIVE_SET, true> {
  static const bool has_column_pairings = true;
  static const bool has_vine_update = true;
  static const bool has_removable_columns = true;
  static const bool has_map_column_container = true;
};
template <bool removeAndReinsert>
int scenario() {
  Matrix<Opt> m;
  std::vector<unsigned> empty;
  m.insert_boundary(1, empty);
  m.insert_boundary(2, empty);
  m.insert_boundary(5, std::vector<unsigned>{1, 2});
  if (removeAndReinsert) {
    m.remove_last();
    m.insert_boundary(6, std::vector<unsigned>{1, 2});
  }
  try {
    m.vine_swap(0);
    std::set<unsigned> rows;
    for (auto& e : m.get_column(2)) rows.insert(e.get_row_index());
    std::cout << (removeAndReinsert ? "after remove_last + insertion: " : "reference: ") << "rows of the edge:";
    for (auto r : rows) std::cout << " " << r;
    std::cout << std::endl;
    return rows == std::set<unsigned>{1, 2} ? 0 : 1;
  } catch (const std::exception& e) {
    std::cout << "threw " << e.what() << std::endl;
    return 1;
  }
}
int main() {
  int bad = scenario<false>() + scenario<true>();
  std::cout << (bad ? "FAIL" : "PASS") << std::endl;
  return bad;
}

// Defect 6: persistent_cohomology::Multi_field::init accepts an interval without any prime (and an inverted interval): no
//   exception, the field silently becomes Z/1Z (product of an empty set of primes): its "multiplicative identity" is 0 and
//   every element, every product and every inverse is 0. The sibling classes of Persistence_matrix (Multi_field_operators,
//   Shared_multi_field_element, ...) and Field_Zp::init throw std::invalid_argument for the same arguments.
//   Multi_field.h:43-50 only prints a message on std::cerr for max_prime < 2 or min_prime > max_prime and goes on;
//   nothing checks that primes_ is not empty after the enumeration (lines 66-76).
//   The same arguments reach it through Persistent_cohomology<..., Multi_field>::init_coefficients(8, 10).
// Build: g++ -std=gnu++17 -O1 -g -fsanitize=address,undefined -I<repo>/src/Persistent_cohomology/include -I<repo>/src/Persistence_matrix/include defect_6.cpp -o defect_6 -lgmpxx -lgmp
#include <cassert>
#include <iostream>
#include <stdexcept>
#include <gmpxx.h>
#include <gudhi/Persistent_cohomology/Multi_field.h>
#include <gudhi/Fields/Multi_field_operators.h>

int main() {
  int failures = 0;
  int bad[][2] = {{8, 10}, {4, 4}, {24, 28}, {13, 5}, {0, 1}};
  for (auto& b : bad) {
    Gudhi::persistent_cohomology::Multi_field mf;
    bool refused = false;
    try { mf.init(b[0], b[1]); } catch (const std::exception&) { refused = true; }
    bool sibling_refused = false;
    try { Gudhi::persistence_fields::Multi_field_operators op(b[0], b[1]); } catch (const std::invalid_argument&) { sibling_refused = true; }
    std::cout << "persistent_cohomology::Multi_field::init(" << b[0] << ", " << b[1] << "): " << (refused ? "refused" : "ACCEPTED");
    if (!refused) std::cout << ", characteristic() = " << mf.characteristic() << ", multiplicative_identity() = " << mf.multiplicative_identity() << ", times(1, 1) = " << mf.times(1, 1);
    std::cout << "   [Persistence_matrix Multi_field_operators(" << b[0] << ", " << b[1] << "): " << (sibling_refused ? "refused" : "accepted") << "]" << std::endl;
    if (!refused) ++failures;
  }
  std::cout << (failures ? "FAIL" : "PASS") << " (" << failures << " of 5 prime-less intervals accepted; expected: all refused)" << std::endl;
  return failures ? 1 : 0;
}

// Defect 5: the GMP multi-fields never finish (and allocate without bound) when the interval reaches the largest prime that
//   the integer type of the bound can hold.
//   The prime enumeration loop is   while (curr_prime <= maximum) { primes_.push_back(curr_prime); mpz_nextprime(tmp, tmp);
//   curr_prime = mpz_get_ui(tmp); }   with curr_prime an `int` (persistent_cohomology::Multi_field::init, Multi_field.h:55-70)
//   or an `unsigned int` (Shared_multi_field_element::initialize, Multi_field_shared.h:332-348; Multi_field_element<min,max>,
//   Multi_field.h:297-312). mpz_get_ui returns an unsigned long: once the next prime is larger than INT_MAX / UINT_MAX its value
//   is cut to the narrow type, becomes negative or small again, the test `curr_prime <= maximum` stays true for ever and garbage
//   is pushed into primes_.
//     (a) persistent_cohomology::Multi_field::init(2147483647, 2147483647)   (the Mersenne prime 2^31-1 = INT_MAX)
//     (b) Shared_multi_field_element::initialize(4294967280, 4294967291)     (4294967291 = 2^32-5 is the largest prime below 2^32)
//     (c) Multi_field_element<4294967280u, 4294967291u> x;  -> same loop in the static initialiser of primes_: with -DCASE_C the
//         program never reaches main()
//   Multi_field_operators::set_characteristic(2147483629, 2147483647) is fine (curr_prime is unsigned there, max is an int).
//   Side remark: with minimum == maximum == 4294967291 the two Persistence_matrix classes refuse the interval instead ("does not
//   contain a prime number" / static_assert), because their _is_prime(const int p) receives -5.
// Build: g++ -std=gnu++17 -O1 -g -fsanitize=address,undefined -I<repo>/src/Persistence_matrix/include -I<repo>/src/Persistent_cohomology/include defect_5.cpp -o defect_5 -lgmpxx -lgmp
// Run:   ./defect_5     (each call is cut after 10 s by alarm())
#include <cassert>
#include <csignal>
#include <csetjmp>
#include <cstdlib>
#include <unistd.h>
#include <iostream>
#include <gmpxx.h>
#include <gudhi/Fields/Multi_field.h>
#include <gudhi/Fields/Multi_field_shared.h>
#include <gudhi/Persistent_cohomology/Multi_field.h>

static sigjmp_buf env;
static void on_alarm(int) { siglongjmp(env, 1); }
template <class Fn> bool returns_in_time(Fn f, unsigned seconds) {
  if (sigsetjmp(env, 1) == 0) { alarm(seconds); f(); alarm(0); return true; }
  return false;
}

int main() {
  signal(SIGALRM, on_alarm);
  int failures = 0;
  {
    static Gudhi::persistent_cohomology::Multi_field mf;
    bool ok = returns_in_time([] { mf.init(2147483647, 2147483647); }, 10);
    std::cout << "(a) persistent_cohomology::Multi_field::init(2147483647, 2147483647): ";
    if (ok) std::cout << "returned, characteristic " << mf.characteristic() << std::endl;
    else std::cout << "did NOT return within 10 s; primes_ already holds " << mf.primes_.size() << " values, the first ones: " << mf.primes_[0] << " " << mf.primes_[1] << " " << mf.primes_[2]
                   << " (expected: the single prime 2147483647)" << std::endl;
    if (!ok) ++failures;
  }
  {
    using F = Gudhi::persistence_fields::Shared_multi_field_element;
    bool ok = returns_in_time([] { F::initialize(4294967280u, 4294967291u); }, 10);
    std::cout << "(b) Shared_multi_field_element::initialize(4294967280, 4294967291): ";
    if (ok) std::cout << "returned, characteristic " << F::get_characteristic() << std::endl;
    else std::cout << "did NOT return within 10 s (expected: the field Z/4294967291Z)" << std::endl;
    if (!ok) ++failures;
  }
#ifdef CASE_C
  { Gudhi::persistence_fields::Multi_field_element<4294967280u, 4294967291u> x; std::cout << "(c) reached main, characteristic " << x.get_characteristic() << std::endl; }
#endif
  std::cout << (failures ? "FAIL" : "PASS") << " (" << failures << " of 2 calls never return)" << std::endl;
  std::_Exit(failures ? 1 : 0);
}

// RU matrices with vine updates: a matrix whose cells carry custom identifiers (increasing along the filtration,
// different from the positions) against the same filtration with default identifiers, under random vine swaps,
// insertions after swaps; R is compared through the identifier map (row id(p) <-> position p), U on positions,
// return values of the swaps and barcodes (when stored) must agree.
#include <gudhi/Matrix.h>
#include <gudhi/persistence_matrix_options.h>
#include <iostream>
#include <random>
#include <set>
#include <tuple>
using namespace Gudhi::persistence_matrix;
template<bool PAIR, bool MAP, bool REM=false> struct Opt : Default_options<Column_types::INTRUSIVE_SET, true> {
  static const bool has_column_pairings = PAIR;
  static const bool has_vine_update = true;
  static const bool has_map_column_container = MAP;
  static const bool has_removable_columns = REM;
};
template<class M> std::set<std::tuple<int,unsigned,unsigned>> bars(M& m){
  std::set<std::tuple<int,unsigned,unsigned>> b;
  if constexpr (M::Option_list::has_column_pairings) for(auto&x:m.get_current_barcode()) b.emplace(x.dim,x.birth,x.death);
  return b;
}
template<class A> int run(const char* name, bool z1){
  std::mt19937 g(7); long cmp=0;
  for(int rep=0;rep<400;++rep){
    A a, b;
    std::vector<std::vector<unsigned>> cells;
    int nv=3+g()%3;
    for(int i=0;i<nv;++i) cells.push_back({});
    for(int x=0;x<nv;++x) for(int y=x+1;y<nv;++y) if(g()%3) cells.push_back({(unsigned)x,(unsigned)y});
    unsigned n=cells.size();
    // two more cells inserted after the swaps: a vertex and an edge from it
    std::vector<unsigned> id; unsigned cur=1+g()%4;
    for(unsigned i=0;i<n+2;++i){ id.push_back(cur); cur+=1+g()%3; }
    auto ins=[&](unsigned i, const std::vector<unsigned>& c){
      std::vector<unsigned> cb; for(auto x:c) cb.push_back(id[x]); std::sort(cb.begin(),cb.end());
      a.insert_boundary(c); b.insert_boundary(id[i],cb);
    };
    for(unsigned i=0;i<n;++i) ins(i,cells[i]);
    auto check=[&](int step)->bool{
      unsigned m=cells.size();
      for(unsigned k=0;k<m;++k){ ++cmp;
        auto ca=a.get_column(k,true).get_content(m); // positions
        std::vector<int> cb2(m,0);
        for(auto& e: b.get_column(k,true)){ unsigned r=e.get_row_index(); unsigned p=m; for(unsigned q=0;q<m;++q) if(id[q]==r) p=q; if(p==m){ std::cout<<name<<": unknown row "<<r<<"\n"; return false;} cb2[p]=1; }
        for(unsigned q=0;q<m;++q) if((int)ca[q]!=cb2[q]){ std::cout<<name<<": R differs at column "<<k<<" rep "<<rep<<" step "<<step<<"\n"; return false; }
        if(a.get_column(k,false).get_content(m)!=b.get_column(k,false).get_content(m)){ std::cout<<name<<": U differs at column "<<k<<" rep "<<rep<<" step "<<step<<"\n"; return false; }
      }
      if(bars(a)!=bars(b)){ std::cout<<name<<": barcodes differ rep "<<rep<<" step "<<step<<"\n"; return false; }
      return true;
    };
    if(!check(-1)) return 1;
    for(int step=0;step<40;++step){
      unsigned i=g()%(n-1);
      bool face=false; for(auto x:cells[i+1]) if(x==i) face=true;
      if(face) continue;
      bool ra, rb;
      try{ if(z1 && a.get_column_dimension(i)==a.get_column_dimension(i+1) && (a.is_zero_column(i)!=a.is_zero_column(i+1) || !a.is_zero_column(i) || true) && !a.is_zero_entry(i,i+1,false)){ ra=a.vine_swap_with_z_eq_1_case(i); rb=b.vine_swap_with_z_eq_1_case(i);} else { ra=a.vine_swap(i); rb=b.vine_swap(i);} }
      catch(std::exception& e){ std::cout<<name<<": threw "<<e.what()<<" rep "<<rep<<" step "<<step<<"\n"; return 1; }
      if(ra!=rb){ std::cout<<name<<": return values differ rep "<<rep<<" step "<<step<<"\n"; return 1; }
      std::swap(cells[i],cells[i+1]);
      for(auto&c:cells){ for(auto&x:c){ if(x==i) x=i+1; else if(x==i+1) x=i; } std::sort(c.begin(),c.end()); }
      if(!check(step)) return 1;
    }
    cells.push_back({}); ins(n,cells[n]);
    cells.push_back({0u,n}); ins(n+1,cells[n+1]);
    if(!check(100)) return 1;
    for(int step=0;step<10;++step){
      unsigned i=g()%(n+1);
      bool face=false; for(auto x:cells[i+1]) if(x==i) face=true;
      if(face) continue;
      bool ra=a.vine_swap(i), rb=b.vine_swap(i);
      if(ra!=rb){ std::cout<<name<<": return values differ (late) rep "<<rep<<"\n"; return 1; }
      std::swap(cells[i],cells[i+1]);
      for(auto&c:cells){ for(auto&x:c){ if(x==i) x=i+1; else if(x==i+1) x=i; } std::sort(c.begin(),c.end()); }
      if(!check(200+step)) return 1;
    }
  }
  std::cout<<name<<": "<<cmp<<" columns compared ok\n"; return 0;
}
int main(){ int bad=0;
  bad+=run<Matrix<Opt<true,false>>>("barcode, vector", false);
  bad+=run<Matrix<Opt<true,true>>>("barcode, map", false);
  bad+=run<Matrix<Opt<false,false>>>("no barcode, vector", false);
  bad+=run<Matrix<Opt<false,true>>>("no barcode, map", false);
  bad+=run<Matrix<Opt<true,false,true>>>("barcode, vector, removable", false);
  bad+=run<Matrix<Opt<false,true,true>>>("no barcode, map, removable", false);
  bad+=run<Matrix<Opt<true,false>>>("barcode, vector, z=1", true);
  bad+=run<Matrix<Opt<false,true>>>("no barcode, map, z=1", true);
  std::cout<<(bad?"FAIL":"PASS")<<"\n"; return bad; }

// Defect 3: with has_column_and_row_swaps, an entry range (std::vector of entries, a standalone column, a column of
// another matrix) given to add_to / multiply_target_and_add_to / multiply_source_and_add_to while a row swap is still
// pending (lazy) is merged with the stored, not yet reordered, row indices of the target column: the range is
// written in the rows of before the swaps.  zero_entry / is_zero_entry translate their row (_get_real_row_index),
// the additions of ranges do not.
//
// Build: g++ -std=gnu++17 -O1 -g -fsanitize=address,undefined $(ls -d /repo/src/*/include | sed 's/^/-I/') defect_3.cpp -o defect_3
#include <iostream>
#include <vector>
#include <gudhi/Matrix.h>
#include <gudhi/persistence_matrix_options.h>
using namespace Gudhi::persistence_matrix;

struct Opt : Default_options<Column_types::INTRUSIVE_SET, true> {
  static const bool has_column_and_row_swaps = true;
};

int main() {
  using M = Matrix<Opt>;
  using Entry = M::Matrix_entry;
  int bad = 0;
  std::vector<Entry> range = {Entry(1)};
  {
    M m;
    m.insert_column(std::vector<unsigned>{0});
    m.insert_column(std::vector<unsigned>{1});
    m.swap_rows(0, 1);   // column 0 = {1}, column 1 = {0}
    m.add_to(range, 0);  // column 0 = {1} + {1} = {} over Z2
    bool z = m.is_zero_column(0);
    auto c = m.get_column(0).get_content(2);
    std::cout << "swap pending : is_zero_column(0) = " << z << " content " << c[0] << " " << c[1]
              << "   expected 1, content 0 0   " << ((z && !c[0] && !c[1]) ? "ok" : "WRONG") << "\n";
    bad += !(z && !c[0] && !c[1]);
  }
  {  // same history, but the swap is applied (get_column) before the addition: correct
    M m;
    m.insert_column(std::vector<unsigned>{0});
    m.insert_column(std::vector<unsigned>{1});
    m.swap_rows(0, 1);
    m.get_column(0);
    m.add_to(range, 0);
    bool z = m.is_zero_column(0);
    std::cout << "swap applied : is_zero_column(0) = " << z << "   expected 1   " << (z ? "ok" : "WRONG") << "\n";
    bad += !z;
  }
  std::cout << (bad ? "FAIL" : "PASS") << "\n";
  return bad ? 1 : 0;
}

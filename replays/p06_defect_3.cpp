// Defect 3 - Chain matrix with vine updates and WITHOUT stored barcode (the configuration of Zigzag_options):
// Chain_vine_swap::_is_negative_in_pair decides whether a paired cell is the positive or the negative one by comparing
// the IDENTIFIERS of the two paired cells:
//     chain_vine_swap.h:474-476   if (!col.is_paired()) return false;
//                                 return col.get_pivot() > _matrix()->get_pivot(col.get_paired_chain_index());
// In a chain matrix identifiers stay with the cells, so after transpositions a positive cell can have a larger
// identifier than the negative cell which kills it. The swap then takes the wrong branch of the case study and the
// matrix is no longer a compatible basis of the new filtration.
//
// History (a b ab c bc ; identifiers 0 1 2 3 4):
//   swap(ab,c) swap(ab,bc) swap(b,c)  ->  a c b bc ab : now c (id 3) is killed by ab (id 2)
//   swap(bc,ab)                       ->  ab is read as positive, c as negative
// The comparators given to the matrix answer from a brute force persistence computation of the current filtration and
// are keyed by column index (MatIdx), exactly like the zigzag module does (the implementation calls them with MatIdx).
//
// Build: g++ -std=gnu++17 -O1 -g -fsanitize=address,undefined -I<gudhi includes> defect_3.cpp -o defect_3
#include <gudhi/Matrix.h>
#include <gudhi/persistence_matrix_options.h>

#include <climits>
#include <iostream>
#include <map>
#include <set>
using namespace Gudhi::persistence_matrix;

struct Opt : Default_options<Column_types::INTRUSIVE_SET, true> {
  static const bool is_of_boundary_type = false;  // chain matrix
  static const bool has_column_pairings = false;  // no stored barcode
  static const bool has_vine_update = true;
};
using M = Matrix<Opt>;
using B = std::vector<unsigned>;

// ---- tiny reference: filtration = sequence of identifiers, boundaries by identifier
std::map<unsigned, B> bd = {{0, {}}, {1, {}}, {2, {0, 1}}, {3, {}}, {4, {1, 3}}};
std::vector<unsigned> order = {0, 1, 2, 3, 4};
unsigned pos_of(unsigned id) {
  for (unsigned p = 0; p < order.size(); ++p)
    if (order[p] == id) return p;
  return -1;
}
// partner[p] = position paired with p or -1
std::vector<int> pairing() {
  unsigned n = order.size();
  std::vector<std::set<unsigned>> R(n);
  std::vector<int> partner(n, -1), byLow(n, -1);
  for (unsigned j = 0; j < n; ++j) {
    for (unsigned f : bd[order[j]]) R[j].insert(pos_of(f));
    while (!R[j].empty() && byLow[*R[j].rbegin()] != -1) {
      for (unsigned x : R[byLow[*R[j].rbegin()]])
        if (!R[j].erase(x)) R[j].insert(x);
    }
    if (!R[j].empty()) {
      byLow[*R[j].rbegin()] = j;
      partner[j] = *R[j].rbegin();
      partner[*R[j].rbegin()] = j;
    }
  }
  return partner;
}

std::map<unsigned, std::pair<int, int>> table;  // MatIdx -> (birth, death) positions of the bar of its cell

int main() {
  auto birth = [](unsigned a, unsigned b) { return table.at(a).first < table.at(b).first; };
  auto death = [](unsigned a, unsigned b) { return table.at(a).second < table.at(b).second; };
  M m(birth, death);
  for (unsigned id = 0; id < 5; ++id) m.insert_boundary(bd[id], bd[id].empty() ? 0 : 1);

  auto swap = [&](unsigned p) {  // transposition of positions p, p+1
    auto partner = pairing();
    table.clear();
    for (unsigned q = 0; q < order.size(); ++q) {
      int b = (partner[q] == -1 || partner[q] > (int)q) ? q : partner[q];
      int d = partner[q] == -1 ? INT_MAX : std::max<int>(q, partner[q]);
      table[m.get_column_with_pivot(order[q])] = {b, d};
    }
    unsigned c1 = m.get_column_with_pivot(order[p]), c2 = m.get_column_with_pivot(order[p + 1]);
    unsigned r = m.vine_swap(c1, c2);
    std::cout << "vine_swap(" << c1 << "," << c2 << ") [ids " << order[p] << "," << order[p + 1] << "] -> " << r << "\n";
    std::swap(order[p], order[p + 1]);
  };
  auto check = [&]() {
    // compatible basis: cols of positive cells are cycles, boundary(col of negative cell) = col of its partner
    auto partner = pairing();
    bool ok = true;
    for (unsigned q = 0; q < order.size(); ++q) {
      auto& col = m.get_column(m.get_column_with_pivot(order[q]));
      std::set<unsigned> chain, boundary;
      for (auto& e : col) chain.insert(e.get_row_index());
      for (unsigned c : chain)
        for (unsigned f : bd[c])
          if (!boundary.erase(f)) boundary.insert(f);
      std::set<unsigned> expected;
      if (partner[q] != -1 && partner[q] < (int)q)
        for (auto& e : m.get_column(m.get_column_with_pivot(order[partner[q]]))) expected.insert(e.get_row_index());
      bool paired = col.is_paired();
      if (boundary != expected || paired != (partner[q] != -1)) {
        ok = false;
        std::cout << "  position " << q << " (id " << order[q] << "): column {";
        for (unsigned c : chain) std::cout << c << " ";
        std::cout << "} has boundary {";
        for (unsigned c : boundary) std::cout << c << " ";
        std::cout << "}, expected {";
        for (unsigned c : expected) std::cout << c << " ";
        std::cout << "} ; is_paired " << paired << " expected " << (partner[q] != -1) << "\n";
      }
    }
    return ok;
  };

  bool ok = true;
  swap(2); ok = check() && ok;  // a b c ab bc
  swap(3); ok = check() && ok;  // a b c bc ab
  swap(1); ok = check() && ok;  // a c b bc ab
  std::cout << "state after three swaps consistent with a fresh matrix: " << ok << "\n";
  swap(3);                      // a c b ab bc
  bool last = check();
  std::cout << "state after the fourth swap consistent with a fresh matrix: " << last << " (expected 1)\n";
  ok = ok && last;
  std::cout << (ok ? "PASS" : "FAIL") << std::endl;
  return ok ? 0 : 1;
}

// Pristine defect (copies are not mentioned by C07): a copy of Filtered_zigzag_persistence_with_storage streams its
// closed intervals into the SOURCE object.  The callback handed to the inner Zigzag_persistence captures the source by
// reference ([&] -> `this`), and the implicit copy constructor copies it verbatim (the inner matrix comparators have
// the same problem, see pristine_1.cpp).  Intervals closed by the copy are missing from the copy's diagram and show up
// in the source's diagram, although nothing was done to the source.
#include <gudhi/filtered_zigzag_persistence.h>

#include <iostream>

using ZP = Gudhi::zigzag_persistence::Filtered_zigzag_persistence_with_storage<>;

int main() {
  ZP src;
  src.insert_cell(0, {}, 0, 0.);  // arrow 0
  src.insert_cell(1, {}, 0, 0.);  // arrow 1
  ZP cpy(src);
  cpy.insert_cell(2, {0, 1}, 1, 1.);  // arrow 2 : closes (0,[1,2]) = (0, 0, 1) in the copy only

  std::size_t inCopy = cpy.get_index_persistence_diagram().size();
  std::size_t inSource = src.get_index_persistence_diagram().size();
  std::cout << "closed intervals stored in the copy  : " << inCopy << " (expected 1)\n";
  std::cout << "closed intervals stored in the source: " << inSource << " (expected 0)\n";
  bool ok = inCopy == 1 && inSource == 0;
  std::cout << (ok ? "PASS" : "FAIL") << "\n";
  return ok ? 0 : 1;
}

// Pristine defect 1: the Perseus-file constructor of the PERIODIC cubical complex cannot read the value "inf"
// (which the non-periodic reader accepts and which data/bitmap/sinusoid.txt uses): `inFiltration >> double` fails
// on "inf", the failbit is never cleared, eof() is never reached, and the loop keeps doing
// `get_cell_data(*it) = filtrationLevel; ++it;` past the end of the bitmap -> heap buffer overflow / crash / hang.
//
// Build: g++ -std=gnu++17 -O1 $(ls -d /tmp/seed/C13c/src/*/include | sed 's/^/-I/') pristine_1.cpp -o pristine_1
// (add -g -fsanitize=address to see the heap-buffer-overflow report)
#include <gudhi/Bitmap_cubical_complex.h>

#include <sys/wait.h>
#include <unistd.h>

#include <cstdio>
#include <fstream>
#include <iostream>
#include <limits>
#include <vector>

using Base = Gudhi::cubical_complex::Bitmap_cubical_complex_base<double>;
using Cubical = Gudhi::cubical_complex::Bitmap_cubical_complex<Base>;
using PBase = Gudhi::cubical_complex::Bitmap_cubical_complex_periodic_boundary_conditions_base<double>;
using PCubical = Gudhi::cubical_complex::Bitmap_cubical_complex<PBase>;

template <class C>
int read_and_check(const char* file) {
  const double inf = std::numeric_limits<double>::infinity();
  std::vector<double> expected = {1, 2, 3, 4, inf, 6, 7, 8, 9};
  C c(file);
  std::size_t k = 0;
  bool ok = true;
  for (auto it = c.top_dimensional_cells_iterator_begin(); it != c.top_dimensional_cells_iterator_end(); ++it, ++k)
    if (k >= expected.size() || c.get_cell_data(*it) != expected[k]) ok = false;
  return (ok && k == expected.size()) ? 0 : 1;
}

int run_in_child(int (*f)(const char*), const char* file) {
  fflush(stdout);
  pid_t pid = fork();
  if (pid == 0) { alarm(10); _exit(f(file)); }
  int status = 0;
  waitpid(pid, &status, 0);
  if (WIFEXITED(status)) return WEXITSTATUS(status);
  std::cout << "  child killed by signal " << WTERMSIG(status) << std::endl;
  return 2;
}

int main() {
  const char* np = "pristine_1_nonperiodic.txt";
  const char* p = "pristine_1_periodic.txt";
  { std::ofstream f(np); f << "2\n3\n3\n1\n2\n3\n4\ninf\n6\n7\n8\n9\n"; }
  { std::ofstream f(p); f << "2\n-3\n-3\n1\n2\n3\n4\ninf\n6\n7\n8\n9\n"; }
  int r1 = run_in_child(&read_and_check<Cubical>, np);
  std::cout << "non-periodic reader, 3x3 with one inf: " << (r1 == 0 ? "ok" : "WRONG") << std::endl;
  int r2 = run_in_child(&read_and_check<PCubical>, p);
  std::cout << "periodic reader,     3x3 with one inf: " << (r2 == 0 ? "ok" : "WRONG") << std::endl;
  std::cout << ((r1 || r2) ? "FAIL" : "PASS") << std::endl;
  return (r1 || r2) ? 1 : 0;
}

// Differential fuzzer for property C06, RU matrices (boundary type, R and U stored) with vine updates, Z_2.
// Harness and checks: fuzz_vine.h (model of the filtered complex, own reduction, B = R*U, pivots, rows, barcode,
// truthfulness of the value returned by a transposition, copies / moves / snapshots in the middle).
// 45 option sets: every column type x {CONTAINER, POSITION, IDENTIFIER} indexing, with / without stored barcode,
// removable columns or not, vector / map column container, the 5 row access variants, max dimension access,
// representative cycles option on / off.  Compile one PART (0..14) per binary:
//   g++ -std=gnu++17 -O1 -g -fsanitize=address,undefined -I<gudhi>/src/Persistence_matrix/include
//       -I<gudhi>/src/common/include -DPART=k fuzz_ru.cpp -o fuzz_ru_k ;  ./fuzz_ru_k <seed> <cases> <ops per case>
// Environment switches (see run_config in fuzz_vine.h): FUZZ_REUSE, FUZZ_IDSTRIDE, FUZZ_MAXCELLS, FUZZ_CHECKEVERY,
// FUZZ_IDB (RU/IDENTIFIER: boundaries in cell identifiers -> defect 2), FUZZ_SKIPCOLL=0 (-> defect 3),
// FUZZ_AVOIDD1=0 (-> defect 1), FUZZ_REP=1 (-> defects 4 and 5).
// Results: see defects.md ("coverage").
#include "q06_fuzz_vine.h"

#ifndef PART
#define PART 0
#endif

int main(int argc, char** argv) {
  unsigned seed = argc > 1 ? atoi(argv[1]) : 1;
  int nc = argc > 2 ? atoi(argv[2]) : 200;
  int nops = argc > 3 ? atoi(argv[3]) : 80;
  int bad = 0;
  // Opt<column type, indexing, boundary type, stored barcode, removable columns, map container, row access kind,
  //     max dimension access, representative cycles>;  last argument: 2 = default and custom identifiers alternate
#if PART == 0
  bad += run_config<Opt<Column_types::LIST, IDX_CONTAINER, true, false, true, false, 2, false, true>>(
      "ru/LIST/C/bar0/rem1/map0/ra2/dim0/rep1", seed, nc, nops, 16, 2);
  bad += run_config<Opt<Column_types::LIST, IDX_POSITION, true, true, true, true, 3, false, false>>(
      "ru/LIST/P/bar1/rem1/map1/ra3/dim0/rep0", seed, nc, nops, 16, 2);
  bad += run_config<Opt<Column_types::LIST, IDX_IDENTIFIER, true, true, true, false, 3, true, false>>(
      "ru/LIST/I/bar1/rem1/map0/ra3/dim1/rep0", seed, nc, nops, 16, 2);
#endif
#if PART == 1
  bad += run_config<Opt<Column_types::SET, IDX_CONTAINER, true, true, true, true, 1, false, true>>(
      "ru/SET/C/bar1/rem1/map1/ra1/dim0/rep1", seed, nc, nops, 16, 2);
  bad += run_config<Opt<Column_types::SET, IDX_POSITION, true, false, true, false, 0, false, true>>(
      "ru/SET/P/bar0/rem1/map0/ra0/dim0/rep1", seed, nc, nops, 16, 2);
  bad += run_config<Opt<Column_types::SET, IDX_IDENTIFIER, true, false, true, true, 0, false, true>>(
      "ru/SET/I/bar0/rem1/map1/ra0/dim0/rep1", seed, nc, nops, 16, 2);
#endif
#if PART == 2
  bad += run_config<Opt<Column_types::HEAP, IDX_CONTAINER, true, true, true, false, 0, true, false>>(
      "ru/HEAP/C/bar1/rem1/map0/ra0/dim1/rep0", seed, nc, nops, 16, 2);
  bad += run_config<Opt<Column_types::HEAP, IDX_POSITION, true, false, true, true, 0, true, false>>(
      "ru/HEAP/P/bar0/rem1/map1/ra0/dim1/rep0", seed, nc, nops, 16, 2);
  bad += run_config<Opt<Column_types::HEAP, IDX_IDENTIFIER, true, true, true, false, 0, false, true>>(
      "ru/HEAP/I/bar1/rem1/map0/ra0/dim0/rep1", seed, nc, nops, 16, 2);
#endif
#if PART == 3
  bad += run_config<Opt<Column_types::VECTOR, IDX_CONTAINER, true, false, true, true, 4, true, false>>(
      "ru/VECTOR/C/bar0/rem1/map1/ra4/dim1/rep0", seed, nc, nops, 16, 2);
  bad += run_config<Opt<Column_types::VECTOR, IDX_POSITION, true, true, true, true, 4, true, true>>(
      "ru/VECTOR/P/bar1/rem1/map1/ra4/dim1/rep1", seed, nc, nops, 16, 2);
  bad += run_config<Opt<Column_types::VECTOR, IDX_IDENTIFIER, true, false, true, true, 1, true, true>>(
      "ru/VECTOR/I/bar0/rem1/map1/ra1/dim1/rep1", seed, nc, nops, 16, 2);
#endif
#if PART == 4
  bad += run_config<Opt<Column_types::NAIVE_VECTOR, IDX_CONTAINER, true, false, true, true, 4, true, false>>(
      "ru/NAIVE_VECTOR/C/bar0/rem1/map1/ra4/dim1/rep0", seed, nc, nops, 16, 2);
  bad += run_config<Opt<Column_types::NAIVE_VECTOR, IDX_POSITION, true, true, true, false, 1, true, true>>(
      "ru/NAIVE_VECTOR/P/bar1/rem1/map0/ra1/dim1/rep1", seed, nc, nops, 16, 2);
  bad += run_config<Opt<Column_types::NAIVE_VECTOR, IDX_IDENTIFIER, true, true, true, false, 3, false, true>>(
      "ru/NAIVE_VECTOR/I/bar1/rem1/map0/ra3/dim0/rep1", seed, nc, nops, 16, 2);
#endif
#if PART == 5
  bad += run_config<Opt<Column_types::SMALL_VECTOR, IDX_CONTAINER, true, true, true, false, 1, false, false>>(
      "ru/SMALL_VECTOR/C/bar1/rem1/map0/ra1/dim0/rep0", seed, nc, nops, 16, 2);
  bad += run_config<Opt<Column_types::SMALL_VECTOR, IDX_POSITION, true, false, true, false, 3, true, true>>(
      "ru/SMALL_VECTOR/P/bar0/rem1/map0/ra3/dim1/rep1", seed, nc, nops, 16, 2);
  bad += run_config<Opt<Column_types::SMALL_VECTOR, IDX_IDENTIFIER, true, true, true, true, 4, false, true>>(
      "ru/SMALL_VECTOR/I/bar1/rem1/map1/ra4/dim0/rep1", seed, nc, nops, 16, 2);
#endif
#if PART == 6
  bad += run_config<Opt<Column_types::UNORDERED_SET, IDX_CONTAINER, true, false, true, false, 3, false, true>>(
      "ru/UNORDERED_SET/C/bar0/rem1/map0/ra3/dim0/rep1", seed, nc, nops, 16, 2);
  bad += run_config<Opt<Column_types::UNORDERED_SET, IDX_POSITION, true, true, true, false, 4, true, true>>(
      "ru/UNORDERED_SET/P/bar1/rem1/map0/ra4/dim1/rep1", seed, nc, nops, 16, 2);
  bad += run_config<Opt<Column_types::UNORDERED_SET, IDX_IDENTIFIER, true, true, true, true, 2, false, true>>(
      "ru/UNORDERED_SET/I/bar1/rem1/map1/ra2/dim0/rep1", seed, nc, nops, 16, 2);
#endif
#if PART == 7
  bad += run_config<Opt<Column_types::INTRUSIVE_LIST, IDX_CONTAINER, true, true, true, false, 1, false, false>>(
      "ru/INTRUSIVE_LIST/C/bar1/rem1/map0/ra1/dim0/rep0", seed, nc, nops, 16, 2);
  bad += run_config<Opt<Column_types::INTRUSIVE_LIST, IDX_POSITION, true, false, true, true, 0, false, false>>(
      "ru/INTRUSIVE_LIST/P/bar0/rem1/map1/ra0/dim0/rep0", seed, nc, nops, 16, 2);
  bad += run_config<Opt<Column_types::INTRUSIVE_LIST, IDX_IDENTIFIER, true, false, true, true, 0, true, false>>(
      "ru/INTRUSIVE_LIST/I/bar0/rem1/map1/ra0/dim1/rep0", seed, nc, nops, 16, 2);
#endif
#if PART == 8
  bad += run_config<Opt<Column_types::INTRUSIVE_SET, IDX_CONTAINER, true, true, true, false, 4, false, true>>(
      "ru/INTRUSIVE_SET/C/bar1/rem1/map0/ra4/dim0/rep1", seed, nc, nops, 16, 2);
  bad += run_config<Opt<Column_types::INTRUSIVE_SET, IDX_POSITION, true, true, true, false, 1, false, true>>(
      "ru/INTRUSIVE_SET/P/bar1/rem1/map0/ra1/dim0/rep1", seed, nc, nops, 16, 2);
  bad += run_config<Opt<Column_types::INTRUSIVE_SET, IDX_IDENTIFIER, true, false, true, true, 2, true, true>>(
      "ru/INTRUSIVE_SET/I/bar0/rem1/map1/ra2/dim1/rep1", seed, nc, nops, 16, 2);
#endif
#if PART == 9
  bad += run_config<Opt<Column_types::LIST, IDX_POSITION, true, false, false, true, 4, true, false>>(
      "ru/LIST/P/bar0/rem0/map1/ra4/dim1/rep0", seed, nc, nops, 16, 2);
  bad += run_config<Opt<Column_types::LIST, IDX_IDENTIFIER, true, false, true, true, 4, false, false>>(
      "ru/LIST/I/bar0/rem1/map1/ra4/dim0/rep0", seed, nc, nops, 16, 2);
  bad += run_config<Opt<Column_types::SET, IDX_POSITION, true, true, true, true, 1, false, false>>(
      "ru/SET/P/bar1/rem1/map1/ra1/dim0/rep0", seed, nc, nops, 16, 2);
#endif
#if PART == 10
  bad += run_config<Opt<Column_types::SET, IDX_IDENTIFIER, true, true, false, false, 1, false, true>>(
      "ru/SET/I/bar1/rem0/map0/ra1/dim0/rep1", seed, nc, nops, 16, 2);
  bad += run_config<Opt<Column_types::HEAP, IDX_POSITION, true, false, true, true, 0, true, true>>(
      "ru/HEAP/P/bar0/rem1/map1/ra0/dim1/rep1", seed, nc, nops, 16, 2);
  bad += run_config<Opt<Column_types::HEAP, IDX_IDENTIFIER, true, true, true, false, 0, true, false>>(
      "ru/HEAP/I/bar1/rem1/map0/ra0/dim1/rep0", seed, nc, nops, 16, 2);
#endif
#if PART == 11
  bad += run_config<Opt<Column_types::VECTOR, IDX_POSITION, true, false, false, true, 1, true, true>>(
      "ru/VECTOR/P/bar0/rem0/map1/ra1/dim1/rep1", seed, nc, nops, 16, 2);
  bad += run_config<Opt<Column_types::VECTOR, IDX_IDENTIFIER, true, true, true, true, 4, true, true>>(
      "ru/VECTOR/I/bar1/rem1/map1/ra4/dim1/rep1", seed, nc, nops, 16, 2);
  bad += run_config<Opt<Column_types::NAIVE_VECTOR, IDX_POSITION, true, false, true, false, 2, false, true>>(
      "ru/NAIVE_VECTOR/P/bar0/rem1/map0/ra2/dim0/rep1", seed, nc, nops, 16, 2);
#endif
#if PART == 12
  bad += run_config<Opt<Column_types::NAIVE_VECTOR, IDX_IDENTIFIER, true, false, false, true, 2, false, false>>(
      "ru/NAIVE_VECTOR/I/bar0/rem0/map1/ra2/dim0/rep0", seed, nc, nops, 16, 2);
  bad += run_config<Opt<Column_types::SMALL_VECTOR, IDX_POSITION, true, true, true, false, 2, false, true>>(
      "ru/SMALL_VECTOR/P/bar1/rem1/map0/ra2/dim0/rep1", seed, nc, nops, 16, 2);
  bad += run_config<Opt<Column_types::SMALL_VECTOR, IDX_IDENTIFIER, true, false, false, true, 3, true, false>>(
      "ru/SMALL_VECTOR/I/bar0/rem0/map1/ra3/dim1/rep0", seed, nc, nops, 16, 2);
#endif
#if PART == 13
  bad += run_config<Opt<Column_types::UNORDERED_SET, IDX_POSITION, true, false, false, true, 4, true, true>>(
      "ru/UNORDERED_SET/P/bar0/rem0/map1/ra4/dim1/rep1", seed, nc, nops, 16, 2);
  bad += run_config<Opt<Column_types::UNORDERED_SET, IDX_IDENTIFIER, true, false, false, true, 0, false, false>>(
      "ru/UNORDERED_SET/I/bar0/rem0/map1/ra0/dim0/rep0", seed, nc, nops, 16, 2);
  bad += run_config<Opt<Column_types::INTRUSIVE_LIST, IDX_POSITION, true, false, false, true, 2, true, false>>(
      "ru/INTRUSIVE_LIST/P/bar0/rem0/map1/ra2/dim1/rep0", seed, nc, nops, 16, 2);
#endif
#if PART == 14
  bad += run_config<Opt<Column_types::INTRUSIVE_LIST, IDX_IDENTIFIER, true, false, true, true, 2, false, true>>(
      "ru/INTRUSIVE_LIST/I/bar0/rem1/map1/ra2/dim0/rep1", seed, nc, nops, 16, 2);
  bad += run_config<Opt<Column_types::INTRUSIVE_SET, IDX_POSITION, true, true, true, true, 4, false, true>>(
      "ru/INTRUSIVE_SET/P/bar1/rem1/map1/ra4/dim0/rep1", seed, nc, nops, 16, 2);
  bad += run_config<Opt<Column_types::INTRUSIVE_SET, IDX_IDENTIFIER, true, true, false, true, 3, true, true>>(
      "ru/INTRUSIVE_SET/I/bar1/rem0/map1/ra3/dim1/rep1", seed, nc, nops, 16, 2);
#endif
  static_assert(PART >= 0 && PART < 15, "PART out of range");
  return bad != 0;
}

// Differential fuzzer for property C06, chain matrices with vine updates and stored barcode, Z_2.
// Harness and checks: fuzz_vine.h (model of the filtered complex, own reduction; every chain has its cell as pivot,
// only earlier cells, one dimension; unpaired / positive chains are cycles, the boundary of a negative chain is its
// partner; barcode; rows; truthfulness of the value returned by a transposition; copies / moves / snapshots).
// 45 option sets: every column type x {CONTAINER, POSITION, IDENTIFIER} indexing, removable columns (map container)
// or not, the 5 row access variants, max dimension access, representative cycles option on / off.
// Insertions are only made when the identifiers of the cells of the two dimensions involved increase along the
// filtration (known defect: the chain matrix reduces a new boundary by identifier order); FUZZ_ANYINS=1 lifts this.
// Compile one PART (0..14) per binary:
//   g++ -std=gnu++17 -O1 -g -fsanitize=address,undefined -I<gudhi>/src/Persistence_matrix/include
//       -I<gudhi>/src/common/include -DPART=k fuzz_chain.cpp -o fuzz_chain_k ; ./fuzz_chain_k <seed> <cases> <ops>
// Results: see defects.md ("coverage").
#include "q06_fuzz_vine.h"

#ifndef PART
#define PART 0
#endif

int main(int argc, char** argv) {
  unsigned seed = argc > 1 ? atoi(argv[1]) : 1;
  int nc = argc > 2 ? atoi(argv[2]) : 200;
  int nops = argc > 3 ? atoi(argv[3]) : 80;
  int bad = 0;
  // Opt<column type, indexing, boundary type, stored barcode, removable columns, map container, row access kind,
  //     max dimension access, representative cycles>;  last argument: 2 = default and custom identifiers alternate
#if PART == 0
  bad += run_config<Opt<Column_types::LIST, IDX_CONTAINER, false, true, false, false, 0, false, true>>(
      "chain/LIST/C/bar1/rem0/map0/ra0/dim0/rep1", seed, nc, nops, 16, 2);
  bad += run_config<Opt<Column_types::LIST, IDX_POSITION, false, true, false, false, 2, true, false>>(
      "chain/LIST/P/bar1/rem0/map0/ra2/dim1/rep0", seed, nc, nops, 16, 2);
  bad += run_config<Opt<Column_types::LIST, IDX_IDENTIFIER, false, true, true, true, 0, false, true>>(
      "chain/LIST/I/bar1/rem1/map1/ra0/dim0/rep1", seed, nc, nops, 16, 2);
#endif
#if PART == 1
  bad += run_config<Opt<Column_types::SET, IDX_CONTAINER, false, true, true, true, 3, true, true>>(
      "chain/SET/C/bar1/rem1/map1/ra3/dim1/rep1", seed, nc, nops, 16, 2);
  bad += run_config<Opt<Column_types::SET, IDX_POSITION, false, true, true, true, 2, false, false>>(
      "chain/SET/P/bar1/rem1/map1/ra2/dim0/rep0", seed, nc, nops, 16, 2);
  bad += run_config<Opt<Column_types::SET, IDX_IDENTIFIER, false, true, true, true, 3, true, true>>(
      "chain/SET/I/bar1/rem1/map1/ra3/dim1/rep1", seed, nc, nops, 16, 2);
#endif
#if PART == 2
  bad += run_config<Opt<Column_types::HEAP, IDX_CONTAINER, false, true, true, true, 0, false, false>>(
      "chain/HEAP/C/bar1/rem1/map1/ra0/dim0/rep0", seed, nc, nops, 16, 2);
  bad += run_config<Opt<Column_types::HEAP, IDX_POSITION, false, true, false, false, 0, false, false>>(
      "chain/HEAP/P/bar1/rem0/map0/ra0/dim0/rep0", seed, nc, nops, 16, 2);
  bad += run_config<Opt<Column_types::HEAP, IDX_IDENTIFIER, false, true, false, false, 0, true, false>>(
      "chain/HEAP/I/bar1/rem0/map0/ra0/dim1/rep0", seed, nc, nops, 16, 2);
#endif
#if PART == 3
  bad += run_config<Opt<Column_types::VECTOR, IDX_CONTAINER, false, true, false, false, 4, true, false>>(
      "chain/VECTOR/C/bar1/rem0/map0/ra4/dim1/rep0", seed, nc, nops, 16, 2);
  bad += run_config<Opt<Column_types::VECTOR, IDX_POSITION, false, true, true, true, 3, true, true>>(
      "chain/VECTOR/P/bar1/rem1/map1/ra3/dim1/rep1", seed, nc, nops, 16, 2);
  bad += run_config<Opt<Column_types::VECTOR, IDX_IDENTIFIER, false, true, true, true, 3, false, true>>(
      "chain/VECTOR/I/bar1/rem1/map1/ra3/dim0/rep1", seed, nc, nops, 16, 2);
#endif
#if PART == 4
  bad += run_config<Opt<Column_types::NAIVE_VECTOR, IDX_CONTAINER, false, true, true, true, 3, false, true>>(
      "chain/NAIVE_VECTOR/C/bar1/rem1/map1/ra3/dim0/rep1", seed, nc, nops, 16, 2);
  bad += run_config<Opt<Column_types::NAIVE_VECTOR, IDX_POSITION, false, true, true, true, 3, true, true>>(
      "chain/NAIVE_VECTOR/P/bar1/rem1/map1/ra3/dim1/rep1", seed, nc, nops, 16, 2);
  bad += run_config<Opt<Column_types::NAIVE_VECTOR, IDX_IDENTIFIER, false, true, true, true, 2, true, true>>(
      "chain/NAIVE_VECTOR/I/bar1/rem1/map1/ra2/dim1/rep1", seed, nc, nops, 16, 2);
#endif
#if PART == 5
  bad += run_config<Opt<Column_types::SMALL_VECTOR, IDX_CONTAINER, false, true, true, true, 1, true, false>>(
      "chain/SMALL_VECTOR/C/bar1/rem1/map1/ra1/dim1/rep0", seed, nc, nops, 16, 2);
  bad += run_config<Opt<Column_types::SMALL_VECTOR, IDX_POSITION, false, true, true, true, 2, true, true>>(
      "chain/SMALL_VECTOR/P/bar1/rem1/map1/ra2/dim1/rep1", seed, nc, nops, 16, 2);
  bad += run_config<Opt<Column_types::SMALL_VECTOR, IDX_IDENTIFIER, false, true, true, true, 4, true, true>>(
      "chain/SMALL_VECTOR/I/bar1/rem1/map1/ra4/dim1/rep1", seed, nc, nops, 16, 2);
#endif
#if PART == 6
  bad += run_config<Opt<Column_types::UNORDERED_SET, IDX_CONTAINER, false, true, true, true, 1, true, true>>(
      "chain/UNORDERED_SET/C/bar1/rem1/map1/ra1/dim1/rep1", seed, nc, nops, 16, 2);
  bad += run_config<Opt<Column_types::UNORDERED_SET, IDX_POSITION, false, true, true, true, 4, false, true>>(
      "chain/UNORDERED_SET/P/bar1/rem1/map1/ra4/dim0/rep1", seed, nc, nops, 16, 2);
  bad += run_config<Opt<Column_types::UNORDERED_SET, IDX_IDENTIFIER, false, true, true, true, 0, false, false>>(
      "chain/UNORDERED_SET/I/bar1/rem1/map1/ra0/dim0/rep0", seed, nc, nops, 16, 2);
#endif
#if PART == 7
  bad += run_config<Opt<Column_types::INTRUSIVE_LIST, IDX_CONTAINER, false, true, false, false, 4, false, true>>(
      "chain/INTRUSIVE_LIST/C/bar1/rem0/map0/ra4/dim0/rep1", seed, nc, nops, 16, 2);
  bad += run_config<Opt<Column_types::INTRUSIVE_LIST, IDX_POSITION, false, true, true, true, 1, false, false>>(
      "chain/INTRUSIVE_LIST/P/bar1/rem1/map1/ra1/dim0/rep0", seed, nc, nops, 16, 2);
  bad += run_config<Opt<Column_types::INTRUSIVE_LIST, IDX_IDENTIFIER, false, true, true, true, 1, false, false>>(
      "chain/INTRUSIVE_LIST/I/bar1/rem1/map1/ra1/dim0/rep0", seed, nc, nops, 16, 2);
#endif
#if PART == 8
  bad += run_config<Opt<Column_types::INTRUSIVE_SET, IDX_CONTAINER, false, true, true, true, 0, false, true>>(
      "chain/INTRUSIVE_SET/C/bar1/rem1/map1/ra0/dim0/rep1", seed, nc, nops, 16, 2);
  bad += run_config<Opt<Column_types::INTRUSIVE_SET, IDX_POSITION, false, true, true, true, 1, false, false>>(
      "chain/INTRUSIVE_SET/P/bar1/rem1/map1/ra1/dim0/rep0", seed, nc, nops, 16, 2);
  bad += run_config<Opt<Column_types::INTRUSIVE_SET, IDX_IDENTIFIER, false, true, false, false, 0, false, false>>(
      "chain/INTRUSIVE_SET/I/bar1/rem0/map0/ra0/dim0/rep0", seed, nc, nops, 16, 2);
#endif
#if PART == 9
  bad += run_config<Opt<Column_types::LIST, IDX_CONTAINER, false, true, false, true, 3, false, false>>(
      "chain/LIST/C/bar1/rem0/map1/ra3/dim0/rep0", seed, nc, nops, 16, 2);
  bad += run_config<Opt<Column_types::LIST, IDX_POSITION, false, true, false, false, 3, true, false>>(
      "chain/LIST/P/bar1/rem0/map0/ra3/dim1/rep0", seed, nc, nops, 16, 2);
  bad += run_config<Opt<Column_types::SET, IDX_CONTAINER, false, true, true, true, 1, false, true>>(
      "chain/SET/C/bar1/rem1/map1/ra1/dim0/rep1", seed, nc, nops, 16, 2);
#endif
#if PART == 10
  bad += run_config<Opt<Column_types::SET, IDX_POSITION, false, true, false, false, 2, true, false>>(
      "chain/SET/P/bar1/rem0/map0/ra2/dim1/rep0", seed, nc, nops, 16, 2);
  bad += run_config<Opt<Column_types::HEAP, IDX_CONTAINER, false, true, true, true, 0, true, false>>(
      "chain/HEAP/C/bar1/rem1/map1/ra0/dim1/rep0", seed, nc, nops, 16, 2);
  bad += run_config<Opt<Column_types::HEAP, IDX_POSITION, false, true, true, true, 0, true, true>>(
      "chain/HEAP/P/bar1/rem1/map1/ra0/dim1/rep1", seed, nc, nops, 16, 2);
#endif
#if PART == 11
  bad += run_config<Opt<Column_types::VECTOR, IDX_IDENTIFIER, false, true, false, false, 3, true, false>>(
      "chain/VECTOR/I/bar1/rem0/map0/ra3/dim1/rep0", seed, nc, nops, 16, 2);
  bad += run_config<Opt<Column_types::VECTOR, IDX_CONTAINER, false, true, true, true, 2, false, true>>(
      "chain/VECTOR/C/bar1/rem1/map1/ra2/dim0/rep1", seed, nc, nops, 16, 2);
  bad += run_config<Opt<Column_types::NAIVE_VECTOR, IDX_IDENTIFIER, false, true, true, true, 1, true, true>>(
      "chain/NAIVE_VECTOR/I/bar1/rem1/map1/ra1/dim1/rep1", seed, nc, nops, 16, 2);
#endif
#if PART == 12
  bad += run_config<Opt<Column_types::NAIVE_VECTOR, IDX_POSITION, false, true, true, true, 2, true, true>>(
      "chain/NAIVE_VECTOR/P/bar1/rem1/map1/ra2/dim1/rep1", seed, nc, nops, 16, 2);
  bad += run_config<Opt<Column_types::SMALL_VECTOR, IDX_CONTAINER, false, true, true, true, 2, false, false>>(
      "chain/SMALL_VECTOR/C/bar1/rem1/map1/ra2/dim0/rep0", seed, nc, nops, 16, 2);
  bad += run_config<Opt<Column_types::SMALL_VECTOR, IDX_IDENTIFIER, false, true, false, true, 2, true, true>>(
      "chain/SMALL_VECTOR/I/bar1/rem0/map1/ra2/dim1/rep1", seed, nc, nops, 16, 2);
#endif
#if PART == 13
  bad += run_config<Opt<Column_types::UNORDERED_SET, IDX_CONTAINER, false, true, false, true, 1, true, true>>(
      "chain/UNORDERED_SET/C/bar1/rem0/map1/ra1/dim1/rep1", seed, nc, nops, 16, 2);
  bad += run_config<Opt<Column_types::UNORDERED_SET, IDX_IDENTIFIER, false, true, false, true, 3, true, false>>(
      "chain/UNORDERED_SET/I/bar1/rem0/map1/ra3/dim1/rep0", seed, nc, nops, 16, 2);
  bad += run_config<Opt<Column_types::INTRUSIVE_LIST, IDX_POSITION, false, true, false, false, 2, false, false>>(
      "chain/INTRUSIVE_LIST/P/bar1/rem0/map0/ra2/dim0/rep0", seed, nc, nops, 16, 2);
#endif
#if PART == 14
  bad += run_config<Opt<Column_types::INTRUSIVE_LIST, IDX_CONTAINER, false, true, true, true, 1, true, true>>(
      "chain/INTRUSIVE_LIST/C/bar1/rem1/map1/ra1/dim1/rep1", seed, nc, nops, 16, 2);
  bad += run_config<Opt<Column_types::INTRUSIVE_SET, IDX_CONTAINER, false, true, true, true, 0, true, true>>(
      "chain/INTRUSIVE_SET/C/bar1/rem1/map1/ra0/dim1/rep1", seed, nc, nops, 16, 2);
  bad += run_config<Opt<Column_types::INTRUSIVE_SET, IDX_IDENTIFIER, false, true, false, true, 2, true, false>>(
      "chain/INTRUSIVE_SET/I/bar1/rem0/map1/ra2/dim1/rep0", seed, nc, nops, 16, 2);
#endif
  static_assert(PART >= 0 && PART < 15, "PART out of range");
  return bad != 0;
}

// Pristine defect 4: row access with non intrusive rows (std::set of entry copies ordered by column index) and
// swap_columns. When the lazy swaps are applied, the columns are re-registered in the rows one column after the other
// (Column::reorder: erase the copies of this column, change their column index, insert them again). If the two swapped
// columns both have an entry in some row, the copy of the first re-registered column collides in the set with the not
// yet updated copy of the other column (same key), the insertion is silently dropped, and the other column then erases
// "its" copy: the row loses an entry.
#include <iostream>
#include <set>
#include <vector>

#include <gudhi/Matrix.h>
#include <gudhi/persistence_matrix_options.h>

using namespace Gudhi::persistence_matrix;

struct Options : Default_options<Column_types::LIST, true> {
  static const bool has_column_and_row_swaps = true;
  static const bool has_row_access = true;
  static const bool has_intrusive_rows = false;
};

int main() {
  Matrix<Options> m(0u);
  m.insert_column(std::vector<unsigned int>{0, 1});  // column 0
  m.insert_column(std::vector<unsigned int>{1, 2});  // column 1
  m.insert_column(std::vector<unsigned int>{2});     // column 2     (3 columns, 3 rows)
  m.swap_columns(0, 1);
  // dense: col0 = 0 1 1, col1 = 1 1 0, col2 = 0 0 1
  bool ok = true;
  std::vector<std::set<unsigned int> > expected = {{1}, {0, 1}, {0, 2}};
  for (unsigned int r = 0; r < 3; ++r) {
    std::set<unsigned int> got;
    for (const auto& e : m.get_row(r)) got.insert(e.get_column_index());
    std::cout << "row " << r << " lists columns:";
    for (auto c : got) std::cout << " " << c;
    std::cout << "   expected:";
    for (auto c : expected[r]) std::cout << " " << c;
    std::cout << (got == expected[r] ? "  ok" : "  WRONG") << "\n";
    ok = ok && got == expected[r];
  }
  std::cout << (ok ? "PASS" : "FAIL") << "\n";
  return ok ? 0 : 1;
}

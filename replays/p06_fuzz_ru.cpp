// Differential fuzzer for property C06 on RU matrices (boundary matrices with vine updates).
//
// After every operation (insertion, vine swap, vine_swap_with_z_eq_1_case, remove_last, remove_maximal_cell,
// copy / move / assignment in the middle of the history) the whole state of the matrix is compared with a model
// rebuilt from scratch (fuzz_model.hpp):
//   - number of columns, dimensions, get_max_dimension
//   - R is reduced, its pivots give exactly the reference pairing, get_pivot / get_column_with_pivot / is_zero_column
//     agree with the columns, every column R_j is D_j plus a combination of earlier columns of D
//   - (CONTAINER indexing) D = R * U with U upper triangular with unit diagonal (U is stored transposed)
//   - (row access) rows of R are the transposed of its columns
//   - (stored barcode) get_current_barcode() == reference barcode
//   - the value returned by a transposition is truthful (kept bars <=> new barcode is the old one with positions
//     exchanged ; exchanged bars <=> barcode unchanged)
//
// Build: build.sh fuzz_ru.cpp bin/ruN -DGROUP=N (build_ru_all.sh for all groups), run: run_all.sh.
//
// RESULTS: see the end of this file.
#include <gudhi/Matrix.h>
#include <gudhi/persistence_matrix_options.h>

#include <cstdlib>
#include <functional>
#include <memory>

#include "fuzz_model.hpp"

using namespace Gudhi::persistence_matrix;
using model::Bar;
using model::Cell;
using model::Model;
using model::u64;

template <Column_types CT, Column_indexation_types IDX, bool PAIR, bool REMCOL, bool MAP, int RA, bool REMROW, bool DIM,
          bool REP>
struct Opt {
  using Field_coeff_operators = Gudhi::persistence_fields::Zp_field_operators<>;
  using Index = unsigned int;
  using Dimension = int;
  static const bool is_z2 = true;
  static const Column_types column_type = CT;
  static const Column_indexation_types column_indexation_type = IDX;
  static const bool is_of_boundary_type = true;
  static const bool has_column_compression = false;
  static const bool has_column_and_row_swaps = false;
  static const bool has_vine_update = true;
  static const bool can_retrieve_representative_cycles = REP;
  static const bool has_row_access = RA != 0;
  static const bool has_intrusive_rows = RA == 1;
  static const bool has_removable_rows = REMROW;
  static const bool has_removable_columns = REMCOL;
  static const bool has_map_column_container = MAP;
  static const bool has_matrix_maximal_dimension_access = DIM;
  static const bool has_column_pairings = PAIR;
};

// history of the running case, printed if a sanitizer kills the process
static std::ostringstream* currentLog = nullptr;
static const char* currentName = "";
#if defined(__SANITIZE_ADDRESS__)
extern "C" void __sanitizer_set_death_callback(void (*)(void));
static void on_death() {
  if (currentLog) std::cerr << "--- history before the crash [" << currentName << "] ---\n" << currentLog->str() << std::endl;
}
#endif

struct Fail {
  std::string what;
};

struct Params {
  bool customIds = false;
  bool allowInsertAfterSwap = true;
  bool allowRemoveLast = true;
  bool allowRemoveMax = true;
  bool allowCopy = true;
  bool allowZeq1 = true;
  bool allowSpherical = false;
  bool avoidKnown = false;  // stay away from the histories that trigger the defects already understood (defects.md)
  int ctorMode = 0;  // 0: default ctor + insertions, 1: Matrix(n) + insertions, 2: bulk constructor
};

static bool verbose = false;
static int maxInit = 28, maxOps = 60;  // argv[5], argv[6]: smaller values help to find short failing histories
static bool avoidKnownDefault = false;

template <class Matrix>
struct Driver {
  using O = typename Matrix::Option_list;
  static constexpr bool byId = O::column_indexation_type == Column_indexation_types::IDENTIFIER;
  static constexpr unsigned nullIdx = static_cast<unsigned>(-1);

  Model M;
  std::vector<unsigned> label;  // label[p]: row identifier of position p in R
  std::unique_ptr<Matrix> m;
  model::Gen gen;
  Params P;
  std::ostringstream log;
  bool swapped = false;   // a transposition happened since the matrix was last empty
  bool mixed = false;     // explicit identifiers different from the default ones are in use
  long nChecks = 0;

  Driver(u64 seed, Params p) : gen(seed), P(p) { gen.allowSpherical = p.allowSpherical; }

  // Cell::id is a key of the model only (unique, never reused). libId[key] is the identifier the library knows the
  // cell by (IDENTIFIER indexing: it follows the cell through the swaps).
  std::map<unsigned, unsigned> libId;
  unsigned nextKey = 0;
  unsigned lib_id(int pos) const { return libId.at(M.cells[pos].id); }
  bool has_lib_id(unsigned x) const {
    for (auto& c : M.cells)
      if (libId.at(c.id) == x) return true;
    return false;
  }
  unsigned idx(int pos) const { return byId ? lib_id(pos) : (unsigned)pos; }

  [[noreturn]] void fail(const std::string& s) {
    std::ostringstream o;
    o << s << "\n--- history ---\n" << log.str() << "--- model ---\n" << M.str() << "labels:";
    for (auto l : label) o << " " << l;
    o << "\nlibrary ids by position:";
    for (int p = 0; p < M.size(); ++p) o << " " << lib_id(p);
    o << "\n";
    throw Fail{o.str()};
  }

  template <class Col>
  std::vector<unsigned> rows_of(const Col& col) {
    std::vector<unsigned> r;
    auto content = col.get_content();
    for (unsigned i = 0; i < content.size(); ++i)
      if (content[i] != 0) r.push_back(i);
    return r;
  }

  std::vector<unsigned> boundary_labels(const Cell& c) {
    std::vector<unsigned> b;
    for (unsigned f : c.faces) b.push_back(label[M.pos_of(f)]);
    std::sort(b.begin(), b.end());
    return b;
  }

  void check() {
    ++nChecks;
    const int n = M.size();
    if ((int)m->get_number_of_columns() != n)
      fail("get_number_of_columns " + std::to_string(m->get_number_of_columns()) + " expected " + std::to_string(n));
    std::map<unsigned, int> labelToPos;
    for (int p = 0; p < n; ++p) labelToPos[label[p]] = p;
    auto D = M.D();
    auto partner = M.pairing();
    std::vector<u64> R(n, 0);
    int maxdim = -1;
    for (int j = 0; j < n; ++j) {
      maxdim = std::max(maxdim, M.cells[j].dim);
      auto rows = rows_of(m->get_column(idx(j)));
      for (unsigned r : rows) {
        auto it = labelToPos.find(r);
        if (it == labelToPos.end()) fail("R column at position " + std::to_string(j) + " has unknown row " + std::to_string(r));
        R[j] |= u64(1) << it->second;
      }
      if ((int)m->get_column_dimension(idx(j)) != M.cells[j].dim)
        fail("get_column_dimension at position " + std::to_string(j));
      bool zero = m->is_zero_column(idx(j));
      if (zero != (R[j] == 0)) fail("is_zero_column at position " + std::to_string(j));
      unsigned piv = m->get_pivot(idx(j));
      unsigned expPiv = R[j] == 0 ? nullIdx : label[model::low(R[j])];
      if (piv != expPiv)
        fail("get_pivot at position " + std::to_string(j) + " = " + std::to_string(piv) + " expected " +
             std::to_string(expPiv));
      // pairing
      int lowj = model::low(R[j]);
      if (R[j] == 0) {
        if (partner[j] != -1 && partner[j] < j) fail("R column " + std::to_string(j) + " is zero but cell is negative");
      } else {
        if (partner[j] != lowj)
          fail("R column " + std::to_string(j) + " has pivot position " + std::to_string(lowj) + " but reference partner is " +
               std::to_string(partner[j]));
        unsigned c = m->get_column_with_pivot(label[lowj]);
        if (c != idx(j))
          fail("get_column_with_pivot(" + std::to_string(label[lowj]) + ") = " + std::to_string(c) + " expected " +
               std::to_string(idx(j)));
      }
      for (int p = 0; p < n && !std::getenv("FUZZ_NO_IS_ZERO_ENTRY"); ++p) {
        bool z = m->is_zero_entry(idx(j), label[p]);
        if (z != !((R[j] >> p) & 1)) fail("is_zero_entry(" + std::to_string(j) + "," + std::to_string(label[p]) + ")");
      }
    }
    if constexpr (O::has_matrix_maximal_dimension_access) {
      if ((int)m->get_max_dimension() != maxdim)
        fail("get_max_dimension " + std::to_string(m->get_max_dimension()) + " expected " + std::to_string(maxdim));
    }
    // R_j - D_j in span of D_0..D_{j-1}
    {
      std::vector<u64> basis(64, 0);
      for (int j = 0; j < n; ++j) {
        u64 v = R[j] ^ D[j];
        while (v) {
          int l = model::low(v);
          if (!basis[l]) break;
          v ^= basis[l];
        }
        if (v) fail("R column " + std::to_string(j) + " is not D_j + combination of earlier boundary columns");
        u64 w = D[j];
        while (w) {
          int l = model::low(w);
          if (!basis[l]) {
            basis[l] = w;
            break;
          }
          w ^= basis[l];
        }
      }
    }
    if constexpr (!byId) {
      // D = R U, U stored transposed: stored column s holds row s of U
      std::vector<u64> acc(n, 0);
      for (int s = 0; s < n; ++s) {
        auto cols = rows_of(m->get_column(s, false));
        bool diag = false;
        for (unsigned t : cols) {
          if ((int)t >= n) fail("U row " + std::to_string(s) + " has entry at column " + std::to_string(t) + " >= n");
          if ((int)t < s) fail("U not upper triangular: entry (" + std::to_string(s) + "," + std::to_string(t) + ")");
          if ((int)t == s) diag = true;
          acc[t] ^= R[s];
        }
        if (!diag) fail("U has zero diagonal at " + std::to_string(s));
        if (m->is_zero_column(s, false)) fail("is_zero_column(U)");
      }
      for (int t = 0; t < n; ++t)
        if (acc[t] != D[t]) fail("D != R*U at column " + std::to_string(t));
    }
    if constexpr (O::has_row_access) {
      for (int p = 0; p < n; ++p) {
        std::set<unsigned> exp;
        for (int j = 0; j < n; ++j)
          if ((R[j] >> p) & 1) exp.insert(j);
        if (exp.empty()) continue;  // an empty row may not exist in the row container (removed, or never created)
        std::set<unsigned> got;
        unsigned cnt = 0;
        for (auto& e : m->get_row(label[p])) {
          got.insert(e.get_column_index());
          ++cnt;
          if (e.get_row_index() != label[p]) fail("row entry with wrong row index in row " + std::to_string(label[p]));
        }
        if (got != exp || cnt != exp.size()) fail("row " + std::to_string(label[p]) + " of R is not the transposed of the columns");
      }
    }
    if constexpr (O::has_column_pairings) {
      std::vector<Bar> got;
      for (auto& b : m->get_current_barcode())
        got.push_back({(int)b.dim, (int)b.birth, b.death == nullIdx ? -1 : (int)b.death});
      std::sort(got.begin(), got.end());
      auto exp = M.barcode();
      if (!(got == exp)) fail("barcode: got " + model::str(got) + "\n expected " + model::str(exp));
    }
    if constexpr (O::can_retrieve_representative_cycles && O::has_column_pairings) {
      m->update_representative_cycles();
      const auto& cycles = m->get_representative_cycles();
      auto exp = M.barcode();
      if (cycles.size() != exp.size()) fail("number of representative cycles");
      // Only the call itself is exercised here. The content is NOT compared: for Z2 RU matrices the cycles are read
      // from the columns of U (D = R*U) instead of U^-1 and are not cycles even on a fresh matrix (see defects.md,
      // finding outside of C06), which would hide everything else.
      for (auto& b : m->get_current_barcode()) {
        const auto& cyc = m->get_representative_cycle(b);
        if (cyc.empty()) fail("empty representative cycle");
      }
    }
  }

  // ---- operations
  unsigned fresh_id() {
    unsigned mx = 0;
    bool any = false;
    for (auto l : label) mx = std::max(mx, l), any = true;
    for (auto& c : M.cells) mx = std::max(mx, libId.at(c.id)), any = true;
    unsigned base = any ? mx + 1 : (gen.coin(0.5) ? 0 : gen.uni(0, 5));
    if (P.avoidKnown && base < 100) base = 100;  // defect: Boundary_matrix::remove_last erases the row named like the position
    if (gen.coin(0.7)) return base;
    if (gen.coin(0.8)) return base + gen.uni(1, 4);
    return base + gen.uni(5, 60);
  }

  bool op_insert() {
    if (M.size() >= model::MAXN - 1) return false;
    Cell c;
    bool ok = false;
    for (int t = 0; t < 30 && !ok; ++t) ok = gen.propose(M, c);
    if (!ok) return false;
    // default identifier of the library: the number of columns. Never mixed with explicit identifiers
    // (documented), except when the default one would collide with a live identifier (IDENTIFIER indexing after
    // a swap followed by a removal): from then on only explicit identifiers are used.
    unsigned defId = M.size();
    bool defOk = !P.customIds && !mixed && !(byId && has_lib_id(defId));
    auto b = boundary_labels(c);
    unsigned lid;
    c.id = nextKey++;
    if (defOk && gen.coin(0.75)) {
      lid = defId;
      log << "insert_boundary({";
      for (auto x : b) log << x << ",";
      log << "}, " << c.dim << ")  // id " << lid << "\n";
      m->insert_boundary(b, c.dim);
    } else {
      if (defOk)
        lid = defId;
      else {
        lid = fresh_id();
        mixed = true;
      }
      log << "insert_boundary(" << lid << ", {";
      for (auto x : b) log << x << ",";
      log << "}, " << c.dim << ")\n";
      m->insert_boundary(lid, b, c.dim);
    }
    libId[c.id] = lid;
    label.push_back(lid);
    M.cells.push_back(c);
    return true;
  }

  bool op_swap(bool zeq1) {
    std::vector<int> cand;
    for (int i = 0; i + 1 < M.size(); ++i)
      if (M.can_swap(i)) cand.push_back(i);
    if (cand.empty()) return false;
    int i = cand[gen.uni(0, (int)cand.size() - 1)];
    auto old = M.barcode();
    bool change;
    if (zeq1) {
      // only legal when the swap is not trivial: use the library's own documented criterion (cells of equal
      // dimension with a non-zero entry of U between them), read before the call
      if constexpr (byId) {
        return false;
      } else {
        if (M.cells[i].dim != M.cells[i + 1].dim) return false;
        if (m->is_zero_entry(i, i + 1, false)) return false;
        log << "vine_swap_with_z_eq_1_case(" << i << ")";
        change = m->vine_swap_with_z_eq_1_case(i);
      }
    } else if constexpr (byId) {
      unsigned a = lib_id(i), b = lib_id(i + 1);
      unsigned r;
      if (gen.coin(0.5)) {
        log << "vine_swap(" << a << "," << b << ")";
        r = m->vine_swap(a, b);
        change = r == a;
        if (r != a && r != b) fail("vine_swap returned an id which is none of the arguments");
      } else {
        log << "vine_swap(" << b << "," << a << ")";
        r = m->vine_swap(b, a);
        change = r == b;
        if (r != a && r != b) fail("vine_swap returned an id which is none of the arguments");
      }
    } else {
      log << "vine_swap(" << i << ")";
      change = m->vine_swap(i);
    }
    log << " -> " << change << "\n";
    M.swap(i);
    swapped = true;
    auto now = M.barcode();
    auto exch = model::transposed(old, i);
    if (change) {
      if (!(now == exch)) {
        check();
        fail("vine_swap returned 'changed/kept bars' but the reference barcode is not the old one with positions exchanged");
      }
    } else {
      if (!(now == old)) {
        check();
        fail("vine_swap returned 'unchanged' but the reference barcode in positions changed");
      }
    }
    return true;
  }

  bool op_remove_last() {
    if constexpr (!O::has_removable_columns) {
      return false;
    } else {
      if (M.size() == 0 && !gen.coin(0.3)) return false;
      // defect 12: with non-intrusive rows and vector containers a pending lazy swap breaks the rows in remove_last
      if (P.avoidKnown && O::has_row_access && !O::has_intrusive_rows && !O::has_map_column_container && M.size() > 0)
        m->get_column(idx(0));  // flushes the lazy swaps
      if (P.avoidKnown && byId && !O::has_map_column_container && M.size() > 0) {
        // defect: Id_to_index_overlay::remove_last (vector dictionary) forgets the largest identifier, not the last cell
        unsigned mx = 0;
        for (int p = 0; p < M.size(); ++p) mx = std::max(mx, lib_id(p));
        if (lib_id(M.size() - 1) != mx) return false;
      }
      log << "remove_last()\n";
      m->remove_last();
      if (M.size() > 0) {
        M.remove(M.size() - 1);
        label.pop_back();
      }
      return true;
    }
  }

  bool op_remove_max() {
    if constexpr (!O::has_removable_columns) {
      return false;
    } else {
      std::vector<int> cand;
      for (int i = 0; i < M.size(); ++i)
        if (M.is_maximal(i)) cand.push_back(i);
      if (cand.empty()) return false;
      int i = cand[gen.uni(0, (int)cand.size() - 1)];
      // defect: Id_to_index_overlay::remove_maximal_cell loses track of the identifiers after the first swap
      if (P.avoidKnown && byId && i < M.size() - 2) return false;
      if (P.avoidKnown && O::has_row_access && !O::has_intrusive_rows && !O::has_map_column_container) {
        if (i != M.size() - 1) return false;  // defect 12
        m->get_column(idx(0));
      }
      log << "remove_maximal_cell(" << idx(i) << ")  // position " << i << "\n";
      m->remove_maximal_cell(idx(i));
      if (i != M.size() - 1) swapped = true;
      M.remove(i);
      label.pop_back();
      return true;
    }
  }

  bool op_copy() {
    int k = gen.uni(0, 4);
    if (k == 4) {
      // the copy must be independent: modify it, destroy it, go on with the original
      log << "copy, modify the copy (swap, insertion, removal), destroy the copy\n";
      Matrix c(*m);
      std::vector<int> cand;
      for (int i = 0; i + 1 < M.size(); ++i)
        if (M.can_swap(i)) cand.push_back(i);
      if (!cand.empty()) {
        int i = cand[gen.uni(0, (int)cand.size() - 1)];
        if constexpr (byId)
          c.vine_swap(lib_id(i), lib_id(i + 1));
        else
          c.vine_swap(i);
      }
      c.insert_boundary(fresh_id() + 7, std::vector<unsigned>{}, 0);
      if constexpr (O::has_removable_columns) {
        if (!(P.avoidKnown && byId)) {
          c.remove_last();
          c.remove_last();
        }
      }
      return true;
    }
    if (k == 0) {
      log << "copy construct, destroy original\n";
      std::unique_ptr<Matrix> c(new Matrix(*m));
      m = std::move(c);
    } else if (k == 1) {
      log << "move construct, destroy original\n";
      std::unique_ptr<Matrix> c(new Matrix(std::move(*m)));
      m = std::move(c);
    } else if (k == 2) {
      log << "assign to an empty matrix, destroy original\n";
      std::unique_ptr<Matrix> c(new Matrix());
      *c = *m;
      m = std::move(c);
    } else {
      log << "swap with an empty matrix, destroy original\n";
      std::unique_ptr<Matrix> c(new Matrix());
      swap(*c, *m);
      m = std::move(c);
    }
    return true;
  }

  void run(int nInit, int nOps) {
    // initial complex
    if (P.ctorMode == 2) {
      std::vector<std::vector<unsigned>> bds;
      for (int k = 0; k < nInit; ++k) {
        Cell c;
        bool ok = false;
        for (int t = 0; t < 30 && !ok; ++t) ok = gen.propose(M, c);
        if (!ok) continue;
        if (c.dim > 0 && c.faces.empty()) continue;               // constructor deduces dimensions
        if (c.dim != (c.faces.empty() ? 0 : (int)c.faces.size() - 1)) continue;
        c.id = nextKey++;
        libId[c.id] = M.size();
        bds.push_back(boundary_labels(c));
        label.push_back(M.size());
        M.cells.push_back(c);
      }
      log << "Matrix(boundaries of the " << M.size() << " first cells)\n";
      m.reset(new Matrix(bds));
    } else {
      if (P.ctorMode == 1) {
        int r = gen.uni(0, 20);
        log << "Matrix(" << r << ")\n";
        m.reset(new Matrix((unsigned)r));
      } else {
        log << "Matrix()\n";
        m.reset(new Matrix());
      }
      check();
      for (int k = 0; k < nInit; ++k) op_insert();
    }
    check();
    for (int k = 0; k < nOps; ++k) {
      int r = gen.uni(0, 99);
      bool done = false;
      if (r < 45)
        done = op_swap(false);
      else if (r < 55 && P.allowZeq1)
        done = op_swap(true);
      else if (r < 72) {
        if (P.allowInsertAfterSwap || !swapped) done = op_insert();
      } else if (r < 82) {
        if (P.allowRemoveLast) done = op_remove_last();
      } else if (r < 92) {
        if (P.allowRemoveMax) done = op_remove_max();
      } else if (P.allowCopy)
        done = op_copy();
      if (M.size() == 0) swapped = false;
      if (done) check();
    }
  }
};

static long totalCases = 0, totalChecks = 0, totalFails = 0;

template <class O>
void fuzz_config(const char* name, u64 seed0, int nCases, const Params* forced) {
  using Matrix = Gudhi::persistence_matrix::Matrix<O>;
  long fails = 0, checks = 0;
  for (int c = 0; c < nCases; ++c) {
    u64 seed = seed0 * 1000003 + c;
    std::mt19937_64 r(seed ^ 0x9e3779b97f4a7c15ull);
    Params P;
    if (forced)
      P = *forced;
    else {
      P.customIds = r() % 3 == 0;
      P.ctorMode = r() % 3;
      P.allowSpherical = r() % 4 == 0;
      P.avoidKnown = avoidKnownDefault;
    }
    Driver<Matrix> d(seed, P);
    currentLog = &d.log;
    currentName = name;
    try {
      d.run(r() % maxInit, std::min(10, maxOps) + r() % maxOps);
    } catch (const Fail& f) {
      ++fails;
      if (fails <= 2 || verbose) std::cout << "FAIL [" << name << "] seed " << seed << " case " << c << ": " << f.what << std::endl;
    } catch (const std::exception& e) {
      ++fails;
      if (fails <= 2 || verbose)
        std::cout << "FAIL [" << name << "] seed " << seed << " case " << c << ": exception " << e.what() << "\n--- history ---\n"
                  << d.log.str() << "--- model ---\n" << d.M.str() << std::endl;
    }
    checks += d.nChecks;
    currentLog = nullptr;
  }
  std::cout << (fails ? "FAILED " : "ok     ") << name << ": " << nCases << " cases, " << checks << " state comparisons, " << fails
            << " failing cases" << std::endl;
  totalCases += nCases;
  totalChecks += checks;
  totalFails += fails;
}

#define CT(x) Column_types::x
#define CI Column_indexation_types::CONTAINER
#define PI Column_indexation_types::POSITION
#define II Column_indexation_types::IDENTIFIER

//              CT  IDX PAIR REMCOL MAP RA REMROW DIM REP
#define RUN(ct, idx, pair, remcol, map, ra, remrow, dim, rep) \
  fuzz_config<Opt<CT(ct), idx, pair, remcol, map, ra, remrow, dim, rep>>(#ct " " #idx " pair=" #pair " remcol=" #remcol " map=" #map " ra=" #ra " remrow=" #remrow " dim=" #dim " rep=" #rep, seed, nCases, forced)

#define ALL_OPTS(ct)                                   \
  RUN(ct, CI, true, true, true, 0, false, true, false);  \
  RUN(ct, CI, false, true, true, 0, false, false, false); \
  RUN(ct, CI, true, true, false, 0, false, false, false); \
  RUN(ct, CI, false, true, false, 0, false, true, false); \
  RUN(ct, II, true, true, true, 0, false, false, false);  \
  RUN(ct, II, false, true, true, 0, false, true, false);  \
  RUN(ct, II, true, true, false, 0, false, true, false);  \
  RUN(ct, II, false, true, false, 0, false, false, false); \
  RUN(ct, PI, true, false, false, 0, false, false, true); \
  RUN(ct, CI, false, false, false, 0, false, false, false);

#define RA_OPTS(ct)                                    \
  RUN(ct, CI, true, true, true, 1, false, false, false);  \
  RUN(ct, CI, false, true, false, 1, true, false, false); \
  RUN(ct, CI, true, true, false, 2, false, false, true);  \
  RUN(ct, CI, false, true, true, 2, true, true, false);   \
  RUN(ct, II, true, true, true, 2, true, false, false);   \
  RUN(ct, II, false, true, false, 1, false, false, false);

#ifndef GROUP
#define GROUP 0
#endif

int main(int argc, char** argv) {
#if defined(__SANITIZE_ADDRESS__)
  __sanitizer_set_death_callback(on_death);
#endif
  u64 seed = argc > 1 ? std::strtoull(argv[1], nullptr, 10) : 1;
  int nCases = argc > 2 ? std::atoi(argv[2]) : 200;
  const Params* forced = nullptr;
  Params fp;
  // optional restriction of the operations: letters among i (insert after swap) l (remove_last) m (remove_maximal_cell)
  // c (copy) z (z_eq_1) C (custom ids) S (spherical cells); digit 0-2: constructor mode
  if (argc > 3 && std::string(argv[3]) != "DEFAULT") {
    std::string s = argv[3];
    fp.allowInsertAfterSwap = s.find('i') != std::string::npos;
    fp.allowRemoveLast = s.find('l') != std::string::npos;
    fp.allowRemoveMax = s.find('m') != std::string::npos;
    fp.allowCopy = s.find('c') != std::string::npos;
    fp.allowZeq1 = s.find('z') != std::string::npos;
    fp.customIds = s.find('C') != std::string::npos;
    fp.allowSpherical = s.find('S') != std::string::npos;
    fp.avoidKnown = s.find('A') != std::string::npos;
    fp.ctorMode = s.find('1') != std::string::npos ? 1 : s.find('2') != std::string::npos ? 2 : 0;
    forced = &fp;
  }
  if (argc > 4) verbose = std::string(argv[4]) != "q";
  if (argc > 5) maxInit = std::atoi(argv[5]);
  if (argc > 6) maxOps = std::atoi(argv[6]);
  if (argc > 3 && std::string(argv[3]) == "AVOID") {
    forced = nullptr;
    avoidKnownDefault = true;
  }
#if GROUP == 0
  ALL_OPTS(INTRUSIVE_SET)
  RA_OPTS(INTRUSIVE_SET)
#elif GROUP == 1
  ALL_OPTS(INTRUSIVE_LIST)
  RA_OPTS(INTRUSIVE_LIST)
#elif GROUP == 2
  ALL_OPTS(LIST)
  RA_OPTS(LIST)
#elif GROUP == 3
  ALL_OPTS(SET)
  RA_OPTS(SET)
#elif GROUP == 4
  ALL_OPTS(VECTOR)
  RA_OPTS(VECTOR)
#elif GROUP == 5
  ALL_OPTS(NAIVE_VECTOR)
  RA_OPTS(NAIVE_VECTOR)
#elif GROUP == 6
  ALL_OPTS(SMALL_VECTOR)
  RA_OPTS(SMALL_VECTOR)
#elif GROUP == 7
  ALL_OPTS(UNORDERED_SET)
  RA_OPTS(UNORDERED_SET)
#elif GROUP == 8
  ALL_OPTS(HEAP)
#elif GROUP == 100
  RUN(INTRUSIVE_SET, CI, true, true, true, 0, false, true, false);
  RUN(INTRUSIVE_SET, II, true, true, false, 0, false, true, false);
#elif GROUP == 101
  RA_OPTS(INTRUSIVE_SET)
#elif GROUP == 102
  RUN(INTRUSIVE_SET, PI, true, false, false, 0, false, false, true);
#endif
  std::cout << "TOTAL: " << totalCases << " cases, " << totalChecks << " state comparisons, " << totalFails << " failing cases"
            << std::endl;
  return totalFails ? 1 : 0;
}

// =====================================================================================================================
// RESULTS (worktree /tmp/seed/P06, g++ 12, -O1 -g -fsanitize=address,undefined unless said otherwise)
//
// Usage: fuzz_ru <seed> <cases per configuration> [AVOID | DEFAULT | letters] [q|x] [maxInit] [maxOps]
//   AVOID   : random parameters, histories of the understood defects avoided (Params::avoidKnown)
//   DEFAULT : random parameters, nothing avoided
//   letters : see main()
// Groups (-DGROUP=n): 0..7 = {INTRUSIVE_SET, INTRUSIVE_LIST, LIST, SET, VECTOR, NAIVE_VECTOR, SMALL_VECTOR,
// UNORDERED_SET} x 16 option sets (ALL_OPTS + RA_OPTS), 8 = HEAP x 10 option sets (no row access); 100-102 small
// groups used while minimising. build_ru_all.sh builds them, run_all.sh runs them.
//
// Each case: random constructor (default / Matrix(n) / bulk), 0..27 initial cells, 10..69 operations among vine_swap
// (45%), vine_swap_with_z_eq_1_case (10%, CONTAINER/POSITION indexing, only when the documented "non trivial" criterion
// holds), insertion (17%), remove_last (10%, also on an empty matrix), remove_maximal_cell (10%), copy / move / assign /
// swap with an empty matrix / copy-modify-destroy the copy (8%); default or custom (increasing, with gaps up to 60,
// reused after removals) identifiers; parallel cells; in a quarter of the cases cells of dimension 1-2 with empty
// boundary. After every operation the complete state is compared with the model (see top of file).
//
// DEFECTS FOUND with this program (details in defects.md): 8 (Boundary_matrix::remove_last + custom identifiers),
// 9 (Id_to_index_overlay::remove_maximal_cell), 10 (Id_to_index_overlay::remove_last, vector container),
// 12 (non-intrusive rows + vector container: remove after swap), 11 (representative cycles over Z2, outside C06).
// Without avoidance ("DEFAULT") e.g. group 0, seed 91, 200 cases: CI/map configurations 27 failing cases (defect 8),
// II configurations 155-178 failing cases (defects 9, 10).
//
// PASSED WITHOUT FINDING ANYTHING ELSE (AVOID mode):
//   run_all.sh 41 300 : groups 0-7: 16 configurations x 300 cases each, 165673 state comparisons per group, 0 failures;
//                       group 8 (HEAP): 10 x 300 cases, 102426 comparisons, 0 failures
//   run_all.sh 77 700 : groups 0-7: 16 x 700 cases, 383073 comparisons per group, 0 failures; group 8: 10 x 700, 236692, 0
//   i.e. 138 configurations, 138000 random histories, 4.7 million full state comparisons.
//   -O2 -DNDEBUG, no sanitizer, group 100 (CI map pair / II vector pair): 2 x 1500 cases, 104955 comparisons, 0 failures.
//   Against the privately repaired headers (scratch/patched, defects 8 9 10 12 repaired) with NOTHING avoided:
//   group 101 (6 row access configurations) 2400 cases 85760 comparisons 0 failures; group 100 2000 cases 71618
//   comparisons 0 failures.
// What this covers: the whole case analysis of ru_vine_swap.h (R, U, pivot dictionary, barcode, return value) for
// position and identifier indexing, with and without stored barcode, map and vector containers, every column type,
// the lazy row/column swaps of base_swap.h, boundary_cell_position_to_id_mapper.h through custom identifiers >= 100.
// What it does not cover: Zp coefficients (vine updates are Z2 only), content of representative cycles (see defect 11),
// vine_swap_with_z_eq_1_case with IDENTIFIER indexing, custom identifiers < 100 together with removals (defect 8).

// Pristine defect 1 (property C06, chain matrix): an insertion after a vine swap does not behave as on a fresh matrix.
// Chain_matrix::_reduce_boundary reduces the boundary from its largest cell ID downwards and pairs the new cell with
// the unpaired chain of largest ID, i.e., it assumes that the IDs are ordered like the filtration. Vine swaps keep
// the IDs attached to the cells, so after a swap the order of the IDs is not the order of the filtration anymore.
//
// Filtration: v0 (ID 0), v1 (ID 1). vine_swap -> v1, v0. Then the edge {v0,v1} (ID 2) is inserted.
// On the resulting filtration v1 v0 e, the edge kills the youngest vertex, i.e., v0 at position 1: bars [0,inf) [1,2].
// The swapped matrix reports [1,inf) [0,2].
#include <gudhi/Matrix.h>
#include <gudhi/persistence_matrix_options.h>
#include <iostream>
#include <set>
#include <tuple>
#include <vector>

using namespace Gudhi::persistence_matrix;

struct Chain_opts : Default_options<Column_types::INTRUSIVE_SET, true> {
  static const bool is_of_boundary_type = false;
  static const bool has_vine_update = true;
  static const bool has_column_pairings = true;
};
using M = Matrix<Chain_opts>;
using B = std::vector<unsigned int>;
using Bars = std::multiset<std::tuple<int, int, int> >;

Bars bars(const M& m) {
  Bars b;
  for (const auto& bar : m.get_current_barcode())
    b.insert({bar.dim, (int)bar.birth, bar.death == M::get_null_value<unsigned int>() ? -1 : (int)bar.death});
  return b;
}
void print(const char* n, const Bars& b) {
  std::cout << n;
  for (auto& t : b) std::cout << " [" << std::get<0>(t) << ": " << std::get<1>(t) << ", " << std::get<2>(t) << "]";
  std::cout << "\n";
}

int main() {
  M m;
  m.insert_boundary(0, B{});
  m.insert_boundary(1, B{});
  unsigned int c0 = m.get_column_with_pivot(0), c1 = m.get_column_with_pivot(1);
  m.vine_swap(c0, c1);              // filtration is now v1, v0
  m.insert_boundary(2, B{0, 1});    // edge

  Bars expected = {{0, 0, -1}, {0, 1, 2}};   // v1 (position 0) essential, v0 (position 1) killed by the edge
  print("swapped matrix:", bars(m));
  print("expected      :", expected);
  bool ok = bars(m) == expected;
  std::cout << (ok ? "PASS" : "FAIL") << std::endl;
  return ok ? 0 : 1;
}

// defect_1.cpp - Bitmap_cubical_complex_base<float>: the Perseus reader writes a double into a float.
//
// Bitmap_cubical_complex_base<T>::read_perseus_style_file (Bitmap_cubical_complex_base.h:778-784) declares
//     T filtrationLevel = 0.;
// and fills it with   sscanf(line.c_str(), "%lf", &filtrationLevel);
// "%lf" stores a double (8 bytes). With T = float the object has 4 bytes: the call writes 4 bytes past it (stack buffer
// overflow, undefined behaviour) and the 4 bytes that land in the float are the low half of the mantissa of the double,
// so every value that is read is garbage. Under -fsanitize=address the program aborts inside sscanf
// (stack-buffer-overflow, WRITE of size 8); without the sanitizer the overwritten neighbours on the stack make it
// crash (observed: segmentation fault with g++ -O1) or read wrong values, depending on the stack layout.
// The sibling reader of Bitmap_cubical_complex_periodic_boundary_conditions_base<float> reads through a double and is
// right, and so is the constructor from a vector<float>: the three must agree.
//
// build: g++ -std=gnu++17 -O1 -g [-fsanitize=address,undefined] -I<gudhi includes> defect_1.cpp -o defect_1
#include <gudhi/Bitmap_cubical_complex.h>
#include <gudhi/Bitmap_cubical_complex_periodic_boundary_conditions_base.h>
#include <cstdio>
#include <fstream>
#include <iostream>
#include <vector>

int main() {
  typedef Gudhi::cubical_complex::Bitmap_cubical_complex_base<float> Base;
  typedef Gudhi::cubical_complex::Bitmap_cubical_complex_periodic_boundary_conditions_base<float> PBase;
  typedef Gudhi::cubical_complex::Bitmap_cubical_complex<Base> Cpx;
  typedef Gudhi::cubical_complex::Bitmap_cubical_complex<PBase> PCpx;

  // the example file of the documentation (file_formats.h, section Perseus)
  const char* name = "defect_1_perseus.txt";
  std::vector<float> values = {1, 4, 6, 8, 20, 4, 7, 6, 5};
  {
    std::ofstream f(name);
    f << "2\n3\n3\n";
    for (float v : values) f << v << "\n";
  }
  Cpx from_vector({3, 3}, values);
  PCpx from_file_periodic_class(name);
  Cpx from_file(name);  // <- aborts here under AddressSanitizer

  bool ok = true;
  std::size_t k = 0;
  for (auto t : from_file.top_dimensional_cells_range()) {
    float got = from_file.filtration(t), expected = from_vector.filtration(t), sibling = from_file_periodic_class.filtration(t);
    std::cout << "top cell " << k << " : file reader " << got << "  periodic file reader " << sibling
              << "  vector constructor " << expected << "\n";
    if (got != expected) ok = false;
    ++k;
  }
  std::remove(name);
  std::cout << (ok ? "PASS" : "FAIL: Bitmap_cubical_complex_base<float>(perseus file) does not hold the values of the file") << std::endl;
  return ok ? 0 : 1;
}

// Defect 9 (minor, diagnostics): the "characteristic not set" sentinel tested by Matrix is
// get_null_value<Characteristic>() (= -1, i.e. 4294967295), but a matrix built without characteristic holds
// default constructed Zp_field_operators whose get_characteristic() is 0. Consequences for Z_p matrices:
//   (a) the documented way "Matrix m; m.set_characteristic(p);" prints the warning "Characteristic already
//       initialised. Changing it could lead to incoherences..." on std::cerr at the FIRST initialisation;
//   (b) the debug check of insert_column / insert_boundary ("Columns cannot be initialized if the coefficient field
//       characteristic is not specified", std::logic_error) can never fire: inserting before set_characteristic
//       divides by zero in Zp_field_operators::get_value (SIGFPE) instead  -> ./defect_9 crash
//
// Build: g++ -std=gnu++17 -O1 -g -fsanitize=address,undefined $(ls -d /repo/src/*/include | sed 's/^/-I/') defect_9.cpp -o defect_9
#include <iostream>
#include <sstream>
#include <string>
#include <vector>
#include <gudhi/Matrix.h>
#include <gudhi/persistence_matrix_options.h>
using namespace Gudhi::persistence_matrix;

struct Opt : Default_options<Column_types::INTRUSIVE_SET, false> {};

int main(int argc, char** argv) {
  using M = Matrix<Opt>;
  if (argc > 1 && std::string(argv[1]) == "crash") {
    M m;  // characteristic not set: precondition of insert_column violated on purpose
    try {
      m.insert_column(std::vector<std::pair<unsigned, unsigned> >{{0, 1}});
      std::cout << "no exception\n";
    } catch (const std::logic_error& e) {
      std::cout << "logic_error as announced by the debug check: " << e.what() << "\n";
    }
    return 0;
  }
  std::ostringstream captured;
  std::streambuf* old = std::cerr.rdbuf(captured.rdbuf());
  M m;
  m.set_characteristic(5);  // first and only initialisation
  std::cerr.rdbuf(old);
  bool warned = !captured.str().empty();
  std::cout << "std::cerr after the first set_characteristic(5): \"" << captured.str() << "\"\n";
  std::cout << "expected nothing\n" << (warned ? "FAIL" : "PASS") << "\n";
  return warned ? 1 : 0;
}

// Defect 2: with has_column_and_row_swaps, the dictionaries of the lazy row swaps (Base_swap::indexToRow_ /
// rowToIndex_) only learn the rows that go through Base_matrix::_insert. Rows that enter the matrix
//   (a) through the constructor Matrix(columns, characteristic)  (only rows [0, nb of columns) are registered), or
//   (b) through an entry range given to add_to / multiply_*_and_add_to
// are unknown to them:
//   - map container: is_zero_entry answers "zero" for a non-zero entry, zero_entry does nothing,
//   - both containers: the next application of the lazy swaps (get_column, get_row, insert_column after any
//     swap_rows) throws std::out_of_range from reorder() (valueMap.at(row)).
//
// Build: g++ -std=gnu++17 -O1 -g -fsanitize=address,undefined $(ls -d /repo/src/*/include | sed 's/^/-I/') defect_2.cpp -o defect_2
#include <iostream>
#include <vector>
#include <string>
#include <gudhi/Matrix.h>
#include <gudhi/persistence_matrix_options.h>
using namespace Gudhi::persistence_matrix;

template <bool Map>
struct Opt : Default_options<Column_types::INTRUSIVE_SET, true> {
  static const bool has_map_column_container = Map;
  static const bool has_column_and_row_swaps = true;
};

static int bad = 0;

template <class M>
void read_back(M& m, const char* what, std::vector<bool> expected) {
  try {
    auto got = m.get_column(0).get_content(expected.size());
    std::cout << what << ": column 0 = ";
    for (auto x : got) std::cout << x << " ";
    std::cout << (got == expected ? "ok" : "WRONG") << "\n";
    bad += (got != expected);
  } catch (const std::exception& e) {
    std::cout << what << ": get_column(0) threw " << e.what() << "  WRONG (expected ";
    for (auto x : expected) std::cout << x << " ";
    std::cout << ")\n";
    ++bad;
  }
}

template <bool Map>
void run(const char* name) {
  using M = Matrix<Opt<Map> >;
  {  // (a) constructor from columns
    std::vector<std::vector<unsigned> > cols = {{5}};
    M m(cols);
    bool z = m.is_zero_entry(0, 5);
    std::cout << name << " ctor: is_zero_entry(0, 5) = " << z << " expected 0 " << (z ? "WRONG" : "ok") << "\n";
    bad += z;
    m.swap_rows(0, 1);  // rows 0 and 1 are empty: nothing changes
    read_back(m, (std::string(name) + " ctor, after swap_rows(0,1)").c_str(), {0, 0, 0, 0, 0, 1});
  }
  {  // (b) entry range
    M m;
    m.insert_column(std::vector<unsigned>{0});
    std::vector<typename M::Matrix_entry> range = {typename M::Matrix_entry(3)};
    m.add_to(range, 0);  // column 0 = {0, 3}
    bool z = m.is_zero_entry(0, 3);
    std::cout << name << " range: is_zero_entry(0, 3) = " << z << " expected 0 " << (z ? "WRONG" : "ok") << "\n";
    bad += z;
    m.swap_rows(0, 1);  // column 0 = {1, 3}
    read_back(m, (std::string(name) + " range, after swap_rows(0,1)").c_str(), {0, 1, 0, 1});
  }
}

int main() {
  run<false>("vector container");
  run<true>("map container");
  std::cout << (bad ? "FAIL" : "PASS") << "\n";
  return bad ? 1 : 0;
}

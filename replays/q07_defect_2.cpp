// defect_2: the two filtered front-ends size a temporary with `translatedBoundary.reserve(dimension * 2)`
// (filtered_zigzag_persistence.h:199 and :515). The dimension of a general cell is only a label (the index class
// Zigzag_persistence accepts any value and reports the right intervals), but here:
//   - dimension >= 2^30        : signed overflow (undefined behaviour, UBSan report), in practice a negative value
//                                converted to size_t -> std::length_error("vector::reserve");
//   - dimension  = -1          : (the empty simplex of an augmented complex / reduced homology) reserve((size_t)-2)
//                                -> std::length_error;
//   - (2^28 <= dimension < 2^30: a multi-gigabyte reservation for an empty boundary.)
// The exception leaves the object corrupted: the arrow counter of the front-end and its key dictionary were already
// updated, the inner Zigzag_persistence was not, so every later call is shifted by one arrow
// (here: unordered_map::at thrown by the next, perfectly valid, insertion).
//
// build: g++ -std=gnu++17 -O1 -g -fsanitize=address,undefined $(ls -d /repo/src/*/include | sed 's/^/-I/') \
//            defect_2.cpp -o defect_2
// run  : ./defect_2
//
// Sequence: vertex v (dim 0, f=0); cell c of dimension D with empty boundary (f=1) (a D-sphere as a CW complex);
//           remove c (f=2).   Expected (what Zigzag_persistence itself outputs): closed [D] 1 - 2, open [0] 0.
#include <gudhi/filtered_zigzag_persistence.h>
#include <cstdio>
#include <vector>
#include <tuple>

using namespace Gudhi::zigzag_persistence;

template <class F>
bool attempt(const char* what, F&& f) {
  try {
    f();
    return true;
  } catch (const std::exception& e) {
    std::printf("  %s -> exception: %s\n", what, e.what());
    return false;
  }
}

bool scenario(int D) {
  bool ok = true;
  std::printf("dimension D = %d\n", D);
  {
    // reference: the index class
    std::vector<std::tuple<int, int, int>> closed;
    Zigzag_persistence<> zp([&](int d, int b, int e) { closed.emplace_back(d, b, e); });
    zp.insert_cell({}, 0);
    zp.insert_cell({}, D);
    zp.remove_cell(1);
    std::printf("  Zigzag_persistence            : %zu closed bar(s)", closed.size());
    for (auto& t : closed) std::printf(" [%d] %d - %d", std::get<0>(t), std::get<1>(t), std::get<2>(t));
    std::printf("\n");
  }
  {
    std::vector<std::tuple<int, double, double>> closed;
    Filtered_zigzag_persistence<> zp([&](int d, double b, double e) { closed.emplace_back(d, b, e); });
    bool a = attempt("Filtered_zigzag_persistence::insert_cell(vertex)", [&] { zp.insert_cell(10, {}, 0, 0.); });
    bool b = attempt("Filtered_zigzag_persistence::insert_cell(D-cell)", [&] { zp.insert_cell(11, {}, D, 1.); });
    bool c = attempt("Filtered_zigzag_persistence::remove_cell(D-cell)", [&] { zp.remove_cell(11, 2.); });
    // a later, valid, operation
    bool d = attempt("Filtered_zigzag_persistence::insert_cell(edge v-w)", [&] {
      zp.insert_cell(12, {}, 0, 3.);
      zp.insert_cell(13, {10, 12}, 1, 4.);
    });
    std::printf("  Filtered_zigzag_persistence   : %zu closed bar(s)\n", closed.size());
    if (!(a && b && c && d) || closed.size() != 2) ok = false;
  }
  {
    Filtered_zigzag_persistence_with_storage<> zp;
    bool a = attempt("..._with_storage::insert_cell(vertex)", [&] { zp.insert_cell(10, {}, 0, 0.); });
    bool b = attempt("..._with_storage::insert_cell(D-cell)", [&] { zp.insert_cell(11, {}, D, 1.); });
    bool c = attempt("..._with_storage::remove_cell(D-cell)", [&] { zp.remove_cell(11, 2.); });
    size_t n = zp.get_index_persistence_diagram().size();
    std::printf("  ..._with_storage              : %zu closed bar(s)\n", n);
    if (!(a && b && c) || n != 1) ok = false;
  }
  return ok;
}

int main() {
  bool ok = true;
  ok &= scenario(5);                // sanity: works
  ok &= scenario(-1);               // empty simplex of an augmented complex
  ok &= scenario((1 << 30) + 5);    // large label: signed overflow in dimension * 2
  std::printf("%s\n", ok ? "PASS" : "FAIL");
  return ok ? 0 : 1;
}

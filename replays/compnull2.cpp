#include <gudhi/Matrix.h>
#include <gudhi/persistence_matrix_options.h>
#include <iostream>
using namespace Gudhi::persistence_matrix;
struct Opt : Default_options<Column_types::INTRUSIVE_SET, true> { static const bool has_column_compression = true; };
struct Plain : Default_options<Column_types::INTRUSIVE_SET, true> { };
template<class M> void show(const char*t, M& m){ std::cout<<t<<": "; for(unsigned i=0;i<2;++i){ std::cout<<"["; for(auto& e: m.get_column(i)) std::cout<<e.get_row_index()<<" "; std::cout<<"] "; } std::cout<<std::endl; }
int main(){
  Matrix<Plain> p; Matrix<Opt> m;
  p.insert_column(std::vector<unsigned>{0,1}); p.insert_column(std::vector<unsigned>{1,2});
  m.insert_column(std::vector<unsigned>{0,1}); m.insert_column(std::vector<unsigned>{1,2});
  Matrix<Plain> q; q.insert_column(std::vector<unsigned>{1,2});
  p.add_to(q.get_column(0),1); m.add_to(q.get_column(0),1);   // col1 = {} (zero), no aliasing: the source is an external range
  show("plain", p); show("compressed", m);
  std::cout << "is_zero_column(1): plain " << p.is_zero_column(1) << " compressed " << m.is_zero_column(1) << std::endl;
  std::cout << "adding column 0 to the zero column 1..." << std::endl;
  p.add_to(0,1); m.add_to(0,1);   // col1 = {0,1}
  show("plain", p); show("compressed", m);
  std::cout << "PASS\n";
}

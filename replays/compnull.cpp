#include <gudhi/Matrix.h>
#include <gudhi/persistence_matrix_options.h>
#include <iostream>
using namespace Gudhi::persistence_matrix;
struct Opt : Default_options<Column_types::INTRUSIVE_SET, true> { static const bool has_column_compression = true; };
struct Plain : Default_options<Column_types::INTRUSIVE_SET, true> { };
template<class M> void show(const char*t, M& m){ std::cout<<t<<": "; for(unsigned i=0;i<3;++i){ std::cout<<"["; for(auto& e: m.get_column(i)) std::cout<<e.get_row_index()<<" "; std::cout<<"] "; } std::cout<<std::endl; }
int main(){
  Matrix<Plain> p; Matrix<Opt> m;
  p.insert_column(std::vector<unsigned>{0,1}); p.insert_column(std::vector<unsigned>{1,2}); p.insert_column(std::vector<unsigned>{0,2});
  m.insert_column(std::vector<unsigned>{0,1}); m.insert_column(std::vector<unsigned>{1,2}); m.insert_column(std::vector<unsigned>{0,2});
  p.add_to(0,1); m.add_to(0,1);   // col1 = {0,2} == col2
  p.add_to(2,1); m.add_to(2,1);   // col1 = {} (zero)
  show("plain", p); show("compressed", m);
  std::cout << "adding column 0 to the zero column 1..." << std::endl;
  p.add_to(0,1); m.add_to(0,1);   // col1 = {0,1}
  show("plain", p); show("compressed", m);
  std::cout << "PASS\n";
}

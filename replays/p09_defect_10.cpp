// Defect 10: column compression: m.add_to(m.get_column(s), t) (and multiply_target_and_add_to /
// multiply_source_and_add_to) where columns s and t are identical, hence compressed into the same representative:
// the source range IS the representative that is being modified.
// Base_matrix_with_column_compression::_is_represented_by tests for this with
//     std::is_same_v<Entry_range_or_column_index, Column>  &&  &sourceColumn == &target
// where Column is the nested class Base_matrix_with_column_compression::Column; but Matrix::get_column returns the
// representative as "const Matrix::Column&" (its base class, e.g. List_column), so the template parameter is never that
// nested class, the test is always false and the column is added to itself while it is modified:
//   - multiply_target_and_add_to(m.get_column(0), 0, 1): every column type gives the zero column instead of c
//     (0 * c + c), for both columns 0 and 1;
//   - add_to(m.get_column(0), 1): heap-use-after-free / walk through unlinked nodes for LIST, INTRUSIVE_LIST,
//     INTRUSIVE_SET  ->  ./defect_10 crash   (ASan report in List_column::_add)
// The two column indices are different: the caller cannot be blamed for aliasing, he only sees two equal columns.
// The version taking column indices, add_to(0, 1), is handled correctly.
//
// Build: g++ -std=gnu++17 -O1 -g -fsanitize=address,undefined $(ls -d /repo/src/*/include | sed 's/^/-I/') defect_10.cpp -o defect_10
#include <iostream>
#include <string>
#include <vector>
#include <gudhi/Matrix.h>
#include <gudhi/persistence_matrix_options.h>
using namespace Gudhi::persistence_matrix;

template <Column_types C>
struct Opt : Default_options<C, true> {
  static const bool has_column_compression = true;
};

static int bad = 0;

template <Column_types C>
void wrong_value(const char* name) {
  using M = Matrix<Opt<C> >;
  {
    M m;
    m.insert_column(std::vector<unsigned>{0, 1, 2});
    m.insert_column(std::vector<unsigned>{0, 1, 2});     // same class as column 0
    m.multiply_target_and_add_to(m.get_column(0), 0, 1);  // column 1 = 0 * column 1 + column 0 = {0, 1, 2}
    auto c = m.get_column(1).get_content(3);
    bool ok = c[0] && c[1] && c[2];
    std::cout << name << ": multiply_target_and_add_to(get_column(0), 0, 1): column 1 = " << c[0] << c[1] << c[2]
              << " expected 111 " << (ok ? "ok" : "WRONG") << "\n";
    bad += !ok;
  }
  {
    M m;
    m.insert_column(std::vector<unsigned>{0, 1, 2});
    m.insert_column(std::vector<unsigned>{0, 1, 2});
    m.multiply_target_and_add_to(0, 0, 1);  // with indices: handled
    auto c = m.get_column(1).get_content(3);
    bool ok = c[0] && c[1] && c[2];
    std::cout << name << ": multiply_target_and_add_to(0, 0, 1)            : column 1 = " << c[0] << c[1] << c[2]
              << " expected 111 " << (ok ? "ok" : "WRONG") << "\n";
    bad += !ok;
  }
}

int main(int argc, char** argv) {
  if (argc > 1 && std::string(argv[1]) == "crash") {
    using M = Matrix<Opt<Column_types::LIST> >;
    M m;
    m.insert_column(std::vector<unsigned>{0, 1, 2});
    m.insert_column(std::vector<unsigned>{0, 1, 2});
    std::cout << "LIST: add_to(get_column(0), 1), expected columns 0 and 1 zero" << std::endl;
    m.add_to(m.get_column(0), 1);  // ASan: heap-use-after-free
    std::cout << "is_zero_column(1) = " << m.is_zero_column(1) << "\n";
    return 0;
  }
  wrong_value<Column_types::VECTOR>("VECTOR");
  wrong_value<Column_types::NAIVE_VECTOR>("NAIVE_VECTOR");
  wrong_value<Column_types::SET>("SET");
  wrong_value<Column_types::UNORDERED_SET>("UNORDERED_SET");
  wrong_value<Column_types::LIST>("LIST");
  wrong_value<Column_types::INTRUSIVE_LIST>("INTRUSIVE_LIST");
  wrong_value<Column_types::INTRUSIVE_SET>("INTRUSIVE_SET");
  std::cout << (bad ? "FAIL" : "PASS") << "\n";
  return bad ? 1 : 0;
}

// Differential test of the "small" multi-fields of Persistence_matrix against a 128-bit brute-force reference:
//   Multi_field_element_with_small_characteristics<min,max,T>, Shared_multi_field_element_with_small_characteristics<T>,
//   Multi_field_operators_with_small_characteristics
// See the COVERAGE comment at the end of the file.
#include <iostream>
#include <cstdint>
#include <random>
#include <vector>
#include <limits>
#include <climits>
#include <numeric>
#include <type_traits>
#include <stdexcept>
#include <gudhi/Fields/Multi_field_small.h>
#include <gudhi/Fields/Multi_field_small_shared.h>
#include <gudhi/Fields/Multi_field_small_operators.h>

using namespace Gudhi::persistence_fields;
typedef __int128 i128;
typedef unsigned long long ull;
#include <set>
#include <string>
static long long nfail = 0, nchecks = 0;
static std::mt19937_64 rng(4242);
static std::string g_ctx; static std::set<std::string> g_failing;   // configurations (class, type, range) with at least one failure

static ull refmod(i128 v, ull p) { i128 r = v % (i128)p; if (r < 0) r += p; return (ull)r; }
static ull mulmod(ull a, ull b, ull p) { return (ull)((unsigned __int128)(a % p) * (b % p) % p); }
#define CHECK(got, exp, ...) do { ++nchecks; ull g_ = (ull)(got), e_ = (ull)(exp); \
  if (g_ != e_) { g_failing.insert(g_ctx); if (++nfail < 60) { std::cout << "FAIL " << __LINE__ << ": got " << g_ << " expected " << e_ << " | "; __VA_ARGS__; std::cout << std::endl; } } } while (0)
static bool is_prime(ull n) { if (n < 2) return false; for (ull i = 2; i * i <= n; ++i) if (n % i == 0) return false; return true; }
template <class T> const char* tname() {
  if (std::is_same_v<T, unsigned char>) return "uchar"; if (std::is_same_v<T, unsigned short>) return "ushort";
  if (std::is_same_v<T, unsigned int>) return "uint"; if (std::is_same_v<T, unsigned long>) return "ulong";
  if (std::is_same_v<T, unsigned long long>) return "ulonglong"; return "?"; }

struct Range { unsigned mn, mx; std::vector<ull> primes; unsigned __int128 P; };
static Range make_range(unsigned mn, unsigned mx) { Range r{mn, mx, {}, 1}; for (ull i = mn; i <= mx; ++i) if (is_prime(i)) { r.primes.push_back(i); r.P *= i; if (r.P >> 100) break; } return r; }

// reference partial inverse: x reduced mod P, Q a sub-product
static std::pair<ull, ull> ref_partial_inverse(const Range& r, ull x, ull Q) {
  ull P = (ull)r.P, T = 1; unsigned __int128 v = 0;
  for (ull q : r.primes) if (Q % q == 0 && x % q != 0) {
    T *= q;
    ull inv = 0; { ull xr = x % q; for (ull k = 1; k < q; ++k) if (xr * k % q == 1) { inv = k; break; } }
    // idempotent e_q: 1 mod q, 0 mod P/q : (P/q) * ((P/q)^{-1} mod q)
    ull c = P / q, cinv = 0; for (ull k = 1; k < q; ++k) if ((c % q) * k % q == 1) { cinv = k; break; }
    if (q == 2 && P == 2) cinv = 1;
    unsigned __int128 e = (unsigned __int128)c * cinv % P;
    v = (v + e * inv) % P;
  }
  return {(ull)v, T};
}
static ull ref_partial_identity(const Range& r, ull Q) {
  ull P = (ull)r.P; unsigned __int128 v = 0;
  for (ull q : r.primes) if (Q % q == 0) { ull c = P / q, cinv = 0; for (ull k = 1; k < q; ++k) if ((c % q) * k % q == 1) { cinv = k; break; } v = (v + (unsigned __int128)c * cinv) % P; }
  return (ull)v;
}
static std::vector<ull> sub_products(const Range& r) {
  std::vector<ull> res; size_t n = r.primes.size();
  if (n <= 6) { for (unsigned m = 1; m < (1u << n); ++m) { ull q = 1; for (size_t i = 0; i < n; ++i) if (m >> i & 1) q *= r.primes[i]; res.push_back(q); } }
  else { res.push_back((ull)r.P); for (ull q : r.primes) { res.push_back(q); res.push_back((ull)r.P / q); }
         for (int t = 0; t < 12; ++t) { ull q = 1; for (size_t i = 0; i < n; ++i) if (rng() & 1) q *= r.primes[i]; if (q > 1) res.push_back(q); } }
  return res;
}
static std::vector<ull> reduced_operands(const Range& r, bool exhaustive, int nrand) {
  ull P = (ull)r.P; std::vector<ull> v;
  if (exhaustive) { for (ull i = 0; i < P; ++i) v.push_back(i); return v; }
  for (ull x : {0ull, 1ull, 2ull, 3ull, P - 1, P - 2, P - 3, P / 2, P / 2 + 1, P / 2 - 1, P / 3, 65535ull, 65536ull, 65537ull, 2147483647ull, 2147483648ull, 4294967295ull, 4294967296ull}) if (x < P) v.push_back(x);
  for (ull q : r.primes) { v.push_back(q % P); v.push_back((P / q) % P); v.push_back((P - q) % P); v.push_back(mulmod(q, q, P)); }
  for (int i = 0; i < nrand; ++i) v.push_back(rng() % P);
  for (int i = 0; i < nrand / 2; ++i) { ull x = rng() % P; ull q = r.primes[rng() % r.primes.size()]; v.push_back(x - x % q); }  // zero divisors
  return v;
}
template <class I> static std::vector<I> machine_ints(ull p) {
  std::vector<I> v; using L = std::numeric_limits<I>;
  i128 cands[] = {0, 1, 2, -1, -2, (i128)p, (i128)p - 1, (i128)p + 1, -(i128)p, -(i128)p - 1, -(i128)p + 1, 2 * (i128)p, 127, 128, -128, -129, 255, 256, 32767, 32768, -32768, -32769, 65535, 65536,
                  2147483647LL, -2147483648LL, 2147483648LL, 4294967295LL, 4294967296LL, -4294967296LL};
  for (i128 c : cands) if (c >= (i128)L::min() && c <= (i128)L::max()) v.push_back((I)c);
  v.push_back(L::max()); v.push_back(L::min()); v.push_back(L::max() - 1); v.push_back(L::min() + 1);
  for (int i = 0; i < 6; ++i) v.push_back((I)rng());
  return v;
}

template <class F, class I> void elem_int_checks(ull p, const std::vector<ull>& ops, const char* what) {
  for (I v : machine_ints<I>(p)) {
    i128 V = (i128)v;
    F c(v); CHECK(c.get_value(), refmod(V, p), std::cout << what << " ctor(" << sizeof(I) << (std::is_signed_v<I> ? "s" : "u") << ") P=" << p << " v=" << (long long)v);
    F as; as = v; CHECK(as.get_value(), refmod(V, p), std::cout << what << " assign P=" << p << " v=" << (long long)v);
    for (int k = 0; k < 4; ++k) {
      ull a = ops[(k * 7919u + (unsigned)v) % ops.size()];
      F f(a);
      { F g(f); g += v; CHECK(g.get_value(), refmod((i128)a + refmod(V, p), p), std::cout << what << " +=int P=" << p << " a=" << a << " v=" << (long long)v); }
      { F g(f); g -= v; CHECK(g.get_value(), refmod((i128)a - refmod(V, p), p), std::cout << what << " -=int P=" << p << " a=" << a << " v=" << (long long)v); }
      { F g(f); g *= v; CHECK(g.get_value(), mulmod(refmod(V, p), a, p), std::cout << what << " *=int P=" << p << " a=" << a << " v=" << (long long)v); }
      CHECK((f + v).get_value(), refmod((i128)a + refmod(V, p), p), std::cout << what << " f+int");
      CHECK((f - v).get_value(), refmod((i128)a - refmod(V, p), p), std::cout << what << " f-int");
      CHECK((f * v).get_value(), mulmod(refmod(V, p), a, p), std::cout << what << " f*int");
      if (p - 1 <= (ull)std::numeric_limits<I>::max()) {
        CHECK((ull)(v + f), refmod((i128)a + refmod(V, p), p), std::cout << what << " int+f P=" << p << " a=" << a << " v=" << (long long)v);
        CHECK((ull)(v - f), refmod((i128)refmod(V, p) - a, p), std::cout << what << " int-f P=" << p << " a=" << a << " v=" << (long long)v);
        CHECK((ull)(v * f), mulmod(refmod(V, p), a, p), std::cout << what << " int*f P=" << p << " a=" << a << " v=" << (long long)v);
      }
      bool eq = refmod(V, p) == a;
      CHECK(f == v, eq, std::cout << what << " f==int P=" << p << " a=" << a << " v=" << (long long)v); CHECK(v == f, eq, std::cout << what << " int==f");
      CHECK(f != v, !eq, std::cout << what << " f!=int"); CHECK(v != f, !eq, std::cout << what << " int!=f");
    }
  }
}
// full: identities and inverses are available (they do not compile for Multi_field_element_with_small_characteristics with a non default type)
template <class F, bool full> void elem_checks(const Range& r, bool exhaustive, int nrand, const char* what) {
  using E = typename F::Element;
  ull P = (ull)r.P;
  g_ctx = std::string(what) + " element [" + std::to_string(r.mn) + "," + std::to_string(r.mx) + "] " + tname<E>();
  auto ops = reduced_operands(r, exhaustive, nrand);
  CHECK(F::get_characteristic(), P, std::cout << what << " characteristic [" << r.mn << "," << r.mx << "]");
  CHECK(F().get_value(), 0, std::cout << "default");
  auto subs = sub_products(r);
  if constexpr (full) {
    CHECK(F::get_additive_identity().get_value(), 0, std::cout << "add id");
    CHECK(F::get_multiplicative_identity().get_value(), 1 % P, std::cout << "mult id");
    for (ull Q : subs) CHECK(F::get_partial_multiplicative_identity((E)Q).get_value(), ref_partial_identity(r, Q), std::cout << what << " partial identity [" << r.mn << "," << r.mx << "] Q=" << Q);
  }
  for (auto a : ops) {
    F fa(a);
    CHECK(fa.get_value(), a, std::cout << what << " value P=" << P << " a=" << a);
    CHECK((unsigned int)fa, (unsigned int)a, std::cout << "cast");
    if constexpr (full) {
      F inv = fa.get_inverse(); auto ri = ref_partial_inverse(r, a, P);
      CHECK(inv.get_value(), ri.first, std::cout << what << " inverse [" << r.mn << "," << r.mx << "] a=" << a);
      if (std::gcd(a, P) == 1) CHECK((fa * inv).get_value(), 1 % P, std::cout << what << " a*inv [" << r.mn << "," << r.mx << "] a=" << a);
      for (size_t s = 0; s < subs.size(); ++s) { if (!exhaustive && subs.size() > 8 && (rng() & 3)) continue;
        ull Q = subs[s]; auto pi = fa.get_partial_inverse((E)Q); auto rp = ref_partial_inverse(r, a, Q);
        CHECK(pi.first.get_value(), rp.first, std::cout << what << " partial inverse value [" << r.mn << "," << r.mx << "] a=" << a << " Q=" << Q);
        CHECK(pi.second, rp.second, std::cout << what << " partial inverse T [" << r.mn << "," << r.mx << "] a=" << a << " Q=" << Q); }
    }
    { F m(fa); F n(std::move(m)); CHECK(n.get_value(), a, std::cout << "move"); CHECK(m.get_value(), 0, std::cout << "moved-from"); m = n; CHECK(m.get_value(), a, std::cout << "copy assign");
      F z; swap(z, m); CHECK(z.get_value(), a, std::cout << "swap"); CHECK(m.get_value(), 0, std::cout << "swap2"); }
    for (auto b : ops) {
      F fb(b);
      CHECK((fa + fb).get_value(), refmod((i128)a + b, P), std::cout << what << " add P=" << P << " a=" << a << " b=" << b);
      CHECK((fa - fb).get_value(), refmod((i128)a - b, P), std::cout << what << " sub P=" << P << " a=" << a << " b=" << b);
      CHECK((fa * fb).get_value(), mulmod(a, b, P), std::cout << what << " mul P=" << P << " a=" << a << " b=" << b);
      { F g(fa); g += fb; CHECK(g.get_value(), refmod((i128)a + b, P), std::cout << "+="); }
      { F g(fa); g -= fb; CHECK(g.get_value(), refmod((i128)a - b, P), std::cout << "-="); }
      { F g(fa); g *= fb; CHECK(g.get_value(), mulmod(a, b, P), std::cout << "*="); }
      CHECK(fa == fb, a == b, std::cout << "=="); CHECK(fa != fb, a != b, std::cout << "!=");
    }
    { F g(fa); g += g; CHECK(g.get_value(), refmod((i128)2 * a, P), std::cout << "self +="); }
    { F g(fa); g *= g; CHECK(g.get_value(), mulmod(a, a, P), std::cout << "self *="); }
    { F g(fa); g -= g; CHECK(g.get_value(), 0, std::cout << "self -="); }
  }
  for (int t = 0; t < 200; ++t) {
    auto a = ops[rng() % ops.size()], b = ops[rng() % ops.size()], c = ops[rng() % ops.size()];
    F fa(a), fb(b), fc(c);
    CHECK((fa * fb + fc).get_value(), refmod((i128)mulmod(a, b, P) + c, P), std::cout << "a*b+c");
    CHECK(((fa + fb) * fc).get_value(), mulmod(refmod((i128)a + b, P), c, P), std::cout << "(a+b)*c");
  }
  elem_int_checks<F, signed char>(P, ops, what); elem_int_checks<F, char>(P, ops, what); elem_int_checks<F, unsigned char>(P, ops, what);
  elem_int_checks<F, short>(P, ops, what); elem_int_checks<F, unsigned short>(P, ops, what);
  elem_int_checks<F, int>(P, ops, what); elem_int_checks<F, unsigned int>(P, ops, what);
  elem_int_checks<F, long>(P, ops, what); elem_int_checks<F, unsigned long>(P, ops, what);
  elem_int_checks<F, long long>(P, ops, what); elem_int_checks<F, unsigned long long>(P, ops, what);
  elem_int_checks<F, bool>(P, ops, what);
}

void op_checks(Multi_field_operators_with_small_characteristics& op, const Range& r, bool exhaustive, int nrand) {
  using E = unsigned int; ull P = (ull)r.P;
  g_ctx = "operators [" + std::to_string(r.mn) + "," + std::to_string(r.mx) + "]";
  auto ops = reduced_operands(r, exhaustive, nrand);
  CHECK(op.get_characteristic(), P, std::cout << "op characteristic [" << r.mn << "," << r.mx << "]");
  auto subs = sub_products(r);
  for (ull Q : subs) CHECK(op.get_partial_multiplicative_identity((E)Q), ref_partial_identity(r, Q), std::cout << "op partial identity [" << r.mn << "," << r.mx << "] Q=" << Q);
  std::vector<ull> raw = ops;
  if (!exhaustive || P < 50) for (ull x : {4294967295ull, 4294967294ull, 2147483648ull, P, P + 1, 2 * P - 1}) if (x <= 4294967295ull) raw.push_back(x);
  for (auto a : raw) {
    E ea = (E)a;
    CHECK(op.get_value(ea), a % P, std::cout << "op get_value");
    auto ri = ref_partial_inverse(r, a % P, P);
    CHECK(op.get_inverse(ea), ri.first, std::cout << "op inverse [" << r.mn << "," << r.mx << "] a=" << a);
    for (size_t s = 0; s < subs.size(); ++s) { if (!exhaustive && subs.size() > 8 && (rng() & 3)) continue;
      ull Q = subs[s]; auto pi = op.get_partial_inverse(ea, (E)Q); auto rp = ref_partial_inverse(r, a % P, Q);
      CHECK(pi.first, rp.first, std::cout << "op partial inverse value [" << r.mn << "," << r.mx << "] a=" << a << " Q=" << Q);
      CHECK(pi.second, rp.second, std::cout << "op partial inverse T [" << r.mn << "," << r.mx << "] a=" << a << " Q=" << Q); }
    for (auto b : raw) {
      E eb = (E)b;
      CHECK(op.add(ea, eb), refmod((i128)a + b, P), std::cout << "op add P=" << P << " a=" << a << " b=" << b);
      CHECK(op.subtract(ea, eb), refmod((i128)a - b, P), std::cout << "op sub P=" << P << " a=" << a << " b=" << b);
      CHECK(op.multiply(ea, eb), mulmod(a, b, P), std::cout << "op mul P=" << P << " a=" << a << " b=" << b);
      { E x = ea; op.add_inplace(x, eb); CHECK(x, refmod((i128)a + b, P), std::cout << "add_inplace"); }
      { E x = ea; op.subtract_inplace_front(x, eb); CHECK(x, refmod((i128)a - b, P), std::cout << "sub_front"); }
      { E x = eb; op.subtract_inplace_back(ea, x); CHECK(x, refmod((i128)a - b, P), std::cout << "sub_back"); }
      { E x = ea; op.multiply_inplace(x, eb); CHECK(x, mulmod(a, b, P), std::cout << "mul_inplace"); }
      CHECK(op.are_equal(ea, eb), (a % P) == (b % P), std::cout << "are_equal");
    }
  }
  // fused operations: documented "not overflow safe": only checked when the exact integer result fits Element
  for (int t = 0; t < (exhaustive && P <= 15 ? (int)(P * P * P) : 3000); ++t) {
    ull a, b, c;
    if (exhaustive && P <= 15) { a = t % P; b = (t / P) % P; c = t / P / P; } else { a = ops[rng() % ops.size()]; b = ops[rng() % ops.size()]; c = ops[rng() % ops.size()]; }
    E ea = (E)a, eb = (E)b, ec = (E)c;
    if ((i128)a * b + c <= UINT_MAX) {
      CHECK(op.multiply_and_add(ea, eb, ec), refmod((i128)a * b + c, P), std::cout << "multiply_and_add P=" << P << " " << a << " " << b << " " << c);
      { E x = ea; op.multiply_and_add_inplace_front(x, eb, ec); CHECK(x, refmod((i128)a * b + c, P), std::cout << "maa_front"); }
      { E x = ec; op.multiply_and_add_inplace_back(ea, eb, x); CHECK(x, refmod((i128)a * b + c, P), std::cout << "maa_back"); }
    }
    if (((i128)a + b) * c <= UINT_MAX && a + b <= UINT_MAX) {
      CHECK(op.add_and_multiply(ea, eb, ec), refmod(((i128)a + b) * c, P), std::cout << "add_and_multiply P=" << P << " " << a << " " << b << " " << c);
      { E x = ea; op.add_and_multiply_inplace_front(x, eb, ec); CHECK(x, refmod(((i128)a + b) * c, P), std::cout << "aam_front"); }
      { E x = ec; op.add_and_multiply_inplace_back(ea, eb, x); CHECK(x, refmod(((i128)a + b) * c, P), std::cout << "aam_back"); }
    }
  }
  auto gv = [&](auto dummy) { using I = decltype(dummy); for (I v : machine_ints<I>(P)) CHECK(op.get_value(v), refmod((i128)v, P), std::cout << "op get_value(" << sizeof(I) << (std::is_signed_v<I> ? "s" : "u") << ") P=" << P << " v=" << (long long)v); };
  gv((signed char)0); gv((char)0); gv((unsigned char)0); gv((short)0); gv((unsigned short)0); gv(0); gv(0u); gv(0l); gv(0ul); gv(0ll); gv(0ull); gv(false);
  CHECK(op.get_additive_identity(), 0, std::cout << "addid"); CHECK(op.get_multiplicative_identity(), 1, std::cout << "multid");
  { Multi_field_operators_with_small_characteristics c(op); CHECK(c.get_characteristic(), P, std::cout << "copy char"); CHECK(c.get_inverse((E)(P - 1)), ref_partial_inverse(r, P - 1, P).first, std::cout << "copy inv");
    Multi_field_operators_with_small_characteristics m(std::move(c)); CHECK(m.get_characteristic(), P, std::cout << "move char"); CHECK(m.get_inverse((E)(P - 1)), ref_partial_inverse(r, P - 1, P).first, std::cout << "move inv");
    Multi_field_operators_with_small_characteristics a2; a2 = m; CHECK(a2.get_characteristic(), P, std::cout << "assign char"); CHECK(a2.get_inverse((E)(P - 1)), ref_partial_inverse(r, P - 1, P).first, std::cout << "assign inv");
    Multi_field_operators_with_small_characteristics s(3, 3); swap(s, a2); CHECK(s.get_characteristic(), P, std::cout << "swap char"); CHECK(a2.get_characteristic(), 3, std::cout << "swap char2"); CHECK(a2.get_inverse(2u), 2, std::cout << "swap inv");
    CHECK(s.get_inverse((E)(P - 1)), ref_partial_inverse(r, P - 1, P).first, std::cout << "swap inv2"); }
}

template <class T> void run_shared(unsigned maxmax, bool square_only) {
  unsigned __int128 tmax = std::numeric_limits<T>::max();
  long long nranges = 0;
  for (unsigned mx = 2; mx <= maxmax; ++mx) for (unsigned mn = 0; mn <= mx; ++mn) {
    Range r = make_range(mn, mx);
    if (r.primes.empty() || r.P > tmax) continue;
    if (square_only && r.P * r.P > tmax) continue;
    if (!square_only && r.P * r.P <= tmax && mx > 13) continue;   // already covered
    if (mn > 2 && !is_prime(mn) && !is_prime(mn - 1) && mx - mn > 2 && (mn % 5)) continue;  // thin out equivalent ranges
    using F = Shared_multi_field_element_with_small_characteristics<T>;
    F::initialize(mn, mx);
    elem_checks<F, true>(r, r.P <= 120, 24, tname<T>());
    ++nranges;
  }
  std::cout << "Shared small " << tname<T>() << (square_only ? " (P^2 fits)" : " (P fits, P^2 does not)") << ": " << nranges << " ranges, checks so far " << nchecks << " failures " << nfail << std::endl;
}
void run_ops(unsigned maxmax, bool square_only) {
  long long nranges = 0;
  for (unsigned mx = 2; mx <= maxmax; ++mx) for (unsigned mn = 0; mn <= mx; ++mn) {
    Range r = make_range(mn, mx);
    if (r.primes.empty() || r.P > UINT_MAX) continue;
    if (square_only && r.P * r.P > UINT_MAX) continue;
    if (!square_only && r.P * r.P <= UINT_MAX && mx > 13) continue;
    if (mn > 2 && !is_prime(mn) && !is_prime(mn - 1) && mx - mn > 2 && (mn % 5)) continue;
    Multi_field_operators_with_small_characteristics op; op.set_characteristic(mn, mx);
    op_checks(op, r, r.P <= 120, 24);
    Multi_field_operators_with_small_characteristics op2(mn, mx); CHECK(op2.get_characteristic(), (ull)r.P, std::cout << "ctor");
    ++nranges;
  }
  std::cout << "small operators" << (square_only ? " (P^2 fits)" : " (P fits, P^2 does not)") << ": " << nranges << " ranges, checks so far " << nchecks << " failures " << nfail << std::endl;
}
template <unsigned mn, unsigned mx, class T, bool full> void run_static() {
  Range r = make_range(mn, mx);
  elem_checks<Multi_field_element_with_small_characteristics<mn, mx, T>, full>(r, r.P <= 120, 30, "static");
}
template <class T> void refusals() {
  using F = Shared_multi_field_element_with_small_characteristics<T>;
  unsigned bad[][2] = {{0, 0}, {0, 1}, {1, 1}, {4, 4}, {8, 10}, {14, 16}, {24, 28}, {9, 9}, {5, 3}, {90, 96}, {25, 25}};
  for (auto& b : bad) { bool thrown = false; try { F::initialize(b[0], b[1]); } catch (const std::invalid_argument&) { thrown = true; } CHECK(thrown, 1, std::cout << "Shared small refuses [" << b[0] << "," << b[1] << "]"); }
  for (auto& b : bad) { bool thrown = false; try { Multi_field_operators_with_small_characteristics op; op.set_characteristic(b[0], b[1]); } catch (const std::invalid_argument&) { thrown = true; } CHECK(thrown, 1, std::cout << "small operators refuse [" << b[0] << "," << b[1] << "]"); }
  for (auto& b : bad) { bool thrown = false; try { Multi_field_operators_with_small_characteristics op(b[0], b[1]); } catch (const std::invalid_argument&) { thrown = true; } CHECK(thrown, 1, std::cout << "small operators ctor refuses [" << b[0] << "," << b[1] << "]"); }
}

#ifndef GROUP
#define GROUP 0
#endif
int main() {
#if GROUP == 0 || GROUP == 1
  run_static<2, 2, unsigned int, true>(); run_static<3, 3, unsigned int, true>(); run_static<2, 3, unsigned int, true>(); run_static<0, 5, unsigned int, true>();
  run_static<1, 3, unsigned int, true>(); run_static<5, 13, unsigned int, true>(); run_static<2, 7, unsigned int, true>(); run_static<7, 7, unsigned int, true>();
  run_static<8, 11, unsigned int, true>(); run_static<24, 29, unsigned int, true>(); run_static<2, 13, unsigned int, true>();
  run_static<2, 19, unsigned int, true>(); run_static<2, 23, unsigned int, true>(); run_static<3, 29, unsigned int, true>();
  run_static<65521, 65521, unsigned int, true>(); run_static<65519, 65521, unsigned int, true>(); run_static<46337, 46349, unsigned int, true>(); run_static<251, 257, unsigned int, true>();
  std::cout << "static small (unsigned int) done, checks so far " << nchecks << " failures " << nfail << std::endl;
#endif
#if GROUP == 0 || GROUP == 2
  run_static<2, 3, unsigned char, false>(); run_static<2, 7, unsigned char, false>(); run_static<251, 251, unsigned char, false>(); run_static<13, 17, unsigned char, false>();
  run_static<2, 13, unsigned short, false>(); run_static<251, 257, unsigned short, false>(); run_static<65521, 65521, unsigned short, false>();
  run_static<2, 23, unsigned long, false>(); run_static<2, 47, unsigned long, false>(); run_static<3, 53, unsigned long, false>(); run_static<5, 53, unsigned long long, false>();
  run_static<65519, 65537, unsigned long, false>(); run_static<4294967291u, 4294967291u, unsigned long, false>();
  std::cout << "static small (other types, no identities / inverses) done, checks so far " << nchecks << " failures " << nfail << std::endl;
#endif
#if GROUP == 0 || GROUP == 3
  refusals<unsigned int>();
  run_ops(40, true); run_ops(40, false);
  run_shared<unsigned int>(40, true); run_shared<unsigned int>(40, false);
#endif
#if GROUP == 0 || GROUP == 4
  refusals<unsigned long>();
  run_shared<unsigned short>(20, true); run_shared<unsigned short>(20, false);
  run_shared<unsigned char>(20, true); run_shared<unsigned char>(20, false);
  run_shared<unsigned long>(60, true); run_shared<unsigned long>(60, false);
  run_shared<unsigned long long>(60, false);
#endif
  for (auto& c : g_failing) std::cout << "failing configuration: " << c << std::endl;
  std::cout << nchecks << " checks, " << nfail << " failures" << std::endl;
  std::cout << (nfail ? "FAIL" : "PASS") << std::endl;
  return nfail ? 1 : 0;
}

/* COVERAGE (library exactly as in the worktree, g++ 12.2, -std=gnu++17)
   Build: g++ -std=gnu++17 -O1 -g -fsanitize=address,undefined -DGROUP=<1..4> <includes> fuzz_multi_small.cpp -o fuzz_ms_g<n>
   Reference: primes of the range by trial division, product in unsigned __int128, arithmetic in __int128; CRT idempotents and
   inverses modulo each prime by brute force; expected partial inverse of x for Q = (sum over primes q | Q with q not dividing x
   of e_q * (x^-1 mod q), product of those q); expected partial identity = sum of e_q for q | Q.
   Compared: the same operator / conversion list as in fuzz_zp.cpp (every native integer type, both operand orders, aliasing,
   copy / move / swap) plus get_inverse, get_partial_inverse(Q) and get_partial_multiplicative_identity(Q) for EVERY sub-product Q
   when the range has <= 6 primes (P, every prime, every co-prime and 12 random sub-products otherwise).
   Operands: all residues for P <= 120, otherwise boundary values (0 1 2 3 P-1 P-2 P-3 P/2 P/2+-1 P/3, 2^16+-1, 2^31, 2^32, every
   prime q, P/q, P-q, q^2), 24-30 random residues and 12-15 random zero divisors (multiples of a prime of the range).

   PASSED WITHOUT FINDING ANYTHING (sanitizers on; GROUP 1 and 3 also -O2 -DNDEBUG, same counts):
   GROUP 1  Multi_field_element_with_small_characteristics<min,max> (unsigned int): <2,2> <3,3> <2,3> <0,5> <1,3> <5,13> <2,7> <7,7>
            <8,11> <24,29> <2,13> <2,19> <2,23> <3,29> (P = 3234846615 > 2^31) <65521,65521> <65519,65521> (P > 2^31) <46337,46349>
            <251,257>: 828 253 checks.
   GROUP 2  the same class with T != unsigned int, arithmetic and conversions only (identities / inverses do not compile):
            <2,3,uchar> <2,7,uchar> <251,251,uchar> <13,17,uchar> <2,13,ushort> <251,257,ushort> <65521,65521,ushort> <2,23,ulong>
            <2,47,ulong> <5,53,ulonglong> <65519,65537,ulong> <4294967291,4294967291,ulong>: pass.
            <3,53,ulong> (2^63 <= P < 2^64): 386 FAILURES, all with signed 64-bit operands of magnitude >= 2^64 - P: defect 4.
   GROUP 3  Multi_field_operators_with_small_characteristics and Shared_multi_field_element_with_small_characteristics<unsigned int>:
            665 ranges [min,max] with 0 <= min <= max <= 40 whose product fits 32 bits (330 with P^2 < 2^32 as the documentation
            asks, 335 where only P fits), refusal of [0,0] [0,1] [1,1] [4,4] [8,10] [14,16] [24,28] [9,9] [5,3] [90,96] [25,25]:
            63 653 876 checks. (Fused functions only when the exact result fits 32 bits: documented "not overflow safe".)
   GROUP 4  Shared_multi_field_element_with_small_characteristics<T>: unsigned short 243 ranges, unsigned char 136 ranges (max <= 20),
            unsigned long 881 ranges with P^2 < 2^64 and 585 with only P < 2^64 (max <= 60), unsigned long long 585 ranges:
            152 556 838 checks; the only failing configurations are [3,53] ... [3,58] (all the same primes 3..53, P >= 2^63) for
            unsigned long and unsigned long long: 9875 failures (conversions of signed integers, every inverse): defect 4 (the
            class documentation asks for P^2 to fit, so for the shared class this is outside the documented domain). */

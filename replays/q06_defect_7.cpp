// Defect 7: chain matrix with vine updates, WITHOUT stored barcode: remove_last() removes the cell with the largest
// identifier instead of the last cell of the filtration.
// Chain_matrix::remove_last (Chain_matrix.h:819-826): without pairing option the "last" column is searched as the one
// with the largest pivot ("without stored positions: pivots have to be increasing in order of filtration"), which a
// vine swap breaks. The documentation of Matrix::remove_last only says that the last cell "has to be searched first".
// (The same function with stored barcode was repaired: it now uses the stored positions.)
//
// Build: g++ -std=gnu++17 -O1 -g -fsanitize=address,undefined -I<gudhi>/src/Persistence_matrix/include
//            -I<gudhi>/src/common/include defect_7.cpp -o defect_7
#include <gudhi/Matrix.h>
#include <gudhi/persistence_matrix_options.h>

#include <iostream>
#include <vector>

using namespace Gudhi::persistence_matrix;

struct Opt : Default_options<Column_types::INTRUSIVE_SET, true> {
  static const Column_indexation_types column_indexation_type = Column_indexation_types::IDENTIFIER;
  static const bool is_of_boundary_type = false;
  static const bool has_column_pairings = false;
  static const bool has_vine_update = true;
  static const bool has_removable_columns = true;
  static const bool has_map_column_container = true;
};

int main() {
  using B = std::vector<unsigned>;
  // two unpaired vertices: the comparators are never needed with a well defined answer here (equal dimension, both
  // essential: any consistent answer is fine)
  auto less = [](unsigned a, unsigned b) { return a < b; };
  Matrix<Opt> m(less, less);
  m.insert_boundary(B{}, 0);  // cell 0: a vertex
  m.insert_boundary(B{}, 1);  // cell 1: a loop (1-cell without boundary)
  m.vine_swap(0, 1);          // filtration: 1, 0
  m.remove_last();            // the last cell is cell 0
  int bad = 0;
  std::cout << "number of columns: " << m.get_number_of_columns() << " (expected 1)\n";
  try {
    int d = m.get_column_dimension(1);
    std::cout << "cell 1 is still there, dimension " << d << " (expected: yes, 1)\n";
  } catch (const std::exception& e) {
    std::cout << "FAIL: cell 1 (first of the filtration) was removed: " << e.what() << "\n";
    ++bad;
  }
  try {
    int d = m.get_column_dimension(0);
    std::cout << "FAIL: cell 0 (last of the filtration) is still there, dimension " << d << "\n";
    ++bad;
  } catch (const std::exception&) {
    std::cout << "cell 0 was removed (expected)\n";
  }
  std::cout << (bad ? "FAIL" : "PASS") << std::endl;
  return bad ? 1 : 0;
}

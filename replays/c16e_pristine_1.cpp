// Pristine defect 1: Lazy_toplex_map::contraction(x, x) (both arguments the same vertex) corrupts the lazy map.
// The abstract operation "identify x with x" is the identity, and Toplex_map::contraction(x, x) indeed leaves the
// eager map unchanged. The lazy variant ends with t0.erase(d) where d == k == x: the bucket of x is dropped although
// the simplices through x were just stored again, so they stay referenced under their other vertices only.
#include <gudhi/Toplex_map.h>
#include <gudhi/Lazy_toplex_map.h>
#include <iostream>
#include <stdexcept>

using Simplex = Gudhi::Toplex_map::Simplex;

int main() {
  int failures = 0;
  Gudhi::Toplex_map eager;
  Gudhi::Lazy_toplex_map lazy;
  eager.insert_simplex(Simplex{1, 2, 3});
  lazy.insert_simplex(Simplex{1, 2, 3});
  eager.contraction(1, 1);
  lazy.contraction(1, 1);
  for (const Simplex& s : {Simplex{1}, Simplex{1, 2}, Simplex{1, 2, 3}, Simplex{2, 3}}) {
    bool e = eager.membership(s);
    bool l = false;
    try {
      l = lazy.membership(s);
    } catch (const std::out_of_range& ex) {
      std::cout << "lazy.membership threw std::out_of_range: " << ex.what() << std::endl;
      ++failures;
      continue;
    }
    std::cout << "simplex of size " << s.size() << " containing " << *s.begin() << ": eager " << e << " lazy " << l
              << std::endl;
    if (!e || !l) ++failures;  // all four are faces of {1,2,3}
  }
  std::cout << "num_vertices: eager " << eager.num_vertices() << " lazy " << lazy.num_vertices() << std::endl;
  if (eager.num_vertices() != 3 || lazy.num_vertices() != 3) ++failures;
  // the stale entries also make later operations throw
  try {
    lazy.remove_simplex(Simplex{2, 3});
    lazy.insert_simplex(Simplex{1, 2, 3});
    lazy.membership(Simplex{1, 2});
  } catch (const std::out_of_range& ex) {
    std::cout << "later lazy operation threw std::out_of_range: " << ex.what() << std::endl;
    ++failures;
  }
  std::cout << (failures ? "FAIL" : "PASS") << std::endl;
  return failures ? 1 : 0;
}

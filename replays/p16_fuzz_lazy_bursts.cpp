// Lazy_toplex_map only: random histories made of
//   I  insert_simplex(random simplex)                R  remove_simplex(random or previously inserted simplex)
//   V  remove_simplex({v})                            Q  membership({v})   (may trigger a cleaning of v)
//   F  insert every face, containing a vertex v, of a previously inserted simplex (a burst of non-maximal insertions)
// over 4..maxN vertex slots, compared with a dense model (set of bitmasks). membership() is verified for every
// non-empty vertex set on a COPY of the map every 16 operations and at the end (queries on the map itself "heal" the
// deferred bookkeeping, so they are kept rare). Exceptions are reported as failures; a SIGSEGV handler reports the seed
// if the stack overflows (defect 2).
// Usage: fuzz_lazy_bursts seed0 nseeds steps [maxN=8] [maxfail=3]
// Findings: this fuzzer FINDS defect 1 (std::out_of_range thrown by remove_simplex), about 6 seeds in 10000 with
// steps=200 (e.g. "1 40000 200"). No wrong membership answer was ever observed: in all the seeds that do not throw,
// every membership answer agreed with the model (see defects.md for the counts).
#include <gudhi/Lazy_toplex_map.h>
#include <random>
#include <vector>
#include <set>
#include <cstdio>
#include <cstdlib>
#include <csignal>
#include <unistd.h>
#include <sstream>
using namespace Gudhi; using V = std::size_t; using Mask = unsigned;
static int N; static unsigned long cur_seed;
static std::vector<V> vec(Mask m) { std::vector<V> v; for (int i = 0; i < N; i++) if (m >> i & 1) v.push_back(10 * i + 3); return v; }
static void on_segv(int) { char b[100]; int n = std::snprintf(b, sizeof b, "FAIL: SIGSEGV (stack overflow?) in seed %lu\n", cur_seed); if (write(1, b, n)) {} _exit(3); }
struct Model { std::set<Mask> cx;
  void insert(Mask m) { for (Mask s = m; s; s = (s - 1) & m) cx.insert(s); }
  void remove(Mask m) { for (auto it = cx.begin(); it != cx.end();) if ((*it & m) == m) it = cx.erase(it); else ++it; } };
static bool verify(const Lazy_toplex_map& m, const Model& mo, std::mt19937_64& rng) {
  Lazy_toplex_map c(m);
  std::vector<Mask> qs; for (Mask q = 1; q < (1u << N); q++) qs.push_back(q);
  std::shuffle(qs.begin(), qs.end(), rng);
  for (Mask q : qs) if (c.membership(vec(q)) != (mo.cx.count(q) > 0)) { std::printf("FAIL: membership of mask %x: got %d\n", q, (int)!mo.cx.count(q)); return false; }
  return true;
}
int main(int argc, char** argv) {
  static char altstack[1 << 16]; stack_t ss; ss.ss_sp = altstack; ss.ss_size = sizeof altstack; ss.ss_flags = 0; sigaltstack(&ss, 0);
  struct sigaction sa; sa.sa_handler = on_segv; sigemptyset(&sa.sa_mask); sa.sa_flags = SA_ONSTACK; sigaction(SIGSEGV, &sa, 0);
  unsigned long s0 = argc > 1 ? atol(argv[1]) : 1; int ns = argc > 2 ? atoi(argv[2]) : 1000; int steps = argc > 3 ? atoi(argv[3]) : 200;
  int maxN = argc > 4 ? atoi(argv[4]) : 8; int maxfail = argc > 5 ? atoi(argv[5]) : 3;
  int bad = 0; long checks = 0;
  for (int it = 0; it < ns && bad < maxfail; it++) {
    cur_seed = s0 + it; std::mt19937_64 rng(cur_seed);
    N = 4 + rng() % (maxN - 3);
    Lazy_toplex_map m; Model mo; std::vector<Mask> stored; std::ostringstream h;
    int pI = 20 + rng() % 40, pR = 10 + rng() % 30, pQ = 10 + rng() % 30;
    bool ok = true;
    try {
      for (int st = 0; st < steps && ok; st++) {
        int r = rng() % (pI + pR + pQ + 10);
        Mask mask = 1 + rng() % ((1u << N) - 1); if (rng() % 2) { Mask m2 = mask & rng(); if (m2) mask = m2; }
        if (r < pI) { h << "I" << std::hex << mask << " "; m.insert_simplex(vec(mask)); mo.insert(mask); stored.push_back(mask); }
        else if (r < pI + pR) { if (!stored.empty() && rng() % 4) mask = stored[rng() % stored.size()]; if (rng() % 5 == 0) mask = 1u << (rng() % N);
          h << "R" << std::hex << mask << " "; m.remove_simplex(vec(mask)); mo.remove(mask); }
        else if (r < pI + pR + pQ) { Mask q = 1u << (rng() % N); h << "Q" << std::hex << q << " "; if (m.membership(vec(q)) != (mo.cx.count(q) > 0)) { std::printf("FAIL: wrong membership\n"); ok = false; } }
        else { if (stored.empty()) continue; Mask big = stored[rng() % stored.size()]; std::vector<int> vs; for (int i = 0; i < N; i++) if (big >> i & 1) vs.push_back(i);
          int v = vs[rng() % vs.size()]; h << "F" << std::hex << big << "/" << v << " ";
          for (Mask s = big; s; s = (s - 1) & big) if (s >> v & 1) m.insert_simplex(vec(s)); mo.insert(big); }
        if (st % 16 == 15) { ok = verify(m, mo, rng); checks++; }
      }
      if (ok) { ok = verify(m, mo, rng); checks++; }
    } catch (const std::exception& e) { std::printf("FAIL: exception %s\n", e.what()); ok = false; }
    if (!ok) { bad++; std::printf("  seed %lu N=%d history (masks in hex over slots; slot i is vertex 10*i+3): %s\n", cur_seed, N, h.str().c_str()); }
  }
  std::printf("%s: %d failing seeds, %ld full verifications\n", bad ? "FAIL" : "PASS", bad, checks);
  return bad != 0;
}

// Pristine defect 2: Shared_multi_field_element_with_small_characteristics<unsigned long> with a range whose product
// fits the 64-bit element type but is >= 2^63: [3,53] -> 16294579238595022365 < 2^64.
//   _get_inverse copies the modulus into a `long long` (negative here): get_inverse() / get_partial_inverse() return
//   0 for units (2, 59, 61, 1000003);
//   _get_value(signed) reduces modulo static_cast<long long>(product) (negative): a negative integer of large
//   magnitude (LLONG_MIN) is not converted to its residue.
// The same range with product < 2^63 ([3,47]) behaves.
#include <iostream>
#include <climits>
#include <gudhi/Fields/Multi_field_small_shared.h>

using namespace Gudhi::persistence_fields;

template <class F>
int run(const char* name) {
  int failures = 0;
  unsigned long P = F::get_characteristic();
  std::cout << name << ": product = " << P << std::endl;
  for (unsigned long v : {2ul, 59ul, 61ul, 1000003ul}) {  // coprime to the products
    F x(v);
    F inv = x.get_inverse();
    F prod = x * inv;
    std::cout << "  " << v << " * inverse(" << v << ") = " << prod.get_value() << " (inverse = " << inv.get_value()
              << "), expected 1" << std::endl;
    if (prod.get_value() != 1) ++failures;
  }
  {
    F m(LLONG_MIN);
    __int128 PP = P;
    __int128 r = (((__int128)LLONG_MIN % PP) + PP) % PP;
    std::cout << "  F(LLONG_MIN) = " << m.get_value() << ", expected " << (unsigned long)r << std::endl;
    if (m.get_value() != (unsigned long)r) ++failures;
  }
  return failures;
}

int main() {
  int failures = 0;
  using S = Shared_multi_field_element_with_small_characteristics<unsigned long>;
  S::initialize(3, 47);
  int control = run<S>("shared [3,47] (control)");
  S::initialize(3, 53);
  failures += run<S>("shared [3,53]");
  std::cout << "control failures: " << control << std::endl;
  std::cout << (failures == 0 ? "PASS" : "FAIL") << std::endl;
  return failures == 0 ? 0 : 1;
}

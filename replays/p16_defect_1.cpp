// Defect 1: Lazy_toplex_map::remove_simplex() throws std::out_of_range ("unordered_map::at") in a legal history.
//
// Mechanism (src/Toplex_map/include/gudhi/Lazy_toplex_map.h):
//  * gamma0_lbounds[v] / size_lbound are incremented by insert_independent_simplex (l.121-128, called by
//    remove_simplex l.174) but never decremented when those simplices are erased again (erase_max l.232-250), and
//    they are incremented again when the same facet is re-inserted. clean(v) (l.288) then computes
//    size_lbound = size_lbound - gamma0_lbound(v) + #maximal cofaces in unsigned arithmetic: it WRAPS below zero.
//  * With size_lbound == SIZE_MAX-1, the first insert_independent_simplex inside the loop of remove_simplex makes
//    size_lbound == SIZE_MAX, so "(size_lbound + 1) * BETTA" (l.148) is 0 and insert_simplex calls clean() in the
//    middle of the loop (l.166-176), which iterates over a COPY of t0.at(v) taken before.
//  * That clean() drops a stored non-maximal simplex S2 = {4,5} (face of T0) which is still in the copy. T0 is then
//    processed, vertex 4 leaves t0, and when the loop reaches S2, erase_max(S2) does t0.at(4) (l.238) -> throws.
// The order in which the copy is walked comes from std::unordered_set (libstdc++ here).
//
// Build: g++ -std=gnu++17 -O1 -g -fsanitize=address,undefined -I/repo/src/Toplex_map/include defect_1.cpp -o defect_1
#include <gudhi/Lazy_toplex_map.h>
#include <gudhi/Toplex_map.h>
#include <cstdio>
#include <vector>
using V = std::size_t;
using S = std::vector<V>;

// inserts every face of 'big' that contains v (legal: insert_simplex accepts simplices that are already in the complex)
template <class Map>
static void insert_faces_with(Map& m, const S& big, V v) {
  unsigned n = big.size();
  for (unsigned mask = (1u << n) - 1; mask; mask--) {
    S s; bool has = false;
    for (unsigned i = 0; i < n; i++) if (mask >> i & 1) { s.push_back(big[i]); has |= big[i] == v; }
    if (has) m.insert_simplex(s);
  }
}
template <class Map>
static void history(Map& m) {
  S T0{0, 1, 2, 3, 4, 5};
  m.insert_simplex(T0);
  m.remove_simplex(T0);            // the 6 facets are inserted "independently": the lower bounds count them
  insert_faces_with(m, T0, 1);     // T0 is back, 32 stored simplices contain vertex 1
  m.membership(S{1});              // cleans vertex 1: size_lbound 7 -> 3
  insert_faces_with(m, T0, 0);
  m.insert_simplex(S{4, 5});       // S2: a face of T0, the lazy map stores it
  m.membership(S{0});              // cleans vertex 0: size_lbound = 3 - 6 + 1 wraps to SIZE_MAX-1
  m.insert_simplex(S{4, 6});       // R
  m.remove_simplex(S{4});          // removes the star of vertex 4
}
int main() {
  Gudhi::Toplex_map eager;
  history(eager);
  bool e = eager.membership(S{4}) == false && eager.membership(S{0, 1, 2, 3, 5}) && eager.membership(S{6}) && !eager.membership(S{4, 6});
  std::printf("eager map: history runs, answers as expected: %d\n", (int)e);
  Gudhi::Lazy_toplex_map lazy;
  try {
    history(lazy);
  } catch (const std::exception& ex) {
    std::printf("lazy map: remove_simplex({4}) threw std::exception: %s\n", ex.what());
    std::printf("expected: no exception, vertex 4 removed, {0,1,2,3,5} and {6} still in the complex\nFAIL\n");
    return 1;
  }
  bool l = !lazy.membership(S{4}) && lazy.membership(S{0, 1, 2, 3, 5}) && lazy.membership(S{6}) && !lazy.membership(S{4, 6});
  std::printf("lazy map: history runs, answers as expected: %d\n%s\n", (int)l, (l && e) ? "PASS" : "FAIL");
  return (l && e) ? 0 : 1;
}

// UNSURE 1 (not counted as a defect: the SimplexTreeOptions concept says "Vertex_handle must be a signed integer type",
// but the library's own tests instantiate std::uint8_t labels: simplex_tree_serialization_unit_test.cpp "Low_options",
// simplex_tree_extended_filtration_unit_test.cpp "Low_options").
//
// With an unsigned Vertex_handle, null_vertex() is 255.  The converting constructor
//   Simplex_tree(const Simplex_tree<OtherOptions>&, F&&)                       (Simplex_tree.h:452-458, 565-585)
// copies null_vertex_ from the source (255) but leaves root_ default-constructed, i.e. with parent_ == -1
// (Simplex_tree_siblings.h:47-51).  In the int-labelled copy null_vertex() (255) != root_.parent() (-1), so
// Simplex_tree_simplex_vertex_iterator never compares equal to its end (sib_ == nullptr && v_ == null_vertex()) and
// dereferences the null oncles of the root: simplex_vertex_range() on the copy crashes.
// Also operator== between an uint8-labelled and an int-labelled tree holding the same complex is always false
// (Simplex_tree.h:674, null_vertex_ 255 != -1).
//
// build: g++ -std=gnu++17 -O1 -g -fsanitize=address,undefined $(ls -d /repo/src/*/include | sed 's/^/-I/') unsure_1.cpp -o unsure_1
#include <gudhi/Simplex_tree.h>
#include <iostream>

struct Low_options : Gudhi::Simplex_tree_options_default {
  typedef std::uint8_t Vertex_handle;
};

int main() {
  Gudhi::Simplex_tree<Low_options> lo;
  lo.insert_simplex_and_subfaces({0, 1, 2}, 1.);
  Gudhi::Simplex_tree<> ref;
  ref.insert_simplex_and_subfaces({0, 1, 2}, 1.);
  std::cout << "uint8 tree == int tree with the same complex: " << (lo == ref) << " (expected 1)" << std::endl;

  Gudhi::Simplex_tree<> up(lo, [](double f) { return f; });
  std::cout << "null_vertex() of the int copy: " << up.null_vertex() << " (a default int tree has -1)" << std::endl;
  std::cout << "copy == source: " << (up == lo) << ", copy == int tree with the same complex: " << (up == ref)
            << " (expected 1 1)" << std::endl;
  std::cout << "vertices of the simplices of the copy (crash: null pointer dereference):" << std::endl;
  for (auto sh : up.complex_simplex_range()) {
    for (auto v : up.simplex_vertex_range(sh)) std::cout << v << " ";
    std::cout << "\n";
  }
  std::cout << "PASS" << std::endl;
  return 0;
}

#define private public
#include <gudhi/Lazy_toplex_map.h>
#undef private
#include <iostream>
#include <random>
#include <memory>
using Gudhi::Lazy_toplex_map; using V = std::vector<std::size_t>;
int main(){
  std::mt19937 g(3); long bad=0, n=0;
  for(int rep=0;rep<300;++rep){
    auto src = std::make_unique<Lazy_toplex_map>();
    for(int k=0;k<40;++k){ V s; for(int j=0;j<1+int(g()%3);++j) s.push_back(g()%9); std::sort(s.begin(),s.end()); s.erase(std::unique(s.begin(),s.end()),s.end()); if(g()%4) src->insert_simplex(s); else src->remove_simplex(s); }
    Lazy_toplex_map copy(*src);
    // every handle of the copy designates a node of the copy's own queue holding the same value as in the source
    for(auto& p: src->cp_handles){ ++n; auto& hc = copy.cp_handles.at(p.first); if(!(*hc == *p.second) || &*hc == &*p.second) ++bad; }
    if(copy.cp_handles.size()!=src->cp_handles.size()) ++bad;
    src.reset();
    for(int k=0;k<40;++k){ V s; for(int j=0;j<1+int(g()%3);++j) s.push_back(g()%9); std::sort(s.begin(),s.end()); s.erase(std::unique(s.begin(),s.end()),s.end()); if(g()%4) copy.insert_simplex(s); else copy.remove_simplex(s); }
  }
  std::cout<<n<<" handles compared, "<<bad<<" wrong\n"<<(bad?"FAIL":"PASS")<<"\n"; return bad!=0;
}

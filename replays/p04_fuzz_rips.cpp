// Differential fuzzer for property C04, Rips builders: Rips_complex from points (integer grid points => many tied
// distances, duplicated points, thresholds equal to an attained distance, 0, negative, +infinity) and from a distance
// matrix (lower triangular rows, or full square rows; ties; zero distances), and Gudhi::compute_proximity_graph +
// insert_graph + expansion, all compared with the brute-force clique model on the graph of the pairs with
// distance <= threshold (vertices at value 0).
// Also: create_complex called twice from the same Rips_complex into two trees, Rips_complex copied, 0 and 1 point.
// Reuses the model and the checkers of fuzz_flag_routes.cpp (must be in the same directory).
// RESULT: NOTHING FOUND. 1500 cases (seeds 1..1500) for each of: default tree/double, fast_persistence tree/float,
// full_featured tree/double, default (double) tree fed by Rips_complex<float>; -O1 -fsanitize=address,undefined.
// Maximal dimension >= 1 only (dimension 0: see "unsure" in defects.md).
// Build: g++ -std=gnu++17 -O1 -g -fsanitize=address,undefined -I<gudhi include dirs> fuzz_rips.cpp -ltbb
// Usage: ./fuzz_rips [seed0] [ncases]
#define FUZZ_NO_MAIN
#include "p04_fuzz_flag_routes.cpp"
#include <gudhi/Rips_complex.h>
#include <gudhi/distance_functions.h>
#include <cmath>
#include <limits>

template <class ST, class FV>
void rips_case(std::mt19937_64& rng) {
  typedef std::vector<double> Point;
  int n = (int)(rng() % 9);
  int dimp = 1 + (int)(rng() % 3);
  int grid = 2 + (int)(rng() % 4);
  std::vector<Point> pts(n, Point(dimp));
  for (auto& p : pts) for (auto& x : p) x = (double)(rng() % grid);
  // all distances
  std::vector<double> ds;
  Gudhi::Euclidean_distance eu;
  for (int i = 0; i < n; ++i) for (int j = i + 1; j < n; ++j) ds.push_back((double)(FV)eu(pts[i], pts[j]));
  double thr;
  switch (rng() % 6) {
    case 0: thr = 0; break;
    case 1: thr = -1; break;
    case 2: thr = std::numeric_limits<double>::infinity(); break;
    default: thr = ds.empty() ? 1. : ds[rng() % ds.size()]; if (rng() % 3 == 0) thr += 0.25; break;
  }
  int d = (int)(rng() % 6); if (d == 0) d = 1 + (int)(rng() % 3);  // d >= 1 (d == 0 : see "unsure" in defects.md)
  if (rng() % 6 == 0) d = 40;
  Graph g;
  for (int i = 0; i < n; ++i) g.vf[i] = 0;
  for (int i = 0; i < n; ++i) for (int j = i + 1; j < n; ++j) {
    double dd = (double)(FV)eu(pts[i], pts[j]);
    if (dd <= (double)(FV)thr) g.ef[{i, j}] = dd;
  }
  Model ref = clique_model(g, d);
  {
    std::ostringstream c; c << " n=" << n << " thr=" << thr << " d=" << d; g_ctx += c.str();
  }
  // from points
  {
    Gudhi::rips_complex::Rips_complex<FV> rc(pts, (FV)thr, Gudhi::Euclidean_distance());
    ST st; rc.create_complex(st, d);
    check_tree(st, ref, true, "Rips from points");
    ST st2; rc.create_complex(st2, d);
    check_tree(st2, ref, true, "Rips from points, second create_complex");
    if (!(st == st2)) FAIL("two create_complex differ");
    Gudhi::rips_complex::Rips_complex<FV> rc2(rc);
    ST st3; rc2.create_complex(st3, d);
    if (!(st == st3)) FAIL("copy of Rips_complex differs");
    bool threw = false;
    try { rc.create_complex(st3, d); } catch (const std::invalid_argument&) { threw = true; }
#ifdef GUDHI_DEBUG
    if (n > 0 && !threw) FAIL("create_complex on a non empty complex does not throw in debug mode");
#endif
    (void)threw;
  }
  // from a distance matrix
  {
    bool full = rng() % 2;
    std::vector<std::vector<FV>> dm(n);
    for (int i = 0; i < n; ++i) {
      dm[i].resize(full ? n : i);
      for (int j = 0; j < (full ? n : i); ++j) dm[i][j] = (j < i) ? (FV)eu(pts[i], pts[j]) : (FV)12345;  // junk above the diagonal
    }
    Gudhi::rips_complex::Rips_complex<FV> rc(dm, (FV)thr);
    ST st; rc.create_complex(st, d);
    check_tree(st, ref, true, "Rips from distance matrix");
  }
  // free function compute_proximity_graph
  {
    auto pg = Gudhi::compute_proximity_graph<ST>(pts, (typename ST::Filtration_value)(FV)thr, Gudhi::Euclidean_distance());
    // values are converted to ST::Filtration_value
    Graph g2;
    for (int i = 0; i < n; ++i) g2.vf[i] = 0;
    for (int i = 0; i < n; ++i) for (int j = i + 1; j < n; ++j) {
      typename ST::Filtration_value dd = eu(pts[i], pts[j]);
      if (dd <= (typename ST::Filtration_value)(FV)thr) g2.ef[{i, j}] = (double)dd;
    }
    ST st; st.insert_graph(pg); st.expansion(d);
    check_tree(st, clique_model(g2, d), true, "compute_proximity_graph + insert_graph + expansion");
    ST stb; stb.insert_graph(pg); stb.expansion_with_blockers(d, [](typename ST::Simplex_handle) { return false; });
    if (!(st == stb)) FAIL("expansion != expansion_with_blockers(never) on proximity graph");
  }
}

template <class ST, class FV>
void run_rips(const char* name, unsigned long long seed0, int ncases) {
  int before = g_fail;
  for (int i = 0; i < ncases; ++i) {
    unsigned long long seed = seed0 + i;
    std::mt19937_64 rng(seed * 104729ull + 11);
    std::ostringstream c; c << name << " seed=" << seed; g_ctx = c.str();
    rips_case<ST, FV>(rng);
    if (g_fail > before) break;
  }
  std::cout << name << ": " << (g_fail == before ? "ok" : "FAILED") << " (" << ncases << " cases)" << std::endl;
}

int main(int argc, char** argv) {
  unsigned long long seed0 = argc > 1 ? std::stoull(argv[1]) : 1;
  int n = argc > 2 ? std::stoi(argv[2]) : 500;
#if !defined(ONLY) || ONLY == 0
  run_rips<Simplex_tree<O_default>, double>("rips default/double", seed0, n);
  run_rips<Simplex_tree<O_fastpers>, float>("rips fast_persistence/float", seed0, n);
#endif
#if !defined(ONLY) || ONLY == 1
  run_rips<Simplex_tree<O_full>, double>("rips full_featured/double", seed0, n);
  run_rips<Simplex_tree<O_default>, float>("rips default tree with float Rips", seed0, n);
#endif
  std::cout << (g_fail ? "FAIL" : "PASS") << std::endl;
  return g_fail ? 1 : 0;
}

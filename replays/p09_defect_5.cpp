// Defect 5: Base_matrix_with_column_compression: the copy constructor counts one column per slot of repToColumn_,
// which was sized by the constructor Matrix(numberOfColumns, characteristic) ("reserves space"): the copy of a matrix
// with 2 columns built after Matrix(5) reports 5 columns and inserts its next column at index 5.
//
// Build: g++ -std=gnu++17 -O1 -g -fsanitize=address,undefined $(ls -d /repo/src/*/include | sed 's/^/-I/') defect_5.cpp -o defect_5
#include <iostream>
#include <vector>
#include <gudhi/Matrix.h>
#include <gudhi/persistence_matrix_options.h>
using namespace Gudhi::persistence_matrix;

struct Opt : Default_options<Column_types::INTRUSIVE_SET, true> {
  static const bool has_column_compression = true;
};

int main() {
  using M = Matrix<Opt>;
  int bad = 0;
  M m(5);  // room for 5 columns
  m.insert_column(std::vector<unsigned>{0});
  m.insert_column(std::vector<unsigned>{1});
  M c(m);
  std::cout << "original: " << m.get_number_of_columns() << " columns, copy: " << c.get_number_of_columns()
            << " columns, expected 2 and 2 " << (c.get_number_of_columns() == 2 ? "ok" : "WRONG") << "\n";
  bad += c.get_number_of_columns() != 2;
  c.insert_column(std::vector<unsigned>{2});
  m.insert_column(std::vector<unsigned>{2});
  bool zo = m.is_zero_entry(2, 2), zc = c.is_zero_entry(2, 2);
  std::cout << "after insert_column({2}): is_zero_entry(2, 2) original " << zo << " copy " << zc << " expected 0 0 "
            << ((!zo && !zc) ? "ok" : "WRONG") << "\n";
  bad += (zo || zc);
  std::cout << (bad ? "FAIL" : "PASS") << "\n";
  return bad ? 1 : 0;
}

// defect_3.cpp  -  insert_graph() takes the dimension of the complex from num_edges(graph) instead of from the edges
// it actually inserts.
//
// Simplex_tree.h:1506-1510:   if (num_edges(skel_graph) == 0) dimension_ = 0; else dimension_ = 1;
// The documentation only asks for a model of boost::VertexAndEdgeListGraph + PropertyGraph.  boost::filtered_graph is
// such a model, and (as documented by Boost) its num_edges()/num_vertices() return the numbers of the UNDERLYING graph,
// while edges()/vertices() enumerate the filtered ones.  With a filter that removes every edge the tree contains only
// vertices, but dimension_ is 1 and dimension_to_be_lowered_ is false, hence
//   - dimension() and upper_bound_dimension() report 1 for a 0-dimensional complex,
//   - operator== with the same complex built by insert_simplex is false,
//   - num_simplices_by_dimension() returns {3, 0} with -DNDEBUG and throws std::logic_error("Bug in Gudhi: there is no
//     simplex of dimension the dimension of the complex") without it (different behaviour between the two builds).
//
// build: g++ -std=gnu++17 -O1 -g -fsanitize=address,undefined -I<gudhi includes> defect_3.cpp -o defect_3   (also with -DNDEBUG)
// run:   ./defect_3
#include <gudhi/Simplex_tree.h>
#include <boost/graph/adjacency_list.hpp>
#include <boost/graph/filtered_graph.hpp>
#include <iostream>

typedef boost::adjacency_list<boost::vecS, boost::vecS, boost::undirectedS,
                              boost::property<Gudhi::vertex_filtration_t, double>,
                              boost::property<Gudhi::edge_filtration_t, double>> Graph;
// keep only the edges whose filtration value is <= threshold
struct Edge_below {
  const Graph* g = nullptr; double threshold = 0;
  template <class E> bool operator()(const E& e) const { return boost::get(Gudhi::edge_filtration_t(), *g, e) <= threshold; }
};

int main() {
  Graph g(3);
  boost::add_edge(0, 1, 1., g);
  boost::add_edge(1, 2, 2., g);
  Edge_below pred; pred.g = &g; pred.threshold = 0.5;   // no edge passes
  boost::filtered_graph<Graph, Edge_below> fg(g, pred);

  Gudhi::Simplex_tree<> st;
  st.insert_graph(fg);

  Gudhi::Simplex_tree<> ref;
  for (int v : {0, 1, 2}) ref.insert_simplex({v}, 0.);

  bool ok = true;
  std::cout << "num_simplices() = " << st.num_simplices() << " (expected 3)" << std::endl;
  ok &= st.num_simplices() == 3;
  std::cout << "dimension() = " << st.dimension() << " (expected 0)" << std::endl;
  ok &= st.dimension() == 0;
  std::cout << "st == same complex built by insert_simplex : " << (st == ref) << " (expected 1)" << std::endl;
  ok &= (st == ref);
  try {
    auto v = st.num_simplices_by_dimension();
    std::cout << "num_simplices_by_dimension() has " << v.size() << " entries (expected 1)" << std::endl;
    ok &= v.size() == 1;
  } catch (const std::exception& e) {
    std::cout << "num_simplices_by_dimension() threw: " << e.what() << std::endl;
    ok = false;
  }
  std::cout << (ok ? "PASS" : "FAIL") << std::endl;
  return ok ? 0 : 1;
}

// Defect 2: Lazy_toplex_map::insert_simplex() <-> clean() recurse without bound (stack overflow, SIGSEGV; ASan reports
// "stack-overflow") in a legal history made of insert_simplex / remove_simplex / membership only.
//
// Mechanism (src/Toplex_map/include/gudhi/Lazy_toplex_map.h):
//  * insert_simplex ends with "if (size > (size_lbound + 1) * BETTA) clean(cleaning_priority.top().second);" (l.148)
//    and clean(v) re-inserts the maximal cofaces of v with insert_simplex (l.290): the recursion only stops when a
//    clean() lowers 'size' or raises 'size_lbound'.
//  * size_lbound / gamma0_lbounds over-count (insert_independent_simplex l.121-128 increments them, erase_max
//    l.232-250 never decrements them, the same facet re-inserted is counted again), so clean(v) (l.288)
//    "size_lbound = size_lbound - gamma0_lbound(v) + #maximal cofaces" LOWERS size_lbound. Here it goes 25 -> 21 -> 17
//    -> 13 -> 9 -> 5 -> 0 while 19 simplices are stored. Now size (19) > (0+1)*8, every vertex is "clean"
//    (gamma0_lbound == number of cofaces), so clean(87) erases {87}, re-inserts it, insert_simplex sees size > 8 again,
//    the top of the queue is 87 again, ... forever.
//
// The history is run in a child process; the parent reports how the child ended.
// Build: g++ -std=gnu++17 -O1 -g -fsanitize=address,undefined -I/repo/src/Toplex_map/include defect_2.cpp -o defect_2
//   (same result without the sanitizers and with -DNDEBUG: the child dies with SIGSEGV)
#include <gudhi/Lazy_toplex_map.h>
#include <cstdio>
#include <vector>
#include <unistd.h>
#include <sys/wait.h>
using V = std::size_t;
using S = std::vector<V>;

static void insert_faces_with(Gudhi::Lazy_toplex_map& m, int n, V v) {  // every face of {0..n-1} that contains v
  for (unsigned mask = (1u << n) - 1; mask; mask--)
    if (mask >> v & 1) { S s; for (int i = 0; i < n; i++) if (mask >> i & 1) s.push_back(i); m.insert_simplex(s); }
}
static void history() {
  Gudhi::Lazy_toplex_map m;
  for (V i = 0; i < 18; i++) { m.insert_simplex(S{70 + i}); m.membership(S{70 + i}); }  // 18 isolated vertices
  S T0{0, 1, 2, 3, 4, 5};
  m.insert_simplex(T0);
  m.remove_simplex(T0);  // leaves the 6 facets
  for (V v = 1; v < 6; v++) {
    insert_faces_with(m, 6, v);  // T0 is back; 32 stored simplices contain v
    if (!m.membership(S{v})) std::printf("unexpected answer\n");  // cleans v
  }
  std::printf("child: inserting the faces of T0 that contain vertex 0 ...\n");
  std::fflush(stdout);
  insert_faces_with(m, 6, 0);  // never returns
  std::printf("child: done, membership({0,1,2,3,4,5}) = %d\n", (int)m.membership(T0));
}
int main() {
  std::fflush(stdout);
  pid_t pid = fork();
  if (pid == 0) { history(); std::fflush(stdout); _exit(0); }
  int status = 0;
  waitpid(pid, &status, 0);
  if (WIFEXITED(status) && WEXITSTATUS(status) == 0) { std::printf("child ended normally\nPASS\n"); return 0; }
  if (WIFSIGNALED(status)) std::printf("child killed by signal %d (11 = SIGSEGV: stack overflow by unbounded recursion)\n", WTERMSIG(status));
  else std::printf("child exited with status %d (the sanitizer reports the stack overflow)\n", WEXITSTATUS(status));
  std::printf("expected: insert_simplex returns; the complex is the 5-simplex {0..5} plus 18 isolated vertices\nFAIL\n");
  return 1;
}

// defect_1.cpp - Simplex_tree::filtration_simplex_range() forgets the "ignore" request when every simplex is ignored.
//
// initialize_filtration(true) (or initialize_filtration(comparator, ignorer)) builds the cache WITHOUT the ignored
// simplices. When all the simplices are ignored the cache is legitimately empty, but filtration_simplex_range() ->
// maybe_initialize_filtration() uses "filtration_vect_.empty()" as its "not initialized yet" test
// (Simplex_tree.h:1355-1358) and silently calls initialize_filtration() again with NO ignorer: the range then lists
// all the simplices that were asked to be ignored.
//
// Build: g++ -std=gnu++17 -O1 -g -fsanitize=address,undefined $(ls -d /tmp/seed/P03/src/*/include | sed 's/^/-I/') defect_1.cpp -o defect_1
#include <gudhi/Simplex_tree.h>
#include <iostream>
#include <limits>

int main() {
  using ST = Gudhi::Simplex_tree<>;
  const double inf = std::numeric_limits<double>::infinity();
  int fails = 0;

  // (a) one finite simplex: the infinite ones are ignored, as documented
  {
    ST st;
    st.insert_simplex_and_subfaces({0, 1}, inf);
    st.assign_filtration(st.find({0}), 1.);
    st.initialize_filtration(true);
    std::size_t n = st.filtration_simplex_range().size();
    std::cout << "(a) 1 finite + 2 infinite simplices, ignore_infinite_values=true : range size = " << n
              << " (expected 1)\n";
    if (n != 1) ++fails;
  }
  // (b) same complex, but every value is infinite: nothing should be listed
  {
    ST st;
    st.insert_simplex_and_subfaces({0, 1}, inf);
    st.initialize_filtration(true);
    std::size_t n = st.filtration_simplex_range().size();
    std::cout << "(b) 3 infinite simplices,           ignore_infinite_values=true : range size = " << n
              << " (expected 0)\n";
    if (n != 0) ++fails;
  }
  // (c) custom ignorer that rejects everything (e.g. "ignore the simplices above a threshold", threshold very low)
  {
    ST st;
    st.insert_simplex_and_subfaces({0, 1, 2}, 5.);
    double threshold = 1.;
    st.initialize_filtration(
        [&](ST::Simplex_handle a, ST::Simplex_handle b) {
          if (st.filtration(a) != st.filtration(b)) return st.filtration(a) < st.filtration(b);
          return st.dimension(a) < st.dimension(b);  // not used here
        },
        [&](ST::Simplex_handle sh) { return st.filtration(sh) > threshold; });
    std::size_t n = st.filtration_simplex_range().size();
    std::cout << "(c) 7 simplices at 5, ignorer 'value > 1'                        : range size = " << n
              << " (expected 0)\n";
    if (n != 0) ++fails;
  }
  std::cout << (fails ? "FAIL" : "PASS") << std::endl;
  return fails ? 1 : 0;
}

// Defect 1: Base_matrix (no column compression): an operation whose source column index equals its target column
// index reads the column while it is being modified.
//   - multiply_target_and_add_to(i, 0, i)  gives the zero column instead of column i  (every column type;
//     (0 * c) + c = c in the dense model)
//   - add_to(i, i) / multiply_*_and_add_to with source == target: heap-use-after-free (entries destroyed while the
//     source iterator still stands on them) for LIST, HEAP, INTRUSIVE_LIST, INTRUSIVE_SET  -> run part 2 with
//     -fsanitize=address (argument "crash"), it aborts inside List_column::_add / _generic_merge_entry_to_column.
// The column compressed matrix recognises this case (_is_represented_by), the plain one does not.
//
// Build: g++ -std=gnu++17 -O1 -g -fsanitize=address,undefined $(ls -d /repo/src/*/include | sed 's/^/-I/') defect_1.cpp -o defect_1
// Run:   ./defect_1          (wrong value, all column types that do not crash)
//        ./defect_1 crash    (use after free with LIST under ASan)
#include <iostream>
#include <vector>
#include <string>
#include <gudhi/Matrix.h>
#include <gudhi/persistence_matrix_options.h>
using namespace Gudhi::persistence_matrix;

template <Column_types C, bool Z2>
struct Opt : Default_options<C, Z2> {};

static int bad = 0;

template <class V>
std::string str(const V& v) {
  std::string s;
  for (auto x : v) s += std::to_string(x) + " ";
  return s;
}

template <Column_types C>
void wrong_value(const char* name) {
  {
    Matrix<Opt<C, true> > m;
    m.insert_column(std::vector<unsigned>{0, 1, 2});
    m.multiply_target_and_add_to(0, 0, 0);  // col0 = 0 * col0 + col0
    auto got = m.get_column(0).get_content(3);
    bool ok = (got == std::vector<bool>{1, 1, 1});
    std::cout << name << " Z2: multiply_target_and_add_to(0, 0, 0): got " << str(got) << " expected 1 1 1 "
              << (ok ? "ok" : "WRONG") << "\n";
    bad += !ok;
  }
  {
    Matrix<Opt<C, false> > m(0, 5);
    m.insert_column(std::vector<std::pair<unsigned, unsigned> >{{0, 1}, {1, 2}, {2, 3}});
    m.multiply_target_and_add_to(0, 0, 0);
    auto got = m.get_column(0).get_content(3);
    bool ok = (got == std::vector<unsigned>{1, 2, 3});
    std::cout << name << " Z5: multiply_target_and_add_to(0, 0, 0): got " << str(got) << " expected 1 2 3 "
              << (ok ? "ok" : "WRONG") << "\n";
    bad += !ok;
  }
}

int main(int argc, char** argv) {
  if (argc > 1 && std::string(argv[1]) == "crash") {
    Matrix<Opt<Column_types::LIST, true> > m;
    m.insert_column(std::vector<unsigned>{0, 1, 2});
    std::cout << "LIST Z2: add_to(0, 0), expected the zero column (c + c = 0 over Z2)" << std::endl;
    m.add_to(0, 0);  // ASan: heap-use-after-free in std::_List_const_iterator::operator++
    std::cout << "got " << str(m.get_column(0).get_content(3)) << "\n";
    return 0;
  }
  wrong_value<Column_types::VECTOR>("VECTOR");
  wrong_value<Column_types::NAIVE_VECTOR>("NAIVE_VECTOR");
  wrong_value<Column_types::SMALL_VECTOR>("SMALL_VECTOR");
  wrong_value<Column_types::SET>("SET");
  wrong_value<Column_types::UNORDERED_SET>("UNORDERED_SET");
  std::cout << (bad ? "FAIL" : "PASS") << "\n";
  return bad ? 1 : 0;
}

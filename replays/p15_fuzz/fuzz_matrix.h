// fuzz_matrix.h - randomized differential test of Gudhi::persistence_matrix::Matrix for property C15
// (copies, moves, swaps give equal and independent objects; moved-from objects are empty and usable).
//
// Oracle = REBUILD FROM SCRATCH: every tracked matrix carries the complete list of operations (with their concrete
// arguments) that produced its current state, whatever the chain of copies / moves / swaps / assignments it went
// through. After every step, for every slot of the pool, a fresh matrix is built by replaying that list and the two
// matrices are compared through everything the interface lets one observe (columns of R and U, rows, dimensions,
// pivots, barcode, maximal dimension, representative cycles, number of columns, zero tests). The return values of the
// operations are compared as well. A copy that shares something with its source, or a moved-from object that is not
// really empty, shows up as a difference (or as an AddressSanitizer report, all matrices live on the heap and the
// sources of copies are destroyed at random).
//
// The operations are generated from a small "world" that guarantees legal use: for base matrices any column, for the
// other matrices the boundaries of a filtered simplicial complex inserted in filtration order, vine swaps only between
// cells that are not face/coface, removals only of maximal cells.
//
// RESULT (option sets: fuzz_matrix_groups.inc, 101 sets in 19 groups; -O1 -fsanitize=address,undefined):
//   * found: defect 2 (copy of a compressed matrix with reserved columns; group 5, set NO_WORKAROUND_2=1 to see it again),
//     defect 3 (empty rows absent from copies; an absent row and an empty row are treated as equal below), defect 4
//     (moved-from chain matrix without comparators; group 19), and on the way defects 5-8 of defects.md, which are not
//     about copies; each has a WORKAROUND comment below that keeps the generator away from it.
//   * with these workarounds: groups 1-13 (66 sets) seeds 1000..1299 x 200 steps and 5000..5199 x 200 steps, groups
//     14-18 (30 sets) seeds 1..150 and 5000..5199 x 200 steps, group 19 (comparators, see the caveat in defects.md)
//     seeds 1..100 x 200 steps: no difference between any object and its rebuild from scratch, no sanitizer report, no
//     leak. Groups 5, 8, 11, 13 also with -O2 -DNDEBUG (no sanitizer), seeds 1..300 x 200 steps: no difference.
#ifndef FUZZ_MATRIX_H_
#define FUZZ_MATRIX_H_

#include <gudhi/Matrix.h>
#include <gudhi/persistence_matrix_options.h>
#include <gudhi/Fields/Zp_field_operators.h>

#include <algorithm>
#include <cstdlib>
#include <iostream>
#include <map>
#include <memory>
#include <random>
#include <set>
#include <sstream>
#include <string>
#include <vector>

using Gudhi::persistence_matrix::Column_indexation_types;
using Gudhi::persistence_matrix::Column_types;
using Gudhi::persistence_matrix::Matrix;

enum : unsigned {
  COMP = 1,
  SWAPS = 2,
  MAPC = 4,
  REMC = 8,
  RA = 16,
  INTR = 32,
  REMR = 64,
  BND = 128,
  DIMA = 256,
  PAIR = 512,
  VINE = 1024,
  REP = 2048
};

template <Column_types CT, bool Z2, Column_indexation_types IDX, unsigned F>
struct MO {
  using Field_coeff_operators = Gudhi::persistence_fields::Zp_field_operators<>;
  using Dimension = int;
  using Index = unsigned int;
  static const bool is_z2 = Z2;
  static const Column_types column_type = CT;
  static const Column_indexation_types column_indexation_type = IDX;
  static const bool has_column_compression = (F & COMP) != 0;
  static const bool has_column_and_row_swaps = (F & SWAPS) != 0;
  static const bool has_map_column_container = (F & MAPC) != 0;
  static const bool has_removable_columns = (F & REMC) != 0;
  static const bool has_row_access = (F & RA) != 0;
  static const bool has_intrusive_rows = (F & INTR) != 0;
  static const bool has_removable_rows = (F & REMR) != 0;
  static const bool is_of_boundary_type = (F & BND) != 0;
  static const bool has_matrix_maximal_dimension_access = (F & DIMA) != 0;
  static const bool has_column_pairings = (F & PAIR) != 0;
  static const bool has_vine_update = (F & VINE) != 0;
  static const bool can_retrieve_representative_cycles = (F & REP) != 0;
};

struct MFail {
  std::string msg;
};
#define MCHECK(c, m)                                          \
  do {                                                        \
    if (!(c)) {                                               \
      std::ostringstream os_;                                 \
      os_ << "line " << __LINE__ << ": " << #c << " : " << m; \
      throw MFail{os_.str()};                                 \
    }                                                         \
  } while (0)

typedef std::vector<std::pair<unsigned, unsigned> > Col;  // (row, value) sorted by row

enum Kind {
  K_CREATE_DEFAULT,
  K_CREATE_RESERVE,
  K_CREATE_COLS,
  K_INS_COL,
  K_INS_COL_AT,
  K_INS_BND,
  K_INS_BND_ID,
  K_REMOVE_COLUMN,
  K_REMOVE_LAST,
  K_REMOVE_MAX,
  K_REMOVE_MAX2,
  K_ADD,
  K_MTA,
  K_MSA,
  K_ADD_RANGE,
  K_MTA_RANGE,
  K_MSA_RANGE,
  K_ZERO_ENTRY,
  K_ZERO_COL,
  K_SWAP_COLS,
  K_SWAP_ROWS,
  K_ERASE_ROW,
  K_VINE_POS,
  K_VINE_IDX,
  K_BARCODE
};
static const char* kind_name[] = {"create",  "create_reserve", "create_cols", "ins_col",    "ins_col_at",
                                  "ins_bnd", "ins_bnd_id",     "remove_col",  "remove_last", "remove_max",
                                  "remove_max2", "add",        "mta",         "msa",         "add_range",
                                  "mta_range",   "msa_range",  "zero_entry",  "zero_col",    "swap_cols",
                                  "swap_rows",   "erase_row",  "vine_pos",    "vine_idx",    "barcode"};

struct Op {
  int k = 0;
  unsigned a = 0, b = 0;
  int c = 0;
  int dim = -1;
  Col col;
  std::vector<Col> cols;
  std::vector<unsigned> v;
  std::string str() const {
    std::ostringstream os;
    os << kind_name[k] << "(a=" << a << ",b=" << b << ",c=" << c << ",dim=" << dim << ",col={";
    for (auto& p : col) os << p.first << ":" << p.second << " ";
    os << "}";
    if (!cols.empty()) {
      os << ",cols=[";
      for (auto& cc : cols) {
        os << "{";
        for (auto& p : cc) os << p.first << ":" << p.second << " ";
        os << "}";
      }
      os << "]";
    }
    if (!v.empty()) {
      os << ",v=";
      for (auto x : v) os << x << " ";
    }
    os << ")";
    return os.str();
  }
};

struct Cell {
  unsigned id;
  int dim;
  std::vector<int> verts;
};

struct World {
  unsigned charac = 2;
  // base matrices
  std::set<unsigned> cols;
  unsigned next = 0;
  unsigned rowBound = 0;  // rows [0, rowBound) can be asked for with a vector row container
  std::set<unsigned> regRows;  // rows that appeared in a column given to insert_column (see WORKAROUND below)
  // other matrices
  std::vector<Cell> cells;  // by position in the filtration
  std::vector<unsigned> slotIds;
  bool explicitIds = false;
  unsigned nextFreeId = 0;
  bool noInsert = false;
  bool noVine = false;
  bool noRemove = false;
  bool noBarcode = false;
  bool finalized = false;
};

// printed when a sanitizer aborts the run
static std::string* g_log = nullptr;
static bool g_no_workaround_2 = false;  // set by the environment variable NO_WORKAROUND_2
static std::string g_cfg;
static unsigned g_seed = 0;
static std::string g_current;
static void (*g_dump)(void*) = nullptr;
static void* g_self = nullptr;
extern "C" void __sanitizer_set_death_callback(void (*)(void)) __attribute__((weak));
static void on_death() {
  std::cout << "SANITIZER ABORT in configuration " << g_cfg << " seed " << g_seed << "\n  log:" << (g_log ? *g_log : std::string())
            << "\n  current operation: " << g_current << std::endl;
  if (g_dump) g_dump(g_self);
}

template <class O>
struct MF {
  using M = Matrix<O>;
  using ER = typename M::Entry_representative;
  static constexpr bool Z2 = O::is_z2;
  static constexpr bool nonBasic =
      O::has_column_pairings || O::has_vine_update || O::can_retrieve_representative_cycles;
  static constexpr bool isBase = !nonBasic;
  static constexpr bool isChain = nonBasic && !O::is_of_boundary_type;
  static constexpr bool isRU =
      nonBasic && O::is_of_boundary_type && (O::has_vine_update || O::can_retrieve_representative_cycles);
  static constexpr bool isBoundary = nonBasic && O::is_of_boundary_type && !isRU;
  static constexpr bool idIdx = O::column_indexation_type == Column_indexation_types::IDENTIFIER;
  static constexpr bool posIdx = O::column_indexation_type == Column_indexation_types::POSITION;
  static constexpr bool persistentIds = isChain || idIdx;
  // WORKAROUND (defect 8): the representative cycles of a chain matrix are computed for the identifiers 0..n-1 only
  // (get_column_with_pivot(i) for i < number of columns): custom identifiers make it read columns that do not exist
  static constexpr bool chainRep = isChain && O::can_retrieve_representative_cycles;
  static constexpr unsigned R = 7;  // rows of base matrices

  struct Slot {
    std::unique_ptr<M> m;
    World w;
    std::vector<Op> hist;
    std::vector<std::vector<long> > res;
  };
  static constexpr int NSLOT = 3;
  Slot slot[NSLOT];
  std::mt19937 rng;
  std::string log;

  int rnd(int n) { return (int)(rng() % (unsigned)n); }

  static std::vector<ER> cont(const Col& c) {
    std::vector<ER> r;
    for (auto& p : c) {
      if constexpr (Z2)
        r.push_back(p.first);
      else
        r.push_back(ER(p.first, p.second));
    }
    return r;
  }

  // ------------------------------------------------------------------ creation / application of operations
  // chain matrices with vine swaps and no stored barcode need comparators (zigzag use): fixed ones are given, the
  // object of the test is only that copies behave like their sources
  static constexpr bool needComp = isChain && O::has_vine_update && !O::has_column_pairings;
  static std::unique_ptr<M> create(const Op& op) {
    std::unique_ptr<M> m;
    if constexpr (needComp) {
      auto bc = [](unsigned a, unsigned b) { return a < b; };
      auto dc = [](unsigned a, unsigned b) { return a < b; };
      if (op.k == K_CREATE_DEFAULT) {
        m.reset(new M(bc, dc));
      } else if (op.k == K_CREATE_RESERVE) {
        m.reset(new M(op.b, bc, dc, op.a));
      } else {
        std::vector<std::vector<ER> > cs;
        for (auto& c : op.cols) cs.push_back(cont(c));
        m.reset(new M(cs, bc, dc, op.a));
      }
      return m;
    } else
    if (op.k == K_CREATE_DEFAULT) {
      m.reset(new M());
      if constexpr (!Z2) m->set_characteristic(op.a);
    } else if (op.k == K_CREATE_RESERVE) {
      m.reset(new M(op.b, op.a));
    } else {
      std::vector<std::vector<ER> > cs;
      for (auto& c : op.cols) cs.push_back(cont(c));
      m.reset(new M(cs, op.a));
    }
    return m;
  }

  template <class Range>
  static void apply_range(M& m, const Op& op, const Range& range) {
    if constexpr (isBase) {
      if (op.k == K_ADD_RANGE)
        m.add_to(range, op.b);
      else if (op.k == K_MTA_RANGE)
        m.multiply_target_and_add_to(range, op.c, op.b);
      else
        m.multiply_source_and_add_to(op.c, range, op.b);
    }
  }

  // liveRange: column of another matrix with content op.col (cross object use); nullptr: a temporary matrix is built
  static std::vector<long> apply(M& m, const Op& op, unsigned charac, const typename M::Column* liveRange = nullptr) {
    std::vector<long> r;
    g_current = op.str();
    switch (op.k) {
      case K_INS_COL:
        if constexpr (isBase) m.insert_column(cont(op.col));
        break;
      case K_INS_COL_AT:
        if constexpr (isBase && !O::has_column_compression && !O::has_row_access) m.insert_column(cont(op.col), op.a);
        break;
      case K_INS_BND: {
        auto c = cont(op.col);
        if constexpr (std::is_void_v<typename M::Insertion_return>) {
          if (op.dim == -1)
            m.insert_boundary(c);
          else
            m.insert_boundary(c, op.dim);
        } else {
          auto ret = op.dim == -1 ? m.insert_boundary(c) : m.insert_boundary(c, op.dim);
          for (auto& e : ret) {
            if constexpr (Z2)
              r.push_back(e);
            else {
              r.push_back(e.first);
              r.push_back(e.second);
            }
          }
        }
        break;
      }
      case K_INS_BND_ID: {
        if constexpr (nonBasic) {
          auto c = cont(op.col);
          if constexpr (std::is_void_v<typename M::Insertion_return>) {
            if (op.dim == -1)
              m.insert_boundary(op.a, c);
            else
              m.insert_boundary(op.a, c, op.dim);
          } else {
            auto ret = op.dim == -1 ? m.insert_boundary(op.a, c) : m.insert_boundary(op.a, c, op.dim);
            for (auto& e : ret) {
              if constexpr (Z2)
                r.push_back(e);
              else {
                r.push_back(e.first);
                r.push_back(e.second);
              }
            }
          }
        }
        break;
      }
      case K_REMOVE_COLUMN:
        if constexpr (isBase && O::has_map_column_container && !O::has_column_compression) m.remove_column(op.a);
        break;
      case K_REMOVE_LAST:
        if constexpr ((isBase && !O::has_column_compression) ||
                      (nonBasic && O::has_removable_columns &&
                       (O::is_of_boundary_type || O::has_map_column_container || !O::has_vine_update)))
          m.remove_last();
        break;
      case K_REMOVE_MAX:
        if constexpr (nonBasic && O::has_removable_columns && O::has_vine_update &&
                      (O::is_of_boundary_type || (O::has_map_column_container && O::has_column_pairings)))
          m.remove_maximal_cell(op.a);
        break;
      case K_REMOVE_MAX2:
        if constexpr (isChain && O::has_removable_columns && O::has_vine_update && O::has_map_column_container &&
                      !posIdx)
          m.remove_maximal_cell(op.a, op.v);
        break;
      case K_ADD:
        if constexpr (isBase) m.add_to(op.a, op.b);
        break;
      case K_MTA:
        if constexpr (isBase) m.multiply_target_and_add_to(op.a, op.c, op.b);
        break;
      case K_MSA:
        if constexpr (isBase) m.multiply_source_and_add_to(op.c, op.a, op.b);
        break;
      case K_ADD_RANGE:
      case K_MTA_RANGE:
      case K_MSA_RANGE:
        if constexpr (isBase) {
          // WORKAROUND (defect 4): a pending lazy row swap is not applied before a range is added: the result depends
          // on whether get_column() was called since the swap. Force the reordering on both sides.
          if constexpr (O::has_column_and_row_swaps && !O::has_column_compression) m.get_column(op.b);
          if (liveRange != nullptr) {
            apply_range(m, op, *liveRange);
          } else {
            M tmp;
            if constexpr (!Z2) tmp.set_characteristic(charac);
            tmp.insert_column(cont(op.col));
            apply_range(m, op, tmp.get_column(0));
          }
        }
        break;
      case K_ZERO_ENTRY:
        if constexpr (O::is_of_boundary_type && !O::has_column_compression) m.zero_entry(op.a, op.b);
        break;
      case K_ZERO_COL:
        if constexpr (O::is_of_boundary_type && !O::has_column_compression) m.zero_column(op.a);
        break;
      case K_SWAP_COLS:
        if constexpr ((isBase && !O::has_column_compression) || isBoundary) {
          if constexpr (O::has_column_and_row_swaps) m.swap_columns(op.a, op.b);
        }
        break;
      case K_SWAP_ROWS:
        if constexpr ((isBase && !O::has_column_compression) || isBoundary) {
          if constexpr (O::has_column_and_row_swaps) m.swap_rows(op.a, op.b);
        }
        break;
      case K_ERASE_ROW:
        if constexpr (isBase) m.erase_empty_row(op.a);
        break;
      case K_VINE_POS:
        if constexpr (O::has_vine_update && (posIdx || (O::is_of_boundary_type && !idIdx))) r.push_back(m.vine_swap(op.a));
        break;
      case K_VINE_IDX:
        if constexpr (O::has_vine_update && (idIdx || (!O::is_of_boundary_type && !posIdx)))
          r.push_back(m.vine_swap(op.a, op.b));
        break;
      case K_BARCODE:
        if constexpr (O::has_column_pairings) {
          std::vector<std::array<long, 3> > bars;
          for (auto& b : m.get_current_barcode()) bars.push_back({(long)b.birth, (long)b.death, (long)b.dim});
          std::sort(bars.begin(), bars.end());
          for (auto& b : bars) r.insert(r.end(), b.begin(), b.end());
        }
        break;
      default:
        break;
    }
    return r;
  }

  // ------------------------------------------------------------------ index of a cell for the interface
  static unsigned api_index(M& m, const World& w, unsigned pos) {
    if constexpr (idIdx) {
      return w.cells[pos].id;
    } else if constexpr (posIdx || O::is_of_boundary_type) {
      return pos;
    } else {
      return m.get_column_with_pivot(w.cells[pos].id);
    }
  }

  // ------------------------------------------------------------------ observation
  template <class Column>
  static void dump_col(std::ostream& os, Column& col, int len) {
    auto v = col.get_content(len);
    for (auto x : v) os << (unsigned)x << ",";
  }
  template <class Row>
  static void dump_row(std::ostream& os, const Row& row) {
    std::vector<std::pair<unsigned, unsigned> > es;
    for (const auto& e : row) {
      unsigned val = 1;
      if constexpr (!Z2) val = (unsigned)e.get_element();
      es.emplace_back(e.get_column_index(), val);
    }
    std::sort(es.begin(), es.end());
    for (auto& e : es) os << e.first << ":" << e.second << ",";
  }

  static std::string observe(M& m, const World& w) {
    std::ostringstream os;
    os << "n=" << m.get_number_of_columns() << ";";
    if constexpr (isBase) {
      for (unsigned c : w.cols) {
        os << "c" << c << "[";
        dump_col(os, m.get_column(c), R);
        os << "]z" << m.is_zero_column(c) << "e";
        for (unsigned r = 0; r < R; ++r) os << m.is_zero_entry(c, r);
        os << ";";
      }
      if constexpr (O::has_row_access) {
        for (unsigned r = 0; r < (O::has_removable_rows ? R : w.rowBound); ++r) {
          os << "r" << r << "[";
          try {
            dump_row(os, m.get_row(r));
          } catch (const std::out_of_range&) {
            // removable rows: an absent row is an empty row
          }
          os << "];";
        }
      }
    } else {
      unsigned len = 0;
      for (auto& c : w.cells) len = std::max(len, c.id + 1);
      len = std::max<unsigned>(len, w.cells.size());
      for (unsigned p = 0; p < w.cells.size(); ++p) {
        unsigned i = api_index(m, w, p);
        os << "p" << p << "i" << i << "[";
        dump_col(os, m.get_column(i), len);
        os << "]d" << m.get_column_dimension(i) << "z" << m.is_zero_column(i);
        if (!m.is_zero_column(i)) os << "v" << m.get_pivot(i);
        if constexpr (isRU && !idIdx) {
          os << "U[";
          dump_col(os, m.get_column(i, false), len);
          os << "]";
        }
        if constexpr (isChain) os << "w" << m.get_column_with_pivot(w.cells[p].id);
        os << ";";
      }
      if constexpr (O::has_row_access) {
        std::vector<unsigned> rows;
        if constexpr (isChain) {
          for (auto& c : w.cells) rows.push_back(c.id);
        } else {
          for (unsigned id : w.slotIds)
            if (O::has_removable_rows || id < w.rowBound) rows.push_back(id);
        }
        for (unsigned r : rows) {
          os << "r" << r << "[";
          try {
            dump_row(os, m.get_row(r));
          } catch (const std::out_of_range&) {
          }
          os << "];";
        }
      }
      if constexpr (O::has_matrix_maximal_dimension_access) os << "maxdim=" << m.get_max_dimension() << ";";
      if constexpr (O::has_column_pairings) {
        if (!isBoundary || w.finalized) {
          std::vector<std::array<long, 3> > bars;
          for (auto& b : m.get_current_barcode()) bars.push_back({(long)b.birth, (long)b.death, (long)b.dim});
          std::sort(bars.begin(), bars.end());
          os << "bars";
          for (auto& b : bars) os << "(" << b[0] << "," << b[1] << "," << b[2] << ")";
          os << ";";
        }
      }
      // WORKAROUND (defect 6): with Z_p coefficients update_representative_cycles() of an RU matrix appends the cycles
      // to those of the previous calls: the list depends on how often it was called; not observed then
      if constexpr (O::can_retrieve_representative_cycles && !(isRU && !Z2)) {
        m.update_representative_cycles();
        std::vector<std::vector<unsigned> > cy;
        for (auto& c : m.get_representative_cycles()) cy.emplace_back(c.begin(), c.end());
        std::sort(cy.begin(), cy.end());
        // WORKAROUND (defect 6): with Z_p coefficients update_representative_cycles() of an RU matrix appends the
        // cycles to those of the previous call: the list depends on how often it was called
        if (isRU && !Z2) cy.erase(std::unique(cy.begin(), cy.end()), cy.end());
        os << "cycles";
        for (auto& c : cy) {
          os << "(";
          for (auto x : c) os << x << " ";
          os << ")";
        }
        os << ";";
      }
    }
    return os.str();
  }

  // ------------------------------------------------------------------ replay
  void check_slot(int i, const std::string& after) {
    Slot& s = slot[i];
    std::unique_ptr<M> ref = create(s.hist[0]);
    for (size_t k = 1; k < s.hist.size(); ++k) {
      auto r = apply(*ref, s.hist[k], s.w.charac);
      MCHECK(r == s.res[k], "after " << after << " slot " << i << ": replayed operation " << k << " "
                                     << s.hist[k].str() << " returned something else");
    }
    std::string a = observe(*s.m, s.w);
    std::string b = observe(*ref, s.w);
    MCHECK(a == b, "after " << after << " slot " << i << ":\n   object : " << a << "\n   rebuilt: " << b);
  }
  void check_all(const std::string& after) {
    for (int i = 0; i < NSLOT; ++i) check_slot(i, after);
  }

  // ------------------------------------------------------------------ fresh object
  void fresh(Slot& s) {
    s.w = World();
    s.hist.clear();
    s.res.clear();
    Op op;
    static const unsigned primes[] = {2, 3, 5, 7, 11};
    s.w.charac = Z2 ? 2 : primes[rnd(5)];
    op.a = s.w.charac;
    int how = rnd(3);
    // WORKAROUND (defect 2): the constructor from columns registers only the rows 0..#columns-1 for the lazy swaps
    if (isBase && O::has_column_and_row_swaps && how == 2) how = 1;
    if (how == 0) {
      op.k = K_CREATE_DEFAULT;
    } else if (how == 1) {
      op.k = K_CREATE_RESERVE;
      op.b = rnd(10);
      // WORKAROUND (defect 2): a copy of a compressed matrix built with reserved columns counts the reserved columns
      if (O::has_column_compression && !g_no_workaround_2) op.b = 0;
    } else {
      op.k = K_CREATE_COLS;
      int n = rnd(6);
      if constexpr (isBase) {
        for (int j = 0; j < n; ++j) {
          op.cols.push_back(random_col(s.w));
          s.w.cols.insert(s.w.next++);
          if (!op.cols.back().empty()) s.w.rowBound = std::max(s.w.rowBound, op.cols.back().back().first + 1);
        }
      } else {
        for (int j = 0; j < n; ++j) {
          Cell c;
          Col b;
          if (!gen_cell(s.w, c, b)) break;
          c.id = s.w.cells.size();
          op.cols.push_back(b);
          add_cell(s.w, c, b);
        }
      }
    }
    if constexpr (nonBasic) {
      if (rnd(3) == 0 && !chainRep) {
        s.w.explicitIds = true;
        s.w.nextFreeId = s.w.cells.size() + rnd(3);
      }
    }
    s.m = create(op);
    s.hist.push_back(op);
    s.res.push_back({});
    log += " new:" + std::string(kind_name[op.k]);
  }

  // ------------------------------------------------------------------ generators
  Col random_col(const World& w) {
    Col c;
    int n = rnd(5);
    std::set<unsigned> rows;
    for (int j = 0; j < n; ++j) rows.insert(rnd(R));
    for (unsigned r : rows) c.emplace_back(r, Z2 ? 1u : 1u + rnd(w.charac - 1));
    return c;
  }

  static void add_cell(World& w, const Cell& c, const Col& b) {
    w.cells.push_back(c);
    w.slotIds.push_back(c.id);
    if (!b.empty()) w.rowBound = std::max(w.rowBound, b.back().first + 1);
    w.nextFreeId = std::max(w.nextFreeId, c.id + 1);
  }

  // chooses a new simplex whose facets are present; the boundary is expressed with identifiers (persistent
  // identifiers) or positions (boundary type matrices addressed by position)
  bool gen_cell(const World& w, Cell& out, Col& bnd) {
    std::set<std::vector<int> > present;
    std::set<int> verts;
    for (auto& c : w.cells) {
      present.insert(c.verts);
      if (c.dim == 0) verts.insert(c.verts[0]);
    }
    for (int attempt = 0; attempt < 30; ++attempt) {
      int d = rnd(4);
      if (d > 0 && attempt < 3 && rnd(2)) d = 1;
      std::vector<int> s;
      if (d == 0) {
        int v = 0;
        while (verts.count(v)) ++v;
        if (v >= 6) continue;
        s = {v};
      } else {
        if ((int)verts.size() < d + 1) continue;
        std::vector<int> vs(verts.begin(), verts.end());
        std::shuffle(vs.begin(), vs.end(), rng);
        s.assign(vs.begin(), vs.begin() + d + 1);
        std::sort(s.begin(), s.end());
        if (present.count(s)) continue;
        bool ok = true;
        for (int i = 0; i <= d && ok; ++i) {
          std::vector<int> f = s;
          f.erase(f.begin() + i);
          ok = present.count(f) != 0;
        }
        if (!ok) continue;
      }
      out.dim = d;
      out.verts = s;
      bnd.clear();
      if (d > 0) {
        for (int i = 0; i <= d; ++i) {
          std::vector<int> f = s;
          f.erase(f.begin() + i);
          for (unsigned p = 0; p < w.cells.size(); ++p)
            if (w.cells[p].verts == f) {
              unsigned name = (persistentIds || w.explicitIds) ? w.cells[p].id : p;
              bnd.emplace_back(name, Z2 ? 1u : ((i % 2 == 0) ? 1u : w.charac - 1));
            }
        }
        std::sort(bnd.begin(), bnd.end());
      }
      return true;
    }
    return false;
  }

  static bool is_facet_of(const Cell& a, const Cell& b) {
    return a.dim + 1 == b.dim && std::includes(b.verts.begin(), b.verts.end(), a.verts.begin(), a.verts.end());
  }
  static bool is_maximal(const World& w, unsigned p) {
    for (auto& c : w.cells)
      if (is_facet_of(w.cells[p], c)) return false;
    return true;
  }

  void record(Slot& s, const Op& op, const std::vector<long>& r) {
    s.hist.push_back(op);
    s.res.push_back(r);
    log += std::string(" ") + kind_name[op.k];
  }

  // WORKAROUND (defect 2): with lazy swaps, a row brought into the matrix by a range addition is not registered in the
  // swap dictionaries and the next reordering throws / reads out of bounds; only use registered rows then.
  static bool range_rows_ok(const World& w, const Col& c) {
    for (auto& e : c) {
      if (O::has_column_and_row_swaps && !w.regRows.count(e.first)) return false;
    }
    return true;
  }

  void mutate_base(int si) {
    if constexpr (isBase) {
      Slot& s = slot[si];
      World& w = s.w;
      M& m = *s.m;
      Op op;
      std::vector<unsigned> cols(w.cols.begin(), w.cols.end());
      int what = rnd(16);
      switch (what) {
        case 0:
        case 1:
        case 2: {
          op.k = rnd(3) ? K_INS_COL : K_INS_BND;
          // WORKAROUND (defect 3): Base_matrix::insert_boundary after a lazy swap throws std::out_of_range
          if (O::has_column_and_row_swaps) op.k = K_INS_COL;
          op.col = random_col(w);
          if (op.k == K_INS_BND && rnd(2)) op.dim = rnd(3);
          auto r = apply(m, op, w.charac);
          w.cols.insert(w.next++);
          for (auto& e : op.col) w.regRows.insert(e.first);
          if (!op.col.empty()) w.rowBound = std::max(w.rowBound, op.col.back().first + 1);
          record(s, op, r);
          break;
        }
        case 3: {
          // WORKAROUND (defect 3): insert_column(column, index) after a lazy swap throws std::out_of_range, and with a
          // map container the reordering after a lazy swap visits the keys 0..size()-1: no holes allowed
          if constexpr (!O::has_column_compression && !O::has_row_access && !O::has_column_and_row_swaps) {
            op.k = K_INS_COL_AT;
            op.col = random_col(w);
            std::vector<unsigned> freeIdx;
            for (unsigned i = 0; i < w.next; ++i)
              if (!w.cols.count(i)) freeIdx.push_back(i);
            if (!freeIdx.empty() && rnd(2))
              op.a = freeIdx[rnd(freeIdx.size())];
            else
              op.a = w.next + rnd(3);
            // "There should not be any other column inserted at that index which was not explicitly removed before":
            // with a vector container a hole that was never filled is a default column, use only map containers for
            // indices below next
            if (!O::has_map_column_container && op.a < w.next) op.a = w.next + rnd(3);
            auto r = apply(m, op, w.charac);
            w.cols.insert(op.a);
            if (op.a >= w.next) w.next = op.a + 1;
            for (auto& e : op.col) w.regRows.insert(e.first);
            if (!op.col.empty()) w.rowBound = std::max(w.rowBound, op.col.back().first + 1);
            record(s, op, r);
          }
          break;
        }
        case 4: {
          if constexpr (O::has_map_column_container && !O::has_column_compression) {
            if (cols.empty()) break;
            op.k = K_REMOVE_COLUMN;
            op.a = cols[rnd(cols.size())];
            if (O::has_column_and_row_swaps) op.a = *w.cols.rbegin();  // WORKAROUND (defect 3): no holes
            auto r = apply(m, op, w.charac);
            w.cols.erase(op.a);
            if (op.a == w.next - 1) --w.next;
            record(s, op, r);
          }
          break;
        }
        case 5: {
          if constexpr (!O::has_column_compression) {
            if (rnd(2)) break;
            // vector container with row access: the last column has to be the last of the container (no holes can
            // exist there anyway)
            op.k = K_REMOVE_LAST;
            auto r = apply(m, op, w.charac);
            if (w.next > 0) {
              --w.next;
              w.cols.erase(w.next);
            }
            record(s, op, r);
          }
          break;
        }
        case 6:
        case 7:
        case 8: {
          if (cols.size() < 2) break;
          op.a = cols[rnd(cols.size())];
          do op.b = cols[rnd(cols.size())];
          while (op.b == op.a);
          op.k = K_ADD + rnd(3);
          op.c = rnd(w.charac + 6) - 3;
          auto r = apply(m, op, w.charac);
          record(s, op, r);
          break;
        }
        case 9: {  // range version, the source is a column of ANOTHER matrix of the pool (or a temporary)
          if (cols.empty()) break;
          op.k = K_ADD_RANGE + rnd(3);
          op.b = cols[rnd(cols.size())];
          op.c = rnd(w.charac + 6) - 3;
          int oj = rnd(NSLOT);
          Slot& o = slot[oj];
          if (oj != si && !o.w.cols.empty() && o.w.charac == w.charac) {
            std::vector<unsigned> oc(o.w.cols.begin(), o.w.cols.end());
            unsigned src = oc[rnd(oc.size())];
            auto& column = o.m->get_column(src);
            auto content = column.get_content(R);
            for (unsigned r = 0; r < content.size(); ++r)
              if ((unsigned)content[r] != 0) op.col.emplace_back(r, (unsigned)content[r]);
            if (!range_rows_ok(w, op.col)) break;
            auto r = apply(m, op, w.charac, &column);
            record(s, op, r);
          } else {
            op.col = random_col(w);
            if (!range_rows_ok(w, op.col)) break;
            auto r = apply(m, op, w.charac);
            record(s, op, r);
          }
          break;
        }
        case 10: {
          if constexpr (!O::has_column_compression) {
            if (cols.empty()) break;
            op.k = rnd(3) ? K_ZERO_ENTRY : K_ZERO_COL;
            op.a = cols[rnd(cols.size())];
            op.b = rnd(R);
            auto r = apply(m, op, w.charac);
            record(s, op, r);
          }
          break;
        }
        case 11:
        case 12: {
          if constexpr (!O::has_column_compression && O::has_column_and_row_swaps) {
            if (rnd(2)) {
              if (cols.size() < 2) break;
              op.k = K_SWAP_COLS;
              op.a = cols[rnd(cols.size())];
              op.b = cols[rnd(cols.size())];
            } else {
              op.k = K_SWAP_ROWS;
              op.a = rnd(R);
              op.b = rnd(R);
              if (!O::has_removable_rows && O::has_row_access) {
                // vector of rows: only rows that exist can be exchanged
                if (std::max(op.a, op.b) >= w.rowBound) break;
              }
            }
            auto r = apply(m, op, w.charac);
            if (op.k == K_SWAP_ROWS && O::has_map_column_container) {
              // the map dictionaries move the key of a registered row to the unregistered row it is exchanged with
              bool ra = w.regRows.count(op.a), rb = w.regRows.count(op.b);
              if (ra != rb) {
                w.regRows.erase(ra ? op.a : op.b);
                w.regRows.insert(ra ? op.b : op.a);
              }
            }
            record(s, op, r);
          }
          break;
        }
        case 13: {
          unsigned row = rnd(R);
          bool empty = true;
          for (unsigned c : cols) empty = empty && m.is_zero_entry(c, row);
          if (!empty) break;
          op.k = K_ERASE_ROW;
          op.a = row;
          auto r = apply(m, op, w.charac);
          if (O::has_map_column_container && O::has_column_and_row_swaps) w.regRows.erase(row);
          record(s, op, r);
          break;
        }
        default:
          break;
      }
    }
  }

  void mutate_nonbasic(int si) {
    if constexpr (nonBasic) {
      Slot& s = slot[si];
      World& w = s.w;
      M& m = *s.m;
      if (w.finalized) return;
      Op op;
      int what = rnd(12);
      unsigned n = w.cells.size();
      switch (what) {
        case 0:
        case 1:
        case 2:
        case 3:
        case 4: {
          if (w.noInsert || n >= 16) break;
          Cell c;
          Col b;
          if (!gen_cell(w, c, b)) break;
          op.col = b;
          op.dim = rnd(2) ? -1 : c.dim;
          if (w.explicitIds) {
            op.k = K_INS_BND_ID;
            c.id = w.nextFreeId + rnd(3);
            op.a = c.id;
          } else {
            op.k = K_INS_BND;
            c.id = n;
          }
          auto r = apply(m, op, w.charac);
          add_cell(w, c, b);
          record(s, op, r);
          break;
        }
        case 5: {
          if constexpr (O::has_removable_columns &&
                        (O::is_of_boundary_type || O::has_map_column_container || !O::has_vine_update)) {
            if (n == 0 && rnd(4)) break;
            if (chainRep && O::has_vine_update) break;  // WORKAROUND (defect 8)
            if (needComp && w.noInsert) break;  // documented: needs identifiers increasing in filtration order
            op.k = K_REMOVE_LAST;
            auto r = apply(m, op, w.charac);
            if (n > 0) {
              w.cells.pop_back();
              w.slotIds.pop_back();
              if (isChain && O::has_vine_update && !w.explicitIds) {
                w.explicitIds = true;  // the chain matrix does not reuse the column index then: name the next cells
              }
            }
            record(s, op, r);
          }
          break;
        }
        case 6:
        case 7: {  // vine swap of positions p, p+1
          if constexpr (O::has_vine_update) {
            if (n < 2) break;
            if (!persistentIds && w.explicitIds) break;  // identifiers glued to positions: see the header comment
            // WORKAROUND (defect 5): RU matrices with custom identifiers: the swap dictionaries lose rows after a
            // removal and the next reordering throws std::out_of_range
            if (O::is_of_boundary_type && w.explicitIds) break;
            if (w.noVine) break;  // WORKAROUND (defect 4): moved-from matrix without comparators
            unsigned p = rnd(n - 1);
            if (is_facet_of(w.cells[p], w.cells[p + 1])) break;
            if constexpr (posIdx || (O::is_of_boundary_type && !idIdx)) {
              op.k = K_VINE_POS;
              op.a = p;
            } else {
              op.k = K_VINE_IDX;
              op.a = api_index(m, w, p);
              op.b = api_index(m, w, p + 1);
              // the cell of the lower position first: with the other order a chain matrix keeps the later cell in the
              // column of the earlier one (see 'unsure' in defects.md)
            }
            auto r = apply(m, op, w.charac);
            std::swap(w.cells[p], w.cells[p + 1]);
            if constexpr (!persistentIds) std::swap(w.cells[p].id, w.cells[p + 1].id);  // id == position
            // documented precondition of insert_boundary: identifiers increase in the order of the filtration. After
            // a transposition this is no longer true for identifiers that stay with their cells: no insertion then.
            if (persistentIds) w.noInsert = true;
            record(s, op, r);
          }
          break;
        }
        case 8: {  // remove a maximal cell
          if constexpr (O::has_removable_columns && O::has_vine_update &&
                        (O::is_of_boundary_type || (O::has_map_column_container && O::has_column_pairings))) {
            if (n == 0) break;
            if (!persistentIds && w.explicitIds) break;
            if (O::is_of_boundary_type && w.explicitIds) break;  // WORKAROUND (defect 5)
            if (chainRep) break;                                 // WORKAROUND (defect 8)
            unsigned p = rnd(n);
            if (!is_maximal(w, p)) break;
            op.k = K_REMOVE_MAX;
            if constexpr (isChain && !posIdx)
              op.a = w.cells[p].id;  // documented: the IDIdx for chain matrices
            else
              op.a = api_index(m, w, p);
            auto r = apply(m, op, w.charac);
            remove_at(w, p);
            record(s, op, r);
          }
          break;
        }
        case 9: {  // chain: remove a maximal cell, naming the cells that come after it
          if constexpr (isChain && O::has_removable_columns && O::has_vine_update && O::has_map_column_container &&
                        !posIdx) {
            if (n == 0) break;
            if (chainRep) break;  // WORKAROUND (defect 8)
            unsigned p = rnd(n);
            if (!is_maximal(w, p)) break;
            if (w.noVine && p + 1 != n) break;  // WORKAROUND (defect 4): needs the comparators too
            op.k = K_REMOVE_MAX2;
            op.a = w.cells[p].id;
            for (unsigned q = p + 1; q < n; ++q) op.v.push_back(w.cells[q].id);
            auto r = apply(m, op, w.charac);
            remove_at(w, p);
            record(s, op, r);
          }
          break;
        }
        case 10: {  // plain boundary matrix: the barcode can be asked once, when the matrix is complete
          if constexpr (isBoundary && O::has_column_pairings) {
            if (w.noBarcode || rnd(3)) break;
            op.k = K_BARCODE;
            auto r = apply(m, op, w.charac);
            w.finalized = true;
            record(s, op, r);
          }
          break;
        }
        case 11: {  // plain boundary matrix: column / row swaps (then no barcode)
          if constexpr (isBoundary && O::has_column_and_row_swaps) {
            if (n < 2) break;
            if (w.explicitIds || O::has_map_column_container) break;  // WORKAROUND (defects 3 and 5)
            if (rnd(2)) {
              op.k = K_SWAP_COLS;
              op.a = api_index(m, w, rnd(n));
              op.b = api_index(m, w, rnd(n));
              // the cells follow their columns
              // (only the interface indices matter for the observation, positions stay what they are)
            } else {
              op.k = K_SWAP_ROWS;
              if (w.slotIds.empty()) break;
              op.a = w.slotIds[rnd(w.slotIds.size())];
              op.b = w.slotIds[rnd(w.slotIds.size())];
              if (!O::has_removable_rows && O::has_row_access && std::max(op.a, op.b) >= w.rowBound) break;
            }
            auto r = apply(m, op, w.charac);
            w.noBarcode = true;
            w.noInsert = true;  // the boundaries of further cells would not be meaningful anymore
            record(s, op, r);
          }
          break;
        }
      }
    }
  }

  static void remove_at(World& w, unsigned p) {
    unsigned n = w.cells.size();
    if (p + 1 != n) {
      if (O::is_of_boundary_type && idIdx) w.noInsert = true;
    }
    if constexpr (!persistentIds) {
      // identifiers are positions: the cells behind move down
      w.cells.erase(w.cells.begin() + p);
      for (unsigned q = 0; q < w.cells.size(); ++q) w.cells[q].id = q;
    } else {
      w.cells.erase(w.cells.begin() + p);
      w.explicitIds = true;
    }
    w.slotIds.pop_back();
  }

  // ------------------------------------------------------------------ C15 operations
  void c15() {
    int i = rnd(NSLOT), j = rnd(NSLOT);
    int op = rnd(10);
    switch (op) {
      case 0: {
        if (i == j) break;
        log += " copyctor";
        slot[j].m.reset(new M(*slot[i].m));
        slot[j].w = slot[i].w;
        slot[j].hist = slot[i].hist;
        slot[j].res = slot[i].res;
        break;
      }
      case 1: {
        log += (i == j ? " selfassign" : " copyassign");
        *slot[j].m = *slot[i].m;
        if (i != j) {
          slot[j].w = slot[i].w;
          slot[j].hist = slot[i].hist;
          slot[j].res = slot[i].res;
        }
        break;
      }
      case 2: {  // move construction; the moved-from matrix stays in the pool: empty and usable
        if (i == j) break;
        log += " movector";
        M* n = new M(std::move(*slot[i].m));
        slot[j].m.reset(n);
        slot[j].w = slot[i].w;
        slot[j].hist = slot[i].hist;
        slot[j].res = slot[i].res;
        moved_from(slot[i]);
        break;
      }
      case 3: {
        if (i == j) break;
        log += " moveassign";
        *slot[j].m = std::move(*slot[i].m);
        slot[j].w = slot[i].w;
        slot[j].hist = slot[i].hist;
        slot[j].res = slot[i].res;
        moved_from(slot[i]);
        break;
      }
      case 4: {
        log += " swap";
        swap(*slot[i].m, *slot[j].m);  // friend swap found by ADL
        if (i != j) {
          std::swap(slot[i].w, slot[j].w);
          std::swap(slot[i].hist, slot[j].hist);
          std::swap(slot[i].res, slot[j].res);
        }
        break;
      }
      case 5: {
        log += " std::swap";
        std::swap(*slot[i].m, *slot[j].m);
        if (i != j) {
          std::swap(slot[i].w, slot[j].w);
          std::swap(slot[i].hist, slot[j].hist);
          std::swap(slot[i].res, slot[j].res);
        }
        break;
      }
      case 6: {  // copy then destroy the source
        log += " copy+destroy";
        M* n = new M(*slot[i].m);
        slot[i].m.reset(n);
        break;
      }
      case 7: {  // move then destroy the source
        if (i == j) break;
        log += " move+destroy";
        M* n = new M(std::move(*slot[i].m));
        slot[j].m.reset(n);
        slot[j].w = slot[i].w;
        slot[j].hist = slot[i].hist;
        slot[j].res = slot[i].res;
        slot[i].m.reset();
        fresh(slot[i]);
        break;
      }
      case 8: {
        log += " destroy";
        slot[i].m.reset();
        fresh(slot[i]);
        break;
      }
      case 9: {  // copy assign from a temporary copy (copy elision paths)
        if (i == j) break;
        log += " assign_tmp";
        *slot[j].m = M(*slot[i].m);
        slot[j].w = slot[i].w;
        slot[j].hist = slot[i].hist;
        slot[j].res = slot[i].res;
        break;
      }
    }
  }

  // a moved-from matrix is documented to be empty: it is equivalent to a default constructed matrix with the same
  // characteristic
  void moved_from(Slot& s) {
    unsigned ch = s.w.charac;
    s.w = World();
    s.w.charac = ch;
    s.hist.clear();
    s.res.clear();
    Op op;
    op.k = K_CREATE_DEFAULT;
    op.a = ch;
    s.hist.push_back(op);
    s.res.push_back({});
    if constexpr (nonBasic) {
      if (rnd(3) == 0 && !chainRep) s.w.explicitIds = true;
    }
    // WORKAROUND (defect 4): the comparators of a chain matrix leave with the move, a vine swap in the moved-from matrix
    // throws std::bad_function_call
    if (needComp) s.w.noVine = true;
  }

  bool run(unsigned seed, int steps) {
    rng.seed(seed);
    log.clear();
    g_log = &log;
    g_seed = seed;
    g_self = this;
    g_dump = [](void* p) { static_cast<MF*>(p)->dump_hist(); };
    if (__sanitizer_set_death_callback) __sanitizer_set_death_callback(on_death);
    try {
      for (auto& s : slot) fresh(s);
      check_all("init");
      for (int step = 0; step < steps; ++step) {
        size_t mark = log.size();
        if (rnd(4) == 0)
          c15();
        else if constexpr (isBase)
          mutate_base(rnd(NSLOT));
        else
          mutate_nonbasic(rnd(NSLOT));
        if (log.size() != mark) check_all(log.substr(mark));
        // keep the histories short: restart a slot whose history became long
        for (auto& s : slot)
          if (s.hist.size() > 60) {
            s.m.reset();
            fresh(s);
          }
      }
      for (auto& s : slot) s.m.reset();
    } catch (const MFail& f) {
      std::cout << "FAIL seed " << seed << " : " << f.msg << "\n  log:" << log << std::endl;
      dump_hist();
      return false;
    } catch (const std::exception& e) {
      std::cout << "FAIL seed " << seed << " : exception " << e.what() << "\n  log:" << log << std::endl;
      dump_hist();
      return false;
    }
    return true;
  }
  void dump_hist() {
    for (int i = 0; i < NSLOT; ++i) {
      std::cout << "  slot " << i << " history:";
      for (auto& op : slot[i].hist) std::cout << " " << op.str();
      std::cout << std::endl;
    }
  }
};

template <class O>
int run_mcfg(const char* name, unsigned first, int nseeds, int steps) {
  int bad = 0;
  g_cfg = name;
  g_no_workaround_2 = std::getenv("NO_WORKAROUND_2") != nullptr;
  for (int s = 0; s < nseeds && bad < 2; ++s) {
    MF<O> f;
    if (!f.run(first + s, steps)) {
      ++bad;
      std::cout << "   ^ configuration " << name << std::endl;
    }
  }
  std::cout << name << ": " << nseeds << " seeds x " << steps << " steps, failures " << bad << std::endl;
  return bad;
}

#endif  // FUZZ_MATRIX_H_

#!/bin/bash
# usage: buildm.sh group...   (compiles up to 4 in parallel)
INC="$(ls -d ${GUDHI:-/repo}/src/*/include | sed 's/^/-I/')"
D=$(cd "$(dirname "$0")" && pwd); mkdir -p ${OUTDIR:-/tmp/p15_fuzz_build} && cd ${OUTDIR:-/tmp/p15_fuzz_build}
for g in "$@"; do
  ( g++ -std=gnu++17 -O1 -g -fsanitize=address,undefined -DGROUP=$g $INC $D/fuzz_matrix.cpp -o fuzz_matrix_$g > build_$g.log 2>&1; echo "built $g: $(grep -c 'error' build_$g.log) errors" ) &
  while [ $(jobs -r | wc -l) -ge 4 ]; do sleep 1; done
done
wait

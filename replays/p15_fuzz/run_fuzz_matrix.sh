#!/bin/bash
cd ${OUTDIR:-/tmp/p15_fuzz_build}
for g in "$@"; do
  ( ASAN_OPTIONS=max_allocation_size_mb=1000 timeout 3000 ./fuzz_matrix_$g ${SEEDS:-1000 300 200} 2>/dev/null > big_m_$g.txt; echo "group $g exit $?" >> big_m_$g.txt ) &
  while [ $(jobs -r | wc -l) -ge 3 ]; do sleep 2; done
done
wait

// fuzz_matrix.cpp - driver of fuzz_matrix.h : list of option sets. Select a group with -DGROUP=n.
// Build: g++ -std=gnu++17 -O1 -g -fsanitize=address,undefined -DGROUP=n $(ls -d /repo/src/*/include | sed 's/^/-I/') fuzz_matrix.cpp -o fuzz_matrix_n
// Run:   ./fuzz_matrix_n [first_seed] [number_of_seeds] [steps]
#include "fuzz_matrix.h"

#define RUNM(...) bad += run_mcfg<MO<__VA_ARGS__> >(#__VA_ARGS__, first, nseeds, steps)
using CT = Column_types;
using IX = Column_indexation_types;

int main(int argc, char** argv) {
  unsigned first = argc > 1 ? std::atoi(argv[1]) : 1;
  int nseeds = argc > 2 ? std::atoi(argv[2]) : 20;
  int steps = argc > 3 ? std::atoi(argv[3]) : 120;
  int bad = 0;
#include "fuzz_matrix_groups.inc"
  std::cout << (bad ? "FAIL" : "PASS") << std::endl;
  return bad ? 1 : 0;
}

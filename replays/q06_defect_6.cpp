// Defect 6: chain matrix with vine updates and WITHOUT stored barcode (comparators given by the user).
// The comparators are documented to receive @ref PosIdx indices (Matrix.h:625-628: "Method taking two PosIdx indices
// as parameter and returns true if and only if the first cell is associated to a bar with strictly smaller birth
// than the bar associated to the second one"). Chain_vine_swap calls them with MatIdx column indices of the
// underlying chain matrix (chain_vine_swap.h:502 birthComp_(columnIndex1, columnIndex2), :530 deathComp_(columnIndex1,
// columnIndex2), :594 birthComp_(pairedIndex1, pairedIndex2)). A chain column keeps its index when its cell changes
// position (that is what the returned value of vine_swap is about), so after the first transposition that moves the
// bars with their cells the two numberings differ. With POSITION (or IDENTIFIER) indexing the user never sees a
// MatIdx at all: the overlay does not translate the arguments, and no comparator can be written.
//
// Here: vertices a b c, edges ab, bc. Comparators written exactly as documented, from the user's own knowledge of the
// barcode in positions. Transposition of b and c (trivial: the columns stay, the positions are exchanged), then
// transposition of the two edges: birthComp is asked about (1, 2), the column indices of b and c, which are now at
// positions 2 and 1: the answer is the opposite of the truth, the wrong chain is added and the basis is no longer
// triangular (the chain of cell c, position 1, contains cell b, position 2), and vine_swap returns the wrong value.
//
// Build: g++ -std=gnu++17 -O1 -g -fsanitize=address,undefined -I<gudhi>/src/Persistence_matrix/include
//            -I<gudhi>/src/common/include defect_6.cpp -o defect_6
#include <gudhi/Matrix.h>
#include <gudhi/persistence_matrix_options.h>

#include <iostream>
#include <vector>

using namespace Gudhi::persistence_matrix;

struct Opt : Default_options<Column_types::INTRUSIVE_SET, true> {
  static const Column_indexation_types column_indexation_type = Column_indexation_types::POSITION;
  static const bool is_of_boundary_type = false;
  static const bool has_column_pairings = false;
  static const bool has_vine_update = true;
};

// what the user knows: the bar of the cell at each position (birth position, death position), kept up to date by
// the user with the values returned by vine_swap
std::vector<std::pair<int, int>> barOfPosition;

int main() {
  using B = std::vector<unsigned>;
  auto birthComp = [](unsigned p1, unsigned p2) {
    std::cout << "  birthComparator(" << p1 << ", " << p2 << ")\n";
    return barOfPosition.at(p1).first < barOfPosition.at(p2).first;
  };
  auto deathComp = [](unsigned p1, unsigned p2) {
    std::cout << "  deathComparator(" << p1 << ", " << p2 << ")\n";
    return barOfPosition.at(p1).second < barOfPosition.at(p2).second;
  };
  Matrix<Opt> m(birthComp, deathComp);
  m.insert_boundary(B{});      // 0: a
  m.insert_boundary(B{});      // 1: b
  m.insert_boundary(B{});      // 2: c
  m.insert_boundary(B{0, 1});  // 3: ab
  m.insert_boundary(B{1, 2});  // 4: bc
  // barcode: [0, inf)  [1, 3)  [2, 4)
  barOfPosition = {{0, 1000}, {1, 3}, {2, 4}, {1, 3}, {2, 4}};

  std::cout << "vine_swap(1): b <-> c\n";
  bool r1 = m.vine_swap(1);
  // filtration a c b ab bc : ab kills b (born at 2), bc kills c (born at 1): [0, inf) [2, 3) [1, 4)
  // the bars followed their cells: true is the expected answer
  std::cout << "  returned " << r1 << " (expected 1)\n";
  barOfPosition = {{0, 1000}, {1, 4}, {2, 3}, {2, 3}, {1, 4}};

  std::cout << "vine_swap(3): ab <-> bc\n";
  bool r2 = m.vine_swap(3);
  // filtration a c b bc ab : bc kills b (born at 2), ab kills c (born at 1): [0, inf) [2, 3) [1, 4): the barcode in
  // positions is unchanged, the two cells exchanged their bars: false is the expected answer
  std::cout << "  returned " << r2 << " (expected 0)\n";

  int bad = 0;
  if (r2 != false) {
    std::cout << "FAIL: vine_swap(3) reports that the bars followed their cells\n";
    ++bad;
  }
  // positions: 0 a(id 0), 1 c(id 2), 2 b(id 1), 3 bc(id 4), 4 ab(id 3). A chain only contains its own cell and earlier
  // ones.
  const unsigned idAt[5] = {0, 2, 1, 4, 3};
  int posOfId[5];
  for (int p = 0; p < 5; ++p) posOfId[idAt[p]] = p;
  for (unsigned p = 0; p < 5; ++p) {
    std::cout << "chain at position " << p << " (cell " << m.get_pivot(p) << "): {";
    auto v = m.get_column(p).get_content(5);
    for (unsigned i = 0; i < 5; ++i)
      if (v[i]) {
        std::cout << i << " ";
        if (posOfId[i] > (int)p) {
          ++bad;
          std::cout << "<-- cell at the later position " << posOfId[i] << "  ";
        }
      }
    std::cout << "}\n";
    if (m.get_pivot(p) != idAt[p]) {
      std::cout << "FAIL: cell " << idAt[p] << " expected at position " << p << "\n";
      ++bad;
    }
  }
  std::cout << (bad ? "FAIL" : "PASS") << std::endl;
  return bad ? 1 : 0;
}

// Defect 1: move-constructing a chain matrix with IDENTIFIER indexing leaves the new matrix with a pointer into the
// moved-from object (Id_to_index_overlay move constructor).
//
// Build:  g++ -std=gnu++17 -O1 -g -fsanitize=address,undefined $(ls -d /tmp/seed/P05/src/*/include | sed 's/^/-I/') \
//             defect_1.cpp -o defect_1 && ./defect_1
//
// Part A (no sanitizer needed, deterministic): after `Matrix b(std::move(a))`, b.remove_last() silently does nothing
// and b.get_column_dimension(id) / b.get_column(id) read the (now empty) dictionary of `a`.
// Part B: when the moved-from matrix is destroyed first, every such access is a heap-use-after-free (ASan aborts);
// it is only run with the argument "uaf".
#include <iostream>
#include <memory>
#include <cstring>
#include <gudhi/Matrix.h>

using namespace Gudhi::persistence_matrix;

struct Chain_id_options : Default_options<Column_types::INTRUSIVE_SET, true> {
  static const bool is_of_boundary_type = false;  // chain matrix
  static const bool has_column_pairings = true;
  static const bool has_removable_columns = true;
  static const Column_indexation_types column_indexation_type = Column_indexation_types::IDENTIFIER;
};
// same thing with position indexing, as a control: it behaves
struct Chain_pos_options : Chain_id_options {
  static const Column_indexation_types column_indexation_type = Column_indexation_types::POSITION;
};

template <class M>
void fill(M& m) {
  // triangle boundary: 3 vertices, 3 edges (IDs = positions)
  m.insert_boundary({});
  m.insert_boundary({});
  m.insert_boundary({});
  m.insert_boundary({0, 1});
  m.insert_boundary({1, 2});
  m.insert_boundary({0, 2});
}

template <class M>
int scenario(const char* name) {
  int bad = 0;
  M a;
  fill(a);
  M b(std::move(a));  // documented: "Move constructor. After the move, the given matrix will be empty."
  std::cout << name << ": after move, b has " << b.get_number_of_columns() << " columns (expected 6)\n";
  b.remove_last();  // removes edge {0,2}: the essential 1-cycle disappears
  unsigned int n = b.get_number_of_columns();
  std::size_t bars = b.get_current_barcode().size();
  std::cout << name << ": after b.remove_last(): " << n << " columns (expected 5), " << bars
            << " bars (expected 3: one essential, two finite)\n";
  if (n != 5 || bars != 3) ++bad;
  return bad;
}

int main(int argc, char** argv) {
  int bad = 0;
  bad += scenario<Matrix<Chain_pos_options> >("chain/POSITION  ");
  bad += scenario<Matrix<Chain_id_options> >("chain/IDENTIFIER");

  if (argc > 1 && !std::strcmp(argv[1], "uaf")) {
    using M = Matrix<Chain_id_options>;
    std::unique_ptr<M> a(new M());
    fill(*a);
    M b(std::move(*a));
    a.reset();  // the moved-from matrix dies, b still points into it
    std::cout << "dimension of cell 5 in b: " << b.get_column_dimension(5) << " (expected 1)" << std::endl;  // UAF
  }

  std::cout << (bad ? "FAIL" : "PASS") << std::endl;
  return bad ? 1 : 0;
}

// Pristine defect 2 (property C06, chain matrix): remove_last() after a vine swap removes the wrong cell.
// Chain_matrix::remove_last (with vine updates) looks for the column with the largest pivot ID, assuming "pivots have
// to be strictly increasing in order of filtration"; a vine swap of the last two cells breaks that assumption.
//
// Filtration: v0 v1 v2 | e01 (ID 3, kills v1) | e02 (ID 4, kills v2). Swap e01 and e02 (trivial transposition), the
// filtration becomes v0 v1 v2 e02 e01 and the last cell is e01 (ID 3). remove_last() has to remove e01, leaving
// v0 v1 v2 e02 with barcode [0,inf) [1,inf) [2,3]. It removes e02 (largest ID) instead.
#include <gudhi/Matrix.h>
#include <gudhi/persistence_matrix_options.h>
#include <iostream>
#include <set>
#include <tuple>
#include <vector>

using namespace Gudhi::persistence_matrix;

struct Chain_opts : Default_options<Column_types::INTRUSIVE_SET, true> {
  static const bool is_of_boundary_type = false;
  static const bool has_vine_update = true;
  static const bool has_column_pairings = true;
  static const bool has_removable_columns = true;
  static const bool has_map_column_container = true;
};
using M = Matrix<Chain_opts>;
using B = std::vector<unsigned int>;
using Bars = std::multiset<std::tuple<int, int, int> >;

Bars bars(const M& m) {
  Bars b;
  for (const auto& bar : m.get_current_barcode())
    b.insert({bar.dim, (int)bar.birth, bar.death == M::get_null_value<unsigned int>() ? -1 : (int)bar.death});
  return b;
}
void print(const char* n, const Bars& b) {
  std::cout << n;
  for (auto& t : b) std::cout << " [" << std::get<0>(t) << ": " << std::get<1>(t) << ", " << std::get<2>(t) << "]";
  std::cout << "\n";
}

int main() {
  M m;
  m.insert_boundary(0, B{});
  m.insert_boundary(1, B{});
  m.insert_boundary(2, B{});
  m.insert_boundary(3, B{0, 1});
  m.insert_boundary(4, B{0, 2});
  m.vine_swap(m.get_column_with_pivot(3), m.get_column_with_pivot(4));  // filtration: v0 v1 v2 e02 e01
  print("after the swap :", bars(m));   // [0,inf) [1,4] [2,3]
  m.remove_last();                      // has to remove e01 (ID 3), now at the last position

  bool ok = true;
  Bars expected = {{0, 0, -1}, {0, 1, -1}, {0, 2, 3}};
  print("after removal  :", bars(m));
  print("expected       :", expected);
  if (bars(m) != expected) ok = false;
  try {
    m.get_column_with_pivot(4);
  } catch (const std::exception&) {
    std::cout << "the chain of e02 (ID 4), which was not the last cell, is gone\n";
    ok = false;
  }
  try {
    m.get_column_with_pivot(3);
    std::cout << "the chain of e01 (ID 3), which was the last cell, is still there\n";
    ok = false;
  } catch (const std::exception&) {
  }
  std::cout << (ok ? "PASS" : "FAIL") << std::endl;
  return ok ? 0 : 1;
}

// Differential fuzzer for property C06 on chain matrices with vine updates.
//
// After every operation (insertion, vine swap, remove_last, remove_maximal_cell (both overloads), copy / move /
// assignment in the middle of the history) the whole state of the matrix is compared with a model rebuilt from
// scratch (fuzz_model.hpp):
//   - number of columns, dimensions, get_max_dimension, get_pivot / get_column_with_pivot
//   - every column is "its pivot cell + cells which are earlier in the current filtration" (compatible basis)
//   - columns of positive cells are cycles, the boundary of the column of a negative cell is the column of the cell
//     it is paired with IN THE REFERENCE pairing, is_paired() / get_paired_chain_index() agree
//   - (row access) rows are the transposed of the columns
//   - (stored barcode) get_current_barcode() == reference barcode
//   - the value returned by a transposition is truthful
//   - without stored barcode the comparators given to the matrix answer from the reference barcode (keyed by MatIdx as
//     the implementation - and the zigzag module - use them)
//
// Build: build.sh fuzz_chain.cpp bin/chN -DGROUP=N (build_chain_all.sh for all groups), run: run_all.sh.
//
// RESULTS: see the end of this file.
#include <gudhi/Matrix.h>
#include <gudhi/persistence_matrix_options.h>

#include <climits>
#include <cstdlib>
#include <functional>
#include <memory>

#include "fuzz_model.hpp"

using namespace Gudhi::persistence_matrix;
using model::Bar;
using model::Cell;
using model::Model;
using model::u64;

template <Column_types CT, Column_indexation_types IDX, bool PAIR, bool REMCOL, bool MAP, int RA, bool REMROW, bool DIM,
          bool REP>
struct Opt {
  using Field_coeff_operators = Gudhi::persistence_fields::Zp_field_operators<>;
  using Index = unsigned int;
  using Dimension = int;
  static const bool is_z2 = true;
  static const Column_types column_type = CT;
  static const Column_indexation_types column_indexation_type = IDX;
  static const bool is_of_boundary_type = false;
  static const bool has_column_compression = false;
  static const bool has_column_and_row_swaps = false;
  static const bool has_vine_update = true;
  static const bool can_retrieve_representative_cycles = REP;
  static const bool has_row_access = RA != 0;
  static const bool has_intrusive_rows = RA == 1;
  static const bool has_removable_rows = REMROW;
  static const bool has_removable_columns = REMCOL;
  static const bool has_map_column_container = MAP;
  static const bool has_matrix_maximal_dimension_access = DIM;
  static const bool has_column_pairings = PAIR;
};

// history of the running case, printed if a sanitizer kills the process
static std::ostringstream* currentLog = nullptr;
static const char* currentName = "";
#if defined(__SANITIZE_ADDRESS__)
extern "C" void __sanitizer_set_death_callback(void (*)(void));
static void on_death() {
  if (currentLog) std::cerr << "--- history before the crash [" << currentName << "] ---\n" << currentLog->str() << std::endl;
}
#endif

struct Fail {
  std::string what;
};

struct Params {
  bool customIds = false;
  bool allowInsertAfterSwap = true;
  bool allowRemoveLast = true;
  bool allowRemoveMax = true;
  bool allowCopy = true;
  bool allowSpherical = false;
  bool reversedArgs = false;  // give the two columns of a transposition in reverse filtration order
  bool avoidKnown = false;    // stay away from the histories that trigger the defects already understood
  int ctorMode = 0;           // 0: default ctor + insertions, 1: Matrix(n) + insertions, 2: bulk constructor
};

// -DPATCHED: built against a private copy of the headers in which the defects 1,2 (stored barcode only),4,5,6,7 are
// repaired, to look for defects hidden behind them; the corresponding avoidances are then switched off.
#ifdef PATCHED
static constexpr bool patched = true;
#else
static constexpr bool patched = false;
#endif
static bool verbose = false;
static int maxInit = 28, maxOps = 60;  // argv[5], argv[6]: smaller values help to find short failing histories
static bool avoidKnownDefault = false;

struct CmpTable {
  std::map<unsigned, std::pair<int, int>> bd;  // MatIdx -> (birth position, death position) of its bar
};

template <class Matrix>
struct Driver {
  using O = typename Matrix::Option_list;
  static constexpr bool byId = O::column_indexation_type == Column_indexation_types::IDENTIFIER;
  static constexpr bool byPos = O::column_indexation_type == Column_indexation_types::POSITION;
  static constexpr bool byMat = O::column_indexation_type == Column_indexation_types::CONTAINER;
  static constexpr unsigned nullIdx = static_cast<unsigned>(-1);

  Model M;  // Cell::id is the identifier known to the library (it stays with the cell in a chain matrix)
  std::map<unsigned, unsigned> mat;  // id -> MatIdx of the column whose pivot is the cell (tracked by the model)
  unsigned nIns = 0;                 // number of insertions so far = default identifier and MatIdx of the next column
  std::unique_ptr<Matrix> m;
  std::shared_ptr<CmpTable> cmp = std::make_shared<CmpTable>();
  model::Gen gen;
  Params P;
  std::ostringstream log;
  bool swapped = false;
  long nChecks = 0;

  Driver(u64 seed, Params p) : gen(seed), P(p) { gen.allowSpherical = p.allowSpherical; }

  std::function<bool(unsigned, unsigned)> birth_cmp() {
    auto t = cmp;
    return [t](unsigned a, unsigned b) { return t->bd.at(a).first < t->bd.at(b).first; };
  }
  std::function<bool(unsigned, unsigned)> death_cmp() {
    auto t = cmp;
    return [t](unsigned a, unsigned b) { return t->bd.at(a).second < t->bd.at(b).second; };
  }
  void refresh_cmp() {
    cmp->bd.clear();
    auto partner = M.pairing();
    for (int p = 0; p < M.size(); ++p) {
      int b = (partner[p] == -1 || partner[p] > p) ? p : partner[p];
      int d = partner[p] == -1 ? INT_MAX : std::max(p, partner[p]);
      cmp->bd[mat.at(M.cells[p].id)] = {b, d};
    }
  }
  Matrix* make_empty() {
    if constexpr (O::has_column_pairings)
      return new Matrix();
    else
      return new Matrix(birth_cmp(), death_cmp());
  }

  unsigned handle(int pos) const {
    if constexpr (byId)
      return M.cells[pos].id;
    else if constexpr (byPos)
      return pos;
    else
      return mat.at(M.cells[pos].id);
  }

  [[noreturn]] void fail(const std::string& s) {
    std::ostringstream o;
    o << s << "\n--- history ---\n" << log.str() << "--- model ---\n" << M.str() << "MatIdx by position:";
    for (int p = 0; p < M.size(); ++p) o << " " << mat.at(M.cells[p].id);
    o << "\n";
    throw Fail{o.str()};
  }

  template <class Col>
  std::vector<unsigned> rows_of(const Col& col) {
    std::vector<unsigned> r;
    auto content = col.get_content();
    for (unsigned i = 0; i < content.size(); ++i)
      if (content[i] != 0) r.push_back(i);
    return r;
  }

  void check() {
    ++nChecks;
    const int n = M.size();
    if ((int)m->get_number_of_columns() != n)
      fail("get_number_of_columns " + std::to_string(m->get_number_of_columns()) + " expected " + std::to_string(n));
    std::map<unsigned, int> idToPos;
    for (int p = 0; p < n; ++p) idToPos[M.cells[p].id] = p;
    auto D = M.D();
    auto partner = M.pairing();
    std::vector<u64> C(n, 0);
    int maxdim = -1;
    for (int p = 0; p < n; ++p) {
      const unsigned id = M.cells[p].id;
      const std::string where = " (cell id " + std::to_string(id) + " at position " + std::to_string(p) + ")";
      maxdim = std::max(maxdim, M.cells[p].dim);
      if constexpr (byMat) {
        unsigned c = m->get_column_with_pivot(id);
        if (c != mat.at(id))
          fail("get_column_with_pivot = " + std::to_string(c) + " but the return values of the swaps say " +
               std::to_string(mat.at(id)) + where);
      } else {
        unsigned c = m->get_column_with_pivot(id);
        if (c != handle(p)) fail("get_column_with_pivot = " + std::to_string(c) + where);
      }
      const unsigned h = handle(p);
      if (m->get_pivot(h) != id) fail("get_pivot = " + std::to_string(m->get_pivot(h)) + where);
      auto& col = m->get_column(h);
      if (col.get_pivot() != id) fail("column.get_pivot = " + std::to_string(col.get_pivot()) + where);
      for (unsigned r : rows_of(col)) {
        auto it = idToPos.find(r);
        if (it == idToPos.end()) fail("column has unknown row " + std::to_string(r) + where);
        C[p] |= u64(1) << it->second;
      }
      if ((int)m->get_column_dimension(h) != M.cells[p].dim) fail("get_column_dimension" + where);
      if (m->is_zero_column(h)) fail("is_zero_column" + where);
      if (!((C[p] >> p) & 1)) fail("column does not contain its pivot" + where);
      if (model::low(C[p]) != p) fail("column contains a cell which comes later than its pivot in the filtration" + where);
      if (col.is_paired() != (partner[p] != -1))
        fail(std::string("is_paired = ") + (col.is_paired() ? "true" : "false") + where);
      if (partner[p] != -1) {
        unsigned exp = mat.at(M.cells[partner[p]].id);
        if (col.get_paired_chain_index() != exp)
          fail("get_paired_chain_index = " + std::to_string(col.get_paired_chain_index()) + " expected " +
               std::to_string(exp) + where);
      }
      for (int q = 0; q < n; ++q) {
        bool z = m->is_zero_entry(h, M.cells[q].id);
        if (z != !((C[p] >> q) & 1)) fail("is_zero_entry(.," + std::to_string(M.cells[q].id) + ")" + where);
      }
    }
    for (int p = 0; p < n; ++p) {
      const std::string where = " (cell id " + std::to_string(M.cells[p].id) + " at position " + std::to_string(p) + ")";
      u64 bd = 0;
      for (int q = 0; q < n; ++q)
        if ((C[p] >> q) & 1) bd ^= D[q];
      if (partner[p] == -1 || partner[p] > p) {
        if (bd != 0) fail("column of a positive cell is not a cycle" + where);
      } else {
        if (bd != C[partner[p]]) fail("boundary of the column of a negative cell is not the column of its partner" + where);
      }
    }
    if constexpr (O::has_matrix_maximal_dimension_access) {
      if ((int)m->get_max_dimension() != maxdim)
        fail("get_max_dimension " + std::to_string(m->get_max_dimension()) + " expected " + std::to_string(maxdim));
    }
    if constexpr (O::has_row_access) {
      for (int p = 0; p < n; ++p) {
        std::set<unsigned> exp;
        for (int q = 0; q < n; ++q)
          if ((C[q] >> p) & 1) exp.insert(mat.at(M.cells[q].id));
        std::set<unsigned> got;
        unsigned cnt = 0;
        for (auto& e : m->get_row(M.cells[p].id)) {
          got.insert(e.get_column_index());
          ++cnt;
          if (e.get_row_index() != M.cells[p].id) fail("row entry with wrong row index");
        }
        if (got != exp || cnt != exp.size())
          fail("row " + std::to_string(M.cells[p].id) + " is not the transposed of the columns");
      }
    }
    if constexpr (O::has_column_pairings) {
      std::vector<Bar> got;
      for (auto& b : m->get_current_barcode())
        got.push_back({(int)b.dim, (int)b.birth, b.death == nullIdx ? -1 : (int)b.death});
      std::sort(got.begin(), got.end());
      auto exp = M.barcode();
      if (!(got == exp)) fail("barcode: got " + model::str(got) + "\n expected " + model::str(exp));
    }
    // defect 13: Chain_representative_cycles assumes identifier == position (acknowledged by a TODO in the source)
    bool idsArePositions = true;  // and MatIdx too: the same function compares an identifier with a MatIdx
    for (int p = 0; p < n; ++p)
      if (M.cells[p].id != (unsigned)p || mat.at(M.cells[p].id) != (unsigned)p) idsArePositions = false;
    if constexpr (O::can_retrieve_representative_cycles && O::has_column_pairings) if (idsArePositions || !P.avoidKnown) {
      m->update_representative_cycles();
      const auto& cycles = m->get_representative_cycles();
      if (cycles.size() != M.barcode().size()) fail("number of representative cycles");
      for (auto& b : m->get_current_barcode()) {
        const auto& cyc = m->get_representative_cycle(b);
        u64 v = 0;
        for (auto r : cyc) {
          auto it = idToPos.find(r);
          if (it == idToPos.end()) fail("representative cycle with unknown row");
          v ^= u64(1) << it->second;
        }
        u64 bd = 0;
        for (int p = 0; p < n; ++p)
          if ((v >> p) & 1) bd ^= D[p];
        if (bd != 0) fail("representative cycle is not a cycle");
        if (model::low(v) != (int)b.birth) fail("representative cycle does not end at the birth cell");
      }
    }
  }

  // transposition in the model; returns true if the two cells kept their bars. Keeps the MatIdx tracking up to date.
  bool model_swap(int i) {
    auto old = M.barcode();
    unsigned x = M.cells[i].id, y = M.cells[i + 1].id;
    M.swap(i);
    auto now = M.barcode();
    bool kept = now == model::transposed(old, i);
    if (!kept && !(now == old)) fail("MODEL ERROR: barcode after a transposition is neither of the two possibilities");
    if (!kept) std::swap(mat.at(x), mat.at(y));
    return kept;
  }

  unsigned fresh_id() {
    unsigned base = M.size() ? M.max_id() + 1 : (gen.coin(0.5) ? 0 : gen.uni(0, 5));
    if (gen.coin(0.7)) return base;
    if (gen.coin(0.8)) return base + gen.uni(1, 4);
    return base + gen.uni(5, 60);
  }

  bool op_insert() {
    if (M.size() >= model::MAXN - 1) return false;
    Cell c;
    bool ok = false;
    for (int t = 0; t < 30 && !ok; ++t) ok = gen.propose(M, c);
    if (!ok) return false;
    // identifiers have to increase along the filtration: a new one has to be larger than all the present ones
    bool defOk = !P.customIds && (M.size() == 0 || nIns > M.max_id());
    if (P.avoidKnown && swapped && !(patched && O::has_column_pairings)) {
      // defect: insertion after swaps reduces by largest identifier instead of latest cell
      bool sorted = true;
      for (int p = 0; p + 1 < M.size(); ++p)
        if (M.cells[p].id > M.cells[p + 1].id) sorted = false;
      if (!sorted) return false;
    }
    std::vector<unsigned> b = c.faces;
    std::sort(b.begin(), b.end());
    if (defOk && gen.coin(0.75)) {
      c.id = nIns;
      log << "insert_boundary({";
      for (auto x : b) log << x << ",";
      log << "}, " << c.dim << ")  // id " << c.id << "\n";
      m->insert_boundary(b, c.dim);
    } else {
      c.id = defOk ? nIns : fresh_id();
      log << "insert_boundary(" << c.id << ", {";
      for (auto x : b) log << x << ",";
      log << "}, " << c.dim << ")\n";
      m->insert_boundary(c.id, b, c.dim);
    }
    mat[c.id] = nIns++;
    M.cells.push_back(c);
    return true;
  }

  // defect (no stored barcode): _is_negative_in_pair compares the identifiers of the two paired cells
  bool sign_misread(int p) const {
    auto partner = M.pairing();
    if (partner[p] == -1) return false;
    return (M.cells[p].id > M.cells[partner[p]].id) != (p > partner[p]);
  }

  bool op_swap() {
    std::vector<int> cand;
    for (int i = 0; i + 1 < M.size(); ++i)
      if (M.can_swap(i)) cand.push_back(i);
    if (cand.empty()) return false;
    int i = cand[gen.uni(0, (int)cand.size() - 1)];
    if constexpr (!O::has_column_pairings) {
      if (P.avoidKnown && (sign_misread(i) || sign_misread(i + 1))) return false;
    }
    const unsigned x = M.cells[i].id, y = M.cells[i + 1].id;
    const unsigned mx = mat.at(x), my = mat.at(y);
    // defect: Id_to_index_overlay::vine_swap orders the two columns of a chain matrix by MatIdx, not by position
    if (P.avoidKnown && !patched && byId && mx > my) return false;
    if constexpr (!O::has_column_pairings) refresh_cmp();
    bool kept;  // as claimed by the library
    // vine_swap_with_z_eq_1_case is only legal when the swap is not trivial, i.e. (criterion of vine_swap itself) when
    // the column of the later cell contains the earlier cell. Only in the binaries built with -DWITH_ZEQ1.
    bool zeq1 = false;
#ifdef WITH_ZEQ1
    zeq1 = gen.coin(0.5) && !m->is_zero_entry(handle(i + 1), x);
#endif
    if constexpr (byPos) {
      log << (zeq1 ? "vine_swap_with_z_eq_1_case(" : "vine_swap(") << i << ")";
      kept = zeq1 ? m->vine_swap_with_z_eq_1_case(i) : m->vine_swap(i);
      log << " -> " << kept << "\n";
    } else {
      unsigned a = handle(i), b = handle(i + 1);
      unsigned r;
      if (P.reversedArgs && gen.coin(0.5)) {
        log << "vine_swap(" << b << "," << a << ")";
        r = m->vine_swap(b, a);
      } else {
        log << (zeq1 ? "vine_swap_with_z_eq_1_case(" : "vine_swap(") << a << "," << b << ")";
        r = zeq1 ? m->vine_swap_with_z_eq_1_case(a, b) : m->vine_swap(a, b);
      }
      log << " -> " << r << "\n";
      if constexpr (byId) {
        if (!P.avoidKnown) {
          // IDENTIFIER indexing: "All input and output MatIdx indices are replaced with IDIdx indices": the column
          // which has now the position max(pos1, pos2) is the column of cell x
          if (r != x) {
            swapped = true;
            model_swap(i);
            fail("vine_swap returned " + std::to_string(r) + " but the cell which is now at the later position has identifier " +
                 std::to_string(x));
          }
        }
      }
      // /repo now returns the identifier of the cell at the later position in IDENTIFIER mode (always x): the value
      // carries no information about the bars there
      if constexpr (byId) {
        if (r != x) fail("vine_swap returned " + std::to_string(r) + " instead of the identifier " + std::to_string(x));
        swapped = true; model_swap(i); return true;
      }
      if (r == mx)
        kept = true;
      else if (r == my)
        kept = false;
      else {
        fail("vine_swap returned " + std::to_string(r) + " which is none of the two columns " + std::to_string(mx) + " " +
             std::to_string(my));
      }
    }
    swapped = true;
    bool expKept = model_swap(i);
    if (kept != expKept) {
      try {
        check();
      } catch (const Fail& f) {
        fail(std::string("vine_swap return value says ") + (kept ? "bars kept" : "bars exchanged") +
             " but the reference says the opposite; moreover: " + f.what.substr(0, f.what.find('\n')));
      }
      fail(std::string("vine_swap return value says ") + (kept ? "bars kept" : "bars exchanged") +
           " but the reference says the opposite (state otherwise consistent)");
    }
    return true;
  }

  bool last_has_largest_id() const { return M.size() > 0 && M.cells.back().id == M.max_id(); }

  bool op_remove_last() {
    if constexpr (!O::has_removable_columns || !O::has_map_column_container) {
      return false;
    } else {
      if (M.size() == 0 && !gen.coin(0.3)) return false;
      // defect: Chain_matrix::remove_last removes the cell with the largest identifier
      const bool av = P.avoidKnown && !(patched && O::has_column_pairings);
      if (av && !byPos && M.size() > 0 && !last_has_largest_id()) return false;
      // same defect: a last cell with identifier 0 is looked for in column 0
      if (av && !byPos && M.size() > 0 && M.cells.back().id == 0 && mat.at(0) != 0) return false;
      log << "remove_last()\n";
      m->remove_last();
      if (M.size() > 0) {
        mat.erase(M.cells.back().id);
        M.remove(M.size() - 1);
      }
      return true;
    }
  }

  bool op_remove_max() {
    if constexpr (!O::has_removable_columns || !O::has_map_column_container) {
      return false;
    } else {
      std::vector<int> cand;
      for (int i = 0; i < M.size(); ++i)
        if (M.is_maximal(i)) cand.push_back(i);
      if (cand.empty()) return false;
      if constexpr (!O::has_column_pairings) {
        // the comparators answer from the barcode before the call and would be consulted again after the first of
        // the internal swaps: only a single internal swap is allowed without stored barcode
        std::vector<int> c2;
        for (int i : cand)
          if (i >= M.size() - 2) c2.push_back(i);
        cand = c2;
        refresh_cmp();
      }
      if (cand.empty()) return false;
      int i = cand[gen.uni(0, (int)cand.size() - 1)];
      if constexpr (!O::has_column_pairings) {
        if (P.avoidKnown && i + 1 < M.size() && (sign_misread(i) || sign_misread(i + 1))) return false;
      }
      const unsigned id2 = M.cells[i].id;
      bool twoArgs = !byPos && (!O::has_column_pairings || gen.coin(0.5));
      if constexpr (byPos) {
        if constexpr (O::has_column_pairings) {
          if (P.avoidKnown && !patched && i != M.size() - 1) return false;  // defect: Position overlay hands MatIdx for identifiers
          log << "remove_maximal_cell(" << i << ")\n";
          m->remove_maximal_cell((unsigned)i);
        } else {
          return false;
        }
      } else if (twoArgs) {
        std::vector<unsigned> after;
        for (int q = i + 1; q < M.size(); ++q) after.push_back(M.cells[q].id);
        if (P.avoidKnown && !patched && byId && !after.empty()) return false;  // defect: double translation of the identifiers
        log << "remove_maximal_cell(" << id2 << ", {";
        for (auto a : after) log << a << ",";
        log << "})  // position " << i << "\n";
        m->remove_maximal_cell(id2, after);
      } else {
        if constexpr (O::has_column_pairings) {
          log << "remove_maximal_cell(" << id2 << ")  // position " << i << "\n";
          m->remove_maximal_cell(id2);
        }
      }
      for (int q = i; q + 1 < M.size(); ++q) {
        swapped = true;
        model_swap(q);
      }
      mat.erase(M.cells.back().id);
      M.remove(M.size() - 1);
      return true;
    }
  }

  bool op_copy() {
    int k = gen.uni(0, 4);
    if (k == 4) {
      // the copy must be independent: modify it, destroy it, go on with the original
      log << "copy, modify the copy (swap / insertion), destroy the copy\n";
      Matrix c(*m);
      std::vector<int> cand;
      for (int i = 0; i + 1 < M.size(); ++i)
        if (M.can_swap(i)) cand.push_back(i);
      if (!cand.empty()) {
        int i = cand[gen.uni(0, (int)cand.size() - 1)];
        if constexpr (!O::has_column_pairings) {
          if (P.avoidKnown && (sign_misread(i) || sign_misread(i + 1))) return true;
          refresh_cmp();
        }
        if (P.avoidKnown && !patched && byId && mat.at(M.cells[i].id) > mat.at(M.cells[i + 1].id)) return true;
        if constexpr (byPos)
          c.vine_swap(i);
        else
          c.vine_swap(handle(i), handle(i + 1));
      }
      return true;
    }
    // defect: the move constructor of Id_to_index_overlay keeps a pointer into the moved-from matrix (chain matrices)
    if (P.avoidKnown && !patched && byId && k == 1) k = 0;
    if (k == 0) {
      log << "copy construct, destroy original\n";
      std::unique_ptr<Matrix> c(new Matrix(*m));
      m = std::move(c);
    } else if (k == 1) {
      log << "move construct, destroy original\n";
      std::unique_ptr<Matrix> c(new Matrix(std::move(*m)));
      m = std::move(c);
    } else if (k == 2) {
      log << "assign to an empty matrix, destroy original\n";
      std::unique_ptr<Matrix> c(make_empty());
      *c = *m;
      m = std::move(c);
    } else {
      log << "swap with an empty matrix, destroy original\n";
      std::unique_ptr<Matrix> c(make_empty());
      swap(*c, *m);
      m = std::move(c);
    }
    return true;
  }

  void run(int nInit, int nOps) {
    if (P.ctorMode == 2) {
      std::vector<std::vector<unsigned>> bds;
      for (int k = 0; k < nInit; ++k) {
        Cell c;
        bool ok = false;
        for (int t = 0; t < 30 && !ok; ++t) ok = gen.propose(M, c);
        if (!ok) continue;
        if (c.dim != (c.faces.empty() ? 0 : (int)c.faces.size() - 1)) continue;  // constructor deduces dimensions
        c.id = M.size();
        std::sort(c.faces.begin(), c.faces.end());
        bds.push_back(c.faces);
        mat[c.id] = nIns++;
        M.cells.push_back(c);
      }
      log << "Matrix(boundaries of the " << M.size() << " first cells)\n";
      if constexpr (O::has_column_pairings)
        m.reset(new Matrix(bds));
      else
        m.reset(new Matrix(bds, birth_cmp(), death_cmp()));
    } else {
      if (P.ctorMode == 1) {
        int r = gen.uni(0, 20);
        log << "Matrix(" << r << ")\n";
        if constexpr (O::has_column_pairings)
          m.reset(new Matrix((unsigned)r));
        else
          m.reset(new Matrix((unsigned)r, birth_cmp(), death_cmp()));
      } else {
        log << "Matrix()\n";
        m.reset(make_empty());
      }
      check();
      for (int k = 0; k < nInit; ++k) op_insert();
    }
    check();
    for (int k = 0; k < nOps; ++k) {
      int r = gen.uni(0, 99);
      bool done = false;
      if (r < 55)
        done = op_swap();
      else if (r < 72) {
        if (P.allowInsertAfterSwap || !swapped) done = op_insert();
      } else if (r < 82) {
        if (P.allowRemoveLast) done = op_remove_last();
      } else if (r < 92) {
        if (P.allowRemoveMax) done = op_remove_max();
      } else if (P.allowCopy)
        done = op_copy();
      if (M.size() == 0) swapped = false;
      if (done) check();
    }
  }
};

static long totalCases = 0, totalChecks = 0, totalFails = 0;

template <class O>
void fuzz_config(const char* name, u64 seed0, int nCases, const Params* forced) {
  using Matrix = Gudhi::persistence_matrix::Matrix<O>;
  long fails = 0, checks = 0;
  for (int c = 0; c < nCases; ++c) {
    u64 seed = seed0 * 1000003 + c;
    std::mt19937_64 r(seed ^ 0x9e3779b97f4a7c15ull);
    Params P;
    if (forced)
      P = *forced;
    else {
      P.customIds = r() % 3 == 0;
      P.ctorMode = r() % 3;
      P.allowSpherical = r() % 4 == 0;
      P.avoidKnown = avoidKnownDefault;
    }
    Driver<Matrix> d(seed, P);
    currentLog = &d.log;
    currentName = name;
    try {
      d.run(r() % maxInit, std::min(10, maxOps) + r() % maxOps);
    } catch (const Fail& f) {
      ++fails;
      if (fails <= 2 || verbose) std::cout << "FAIL [" << name << "] seed " << seed << " case " << c << ": " << f.what << std::endl;
    } catch (const std::exception& e) {
      ++fails;
      if (fails <= 2 || verbose)
        std::cout << "FAIL [" << name << "] seed " << seed << " case " << c << ": exception " << e.what() << "\n--- history ---\n"
                  << d.log.str() << "--- model ---\n" << d.M.str() << std::endl;
    }
    checks += d.nChecks;
    currentLog = nullptr;
  }
  std::cout << (fails ? "FAILED " : "ok     ") << name << ": " << nCases << " cases, " << checks << " state comparisons, " << fails
            << " failing cases" << std::endl;
  totalCases += nCases;
  totalChecks += checks;
  totalFails += fails;
}

#define CT(x) Column_types::x
#define CI Column_indexation_types::CONTAINER
#define PI Column_indexation_types::POSITION
#define II Column_indexation_types::IDENTIFIER

//              CT  IDX PAIR REMCOL MAP RA REMROW DIM REP
#define RUN(ct, idx, pair, remcol, map, ra, remrow, dim, rep) \
  fuzz_config<Opt<CT(ct), idx, pair, remcol, map, ra, remrow, dim, rep>>(#ct " " #idx " pair=" #pair " remcol=" #remcol " map=" #map " ra=" #ra " remrow=" #remrow " dim=" #dim " rep=" #rep, seed, nCases, forced)

#define ALL_OPTS(ct)                                     \
  RUN(ct, CI, true, true, true, 0, false, true, false);    \
  RUN(ct, CI, false, true, true, 0, false, false, false);  \
  RUN(ct, CI, true, false, false, 0, false, false, true);  \
  RUN(ct, CI, false, false, false, 0, false, true, false); \
  RUN(ct, PI, true, true, true, 0, false, false, false);   \
  RUN(ct, PI, false, true, true, 0, false, true, false);   \
  RUN(ct, PI, true, false, false, 0, false, true, false);  \
  RUN(ct, II, true, true, true, 0, false, false, false);   \
  RUN(ct, II, false, true, true, 0, false, false, false);  \
  RUN(ct, II, true, false, false, 0, false, false, false); \
  RUN(ct, CI, true, false, true, 0, false, false, false);

#define RA_OPTS(ct)                                     \
  RUN(ct, CI, true, true, true, 1, true, false, false);   \
  RUN(ct, CI, false, true, true, 1, true, false, false);  \
  RUN(ct, CI, true, false, false, 2, false, false, true); \
  RUN(ct, PI, true, true, true, 2, true, true, false);    \
  RUN(ct, II, false, true, true, 2, false, false, false); \
  RUN(ct, PI, false, false, false, 1, false, false, false);

#define REDUCED_OPTS(ct)                                 \
  RUN(ct, CI, true, true, true, 0, false, true, false);    \
  RUN(ct, CI, false, true, true, 0, false, false, false);  \
  RUN(ct, PI, true, true, true, 0, false, false, false);   \
  RUN(ct, CI, true, false, false, 0, false, false, true);

#define REDUCED_RA_OPTS(ct)                              \
  RUN(ct, CI, true, true, true, 1, true, false, false);    \
  RUN(ct, PI, false, true, true, 2, false, false, false);

#ifndef GROUP
#define GROUP 0
#endif

int main(int argc, char** argv) {
#if defined(__SANITIZE_ADDRESS__)
  __sanitizer_set_death_callback(on_death);
#endif
  u64 seed = argc > 1 ? std::strtoull(argv[1], nullptr, 10) : 1;
  int nCases = argc > 2 ? std::atoi(argv[2]) : 200;
  const Params* forced = nullptr;
  Params fp;
  // optional restriction of the operations: letters among i (insert after swap) l (remove_last) m (remove_maximal_cell)
  // c (copy) C (custom ids) S (spherical cells) r (reversed arguments) A (avoid known defects); digit 0-2: constructor
  if (argc > 3) {
    std::string s = argv[3];
    if (s == "AVOID") {
      avoidKnownDefault = true;
    } else if (s == "DEFAULT") {
    } else {
      fp.allowInsertAfterSwap = s.find('i') != std::string::npos;
      fp.allowRemoveLast = s.find('l') != std::string::npos;
      fp.allowRemoveMax = s.find('m') != std::string::npos;
      fp.allowCopy = s.find('c') != std::string::npos;
      fp.customIds = s.find('C') != std::string::npos;
      fp.allowSpherical = s.find('S') != std::string::npos;
      fp.reversedArgs = s.find('r') != std::string::npos;
      fp.avoidKnown = s.find('A') != std::string::npos;
      fp.ctorMode = s.find('1') != std::string::npos ? 1 : s.find('2') != std::string::npos ? 2 : 0;
      forced = &fp;
    }
  }
  if (argc > 4) verbose = std::string(argv[4]) != "q";
  if (argc > 5) maxInit = std::atoi(argv[5]);
  if (argc > 6) maxOps = std::atoi(argv[6]);
#if GROUP == 0
  ALL_OPTS(INTRUSIVE_SET)
  RA_OPTS(INTRUSIVE_SET)
#elif GROUP == 1
  REDUCED_OPTS(INTRUSIVE_LIST)
  REDUCED_RA_OPTS(INTRUSIVE_LIST)
#elif GROUP == 2
  REDUCED_OPTS(LIST)
  REDUCED_RA_OPTS(LIST)
#elif GROUP == 3
  REDUCED_OPTS(SET)
  REDUCED_RA_OPTS(SET)
#elif GROUP == 4
  ALL_OPTS(VECTOR)
  RA_OPTS(VECTOR)
#elif GROUP == 5
  REDUCED_OPTS(NAIVE_VECTOR)
  REDUCED_RA_OPTS(NAIVE_VECTOR)
#elif GROUP == 6
  REDUCED_OPTS(SMALL_VECTOR)
  REDUCED_RA_OPTS(SMALL_VECTOR)
#elif GROUP == 7
  REDUCED_OPTS(UNORDERED_SET)
  REDUCED_RA_OPTS(UNORDERED_SET)
#elif GROUP == 8
  REDUCED_OPTS(HEAP)
#elif GROUP == 100
  RUN(INTRUSIVE_SET, CI, true, true, true, 0, false, true, false);
  RUN(INTRUSIVE_SET, CI, false, true, true, 0, false, false, false);
#elif GROUP == 101
  RUN(INTRUSIVE_SET, PI, true, true, true, 0, false, false, false);
  RUN(INTRUSIVE_SET, II, true, true, true, 0, false, false, false);
#endif
  std::cout << "TOTAL: " << totalCases << " cases, " << totalChecks << " state comparisons, " << totalFails << " failing cases"
            << std::endl;
  return totalFails ? 1 : 0;
}

// =====================================================================================================================
// RESULTS (worktree /tmp/seed/P06, g++ 12, -O1 -g -fsanitize=address,undefined unless said otherwise)
//
// Usage: fuzz_chain <seed> <cases per configuration> [AVOID | DEFAULT | letters] [q|x] [maxInit] [maxOps]
// Groups (-DGROUP=n): 0 = INTRUSIVE_SET and 4 = VECTOR with 17 option sets (ALL_OPTS + RA_OPTS); 1,2,3,5,6,7 =
// INTRUSIVE_LIST, LIST, SET, NAIVE_VECTOR, SMALL_VECTOR, UNORDERED_SET with 6 option sets (REDUCED_*); 8 = HEAP with 4;
// 100/101 small groups (CONTAINER with/without barcode; POSITION and IDENTIFIER with barcode).
// -DWITH_ZEQ1 adds vine_swap_with_z_eq_1_case (only groups 100/101 were built with it).
// -DPATCHED: see top of file.
//
// Each case: random constructor, 0..27 initial cells, 10..69 operations among vine_swap (55%), insertion (17%),
// remove_last (10%), remove_maximal_cell (10%; one and two argument versions), copy / move / assign / swap with an empty
// matrix / copy-modify-destroy the copy (8%); default or custom identifiers; parallel cells; cells with empty boundary.
//
// DEFECTS FOUND with this program (details in defects.md): 1 (remove_last), 2 (insertion after a swap),
// 3 (_is_negative_in_pair without barcode), 4 (Id_to_index_overlay::vine_swap), 5 (move constructor of the overlay),
// 6 (Position_to_index_overlay::remove_maximal_cell), 7 (Id_to_index_overlay::remove_maximal_cell(id, ids)),
// 13 (representative cycles after a swap).
//
// PASSED WITHOUT FINDING ANYTHING ELSE (AVOID mode, which stays away from the histories of the defects above):
//   run_all.sh 41 300 : groups 0 and 4: 17 configurations x 300 cases, 144448 state comparisons each, 0 failures;
//                       groups 1,2,3,5,6,7: 6 x 300 cases, 56491 comparisons each, 0 failures; group 8: 4 x 300, 37429, 0
//   run_all.sh 77 700 : groups 0 and 4: 17 x 700, 330612 each; groups 1,2,3,5,6,7: 6 x 700, 129931 each; group 8:
//                       4 x 700, 85972; 0 failures
//   i.e. 74 configurations, 74000 random histories, 2.2 million full state comparisons.
//   -O2 -DNDEBUG without sanitizer: group 100: 3000 cases 96468 comparisons, group 101: 3000 cases 81607 comparisons, 0.
//   with -DWITH_ZEQ1: group 100 2000 cases 63532 comparisons, group 101 2000 cases 53856 comparisons, 0 failures.
//   Against the privately repaired headers (defects 1, 2 (stored barcode), 4, 5, 6, 7 repaired; avoidance switched off
//   for them, -DWITH_ZEQ1): group 100: 2000 cases 71130 comparisons, group 101: 2000 cases 78709 comparisons, 0 failures.
// Important restriction of the AVOID runs on the unmodified library: after the first swap which leaves the identifiers
// out of filtration order no insertion is made (defect 2) and remove_last is only called when the last cell has the
// largest identifier (defect 1); without stored barcode swaps are skipped when _is_negative_in_pair would misread a
// cell (defect 3); with IDENTIFIER indexing swaps are skipped when the MatIdx order differs from the filtration order
// (defect 4). The case analysis of chain_vine_swap.h itself (with stored barcode, any walk of swaps, then
// remove_maximal_cell anywhere) never gave a wrong matrix, barcode or return value.

// Pristine defect 2: chain matrix with vine updates: an insertion after a transposition is reduced in the order of the
// cell identifiers (the largest identifier of the boundary is taken as its youngest cell), not in the order of the
// current filtration. After v0 and v1 were transposed, the edge {v0, v1} kills v1 (position 0, the oldest vertex)
// instead of v0 (position 1, the youngest one): the barcode is not the one of a matrix freshly built on v1, v0, e.
#include <gudhi/Matrix.h>
#include <gudhi/persistence_matrix_options.h>
#include <iostream>
#include <vector>
using namespace Gudhi::persistence_matrix;
struct Options : Default_options<Column_types::INTRUSIVE_SET, true> {
  static const bool is_of_boundary_type = false;
  static const Column_indexation_types column_indexation_type = Column_indexation_types::IDENTIFIER;
  static const bool has_column_pairings = true;
  static const bool has_vine_update = true;
  static const bool has_removable_columns = true;
  static const bool has_map_column_container = true;
};
int main() {
  using B = std::vector<unsigned>;
  Matrix<Options> m;
  m.insert_boundary(0, B{}, 0);
  m.insert_boundary(1, B{}, 0);
  m.vine_swap(0, 1);                 // filtration: v1, v0
  m.insert_boundary(2, B{0, 1}, 1);  // edge
  // fresh matrix on v1, v0, e: [0, inf) [1, 2)
  bool ok = true;
  for (const auto& bar : m.get_current_barcode()) {
    std::cout << bar << "\n";
    if (bar.birth == 0 && bar.death != Matrix<Options>::get_null_value<unsigned>()) ok = false;
    if (bar.birth == 1 && bar.death != 2) ok = false;
  }
  std::cout << (ok ? "PASS" : "FAIL") << std::endl;
  return ok ? 0 : 1;
}

#include <gudhi/Matrix.h>
#include <gudhi/persistence_matrix_options.h>
#include <iostream>
using namespace Gudhi::persistence_matrix;
template<Column_types C> struct Plain : Default_options<C, true> { };
template<Column_types C> int run(const char* n){
  Matrix<Plain<C>> p;
  p.insert_column(std::vector<unsigned>{0,1,3}); 
  std::cout<<n<<": add_to(0,0) ... "<<std::flush;
  p.add_to(0,0);
  std::cout<<"["; for(auto& e: p.get_column(0)) std::cout<<e.get_row_index()<<" "; std::cout<<"] zero="<<p.is_zero_column(0)<<std::endl;
  return 0;
}
int main(int argc,char**argv){
  int w=atoi(argv[1]);
  switch(w){
   case 0: return run<Column_types::INTRUSIVE_SET>("intrusive_set");
   case 1: return run<Column_types::INTRUSIVE_LIST>("intrusive_list");
   case 2: return run<Column_types::LIST>("list");
   case 3: return run<Column_types::SET>("set");
   case 4: return run<Column_types::UNORDERED_SET>("unordered_set");
   case 5: return run<Column_types::VECTOR>("vector");
   case 6: return run<Column_types::NAIVE_VECTOR>("naive_vector");
   case 7: return run<Column_types::SMALL_VECTOR>("small_vector");
   case 8: return run<Column_types::HEAP>("heap");
  }
}

// Defect 4: small multi-fields with a 64-bit element type and a product of primes P in [2^63, 2^64): signed integers are
//   reduced modulo a NEGATIVE number and the modular inverse overflows.
//   _get_value (Multi_field_small.h:468-473, Multi_field_small_shared.h:514-519) reduces signed integers with
//   `const long long mod = static_cast<long long>(productOfAllCharacteristics_)`: for P >= 2^63 this is P - 2^64 < 0.
//   `e % mod` is then the remainder modulo 2^64 - P, so every signed value with |e| >= 2^64 - P gets a wrong residue.
//   _get_inverse (Multi_field_small_shared.h:489-510) does the extended Euclid in `long long` as well: `long long M = mod`
//   is negative, the loop ends at once and the "inverse" of 2 is 0.
//   Range [3,53]: P = 3*5*...*53 = 16294579238595022365 (2^63 < P < 2^64), "the product of all characteristics fits into
//   the given Unsigned_integer_type" as the class documentation of Multi_field_element_with_small_characteristics asks.
// Build: g++ -std=gnu++17 -O1 -g -fsanitize=address,undefined -I<repo>/src/Persistence_matrix/include defect_4.cpp -o defect_4
#include <iostream>
#include <climits>
#include <numeric>
#include <vector>
#include <stdexcept>
#include <gudhi/Fields/Multi_field_small.h>
#include <gudhi/Fields/Multi_field_small_shared.h>

using namespace Gudhi::persistence_fields;
typedef unsigned long long ull;

int main() {
  int failures = 0;
  const ull P = 16294579238595022365ull;
  {
    using F = Multi_field_element_with_small_characteristics<3, 53, unsigned long>;
    std::cout << "Multi_field_element_with_small_characteristics<3,53,unsigned long>: characteristic " << F::get_characteristic() << " (expected " << P << ")" << std::endl;
    long long v = LLONG_MAX;  // 9223372036854775807 < P: it is its own residue
    F a(v);
    std::cout << "  F(LLONG_MAX).get_value() = " << a.get_value() << " (expected " << v << ")" << std::endl;
    if (a.get_value() != (ull)v) ++failures;
    F b(1); b *= v;
    std::cout << "  F(1) *= LLONG_MAX       -> " << b.get_value() << " (expected " << v << ")" << std::endl;
    if (b.get_value() != (ull)v) ++failures;
    F c(0); c -= (long long)LLONG_MIN;  // 0 - (-2^63) = 2^63 < P
    std::cout << "  F(0) -= LLONG_MIN       -> " << c.get_value() << " (expected 9223372036854775808)" << std::endl;
    if (c.get_value() != 9223372036854775808ull) ++failures;
    bool eq = (F(v) == v);
    std::cout << "  F(LLONG_MAX) == LLONG_MAX -> " << eq << " (consistent), but F(9223372036854775807ull) == 9223372036854775807ll -> " << (F(9223372036854775807ull) == v) << " (expected 1)" << std::endl;
    if (!(F(9223372036854775807ull) == v)) ++failures;
  }
  {  // the class documentation of the shared variant asks for P^2 to fit: shown for information only, not counted
    using S = Shared_multi_field_element_with_small_characteristics<unsigned long>;
    S::initialize(3, 53);
    S x(2);
    std::cout << "Shared_multi_field_element_with_small_characteristics<unsigned long> [3,53] (P^2 does not fit, see its documentation): inverse of 2 = " << x.get_inverse().get_value()
              << " (expected 8147289619297511183), 2 * inverse = " << (x * x.get_inverse()).get_value() << " (expected 1)" << std::endl;
  }
  std::cout << (failures ? "FAIL" : "PASS") << " (" << failures << " wrong results)" << std::endl;
  return failures ? 1 : 0;
}

// replay: chain matrix with vine updates: random admissible transpositions followed by insertions, compared with a
// matrix freshly built on the resulting filtration (barcodes as sets of (dim, birth position, death position))
#include <gudhi/Matrix.h>
#include <gudhi/persistence_matrix_options.h>
#include <iostream>
#include <random>
#include <set>
#include <tuple>
#include <csignal>
#include <unistd.h>
using namespace Gudhi::persistence_matrix;
struct Opt : Default_options<Column_types::INTRUSIVE_SET, true> {
  static const bool is_of_boundary_type = false;
  static const bool has_column_pairings = true;
  static const bool has_vine_update = true;
  static const Column_indexation_types column_indexation_type = Column_indexation_types::POSITION;
};
using M = Matrix<Opt>;
static std::string last, hist;
void on_alarm(int){ std::cout<<"HANG (no progress for 5 s) during: "<<last<<"\n"; _exit(3); }
std::multiset<std::tuple<int,unsigned,unsigned>> bars(M& m){ std::multiset<std::tuple<int,unsigned,unsigned>> s; for(auto&b:m.get_current_barcode()) s.emplace(b.dim,b.birth,b.death); return s; }
int main(int argc,char**argv){
  unsigned seed=argc>1?atoi(argv[1]):1; std::mt19937 g(seed); signal(SIGALRM,on_alarm); long checks=0;
  for(int rep=0;rep<300;++rep){
    hist.clear(); M m; std::vector<std::vector<unsigned>> ids;   // per position: (cell id, boundary as ids)
    std::vector<unsigned> idAt; std::vector<std::vector<unsigned>> bdOf; std::vector<int> dimOf; unsigned nextId=0;
    auto insert=[&](std::vector<unsigned> bd,int dim){ unsigned id=nextId++; std::sort(bd.begin(),bd.end()); last="insert_boundary id "+std::to_string(id); hist+="ins "+std::to_string(id)+"; "; alarm(5); m.insert_boundary(id,bd,dim); alarm(0); idAt.push_back(id); if(bdOf.size()<=id){bdOf.resize(id+1); dimOf.resize(id+1);} bdOf[id]=bd; dimOf[id]=dim; };
    int nv=3+g()%2; for(int i=0;i<nv;++i) insert({},0);
    for(int step=0;step<30;++step){
      int op=g()%3;
      if(op==0 && idAt.size()>=2){ // transposition of positions p,p+1 if not face/coface
        unsigned p=g()%(idAt.size()-1); unsigned a=idAt[p], b=idAt[p+1]; bool face=false; for(auto x:bdOf[b]) if(x==a) face=true; if(face) continue;
        last="vine_swap "+std::to_string(p); hist+=last+"; "; alarm(5); m.vine_swap(p); alarm(0); std::swap(idAt[p],idAt[p+1]);
      } else if(op==1){ // new vertex or edge between two vertices
        std::vector<unsigned> vs; for(auto id:idAt) if(dimOf[id]==0) vs.push_back(id);
        if(g()%3==0) insert({},0); else { unsigned a=vs[g()%vs.size()], b=vs[g()%vs.size()]; if(a==b) continue; insert({a,b},1); }
      } else continue;
      // fresh matrix on the resulting filtration: same ids, inserted in the current order
      M fresh; { std::vector<unsigned> posOf(nextId,0); for(unsigned p=0;p<idAt.size();++p) posOf[idAt[p]]=p; for(unsigned p=0;p<idAt.size();++p){ std::vector<unsigned> b; for(auto x:bdOf[idAt[p]]) b.push_back(posOf[x]); std::sort(b.begin(),b.end()); fresh.insert_boundary(p,b,dimOf[idAt[p]]); } }
      ++checks;
      if(bars(m)!=bars(fresh)){ std::cout<<"order of ids: "; for(auto id:idAt){ std::cout<<id<<"["; for(auto x:bdOf[id]) std::cout<<x<<","; std::cout<<"] "; } std::cout<<"\n matrix: "; for(auto&t:bars(m)) std::cout<<"("<<std::get<0>(t)<<":"<<std::get<1>(t)<<","<<(int)std::get<2>(t)<<") "; std::cout<<"\n fresh:  "; for(auto&t:bars(fresh)) std::cout<<"("<<std::get<0>(t)<<":"<<std::get<1>(t)<<","<<(int)std::get<2>(t)<<") "; std::cout<<"\n"; std::cout<<" history: "<<hist<<"\n"; std::cout<<"seed "<<seed<<" rep "<<rep<<" step "<<step<<": barcode differs from the rebuilt matrix after "<<last<<"\n"; return 1; }
    }
  }
  std::cout<<checks<<" states compared ok\nPASS\n"; return 0;
}

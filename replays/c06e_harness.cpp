// Differential harness for vine swaps / removals: matrix under test vs independent Z2 reduction.
#include <algorithm>
#include <cstdio>
#include <cstdlib>
#include <iostream>
#include <map>
#include <random>
#include <set>
#include <string>
#include <tuple>
#include <vector>

#include <gudhi/Matrix.h>
#include <gudhi/persistence_matrix_options.h>

using namespace Gudhi::persistence_matrix;

using Simplex = std::vector<int>;  // sorted vertices

struct World {
  // present cells in filtration order
  std::vector<Simplex> order;
  std::vector<unsigned int> ids;  // id of the cell at each position (chain)
};

static std::vector<Simplex> faces(const Simplex& s) {
  std::vector<Simplex> r;
  if (s.size() == 1) return r;
  for (size_t i = 0; i < s.size(); ++i) {
    Simplex f;
    for (size_t j = 0; j < s.size(); ++j)
      if (j != i) f.push_back(s[j]);
    r.push_back(f);
  }
  return r;
}

static bool is_face(const Simplex& f, const Simplex& s) {
  if (f.size() + 1 != s.size()) return false;
  return std::includes(s.begin(), s.end(), f.begin(), f.end());
}

using Bars = std::set<std::tuple<int, int, int> >;  // dim, birth, death(-1)

// independent reference: standard reduction
static Bars reference(const World& w) {
  int n = w.order.size();
  std::map<Simplex, int> pos;
  for (int i = 0; i < n; ++i) pos[w.order[i]] = i;
  std::vector<std::set<int> > R(n);
  std::vector<int> pivOwner(n, -1);
  Bars bars;
  std::vector<int> death(n, -1);
  std::vector<bool> neg(n, false);
  for (int j = 0; j < n; ++j) {
    for (auto& f : faces(w.order[j])) R[j].insert(pos.at(f));
    while (!R[j].empty() && pivOwner[*R[j].rbegin()] != -1) {
      int k = pivOwner[*R[j].rbegin()];
      for (int x : R[k]) {
        auto it = R[j].find(x);
        if (it == R[j].end())
          R[j].insert(x);
        else
          R[j].erase(it);
      }
    }
    if (!R[j].empty()) {
      int p = *R[j].rbegin();
      pivOwner[p] = j;
      death[p] = j;
      neg[j] = true;
    }
  }
  for (int j = 0; j < n; ++j) {
    if (!neg[j]) bars.emplace((int)w.order[j].size() - 1, j, death[j]);
  }
  return bars;
}

static Bars exchange_pos(const Bars& b, int i) {
  Bars r;
  auto f = [&](int x) { return x == i ? i + 1 : (x == i + 1 ? i : x); };
  for (auto& t : b) r.emplace(std::get<0>(t), f(std::get<1>(t)), f(std::get<2>(t)));
  return r;
}

static std::string show(const Bars& b) {
  std::string s;
  for (auto& t : b)
    s += "(" + std::to_string(std::get<0>(t)) + ":" + std::to_string(std::get<1>(t)) + "," +
         std::to_string(std::get<2>(t)) + ") ";
  return s;
}

template <bool boundary, Column_types ct, bool barcode, bool removable, Column_indexation_types idx, bool rows = false>
struct Opt : Default_options<ct, true> {
  static const bool has_column_pairings = barcode;
  static const bool has_vine_update = true;
  static const bool is_of_boundary_type = boundary;
  static const bool has_removable_columns = removable;
  static const bool has_map_column_container = removable && !boundary ? true : false;
  static const Column_indexation_types column_indexation_type = idx;
  static const bool has_row_access = rows;
  static const bool has_removable_rows = rows && removable;
};

struct Fail {
  std::string msg;
};

#define CHECK(c, m)         \
  do {                      \
    if (!(c)) throw Fail{m}; \
  } while (0)

template <class M>
static Bars matrix_bars_ru(M& m, const World& w) {
  Bars bars;
  int n = w.order.size();
  if constexpr (M::Option_list::has_column_pairings) {
    for (auto& b : m.get_current_barcode())
      bars.emplace(b.dim, (int)b.birth, b.death == (unsigned int)-1 ? -1 : (int)b.death);
  } else {
    std::vector<int> death(n, -1);
    std::vector<bool> neg(n, false);
    for (int j = 0; j < n; ++j) {
      if (!m.is_zero_column(j)) {
        int p = m.get_pivot(j);
        CHECK(p >= 0 && p < n, "pivot out of range");
        CHECK(death[p] == -1, "R not reduced");
        death[p] = j;
        neg[j] = true;
      }
    }
    for (int j = 0; j < n; ++j)
      if (!neg[j]) bars.emplace(m.get_column_dimension(j), j, death[j]);
  }
  return bars;
}

template <class M>
static void check_ru_identities(M& m, const World& w) {
  int n = w.order.size();
  CHECK((int)m.get_number_of_columns() == n, "number of columns");
  std::map<Simplex, int> pos;
  for (int i = 0; i < n; ++i) pos[w.order[i]] = i;
  std::vector<std::set<int> > R(n), Ut(n);
  std::set<int> pivots;
  for (int j = 0; j < n; ++j) {
    CHECK(m.get_column_dimension(j) == (int)w.order[j].size() - 1, "dimension");
    for (auto& e : m.get_column(j, true)) R[j].insert(e.get_row_index());
    for (auto& e : m.get_column(j, false)) Ut[j].insert(e.get_row_index());
    CHECK(m.is_zero_column(j) == R[j].empty(), "is_zero_column");
    if (!R[j].empty()) {
      CHECK((int)m.get_pivot(j) == *R[j].rbegin(), "get_pivot");
      CHECK(pivots.insert(*R[j].rbegin()).second, "R not reduced (dup pivot)");
      CHECK((int)m.get_column_with_pivot(*R[j].rbegin()) == j, "get_column_with_pivot");
    }
    // U stored transposed: stored column j = row j of U: entries >= j, contains j
    if (!getenv("HNOTRI")) CHECK(Ut[j].count(j), "U diagonal");
    if (!getenv("HNOTRI")) CHECK(*Ut[j].begin() == j, "U not upper triangular");
  }
  // R * U = D : D[:,c] = sum_k U[k][c] R[:,k]
  std::vector<std::set<int> > D(n);
  for (int k = 0; k < n; ++k)
    for (int c : Ut[k]) {
      CHECK(c < n, "U row index range");
      for (int x : R[k]) {
        auto it = D[c].find(x);
        if (it == D[c].end())
          D[c].insert(x);
        else
          D[c].erase(it);
      }
    }
  for (int c = 0; c < n; ++c) {
    std::set<int> d;
    for (auto& f : faces(w.order[c])) d.insert(pos.at(f));
    if (!getenv("HNOU")) CHECK(d == D[c], "R*U != D at column " + std::to_string(c));
  }
}

struct Rng {
  std::mt19937 g;
  int operator()(int n) { return std::uniform_int_distribution<int>(0, n - 1)(g); }
};

static std::vector<Simplex> all_simplices(int nv, int maxdim) {
  std::vector<Simplex> r;
  for (int mask = 1; mask < (1 << nv); ++mask) {
    Simplex s;
    for (int v = 0; v < nv; ++v)
      if (mask >> v & 1) s.push_back(v);
    if ((int)s.size() <= maxdim + 1) r.push_back(s);
  }
  return r;
}

static bool can_insert(const World& w, const Simplex& s) {
  if (std::find(w.order.begin(), w.order.end(), s) != w.order.end()) return false;
  for (auto& f : faces(s))
    if (std::find(w.order.begin(), w.order.end(), f) == w.order.end()) return false;
  return true;
}

static bool is_maximal(const World& w, int p) {
  for (auto& s : w.order)
    if (is_face(w.order[p], s)) return false;
  return true;
}

int verbose = 0;
bool chainInsertAnyOrder = false;
#define TR(x) do { std::string t_ = (x); trace += t_; if (verbose) { std::cerr << t_ << std::flush; } } while (0)

// RU matrices with position == container indexing
template <class M>
static void run_ru(unsigned seed, int steps, bool useZ1) {
  Rng rng{std::mt19937(seed)};
  int nv = 3 + rng(3);
  auto pool = all_simplices(nv, 2 + rng(2));
  World w;
  M m;
  std::string trace;
  auto insert_random = [&]() -> bool {
    std::vector<Simplex> cand;
    for (auto& s : pool)
      if (can_insert(w, s)) cand.push_back(s);
    if (cand.empty()) return false;
    // bias to low dim when small
    Simplex s = cand[rng(cand.size())];
    std::vector<unsigned int> b;
    for (auto& f : faces(s)) b.push_back(std::find(w.order.begin(), w.order.end(), f) - w.order.begin());
    std::sort(b.begin(), b.end());
    m.insert_boundary(b, (int)s.size() - 1);
    w.order.push_back(s);
    TR("I" + std::to_string(b.size()) + " ");
    return true;
  };
  int target = getenv("HN") ? atoi(getenv("HN")) : 6 + rng(10);
  for (int i = 0; i < target; ++i) insert_random();
  std::string init;
  for (auto& sx : w.order) { init += "{"; for (int v : sx) init += std::to_string(v); init += "} "; }
  trace = "init: " + init + " ops: ";
  try {
    check_ru_identities(m, w);
    CHECK(matrix_bars_ru(m, w) == reference(w), "initial barcode");
    for (int st = 0; st < steps; ++st) {
      int n = w.order.size();
      int op = rng(20);
      if (op == 0 && M::Option_list::has_removable_columns && n > 3) {
        std::vector<int> mx;
        for (int p = 0; p < n; ++p)
          if (is_maximal(w, p)) mx.push_back(p);
        int p = mx[rng(mx.size())];
        TR("R" + std::to_string(p) + " ");
        if constexpr (M::Option_list::has_removable_columns) {
          if (p == n - 1 && rng(2))
            m.remove_last();
          else
            m.remove_maximal_cell(p);
        }
        w.order.erase(w.order.begin() + p);
      } else if (op == 1) {
        insert_random();
      } else {
        if (n < 2) continue;
        int i = rng(n - 1);
        if (is_face(w.order[i], w.order[i + 1])) continue;
        Bars old = reference(w);
        bool z1 = false;
        if (useZ1 && w.order[i].size() == w.order[i + 1].size()) {
          bool pp = m.is_zero_column(i) && m.is_zero_column(i + 1);
          // stored U is transposed
          if (pp || !m.is_zero_entry(i, i + 1, false)) z1 = rng(2);
        }
        TR((z1 ? "Z" : "S") + std::to_string(i) + " ");
        bool ch = z1 ? m.vine_swap_with_z_eq_1_case(i) : m.vine_swap(i);
        std::swap(w.order[i], w.order[i + 1]);
        Bars now = reference(w);
        Bars got = matrix_bars_ru(m, w);
        CHECK(got == now, "barcode after swap: got " + show(got) + " expected " + show(now));
        if (ch)
          CHECK(now == exchange_pos(old, i), "returned true but bars not kept by cells");
        else
          CHECK(now == old, "returned false but barcode changed in positions");
      }
      check_ru_identities(m, w);
      Bars got = matrix_bars_ru(m, w);
      Bars now = reference(w);
      CHECK(got == now, "barcode: got " + show(got) + " expected " + show(now));
    }
  } catch (Fail& f) {
    std::cout << "FAIL seed=" << seed << " : " << f.msg << "\n  trace: " << trace << std::endl;
    throw;
  }
}

// chain matrices with position indexing
template <class M>
static void check_chain(M& m, const World& w, bool byId = false) {
  int n = w.order.size();
  CHECK((int)m.get_number_of_columns() == n, "number of columns");
  std::map<unsigned int, int> idpos;
  std::map<Simplex, unsigned int> sid;
  for (int i = 0; i < n; ++i) {
    idpos[w.ids[i]] = i;
    sid[w.order[i]] = w.ids[i];
  }
  auto bnd = [&](const std::set<unsigned int>& c) {
    std::set<unsigned int> r;
    for (unsigned int id : c) {
      for (auto& f : faces(w.order[idpos.at(id)])) {
        unsigned int x = sid.at(f);
        auto it = r.find(x);
        if (it == r.end())
          r.insert(x);
        else
          r.erase(it);
      }
    }
    return r;
  };
  std::vector<std::set<unsigned int> > C(n);
  for (int p = 0; p < n; ++p) {
    for (auto& e : m.get_column(byId ? w.ids[p] : p)) {
      CHECK(idpos.count(e.get_row_index()), "row id unknown");
      C[p].insert(e.get_row_index());
    }
    CHECK(!C[p].empty(), "empty chain");
    // column at position p: its latest cell is the cell at position p
    int mx = -1;
    for (unsigned int id : C[p]) mx = std::max(mx, idpos.at(id));
    CHECK(mx == p, "column at position " + std::to_string(p) + " has latest cell at " + std::to_string(mx));
    CHECK(m.get_column_dimension(byId ? w.ids[p] : p) == (int)w.order[p].size() - 1, "dimension");
  }
  // barcode coherent with chains
  Bars bars;
  for (auto& b : m.get_current_barcode())
    bars.emplace(b.dim, (int)b.birth, b.death == (unsigned int)-1 ? -1 : (int)b.death);
  for (auto& t : bars) {
    int b = std::get<1>(t), d = std::get<2>(t);
    CHECK(bnd(C[b]).empty(), "birth column not a cycle");
    if (d != -1) CHECK(bnd(C[d]) == C[b], "boundary of death column is not the birth column");
  }
}

template <class M>
static void run_chain(unsigned seed, int steps, bool useZ1) {
  Rng rng{std::mt19937(seed)};
  int nv = 3 + rng(3);
  auto pool = all_simplices(nv, 2 + rng(2));
  World w;
  M m;
  unsigned int nextId = 0;
  std::string trace;
  auto insert_random = [&]() -> bool {
    std::vector<Simplex> cand;
    for (auto& s : pool)
      if (can_insert(w, s)) cand.push_back(s);
    if (cand.empty()) return false;
    Simplex s = cand[rng(cand.size())];
    std::vector<unsigned int> b;
    for (auto& f : faces(s)) b.push_back(w.ids[std::find(w.order.begin(), w.order.end(), f) - w.order.begin()]);
    std::sort(b.begin(), b.end());
    m.insert_boundary(b, (int)s.size() - 1);
    w.order.push_back(s);
    w.ids.push_back(nextId++);
    TR("I ");
    return true;
  };
  int target = 6 + rng(10);
  for (int i = 0; i < target; ++i) insert_random();
  auto mbars = [&]() {
    Bars bars;
    for (auto& b : m.get_current_barcode())
      bars.emplace(b.dim, (int)b.birth, b.death == (unsigned int)-1 ? -1 : (int)b.death);
    return bars;
  };
  try {
    check_chain(m, w);
    CHECK(mbars() == reference(w), "initial barcode");
    for (int st = 0; st < steps; ++st) {
      int n = w.order.size();
      int op = rng(20);
      if (op == 0 && M::Option_list::has_removable_columns && n > 3) {
        std::vector<int> mx;
        for (int p = 0; p < n; ++p)
          if (is_maximal(w, p)) mx.push_back(p);
        int p = mx[rng(mx.size())];
        TR("R" + std::to_string(p) + " ");
        if constexpr (M::Option_list::has_removable_columns) {
          if (p == n - 1 && rng(2))
            m.remove_last();
          else
            m.remove_maximal_cell(p);
        }
        w.order.erase(w.order.begin() + p);
        w.ids.erase(w.ids.begin() + p);
      } else if (op == 1) {
        if (chainInsertAnyOrder || std::is_sorted(w.ids.begin(), w.ids.end())) insert_random();
      } else {
        if (n < 2) continue;
        int i = rng(n - 1);
        if (is_face(w.order[i], w.order[i + 1])) continue;
        Bars old = reference(w);
        bool z1 = false;
        if (useZ1 && w.order[i].size() == w.order[i + 1].size()) {
          if (!m.is_zero_entry(i + 1, w.ids[i])) z1 = rng(2);
        }
        TR((z1 ? "Z" : "S") + std::to_string(i) + " ");
        bool ch = z1 ? m.vine_swap_with_z_eq_1_case(i) : m.vine_swap(i);
        std::swap(w.order[i], w.order[i + 1]);
        std::swap(w.ids[i], w.ids[i + 1]);
        Bars now = reference(w);
        Bars got = mbars();
        CHECK(got == now, "barcode after swap: got " + show(got) + " expected " + show(now));
        if (ch)
          CHECK(now == exchange_pos(old, i), "returned true but bars not kept by cells");
        else
          CHECK(now == old, "returned false but barcode changed in positions");
      }
      check_chain(m, w);
      Bars got = mbars();
      Bars now = reference(w);
      CHECK(got == now, "barcode: got " + show(got) + " expected " + show(now));
    }
  } catch (Fail& f) {
    std::cout << "FAIL seed=" << seed << " : " << f.msg << "\n  trace: " << trace << std::endl;
    throw;
  }
}

// chain matrices with identifier indexing
template <class M>
static void run_chain_id(unsigned seed, int steps) {
  Rng rng{std::mt19937(seed)};
  int nv = 3 + rng(3);
  auto pool = all_simplices(nv, 2 + rng(2));
  World w;
  M m;
  unsigned int nextId = 0;
  std::string trace;
  auto insert_random = [&]() -> bool {
    std::vector<Simplex> cand;
    for (auto& s : pool)
      if (can_insert(w, s)) cand.push_back(s);
    if (cand.empty()) return false;
    Simplex s = cand[rng(cand.size())];
    std::vector<unsigned int> b;
    for (auto& f : faces(s)) b.push_back(w.ids[std::find(w.order.begin(), w.order.end(), f) - w.order.begin()]);
    std::sort(b.begin(), b.end());
    m.insert_boundary(nextId, b, (int)s.size() - 1);
    w.order.push_back(s);
    w.ids.push_back(nextId++);
    TR("I ");
    return true;
  };
  int target = getenv("HN") ? atoi(getenv("HN")) : 6 + rng(10);
  for (int i = 0; i < target; ++i) insert_random();
  std::string init;
  for (auto& sx : w.order) { init += "{"; for (int v : sx) init += std::to_string(v); init += "} "; }
  trace = "init: " + init + " ops: ";
  auto mbars = [&]() {
    Bars bars;
    for (auto& b : m.get_current_barcode())
      bars.emplace(b.dim, (int)b.birth, b.death == (unsigned int)-1 ? -1 : (int)b.death);
    return bars;
  };
  try {
    check_chain(m, w, true);
    CHECK(mbars() == reference(w), "initial barcode");
    for (int st = 0; st < steps; ++st) {
      int n = w.order.size();
      int op = rng(20);
      if (op == 0 && M::Option_list::has_removable_columns && n > 3) {
        std::vector<int> mx;
        for (int p = 0; p < n; ++p)
          if (is_maximal(w, p)) mx.push_back(p);
        int p = mx[rng(mx.size())];
        TR("R" + std::to_string(p) + " ");
        if constexpr (M::Option_list::has_removable_columns) {
          if (p == n - 1 && rng(2))
            m.remove_last();
          else
            m.remove_maximal_cell(w.ids[p]);
        }
        w.order.erase(w.order.begin() + p);
        w.ids.erase(w.ids.begin() + p);
      } else if (op == 1) {
        if (chainInsertAnyOrder || std::is_sorted(w.ids.begin(), w.ids.end())) insert_random();
      } else {
        if (n < 2) continue;
        int i = rng(n - 1);
        if (is_face(w.order[i], w.order[i + 1])) continue;
        TR("S" + std::to_string(i) + " ");
        m.vine_swap(w.ids[i], w.ids[i + 1]);
        std::swap(w.order[i], w.order[i + 1]);
        std::swap(w.ids[i], w.ids[i + 1]);
      }
      check_chain(m, w, true);
      Bars got = mbars();
      Bars now = reference(w);
      CHECK(got == now, "barcode: got " + show(got) + " expected " + show(now));
    }
  } catch (Fail& f) {
    std::cout << "FAIL seed=" << seed << " : " << f.msg << "\n  trace: " << trace << std::endl;
    throw;
  }
}

template <class F>
int campaign(const char* name, F f, int nseeds) {
  int fails = 0;
  for (int s = (getenv("HS") ? atoi(getenv("HS")) : 1); s <= nseeds; ++s) {
    try {
      if (verbose) std::cerr << "\n[" << name << " seed " << s << "] ";
      f(s);
    } catch (Fail&) {
      ++fails;
      if (fails >= (getenv("HMAXF") ? atoi(getenv("HMAXF")) : 3)) break;
    } catch (std::exception& e) {
      std::cout << "EXC seed=" << s << " " << e.what() << std::endl;
      ++fails;
      if (fails >= 3) break;
    }
  }
  std::cout << name << ": " << (fails ? "FAILS" : "ok") << std::endl;
  return fails;
}

int main(int argc, char** argv) {
  verbose = getenv("HV") != nullptr;
  chainInsertAnyOrder = getenv("HANY") != nullptr;
  int nseeds = argc > 1 ? atoi(argv[1]) : 300;
  int steps = argc > 2 ? atoi(argv[2]) : 150;
  int fails = 0;
  constexpr auto POS = Column_indexation_types::POSITION;
  constexpr auto CONT = Column_indexation_types::CONTAINER;
  using RU1 = Matrix<Opt<true, Column_types::INTRUSIVE_SET, true, true, CONT> >;
  using RU2 = Matrix<Opt<true, Column_types::LIST, false, true, POS> >;
  using RU3 = Matrix<Opt<true, Column_types::VECTOR, true, false, POS> >;
  using RU4 = Matrix<Opt<true, Column_types::SET, false, false, CONT, true> >;
  using RU5 = Matrix<Opt<true, Column_types::NAIVE_VECTOR, true, true, POS, true> >;
  fails += campaign("RU barcode removable iset", [&](int s) { run_ru<RU1>(s, steps, false); }, nseeds);
  fails += campaign("RU nobarcode removable list", [&](int s) { run_ru<RU2>(s, steps, false); }, nseeds);
  fails += campaign("RU barcode fixed vector z1", [&](int s) { run_ru<RU3>(s, steps, true); }, nseeds);
  fails += campaign("RU nobarcode fixed set rows z1", [&](int s) { run_ru<RU4>(s, steps, true); }, nseeds);
  fails += campaign("RU barcode removable naive rows z1", [&](int s) { run_ru<RU5>(s, steps, true); }, nseeds);
  using CH1 = Matrix<Opt<false, Column_types::INTRUSIVE_SET, true, true, POS> >;
  using CH2 = Matrix<Opt<false, Column_types::LIST, true, false, POS> >;
  using CH3 = Matrix<Opt<false, Column_types::SET, true, true, POS, true> >;
  fails += campaign("Chain barcode removable iset", [&](int s) { run_chain<CH1>(s, steps, false); }, nseeds);
  fails += campaign("Chain barcode fixed list z1", [&](int s) { run_chain<CH2>(s, steps, true); }, nseeds);
  fails += campaign("Chain barcode removable set rows z1", [&](int s) { run_chain<CH3>(s, steps, true); }, nseeds);
  constexpr auto IDX = Column_indexation_types::IDENTIFIER;
  using CI1 = Matrix<Opt<false, Column_types::INTRUSIVE_SET, true, true, IDX> >;
  using CI2 = Matrix<Opt<false, Column_types::VECTOR, true, true, IDX, true> >;
  fails += campaign("Chain id barcode removable iset", [&](int s) { run_chain_id<CI1>(s, steps); }, nseeds);
  fails += campaign("Chain id barcode removable vector rows", [&](int s) { run_chain_id<CI2>(s, steps); }, nseeds);
  std::cout << (fails ? "FAIL" : "PASS") << std::endl;
  return fails ? 1 : 0;
}

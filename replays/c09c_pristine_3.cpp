// Pristine defect 3: Vector_column::_add / _multiply_target_and_add, arm "target is physically empty":
//   column_.resize(column.size());  for (const Entry& entry : column) _update_entry(..., i++);
// For a VECTOR source, size() is the *logical* size (physical entries minus lazily erased ones) while the loop visits
// all *physical* entries: after zero_entry on the source, adding it to an empty column writes past the end of the
// target's vector (heap-buffer-overflow under ASan) and copies the erased entry while dropping the last one.
#include <iostream>
#include <vector>

#include <gudhi/Matrix.h>
#include <gudhi/persistence_matrix_options.h>

using namespace Gudhi::persistence_matrix;

using Options = Default_options<Column_types::VECTOR, true>;

int main() {
  Matrix<Options> m(0u);
  m.insert_column(std::vector<unsigned int>{0, 1, 2});  // column 0
  m.insert_column(std::vector<unsigned int>{});         // column 1 (empty)
  m.zero_entry(0, 1);                                   // lazily erased
  // dense: col0 = 1 0 1, col1 = 0 0 0
  m.add_to(0, 1);
  // dense: col0 = 1 0 1, col1 = 1 0 1
  auto c0 = m.get_column(0).get_content(3);
  auto c1 = m.get_column(1).get_content(3);
  std::cout << "column 0: " << (unsigned)c0[0] << " " << (unsigned)c0[1] << " " << (unsigned)c0[2] << " (expected 1 0 1)\n";
  std::cout << "column 1: " << (unsigned)c1[0] << " " << (unsigned)c1[1] << " " << (unsigned)c1[2] << " (expected 1 0 1)\n";
  bool ok = c0 == decltype(c0){1, 0, 1} && c1 == decltype(c1){1, 0, 1} && m.is_zero_entry(1, 1) &&
            !m.is_zero_entry(1, 2);
  std::cout << (ok ? "PASS" : "FAIL") << "\n";
  return ok ? 0 : 1;
}

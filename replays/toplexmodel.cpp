// replay: Toplex_map and Lazy_toplex_map against the abstract complex (all simplices as bit masks)
#include <gudhi/Toplex_map.h>
#include <gudhi/Lazy_toplex_map.h>
#include <iostream>
#include <random>
#include <set>
using Gudhi::Toplex_map; using Gudhi::Lazy_toplex_map; using V = std::vector<std::size_t>;
const int NV=6;
unsigned mask_of(const V& s){ unsigned m=0; for(auto v:s) m|=1u<<v; return m; }
V vec_of(unsigned m){ V q; for(int v=0;v<NV;++v) if(m>>v&1) q.push_back(v); return q; }
int main(int argc,char**argv){
  unsigned seed = argc>1? atoi(argv[1]):1; int which = argc>2? atoi(argv[2]):3; bool contr = argc>3? atoi(argv[3]):1;
  std::mt19937 g(seed); long checks=0;
  for(int rep=0;rep<300;++rep){
    Toplex_map e; Lazy_toplex_map l; std::set<unsigned> model;   // non-empty simplices
    std::vector<std::string> hist;
    for(int step=0;step<60;++step){
      V s; int k=1+g()%3; for(int j=0;j<k;++j) s.push_back(g()%NV); std::sort(s.begin(),s.end()); s.erase(std::unique(s.begin(),s.end()),s.end());
      unsigned m=mask_of(s); int op=g()%10; std::string d;
      if(op<6){ d="insert "; e.insert_simplex(s); l.insert_simplex(s); for(unsigned f=m; f; f=(f-1)&m) model.insert(f); }
      else if(op<9 || !contr){ d="remove "; e.remove_simplex(s); l.remove_simplex(s); for(auto it=model.begin(); it!=model.end();) if((*it&m)==m) it=model.erase(it); else ++it; }
      else { if(s.size()<2 || !model.count((1u<<s[0])|(1u<<s[1]))) continue; d="contract "; s.resize(2);
        std::size_t ke=e.contraction(s[0],s[1]); std::size_t kl=l.contraction(s[0],s[1]);
        // the model follows the eager map's choice of the remaining vertex
        std::size_t keep = (which==2)? kl : ke; std::size_t dead = keep==s[0]? s[1]:s[0]; std::set<unsigned> nm; for(unsigned f:model){ if(f>>dead&1) f=(f&~(1u<<dead))|(1u<<keep); nm.insert(f);} model=nm;
        if(kl!=ke){ // relabel lazy's view: it kept the other vertex; compare up to the swap of the two labels
          d+="(lazy kept "+std::to_string(kl)+") "; }
      }
      for(auto v:s) d+=std::to_string(v)+" "; hist.push_back(d);
      for(unsigned q=1;q<(1u<<NV);++q){ ++checks; bool want=model.count(q); bool a=e.membership(vec_of(q)), b=l.membership(vec_of(q));
        if(((which&1)&&a!=want) || ((which&2)&&b!=want)){ std::cout<<"seed "<<seed<<" rep "<<rep<<" step "<<step<<": {"; for(auto x:vec_of(q)) std::cout<<x<<" "; std::cout<<"} model "<<want<<" eager "<<a<<" lazy "<<b<<"\n history: "; for(auto&h:hist) std::cout<<h<<"; "; std::cout<<"\n"; return 1; } }
    }
  }
  std::cout<<checks<<" membership comparisons ok\nPASS\n"; return 0;
}

// Pristine observation 4: the cohomology Multi_field accepts a range without any prime (and a reversed range): init()
// only prints to std::cerr for min > max, and leaves a "field" of characteristic 1 (every element is 0 = 1).
#include <cassert>
#include <iostream>
#include <gudhi/Persistent_cohomology/Multi_field.h>

int main() {
  int failures = 0;
  for (auto range : {std::pair<int, int>(8, 10), std::pair<int, int>(24, 28), std::pair<int, int>(7, 3)}) {
    Gudhi::persistent_cohomology::Multi_field mf;
    bool refused = false;
    try {
      mf.init(range.first, range.second);
    } catch (const std::exception&) {
      refused = true;
    }
    std::cout << "[" << range.first << "," << range.second << "] " << (refused ? "refused" : "accepted")
              << ", characteristic = " << mf.characteristic() << std::endl;
    if (!refused) ++failures;
  }
  std::cout << (failures == 0 ? "PASS" : "FAIL") << std::endl;
  return failures == 0 ? 0 : 1;
}

// defect_1.cpp  -  Simplex_tree insertion functions read their `filtration` argument (a const reference) AFTER they
// have started to modify the dictionary that may contain the referenced value.
//
//   st.insert_simplex(s, st.filtration(sh))                 (filtration() returns a const reference into a node)
//   st.insert_simplex_and_subfaces(s, st.filtration(sh))
//
// With the default (flat_map) storage the nodes of a Siblings live in a boost::container::vector:
//  - when there is spare capacity, emplace() first shifts the elements and only then constructs the new node from the
//    reference -> the new simplex silently receives the filtration value of ANOTHER simplex (mode 0, deterministic,
//    no sanitizer needed);
//  - when the vector reallocates, the reference dangles -> heap-use-after-free reported by AddressSanitizer
//    (mode 1; without sanitizer the value read is whatever the freed block contains).
// (insert_batch_vertices takes the value by reference too, but with the installed Boost the single range insertion
//  builds the new buffer before it releases the old one, so it happens to read a live value.)
// The documented rule is "a new simplex takes the inserted value".  Options with stable_simplex_handles (map storage)
// are not affected, so the option sets disagree.
//
// build: g++ -std=gnu++17 -O1 -g -fsanitize=address,undefined -I<gudhi includes> defect_1.cpp -o defect_1
// run:   ./defect_1        (mode 0: wrong value, prints FAIL, returns 1)
//        ./defect_1 1      (insert_simplex_and_subfaces: ASan heap-use-after-free)
//        ./defect_1 2      (insert_simplex_and_subfaces of a triangle with the value of one of its edges: ASan
//                           heap-use-after-free)
#include <gudhi/Simplex_tree.h>
#include <iostream>
#include <vector>
#include <cstdlib>

struct Stable_options : Gudhi::Simplex_tree_options_default { static const bool stable_simplex_handles = true; };

template <class ST>
double run(int mode) {
  ST st;
  st.insert_simplex({1}, 5.);
  st.insert_simplex({3}, 7.);
  st.insert_simplex({5}, 9.);
  if (mode == 0) {
    // make sure that the root dictionary has spare capacity (no reallocation at the next insertion)
    st.insert_simplex({7}, 11.);
    st.remove_maximal_simplex(st.find({7}));
  }
  if (mode == 2) {
    // "give the new triangle the value of its edge {1,3}": natural use, the edge node lives in the children of vertex 1,
    // which are reallocated when {1,5} is added.
    st.insert_simplex({1, 3}, 7.);
    const double& g = st.filtration(st.find({1, 3}));
    st.insert_simplex_and_subfaces({1, 3, 5}, g);
    double got = st.filtration(st.find({3, 5}));
    std::cout << "  triangle {1,3,5} inserted with the value of the edge {1,3} (7): the new edge {3,5} has value " << got
              << std::endl;
    return got;
  }
  const double& f = st.filtration(st.find({3}));   // 7, a reference into the node of vertex 3
  double expected = f;
  if (mode == 0) st.insert_simplex({0}, f);
  if (mode == 1) st.insert_simplex_and_subfaces({0, 2, 4, 6, 8}, f);
  double got = st.filtration(st.find({0}));
  std::cout << "  vertex 0 inserted with the filtration value of vertex 3 (" << expected << "): stored value " << got
            << std::endl;
  return got;
}

int main(int argc, char** argv) {
  int mode = argc > 1 ? std::atoi(argv[1]) : 0;
  std::cout << "stable_simplex_handles = true (map):" << std::endl;
  double a = run<Gudhi::Simplex_tree<Stable_options>>(mode);
  std::cout << "default options (flat_map):" << std::endl;
  double b = run<Gudhi::Simplex_tree<>>(mode);
  bool ok = (a == 7.) && (b == 7.);
  std::cout << "expected 7 in both cases -> " << (ok ? "PASS" : "FAIL") << std::endl;
  return ok ? 0 : 1;
}

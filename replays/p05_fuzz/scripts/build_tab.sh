#!/bin/bash
# usage: build_tab.sh table prefix "flags"
cd "$(dirname "$0")/.."
INC="$(ls -d ${GUDHI:-/repo}/src/*/include | sed 's/^/-I/' | tr '\n' ' ')"
seq 0 29 | xargs -P 4 -I{} sh -c "g++ -std=gnu++17 $3 $INC -DTABLE=$1 -DPART={} fuzz_c05_main.cpp -o build/$2{} > build/$2{}.log 2>&1 || echo $2{} FAILED"

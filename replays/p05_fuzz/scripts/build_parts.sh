#!/bin/bash
# usage: build_parts.sh first last [extra flags]
cd "$(dirname "$0")/.."
INC="$(ls -d ${GUDHI:-/repo}/src/*/include | sed 's/^/-I/' | tr '\n' ' ')"
seq $1 $2 | xargs -P 4 -I{} sh -c "g++ -std=gnu++17 -O1 -g1 -fsanitize=address,undefined $INC $3 -DPART={} fuzz_c05_main.cpp -o build/part{} > build/part{}.log 2>&1; echo part{} done rc=\$?"
